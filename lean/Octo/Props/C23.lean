import Octo.Lemmas.FilesQueue
import Octo.Lemmas.FilesSplit
import Octo.Lemmas.FilesStdin
import Octo.Lemmas.FilesCsv
import Octo.Lemmas.FilesJson
/-!
# C23 — File datasources return exactly the file's rows

Property: for every file content, JSON-lines, CSV/TSV, lines and stdin sources return exactly one record per input
row, in file order, carrying the values the row contains — for any number of parser workers and any scheduling,
for data piped on stdin (part of which is read early for the schema preview), and for the lines source, which
splits exactly at the configured separator.

The property decomposes into library parsing (trusted: `fastjson`, `encoding/csv`, `bufio.Scanner`'s buffer
management, parquet-go) and four pieces of OctoSQL's own logic, modelled in `Octo.Model.FileQueue`, `LineSplit`,
`StdinPreview`, `JsonFile`/`CsvFile` and tied to the Go code by the C23 correspondence run.  All theorems are
unbounded: any number of lines, any batch size, any permutation of the batches (the schedule), any position of
the reader's `done` signal, any content, any non-empty separator, any window-growth schedule, any chunking of stdin
and any number of preview opens, any (nested) type and JSON value.
-/
namespace Octo.C23
open Octo Octo.Files

/-! ## 1. the line-number reorder queue over the parser worker pool -/

/-- **Reorder queue.**  `recs` are the records of the file's lines, cut by the reader into jobs of `b ≥ 1` lines.
    For every order `bs` in which the parsed jobs reach the consumer (any permutation: the number of workers and
    the scheduler only decide which permutations occur) and every position `pos` at which the consumer sees the
    reader's `done`: the loop does not panic, does not hang, stops exactly when the last event has been consumed
    (`unconsumed = []`), and has produced every record exactly once, in line order. -/
theorem reorder_correct {α : Type} (recs : List α) (b : Nat) (hb : 0 < b)
    (bs : List (List (Nat × Option α))) (hperm : bs.Perm (parsedBatches b recs)) (pos : Nat) :
    consume recs.length QState.init false (schedule bs pos) = .stopped recs [] :=
  consume_ok recs _ _ _ false (Inv.init recs) (schedule_evok recs bs pos _ (fresh_of_perm b hb recs bs hperm))
    (by simp)

/-- the reader's jobs really are the file's lines, numbered from 0, in order, none of them empty -/
theorem reader_batches {α : Type} (lines : List α) (b : Nat) (hb : 0 < b) :
    (mkBatches b lines).flatten = number 0 lines ∧ ∀ job ∈ mkBatches b lines, job ≠ [] :=
  ⟨mkBatchesFrom_flatten b hb _ _ _ (Nat.le_refl _), mkBatchesFrom_nonempty b hb _ _ _⟩

/-- a line that fails to parse is never skipped silently: whatever the schedule, the loop does not return
    successfully with all events consumed unless every item parsed -/
theorem reorder_parse_error {α : Type} (n : Nat) (st : QState α) (rd : Bool) (items : List (Nat × Option α))
    (evs : List (Event α)) (l : Nat) (h : placeAll st items = .parseError l) :
    consume n st rd (.batch items :: evs) = .parseError l := by
  simp [consume, h]

example : consume 3 QState.init false (schedule [[(2, some 12)], [(0, some 10), (1, some 11)]] 1)
    = .stopped [10, 11, 12] [] := by decide
example : parsedBatches 2 [10, 11, 12] = [[(0, some 10), (1, some 11)], [(2, some 12)]] := by decide
/-- the hypotheses of `reorder_correct` are met by a genuinely reordered schedule -/
example : [[(2, some 12)], [(0, some 10), (1, some 11)]].Perm (parsedBatches 2 [10, 11, 12]) := by
  rw [show parsedBatches 2 [10, 11, 12] = [[(0, some 10), (1, some 11)], [(2, some 12)]] by decide]
  exact List.Perm.swap _ _ _

/-! ## 2. the lines datasource's split function under the Scanner contract -/

/-- **Lines splitter (custom separator).**  For every content, every non-empty separator and every window-growth
    schedule, the records are the pieces between the (leftmost, non-overlapping) occurrences of the separator,
    without a final empty piece — provided every piece together with its separator fits the scanner's buffer of
    `maxTok` bytes (`fitsTok`; otherwise the scan ends with `ErrTooLong`, which the datasource returns as an error). -/
theorem lines_split (sep content : Bytes) (sched : List Nat) (maxTok : Nat) (hsep : sep ≠ [])
    (hfit : fitsTok maxTok sep content = true) :
    scanAll (splitFixed sep) maxTok content sched = .tokens (specLines sep content) := by
  unfold scanAll
  rw [scanLoop_fixed sep hsep maxTok _ [] content false sched [] (by simp) (by simp [scanMeasure, scanFuel]) (by simpa using hfit)]
  simp

/-- **Lines splitter (default separator).**  `bufio.ScanLines`: split at "\n", drop one trailing "\r" per line. -/
theorem lines_default (content : Bytes) (sched : List Nat) (maxTok : Nat) (hfit : fitsTok maxTok [10] content = true) :
    scanAll scanLines maxTok content sched = .tokens ((specLines [10] content).map dropCR) := by
  unfold scanAll
  have h := scanLoop_mapToken dropCR scanLines (splitFixed [10]) maxTok scanLines_eq (scanFuel content) [] content false sched []
  simp only [List.map_nil] at h
  rw [h, scanLoop_fixed [10] (by simp) maxTok _ [] content false sched [] (by simp) (by simp [scanMeasure, scanFuel]) (by simpa using hfit)]
  simp [ScanResult.mapTokens]

def XY : Bytes := [88, 89]
def aXYbXYc : Bytes := [97, 88, 89, 98, 88, 89, 99]
example : scanAll (splitFixed XY) 16 aXYbXYc [0, 1, 0] = .tokens [[97], [98], [99]] ∧ fitsTok 16 XY aXYbXYc = true := by decide
/-- a piece that does not fit the buffer is an error, not a truncated record -/
example : scanAll (splitFixed XY) 3 aXYbXYc [0, 1, 0] = .tokens [[97], [98], [99]] ∧ fitsTok 3 XY aXYbXYc = true ∧
    scanAll (splitFixed XY) 2 aXYbXYc [5] = .tooLong [] ∧ fitsTok 2 XY aXYbXYc = false := by decide
example : specLines XY aXYbXYc = [[97], [98], [99]] := by decide
/-- a separator that overlaps itself: `aaa` split at `aa` is "", "a" -/
example : specLines [97, 97] [97, 97, 97] = [[], [97]] := by decide
example : scanAll (splitFixed [97, 97]) 16 [97, 97, 97] [] = .tokens [[], [97]] := by decide

/-- the code before the repair advanced by one byte instead of `len(sep)`: `aXYbXYc` gave `a`, `Yb`, `Yc` -/
theorem lines_raw_refuted :
    scanAll (splitRaw XY) 16 aXYbXYc [] = .tokens [[97], [89, 98], [89, 99]] ∧
    scanAll (splitRaw XY) 16 aXYbXYc [] ≠ .tokens (specLines XY aXYbXYc) := by decide

/-! ## 3. stdin: the preview buffer replayed before the rest of stdin -/

/-- **stdin replay.**  Whatever was read from stdin while previewing — any number of preview opens, any read
    sizes, any sizes the OS returned — the executing datasource receives exactly the original input. -/
theorem stdin_replay (content : BytesS) (sessions : List (List (Nat × Nat))) :
    realOpen (previewSessions ⟨[], content⟩ sessions) = content := by
  unfold realOpen
  rw [previewSessions_inv]; rfl

/-- every preview reader (the schema inference) sees a prefix of the original input -/
theorem stdin_preview_prefix (content : BytesS) (sessions : List (List (Nat × Nat))) (reads : List (Nat × Nat)) :
    (previewSession (previewSessions ⟨[], content⟩ sessions) reads).1 <+: content := by
  have hst := previewSessions_inv sessions ⟨[], content⟩
  simp only [List.nil_append] at hst
  generalize previewSessions ⟨[], content⟩ sessions = st at hst
  obtain ⟨c', hc'⟩ := previewReads_prefix reads st.previewed st [] (by simp)
  have hinv := previewReads_inv reads st.previewed st
  unfold previewSession
  refine ⟨c' ++ (previewReads st.previewed st reads).2.unread, ?_⟩
  rw [← List.append_assoc]
  simp only [List.nil_append] at hc'
  rw [hc', hinv, hst]

example : (previewSession ⟨[], [1, 2, 3, 4, 5]⟩ [(2, 5), (2, 0)]).1 = [1, 2, 3] ∧
    (previewSession (previewSession ⟨[], [1, 2, 3, 4, 5]⟩ [(2, 5), (2, 0)]).2 [(1, 0), (9, 0), (9, 1)]).1 = [1, 2, 3, 4, 5] := by decide

/-! ## 4. row → record -/

/-- **JSON.**  A record the worker produces carries, field by field, exactly what the line contains (read back
    through the schema's types; a missing field reads as NULL). -/
theorem json_record_faithful (schema : Fields) (row : J) (vals : List Value) (h : rowValues schema row = some vals) :
    zipAll (fun (f : Name × Ty) v => represents f.2 v (row.get f.1)) schema vals = true := by
  unfold rowValues at h
  cases row with
  | obj ks vs =>
    simp only at h
    split at h
    · next hall =>
      cases h
      induction schema with
      | nil => simp [zipAll]
      | cons f fs ih =>
        simp only [List.map_cons, List.all_cons, Bool.and_eq_true] at hall
        simp only [List.map_cons, zipAll, Bool.and_eq_true]
        exact ⟨getValue_represents f.2 _ hall.1, ih hall.2⟩
    · cases h
  | _ => simp at h

/-- a JSON line is turned into a record exactly when every field is representable in its column type — no
    spurious errors, no silent acceptance -/
theorem json_record_iff_fits (schema : Fields) (ks : List Name) (vs : List J) :
    (rowValues schema (.obj ks vs)).isSome = schema.all (fun f => fits f.2 ((J.obj ks vs).get f.1)) := by
  unfold rowValues
  simp only [List.all_map, Function.comp_def, getValue_ok_iff_fits]
  split <;> simp_all

/-- **JSON, whole file.**  A successful run returns exactly one record per line, the `i`-th record being the
    conversion of the `i`-th line and carrying the line's values; and the consumer loop, fed with the parser workers'
    results for the reader's jobs in ANY order (any permutation, any position of reader-done), returns exactly these
    records in line order. -/
theorem json_run_rows (rows : List J) (schema : Fields) (recs : List (List Value)) (h : jsonRun rows = .ok schema recs) :
    recs.length = rows.length ∧
    (∀ (i : Nat) (rec : List Value), recs[i]? = some rec → ∃ row, rows[i]? = some row ∧ rowValues schema row = some rec ∧
      zipAll (fun (f : Name × Ty) v => represents f.2 v (row.get f.1)) schema rec = true) ∧
    (∀ (b : Nat), 0 < b → ∀ bs : List (List (Nat × Option (List Value))),
      bs.Perm ((mkBatches b rows).map (parseBatch (rowValues schema))) → ∀ pos,
      consume rows.length QState.init false (schedule bs pos) = .stopped recs []) := by
  unfold jsonRun at h
  split at h
  · cases h
  · cases h
  · next schema' hc =>
    split at h
    · next recs' hr =>
      cases h
      obtain ⟨hl, hi⟩ := allSome_spec _ _ hr
      have hmap := allSome_eq_map _ _ hr
      have hlen : recs.length = rows.length := by simpa using hl
      refine ⟨hlen, ?_, fun b hb bs hp pos => ?_⟩
      rotate_left
      · rw [parseBatch_batches (rowValues schema) b rows recs hmap] at hp
        rw [← hlen]
        exact reorder_correct recs b hb bs hp pos
      intro i rec hrec
      have := hi i rec hrec
      rw [List.getElem?_map] at this
      cases hrow : rows[i]? with
      | none => simp [hrow] at this
      | some row =>
        simp only [hrow, Option.map_some, Option.some.injEq] at this
        exact ⟨row, rfl, this, json_record_faithful schema row rec this⟩
    · cases h

/-- **CSV.**  The value produced for a cell is what the cell's text denotes (NULL exactly for the empty cell). -/
theorem csv_cell_faithful (t : Ty) (c : Cell) (v : Value) (h : cellExec t c = some v) : cellRepresents v c = true :=
  cellExec_represents t c v h

/-- **CSV, whole file.**  A successful run returns exactly one record per row of the file, in file order, the
    `i`-th record holding, cell by cell, what the `i`-th row's texts denote. -/
theorem csv_run_rows (f : CsvFile) (names : List Name) (tys : List Ty) (recs : List (List Value))
    (h : csvRun f = .ok names tys recs) :
    recs.length = f.rows.length ∧
    ∀ (i : Nat) (rec : List Value), recs[i]? = some rec → ∃ row, f.rows[i]? = some row ∧
      ∀ (k : Nat) (v : Value) (c : Cell), rec[k]? = some v → row[k]? = some c → cellRepresents v c = true := by
  unfold csvRun at h
  split at h
  · cases h
  · cases h
  · split at h
    · cases h
    · split at h
      · next recs' hr =>
        cases h
        obtain ⟨hl, hi⟩ := rowsExec_spec _ _ _ hr
        refine ⟨hl, fun i rec hrec => ?_⟩
        obtain ⟨row, hrow, hex⟩ := hi i rec hrec
        exact ⟨row, hrow, (rowExec_spec _ _ _ hex).2⟩
      · cases h

/-- the code before the repair: a struct with an explicit null inside a union column became NULL as a whole -/
def rawSchema : Fields := [([99], .union [.str, .struct [[97], [98]] [.null, .float]])]
def rawRow : J := .obj [[99]] [.obj [[97], [98]] [.null, .num 0x3FF0000000000000]]
theorem json_raw_refuted :
    (rowValuesRaw rawSchema rawRow).map (fun vals =>
      zipAll (fun (f : Name × Ty) v => represents f.2 v (rawRow.get f.1)) rawSchema vals) = some false := by decide
/-- … and the repaired code keeps the struct -/
example : (rowValues rawSchema rawRow).map (fun vals =>
      zipAll (fun (f : Name × Ty) v => represents f.2 v (rawRow.get f.1)) rawSchema vals) = some true := by decide

/-! ## The property -/

/-- the full-strength statement for a split function and a row converter -/
def Statement (split : Bytes → Bytes → Bool → SplitRes) (rowv : Fields → J → Option (List Value)) : Prop :=
  -- one record per line, in order, under every schedule of the worker pool
  (∀ (α : Type) (recs : List α) (b : Nat), 0 < b → ∀ bs : List (List (Nat × Option α)),
      bs.Perm (parsedBatches b recs) → ∀ pos, consume recs.length QState.init false (schedule bs pos) = .stopped recs []) ∧
  -- the lines source splits exactly at the separator
  (∀ sep content sched maxTok, sep ≠ [] → fitsTok maxTok sep content = true →
      scanAll (split sep) maxTok content sched = .tokens (specLines sep content)) ∧
  (∀ content sched maxTok, fitsTok maxTok [10] content = true →
      scanAll scanLines maxTok content sched = .tokens ((specLines [10] content).map dropCR)) ∧
  -- stdin is delivered unchanged after any preview
  (∀ content sessions, realOpen (previewSessions ⟨[], content⟩ sessions) = content) ∧
  -- records carry the values of their rows
  (∀ schema row vals, rowv schema row = some vals →
      zipAll (fun (f : Name × Ty) v => represents f.2 v (row.get f.1)) schema vals = true) ∧
  (∀ t c v, cellExec t c = some v → cellRepresents v c = true)

/-- **C23 on the current tree** (for the modelled pieces; parquet and the libraries are outside, see notes) -/
theorem C23_full : Statement splitFixed rowValues :=
  ⟨fun _ recs b hb bs hp pos => reorder_correct recs b hb bs hp pos,
   fun sep content sched maxTok hsep hfit => lines_split sep content sched maxTok hsep hfit,
   fun content sched maxTok hfit => lines_default content sched maxTok hfit, stdin_replay, json_record_faithful, csv_cell_faithful⟩

/-- the tree before the repairs violated it (lines separator; JSON null inside a union) -/
theorem C23_shipped_refuted : ¬ Statement splitRaw rowValuesRaw := by
  intro ⟨_, h2, _⟩
  exact lines_raw_refuted.2 (h2 XY aXYbXYc [] 16 (by decide) (by decide))

end Octo.C23
