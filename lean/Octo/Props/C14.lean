import Octo.Lemmas.AggArray
import Octo.Lemmas.AggDistinct
import Octo.Lemmas.AggFloat
import Octo.Lemmas.AggOracle
import Octo.Lemmas.AggEmpty
import Octo.Lemmas.AggFlag
/-!
# C14 — Aggregates are invariant under retraction histories

Property: for every aggregate (count, sum, avg, min, max, array_agg and the DISTINCT variants) and
every interleaving of additions and retractions whose net multiset `M` is non-empty, the value
reported equals the aggregate of `M` computed from scratch. Float sums are compared within
rounding error.

`mkAgg k d` is the model of the entry of `aggregates.Aggregates` (`aggregates/*.go`): state, `Add`,
`Trigger`, with the `Distinct` wrapper when `d` (tied to the code by the C14 correspondence run on
every check). `specFull k d M` is the aggregate computed from scratch on a list `M`.
All theorems quantify over histories of **any** length and values of any nesting depth; `M` is
**any** list representing the net multiset (`IsNet`), equality of values is `cmp = 0`.

Float `sum`/`avg` are stated in exact arithmetic (the sum is an exact integer number of units of
2^-1074, rounded once when reported): IEEE-754 rounding of the intermediate sums is outside the
model. The special values are inside it, and there the property is *false* for the code:
`C14_refuted` (+Inf added and retracted leaves NaN); `C14_partial` is the statement for histories
whose float inputs are finite; for all other aggregates it is unconditional (`C14_full_nonfloat`).
-/
namespace Octo.C14
open Octo Octo.Agg

/-- the inputs a history may contain: any value, except that the float sums need finite floats -/
def Admissible (k : Kind) : Value → Prop :=
  match k with
  | .sumFloat => FiniteF
  | .avgFloat => FiniteF
  | _ => fun _ => True

/-- every base aggregate with its invariant -/
def baseProof : (k : Kind) → AggProof (baseAgg k) (Admissible k) (specOf k)
  | .count => countProof
  | .sumInt => sumIntProof
  | .sumFloat => sumFloatProof
  | .sumDur => sumDurProof
  | .avgInt => avgIntProof
  | .avgFloat => avgFloatProof
  | .avgDur => avgDurProof
  | .min => minProof
  | .max => maxProof
  | .array => arrayProof

/-- … and behind the `Distinct` wrapper -/
def fullProof (k : Kind) : (d : Bool) → AggProof (mkAgg k d) (Admissible k) (specFull k d)
  | false => baseProof k
  | true => distinctProof (baseProof k)

/-- **the reported value**: after any valid history (inputs admissible), `Trigger` does not panic and
    returns a value equal to the aggregate, computed from scratch, of any list representing the
    non-empty net multiset -/
theorem aggregate_correct (k : Kind) (d : Bool) (h : Hist) (hv : ValidHist h)
    (hP : ∀ e ∈ h, Admissible k e.2) (M : List Value) (hM : IsNet M h) (hne : M ≠ []) :
    ∃ r, (mkAgg k d).trigger ((mkAgg k d).run h).1 = .val r ∧ cmp r (specFull k d M) = 0 :=
  ((fullProof k d).main h hv hP M hM).2 hne

/-- **the returned flag**: the last `Add` of a valid history returned `true` iff the net multiset is empty -/
theorem add_reports_emptiness (k : Kind) (d : Bool) (h : Hist) (hv : ValidHist h)
    (hP : ∀ e ∈ h, Admissible k e.2) (M : List Value) (hM : IsNet M h) :
    ((mkAgg k d).run h).2 = M.isEmpty :=
  ((fullProof k d).main h hv hP M hM).1

/-- … after every step, not only the last one -/
theorem add_reports_emptiness_every_step (k : Kind) (d : Bool) (h : Hist) (hv : ValidHist h)
    (hP : ∀ e ∈ h, Admissible k e.2) (n : Nat) :
    ((mkAgg k d).run (h.take n)).2 = (bagRun [] (h.take n)).isEmpty :=
  add_reports_emptiness k d (h.take n) (validHist_take hv n)
    (fun e he => hP e (List.mem_of_mem_take he)) _ (bagRun_isNet (validHist_take hv n))

/-- the flag needs no assumption on the inputs (element counts / the wrapper's map only) -/
def flagProof : (k : Kind) → (d : Bool) → FlagProof (mkAgg k d)
  | k, true => distinctFlag (baseAgg k)
  | .count, false => countProof.toFlag
  | .sumInt, false => sumIntProof.toFlag
  | .sumFloat, false => sumFloatFlag
  | .sumDur, false => sumDurProof.toFlag
  | .avgInt, false => avgIntProof.toFlag
  | .avgFloat, false => avgFloatFlag
  | .avgDur, false => avgDurProof.toFlag
  | .min, false => minProof.toFlag
  | .max, false => maxProof.toFlag
  | .array, false => arrayProof.toFlag

/-- **the returned flag, unconditionally**: for every aggregate (float sums fed with ±Inf/NaN included) and
    every valid history, the last `Add` returned `true` iff the net multiset is empty -/
theorem add_reports_emptiness_all_inputs (k : Kind) (d : Bool) (h : Hist) (hv : ValidHist h)
    (M : List Value) (hM : IsNet M h) : ((mkAgg k d).run h).2 = M.isEmpty :=
  (flagProof k d).main h hv M hM

/-- every valid history has a net multiset (the hypotheses `IsNet M h` are satisfiable) -/
theorem net_multiset_exists (h : Hist) (hv : ValidHist h) : ∃ M, IsNet M h :=
  ⟨bagRun [] h, bagRun_isNet hv⟩

/-- the from-scratch aggregate does not depend on how the multiset is written down -/
theorem spec_representation_independent (k : Kind) (d : Bool) (L M : List Value)
    (hL : ∀ x ∈ L, Admissible k x) (hM : ∀ x ∈ M, Admissible k x) (h : ∀ v, cnt L v = cnt M v) :
    cmp (specFull k d L) (specFull k d M) = 0 :=
  (fullProof k d).congr hL hM h

/-- the oracle of the check (`bagsOf`, used by `Octo.Drv.C14.judge`) accepts exactly the valid
    histories … -/
theorem oracle_accepts_iff_valid (h : Hist) : (bagsOf [] h).isSome = true ↔ ValidHist h :=
  (bagsOf_isSome_iff h []).trans (validFrom_nil_iff h)

/-- … and the multiset it aggregates after step `i+1` represents the net multiset of that prefix -/
theorem oracle_multiset_is_net (h : Hist) (bags : List (List Value)) (hb : bagsOf [] h = some bags)
    (i : Nat) (hi : i < h.length) : ∃ M, bags[i]? = some M ∧ IsNet M (h.take (i + 1)) := by
  have hv : ValidHist h := (oracle_accepts_iff_valid h).mp (by rw [hb]; rfl)
  exact ⟨_, bagsOf_get h [] bags hb i hi, bagRun_isNet (validHist_take hv _)⟩

/-- why the property needs `M ≠ ∅`: after a valid history with an *empty* net multiset, `Trigger` of
    min, max and avg over Int/Duration panics (nil interface conversion / integer division by zero),
    also behind the `Distinct` wrapper — the group-by nodes must not call it then -/
theorem trigger_panics_on_empty (k : Kind) (hk : k = .min ∨ k = .max ∨ k = .avgInt ∨ k = .avgDur) (d : Bool)
    (h : Hist) (hv : ValidHist h) (hM : IsNet [] h) :
    (mkAgg k d).trigger ((mkAgg k d).run h).1 = .panic := by
  rcases hk with rfl | rfl | rfl | rfl <;> cases d
  · exact AggProof.empty_panics (fullProof .min false) minProof_panics h hv (fun _ _ => trivial) hM
  · exact AggProof.empty_panics (fullProof .min true) (distinct_panics _ minProof_panics) h hv (fun _ _ => trivial) hM
  · exact AggProof.empty_panics (fullProof .max false) maxProof_panics h hv (fun _ _ => trivial) hM
  · exact AggProof.empty_panics (fullProof .max true) (distinct_panics _ maxProof_panics) h hv (fun _ _ => trivial) hM
  · exact AggProof.empty_panics (fullProof .avgInt false) avgIntProof_panics h hv (fun _ _ => trivial) hM
  · exact AggProof.empty_panics (fullProof .avgInt true) (distinct_panics _ avgIntProof_panics) h hv (fun _ _ => trivial) hM
  · exact AggProof.empty_panics (fullProof .avgDur false) avgDurProof_panics h hv (fun _ _ => trivial) hM
  · exact AggProof.empty_panics (fullProof .avgDur true) (distinct_panics _ avgDurProof_panics) h hv (fun _ _ => trivial) hM

/-! ## The full-strength statement -/

/-- C14 as stated, for a table of aggregates `agg` -/
def Statement (agg : Kind → Bool → Agg) : Prop :=
  ∀ (k : Kind) (d : Bool) (h : Hist), ValidHist h → ∀ M, IsNet M h → M ≠ [] →
    ∃ r, (agg k d).trigger ((agg k d).run h).1 = .val r ∧ cmp r (specFull k d M) = 0

/-- C14 restricted to histories whose inputs are admissible (finite floats for the float sums) -/
def StatementAdmissible (agg : Kind → Bool → Agg) : Prop :=
  ∀ (k : Kind) (d : Bool) (h : Hist), ValidHist h → (∀ e ∈ h, Admissible k e.2) → ∀ M, IsNet M h → M ≠ [] →
    ∃ r, (agg k d).trigger ((agg k d).run h).1 = .val r ∧ cmp r (specFull k d M) = 0

/-- **C14 for the code as it is**, in exact arithmetic, for histories with finite float inputs -/
theorem C14_partial : StatementAdmissible mkAgg :=
  fun k d h hv hP M hM hne => aggregate_correct k d h hv hP M hM hne

/-- for every aggregate other than the float sums/averages the statement holds without restriction -/
theorem C14_full_nonfloat (k : Kind) (hk1 : k ≠ .sumFloat) (hk2 : k ≠ .avgFloat) (d : Bool) (h : Hist)
    (hv : ValidHist h) (M : List Value) (hM : IsNet M h) (hne : M ≠ []) :
    ∃ r, (mkAgg k d).trigger ((mkAgg k d).run h).1 = .val r ∧ cmp r (specFull k d M) = 0 := by
  apply aggregate_correct k d h hv _ M hM hne
  intro e _
  cases k <;> first | trivial | contradiction

/-! ### the refutation: a float sum is poisoned by an infinity that was retracted again -/
def pInf : Value := .float 0x7FF0000000000000
def one : Value := .float 0x3FF0000000000000
/-- `+Inf` added, `+Inf` retracted, `1.0` added: the net multiset is `{1.0}` -/
def poisonHist : Hist := [(false, pInf), (true, pInf), (false, one)]

theorem poisonHist_valid : ValidHist poisonHist :=
  (oracle_accepts_iff_valid poisonHist).mp (by decide)

theorem poisonHist_net : IsNet [one] poisonHist := by
  have h := bagRun_isNet poisonHist_valid
  have e : bagRun [] poisonHist = [one] := by rfl
  rwa [e] at h

/-- the model of `SumFloat` reports NaN on it … -/
theorem poison_reports_nan :
    (mkAgg .sumFloat false).trigger ((mkAgg .sumFloat false).run poisonHist).1 = .val (.float F64.outNaN) := by
  rfl

/-- … where the sum of the net multiset `{1.0}` is a finite float (no evaluation of the rounding needed) -/
theorem poison_spec_finite : ∃ k, specFull .sumFloat false [one] = .float (F64.ofScaled k) := by
  have hfin : ∀ x ∈ [one], FiniteF x := by
    intro x hx; simp only [List.mem_singleton] at hx; subst hx
    show F64.isFinite (floatField one) = true
    decide
  exact ⟨sumZ finScaled [one], by
    show Value.float (specFSum [one]).toBits = _
    rw [specFSum_finite hfin]; rfl⟩

theorem C14_refuted : ¬ Statement mkAgg := by
  intro H
  obtain ⟨r, hr, hc⟩ := H .sumFloat false poisonHist poisonHist_valid [one] poisonHist_net (by simp)
  rw [poison_reports_nan] at hr
  cases hr
  obtain ⟨k, hk⟩ := poison_spec_finite
  rw [hk] at hc
  have h1 : F64.isNaN F64.outNaN = true := by decide
  have h2 := ofScaled_not_nan k
  simp only [cmp, cmpWith, cmpFloatFixed, h1, h2] at hc
  omega

/-! ### the flag before the repair (`return c.sum == 0`) -/
/-- `SumInt.Add(false, 0)` on a fresh aggregate claimed "empty" although the multiset is `{0}` -/
theorem raw_sum_flag_refuted :
    ∃ h M, ValidHist h ∧ IsNet M h ∧ (sumIntAggRaw.run h).2 ≠ M.isEmpty := by
  refine ⟨[(false, .int 0)], [.int 0], (oracle_accepts_iff_valid _).mp (by decide), ?_, by decide⟩
  have h := bagRun_isNet (h := [(false, Value.int 0)]) ((oracle_accepts_iff_valid _).mp (by decide))
  exact h

/-! ## Non-vacuity -/
def i1 : Value := .int 1
def i2 : Value := .int 2
def pz : Value := .float 0
def nz : Value := .float F64.negZero
/-- a history with retractions, one of them through an *equal but different* value (−0 retracts +0) -/
def sample : Hist := [(false, pz), (false, i2), (true, nz), (false, i1), (false, i2), (true, i1)]

example : ValidHist sample := (oracle_accepts_iff_valid sample).mp (by decide)
example : bagRun [] sample = [i2, i2] := by rfl
/-- the hypotheses of `aggregate_correct` are met by a non-trivial history, for every aggregate that
    takes these values -/
example : ValidHist sample ∧ IsNet [i2, i2] sample ∧ ([i2, i2] : List Value) ≠ [] ∧ ∀ e ∈ sample, Admissible .array e.2 :=
  ⟨(oracle_accepts_iff_valid sample).mp (by decide),
   (by have h := bagRun_isNet ((oracle_accepts_iff_valid sample).mp (by decide)); exact h),
   by simp, fun _ _ => trivial⟩
/-- what the model reports on it -/
example : (mkAgg .array false).trigger ((mkAgg .array false).run sample).1 = .val (.list [i2, i2]) := by rfl
example : (mkAgg .array true).trigger ((mkAgg .array true).run sample).1 = .val (.list [i2]) := by rfl
example : (mkAgg .count true).trigger ((mkAgg .count true).run sample).1 = .val (.int 1) := by rfl
example : (mkAgg .avgInt false).trigger ((mkAgg .avgInt false).run [(false, .int (-1)), (false, .int 0)]).1 = .val (.int 0) := by rfl
/-- finite float inputs are admissible; the wrap-around sum -/
example : Admissible .sumFloat one ∧ ¬ Admissible .sumFloat pInf := by
  constructor <;> simp [Admissible, FiniteF, one, pInf, floatField, F64.isFinite, F64.mag, F64.signBit, F64.expMask]
example : (mkAgg .sumInt false).trigger ((mkAgg .sumInt false).run [(false, .int 9223372036854775807), (false, .int 1)]).1
    = .val (.int (-9223372036854775808)) := by rfl
/-- the hypotheses of `trigger_panics_on_empty` are met: add then retract leaves the empty multiset -/
example : ValidHist [(false, i1), (true, i1)] ∧ IsNet [] [(false, i1), (true, i1)] :=
  ⟨(oracle_accepts_iff_valid _).mp (by decide),
   (by have h := bagRun_isNet (h := [(false, i1), (true, i1)]) ((oracle_accepts_iff_valid _).mp (by decide)); exact h)⟩
/-- an invalid history is rejected -/
example : ¬ ValidHist [(false, i1), (true, i2)] := by
  rw [← oracle_accepts_iff_valid]; decide

end Octo.C14
