import Octo.Spec.Aggregates
namespace Octo.C14
open Octo Octo.Agg

theorem placeholder : True := trivial

end Octo.C14
