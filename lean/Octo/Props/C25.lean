import Octo.Spec.OutputSpec
namespace Octo.C25
theorem placeholder : True := trivial
end Octo.C25
