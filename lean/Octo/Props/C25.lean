import Octo.Lemmas.CsvOutput
import Octo.Lemmas.JsonFraming
/-!
# C25 — CSV and JSON output faithfully encode results

Property: for every query result, each `-o json` line is valid JSON that decodes to the row's values (ints and
floats exact, strings byte for byte, NULL ↦ null, lists / objects / tuples keep their structure); each `-o csv`
record decodes to the row's scalar values, NULL as an empty field.

* `Octo.OutFmt.*` (lean/Octo/Model/OutputFormat.lean) is the model of `outputs/formats/json_format.go`,
  `csv_format.go` and Go's `csv.Writer.Write`, tied to the code by the C25 correspondence run (byte-exact).
* `Octo.Spec.Json.decode` / `Octo.Spec.Csv.decode` are independent RFC 8259 / RFC 4180 readers;
  `Octo.Spec.matchesV` / `csvCellOk` say when a decoded document *is* a value.
* The number, time and duration *texts* come from Go's library (`strconv`, `time`); they are the parameter `L : Lib`.
  What is assumed of them is `LibOK L` (finite floats are printed in the JSON number grammar and read back
  exactly; the `'f'` format likewise, non-finite floats print as `NaN` / `+Inf` / `-Inf` in CSV).  Every run
  samples these assumptions on the real library (the judge re-reads each number with the exact
  decimal→binary64 conversion `Num.litToF64`).

All theorems quantify over all byte strings, all values of any nesting depth, all types, all rows.
-/
namespace Octo.C25
open Octo Octo.OutFmt Octo.Spec

/-- what is assumed of Go's `strconv` (trusted, sampled on every run) -/
structure LibOK (L : Lib) : Prop where
  floatSyntax : FloatSyntax L
  textExact : TextExact L
  csvFloat : CsvFloatOK L

/-! ## JSON -/

/-- strings are preserved byte for byte: the RFC 8259 string reader, run on what `appendJSONString` wrote
    for **any** byte string (control characters, quotes, invalid UTF-8, …), returns exactly those bytes -/
theorem json_string_roundtrip (s rest : List Nat) : Json.pStr (escBody s ++ 34 :: rest) = some (s, rest) :=
  pStr_escBody s rest

/-- … and as a complete JSON text -/
theorem json_string_decode (s : List Nat) : Json.decode (jsonString s) = some (.str s) := by
  unfold Json.decode
  have : Json.pValue (2 * (jsonString s).length + 2) (jsonString s) = some (.str s, []) := by
    have h := pValue_str (2 * (jsonString s).length + 1) (escBody s ++ [34])
    rw [pStr_escBody s []] at h
    exact h
  rw [this]; rfl

/-- ints are exact: `strconv.AppendInt` writes a literal of the JSON number grammar whose value is the int -/
theorem json_int_exact (i : Int) :
    Json.validNumber (fmtInt i) = true ∧ Num.denotesInt (fmtInt i) i = true ∧ Num.intLit (fmtInt i) = some i :=
  ⟨validNumber_fmtInt i, denotesInt_fmtInt i, intLit_fmtInt i⟩

/-- **json_roundtrip**: for every value that fits its type, `ValueToJson` does not panic and its output is a
    JSON text that the reader decodes to the document `erase L τ v` … -/
theorem json_roundtrip (L : Lib) (hL : FloatSyntax L) (τ : Ty) (v : Value) (h : fits τ v = true) :
    ∃ bs, encJson L τ v = some bs ∧ Json.decode bs = some (erase L τ v) := by
  obtain ⟨bs, hb, hd⟩ := encJson_dec L hL v τ h
  have hlen := encJson_len L hL v τ bs h hb
  refine ⟨bs, hb, ?_⟩
  have := hd (2 * bs.length + 2) [] (by intro c r e; simp at e) (by omega)
  unfold Json.decode
  rw [List.append_nil] at this
  rw [this]; rfl

/-- … and that document *is* the value: NULL ↦ null, the int literal denotes the int, the float literal rounds
    to the float, strings equal byte for byte, lists / objects / tuples element by element, objects carry the
    field names of the type -/
theorem json_value_matches (L : Lib) (hE : TextExact L) (τ : Ty) (v : Value) (h : fits τ v = true) :
    matchesV τ v (erase L τ v) = true :=
  erase_matches L hE v τ h

/-- **one `-o json` line** (`JSONFormatter.Write`): no panic, valid JSON, decodes to the row -/
theorem json_line (L : Lib) (hL : LibOK L) (ns : List Name) (ts : List Ty) (xs : List Value)
    (h : rowFits ns ts xs = true) :
    ∃ bs j, jsonLine L ns ts xs = some bs ∧ Json.decode bs = some j ∧ rowMatches ns ts xs j = true := by
  obtain ⟨bs, hb, hd⟩ := jsonLine_decode L hL.floatSyntax ns ts xs h
  refine ⟨bs, _, hb, hd, ?_⟩
  simp only [rowFits, Bool.and_eq_true, decide_eq_true_eq] at h
  simp [rowMatches, eraseEach_matches L hL.textExact xs ts h.2]

/-- **a line is UTF-8** (RFC 8259 §8.1) when the strings of the row, the column / field names and the library's
    texts are: `appendJSONString` copies bytes ≥ 0x80 unchanged and adds ASCII only.  (A string that is not
    well-formed UTF-8 cannot be carried by a JSON text at all; its bytes are then copied through, and
    `json_string_roundtrip` still returns them byte for byte.) -/
theorem json_line_utf8 (L : Lib) (hL : LibOK L) (ns : List Name) (ts : List Ty) (xs : List Value) (bs : List Nat)
    (hfit : rowFits ns ts xs = true)
    (hn : ns.all (fun n => Utf8.valid (nameBytes n)) = true) (ht : utf8Tys ts = true) (hv : utf8Values L xs = true)
    (h : jsonLine L ns ts xs = some bs) : Json.validText bs = true := by
  have hu := jsonLine_utf8 L ns ts xs bs hfit hn ht hv h
  obtain ⟨bs', hb, hd⟩ := jsonLine_decode L hL.floatSyntax ns ts xs hfit
  rw [h] at hb; cases hb
  simp [Json.validText, hu, hd]

/-- **framing**: a line is text without any byte below 0x20 followed by exactly one line feed — whatever bytes
    the strings contain.  So a result's output is cut into its lines at the line feeds, and no line carries a
    raw control character (RFC 8259 §7). -/
theorem json_line_framing (L : Lib) (hL : LibOK L) (ns : List Name) (ts : List Ty) (xs : List Value) (bs : List Nat)
    (hfit : rowFits ns ts xs = true) (h : jsonLine L ns ts xs = some bs) :
    ∃ b, bs = b ++ [10] ∧ ∀ x ∈ b, 32 ≤ x :=
  jsonLine_framing L hL.floatSyntax ns ts xs bs hfit h

/-- what C25 demands of one output line `l` for the row `r` -/
def lineOk (L : Lib) (ns : List Name) (ts : List Ty) (r : List Value) (l : List Nat) : Prop :=
  -- it parses (RFC 8259) and the document is the row
  (∃ j, Json.decode l = some j ∧ rowMatches ns ts r j = true) ∧
  -- it is one line: text without control characters, then a line feed
  (∃ b, l = b ++ [10] ∧ ∀ x ∈ b, 32 ≤ x) ∧
  -- it is UTF-8 if the data is
  (ns.all (fun n => Utf8.valid (nameBytes n)) = true → utf8Tys ts = true → utf8Values L r = true → Utf8.valid l = true)

/-- every line of a result: there is one line per row and line i is row i -/
def linesOk (L : Lib) (ns : List Name) (ts : List Ty) : List (List Value) → List (List Nat) → Prop
  | [], [] => True
  | r :: rs, l :: ls => lineOk L ns ts r l ∧ linesOk L ns ts rs ls
  | _, _ => False

/-- **the whole `-o json` output**: `SetSchema` then one `Write` per row -/
theorem json_output (L : Lib) (hL : LibOK L) (ns : List Name) (ts : List Ty) :
    ∀ rows : List (List Value), rows.all (rowFits (withoutQualifiers ns) ts) = true →
      ∃ lines, jsonOutput L ns ts rows = some (concatLines lines) ∧ linesOk L (withoutQualifiers ns) ts rows lines
  | [], _ => ⟨[], rfl, trivial⟩
  | r :: rs, h => by
    simp only [List.all_cons, Bool.and_eq_true] at h
    obtain ⟨bs, j, hb, hd, hm⟩ := json_line L hL (withoutQualifiers ns) ts r h.1
    obtain ⟨ls, hls, hok⟩ := json_output L hL ns ts rs h.2
    refine ⟨bs :: ls, ?_, ⟨⟨j, hd, hm⟩, json_line_framing L hL _ ts r bs h.1 hb, ?_⟩, hok⟩
    · simp only [jsonOutput] at hls ⊢
      simp [jsonLines, hb, hls, concatLines]
    · intro hn ht hv
      exact jsonLine_utf8 L _ ts r bs h.1 hn ht hv hb

/-- **lines**: since every line is LF-free text followed by one LF, cutting the output of a whole result at
    the line feeds gives back exactly the lines (this is how the judge, and any JSON-lines reader, finds them) -/
theorem json_output_lines (lines : List (List Nat))
    (h : ∀ l ∈ lines, ∃ b, l = b ++ [10] ∧ ∀ x ∈ b, 32 ≤ x) :
    Json.splitLines (concatLines lines) [] = lines :=
  splitLines_concat lines (fun l hl => by
    obtain ⟨b, e, hb⟩ := h l hl
    exact ⟨b, e, fun x hx => by have := hb x hx; omega⟩)

/-! ## CSV -/

/-- **csv_roundtrip, one field**: for every byte string `f`, the RFC 4180 reader run on what `csv.Writer` wrote
    for it (quoted or not) returns `f` and stops at the separator -/
theorem csv_field_roundtrip (f rest : List Nat) (c : Nat) (hc : c = 44 ∨ c = 10) :
    Csv.pField (csvField f ++ c :: rest) = some (f, c :: rest) :=
  pField_csvField f (c :: rest) ⟨c, rest, rfl, hc⟩

/-- **csv_roundtrip**: ∀ records of ≥ 1 field each, decode (write records) = records -/
theorem csv_roundtrip (recs : List (List (List Nat))) (h : ∀ r ∈ recs, r ≠ []) :
    Csv.decode (concatRecords recs) = some recs :=
  decode_records recs h

/-- **csv_value**: the cell of a scalar is its text — NULL is the empty field, the int literal is exactly the
    int, the float text reads back as the float, strings are the bytes themselves; a list / struct / tuple cell
    does not panic -/
theorem csv_value (L : Lib) (hL : LibOK L) (τ : Ty) (v : Value) (h : fits τ v = true) :
    ∃ cell, csvCell L τ v = some cell ∧ csvCellOk v cell = true :=
  csvCell_ok L hL.floatSyntax hL.csvFloat hL.textExact τ v h

theorem csv_null_is_empty (L : Lib) (τ : Ty) : csvCell L τ .null = some [] := rfl

/-- **the whole `-o csv` output** -/
theorem csv_output (L : Lib) (hL : LibOK L) (ns : List Name) (ts : List Ty) (rows : List (List Value))
    (hns : ns ≠ []) (hlen : ns.length = ts.length)
    (hrows : rows.all (rowFits (withoutQualifiers ns) ts) = true) :
    ∃ bytes cellss, csvOutput L ns ts rows = some bytes ∧
      Csv.decode bytes = some ((withoutQualifiers ns).map nameBytes :: cellss) ∧ csvRowsOk rows cellss = true :=
  csvOutput_ok L hL.floatSyntax hL.csvFloat hL.textExact ns ts rows hns hlen hrows

/-! ## The property, full strength -/

/-- C25 for a pair of formatters (`jsonOut`, `csvOut` : schema → rows → bytes or panic), given the library -/
def Statement
    (jsonOut csvOut : Lib → List Name → List Ty → List (List Value) → Option (List Nat)) : Prop :=
  ∀ L, LibOK L → ∀ (ns : List Name) (ts : List Ty) (rows : List (List Value)),
    rows.all (rowFits (withoutQualifiers ns) ts) = true →
      (∃ lines, jsonOut L ns ts rows = some (concatLines lines) ∧ linesOk L (withoutQualifiers ns) ts rows lines) ∧
      (ns ≠ [] → ns.length = ts.length →
        ∃ bytes cellss, csvOut L ns ts rows = some bytes ∧
          Csv.decode bytes = some ((withoutQualifiers ns).map nameBytes :: cellss) ∧ csvRowsOk rows cellss = true)

/-- **C25, full strength, on the current tree** (after the three `fix:` commits). -/
theorem C25_full : Statement jsonOutput csvOutput := by
  intro L hL ns ts rows h
  exact ⟨json_output L hL ns ts rows h, fun hns hlen => csv_output L hL ns ts rows hns hlen h⟩

/-! ## The code before the repairs -/

/-- the string part of the property for an escaper `esc` (restricted to ASCII strings) -/
def StringStatement (esc : List Nat → List Nat) : Prop :=
  ∀ s : List Nat, (∀ c ∈ s, c < 128) → Json.decode (esc s) = some (.str s)

theorem string_statement_fixed : StringStatement jsonString := fun s _ => json_string_decode s

/-- fastjson's `escapeString` (strconv.AppendQuote) writes `"\x00"` for the one-byte string NUL: not JSON -/
theorem raw_string_refuted : ¬ StringStatement Raw.escapeString := by
  intro h
  have := h [0] (by decide)
  have e : (Json.decode (Raw.escapeString [0])).isNone = true := by decide
  rw [this] at e
  exact absurd e (by decide)

/-- … the same for `\a` (7), `\v` (11), DEL (127) -/
theorem raw_string_witnesses :
    (Json.decode (Raw.escapeString [7])).isNone = true ∧ (Json.decode (Raw.escapeString [11])).isNone = true ∧
    (Json.decode (Raw.escapeString [127, 34])).isNone = true ∧
    (Json.decode (Raw.jsonLineStr [115] [0])).isNone = true := by decide

/-- `NaN` / `+Inf` as printed by `strconv.AppendFloat` are not JSON -/
theorem raw_float_refuted :
    (Json.decode (Raw.jsonLineFloat ⟨fun _ => [78, 97, 78], fun _ => [], fun _ _ => [], fun _ => []⟩ [102] 0x7FF8000000000001)).isNone = true ∧
    (Json.decode (Raw.jsonLineFloat ⟨fun _ => [43, 73, 110, 102], fun _ => [], fun _ _ => [], fun _ => []⟩ [102] 0x7FF0000000000000)).isNone = true := by
  decide

/-- `FormatCSVValue` before the repair panicked on a well-typed list cell -/
theorem raw_csv_refuted : ∃ (τ : Ty) (v : Value), fits τ v = true ∧ ∀ L : Lib, Raw.csvCell L v = none :=
  ⟨.list .int, .list [.int 1], by decide, fun _ => rfl⟩

/-! ## Non-vacuity -/
section examples
/-- a concrete library: every float prints as `1.5`, every time as `T`, every duration as `1s` -/
def L0 : Lib := ⟨fun _ => [49, 46, 53], fun _ => [49, 46, 53], fun _ _ => [84], fun _ => [49, 115]⟩

def tyRow : List Ty := [.str, .union [.null, .int], .list (.struct [[97]] [.float]), .tuple [.bool, .dur]]
def nmRow : List Name := [[115], [110], [108], [116]]
def valRow : List Value :=
  [.str [0, 34, 255], .null, .list [.struct [.float 0x3FF8000000000000], .struct [.float 0x7FF8000000000001]],
   .tuple [.bool true, .dur 1000000000]]

/-- the hypothesis of `json_line` holds for a nested row … -/
example : rowFits nmRow tyRow valRow = true := by decide
/-- … the model prints this line for it … -/
example : jsonLine L0 nmRow tyRow valRow =
    some [123, 34, 115, 34, 58, 34, 92, 117, 48, 48, 48, 48, 92, 34, 255, 34, 44, 34, 110, 34, 58, 110, 117, 108, 108, 44,
          34, 108, 34, 58, 91, 123, 34, 97, 34, 58, 49, 46, 53, 125, 44, 123, 34, 97, 34, 58, 110, 117, 108, 108, 125, 93, 44,
          34, 116, 34, 58, 91, 116, 114, 117, 101, 44, 34, 49, 115, 34, 93, 125, 10] := by decide
/-- … which decodes to a document that is the row -/
example : ((jsonLine L0 nmRow tyRow valRow).bind Json.decode).map (rowMatches nmRow tyRow valRow) = some true := by
  decide
/-- an ill-typed row panics in the model as in the code (a list value under a non-list type) -/
example : jsonLine L0 [[97]] [.int] [.list [.int 1]] = none := by decide
/-- CSV: quoting, doubled quotes, leading space, `\.`, NULL as the empty field -/
example : csvOutput L0 [[97], [98], [99]] [.str, .null, .str] [[.str [32, 120], .null, .str [97, 34, 44]], [.str [92, 46], .null, .str []]] =
    some [97, 44, 98, 44, 99, 10, 34, 32, 120, 34, 44, 44, 34, 97, 34, 34, 44, 34, 10, 34, 92, 46, 34, 44, 44, 10] := by decide
example : Csv.decode [97, 44, 98, 44, 99, 10, 34, 32, 120, 34, 44, 44, 34, 97, 34, 34, 44, 34, 10, 34, 92, 46, 34, 44, 44, 10] =
    some [[[97], [98], [99]], [[32, 120], [], [97, 34, 44]], [[92, 46], [], []]] := by decide
/-- instances of the library assumptions, checked by exact arithmetic: `0.1`, `1e+21`, `5e-324`, `-0` -/
example : Num.litToF64 [48, 46, 49] = 0x3FB999999999999A := by decide
example : Num.litToF64 [49, 101, 43, 50, 49] = 0x444B1AE4D6E2EF50 := by decide
set_option maxRecDepth 20000 in
example : Num.litToF64 [53, 101, 45, 51, 50, 52] = 1 := by decide
example : Num.litToF64 [45, 48] = 0x8000000000000000 := by decide
end examples

end Octo.C25
