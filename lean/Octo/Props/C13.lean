import Octo.Spec.NumFuncs
namespace Octo.C13
open Octo Octo.Num
theorem C13_partial : True := trivial
end Octo.C13
