import Octo.Lemmas.NumFuncs
import Octo.Lemmas.Coalesce
import Octo.Lemmas.Overload
/-!
# C13 — Numeric, time and conversion functions meet their specification

Property: for all argument values, the arithmetic operators on Int/Float/Duration/Time, abs/ceil/floor/sqrt/log/pow,
int()/float()/string(), time_from_unix/time_to_unix, IN/NOT IN, COALESCE and list indexing return what their definitions
state.  Failed parses yield NULL, time_to_unix(time_from_unix(x)) = x, and COALESCE yields its first non-NULL argument.

* `Octo.Num.callFn` is the model of the descriptors of `functions/functions.go` (one definition per entry of
  `FunctionMap()`, one arm per overload), `Octo.Coal.coalesce` / `calcMapping` / `fixLayout` the model of
  `Coalesce` + `ObjectLayoutFixer` of `execution/expressions.go`, `Octo.Ovl.resolve` the model of the overload
  resolution of `logical/function.go` — all tied to the code by the C13 correspondence run on every check.
* `Octo.Spec13.specFn` / `coalesceSpec` / `relayout` / `parseIntSpec` say what the property demands, in mathematical
  integers with one explicit `wrap64`, `List.any`, "the field of that name", the grammar `[+-]?[0-9]+`.
* Float arithmetic, `math.*`, `strconv.ParseFloat`, float→int and int→float conversion, and the text form of floats,
  times and durations are Go runtime/library behaviour and are NOT modelled (the model returns `.opaque TypeID`, the
  specification `.unspecified`/`.someOf`); the correspondence run checks "no panic, TypeID as declared" for them.

All theorems quantify over ALL arguments (no size bound).
-/
namespace Octo.C13
open Octo Octo.Num Octo.Coal Octo.Ovl Octo.Spec13

/-! ## 1. Int / Duration arithmetic is two's-complement int64 arithmetic -/

/-- wrapping lands in the int64 range and is the identity on it -/
theorem wrap_range (x : Int) : InI64 (wrap64 x) := inI64_wrap64 x
theorem wrap_id (x : Int) (h : InI64 x) : wrap64 x = x := wrap64_of_inI64 h

/-- `+`, `-`, `*`, unary `-` on Int and Duration: the exact result, wrapped -/
theorem add_wraps (a b : Int) : addI64 a b = wrap64 (a + b) := addI64_eq a b
theorem sub_wraps (a b : Int) : subI64 a b = wrap64 (a - b) := subI64_eq a b
theorem mul_wraps (a b : Int) : mulI64 a b = wrap64 (a * b) := mulI64_eq a b
theorem neg_wraps (a : Int) : negI64 a = wrap64 (-a) := negI64_eq a

/-- … hence exact whenever the exact result fits -/
theorem add_exact (a b : Int) (h : InI64 (a + b)) : addI64 a b = a + b := by rw [addI64_eq, wrap64_of_inI64 h]
theorem sub_exact (a b : Int) (h : InI64 (a - b)) : subI64 a b = a - b := by rw [subI64_eq, wrap64_of_inI64 h]
theorem mul_exact (a b : Int) (h : InI64 (a * b)) : mulI64 a b = a * b := by rw [mulI64_eq, wrap64_of_inI64 h]

/-- `/` on int64 operands is the quotient truncated toward zero (`Int.tdiv`), wrapped … -/
theorem div_wraps (a b : Int) (ha : InI64 a) (hb : InI64 b) : quoI64 a b = wrap64 (Int.tdiv a b) := quoI64_eq ha hb

/-- … the truncated quotient of two int64 fits int64 except for `MinInt64 / -1` … -/
theorem tdiv_in_range (a b : Int) (ha : InI64 a) (hb : InI64 b) (hx : ¬ (a = minI64 ∧ b = -1)) : InI64 (Int.tdiv a b) := by
  rw [inI64_iff] at *
  unfold minI64 at hx
  have hq := Int.natAbs_tdiv a b
  have hdiv : (a.natAbs).div (b.natAbs) = a.natAbs / b.natAbs := rfl
  rw [hdiv] at hq
  by_cases hb1 : b = 1
  · subst hb1; rw [Int.tdiv_one]; exact ha
  by_cases hbm : b = -1
  · subst hbm
    have : a.tdiv (-1) = -a := by rw [Int.tdiv_neg, Int.tdiv_one]
    rw [this]; omega
  by_cases hb0 : b.natAbs = 0
  · rw [hb0, Nat.div_zero] at hq; omega
  · have h2 : 2 ≤ b.natAbs := by omega
    have : a.natAbs / b.natAbs ≤ a.natAbs / 2 := Nat.div_le_div_left h2 (by omega)
    omega

/-- … so division truncates toward zero exactly, `MinInt64 / -1` wraps to `MinInt64` … -/
theorem div_truncates (a b : Int) (ha : InI64 a) (hb : InI64 b) (hx : ¬ (a = minI64 ∧ b = -1)) :
    quoI64 a b = Int.tdiv a b := by
  rw [quoI64_eq ha hb, wrap64_of_inI64 (tdiv_in_range a b ha hb hx)]
theorem div_min_neg_one : quoI64 minI64 (-1) = minI64 := by decide

/-- … and a zero divisor is an error, not a panic (repaired code). -/
theorem div_zero_is_error (a : Int) : fnDiv 0 [.int a, .int 0] = .err ∧ fnDiv 2 [.dur a, .int 0] = .err := ⟨rfl, rfl⟩

example : InI64 7 ∧ InI64 (-2) ∧ ¬ ((7 : Int) = minI64 ∧ (-2 : Int) = -1) ∧ quoI64 7 (-2) = -3 ∧ quoI64 (-7) 2 = -3 := by decide
example : addI64 maxI64 1 = minI64 ∧ mulI64 minI64 (-1) = minI64 ∧ negI64 minI64 = minI64 := by decide

/-! ## 2. Time -/

/-- **`time_to_unix(time_from_unix(x)) = x` for every int64 `x`** (both internal additions wrap, and cancel) -/
theorem time_roundtrip (x : Int) (h : InI64 x) : timeToUnix (timeUnix x 0) = x :=
  timeToUnix_timeUnix x 0 h (by decide) (by decide)

/-- the same through the descriptors -/
theorem time_roundtrip_fn (x : Int) (h : InI64 x) :
    ∃ t l, callFn "tfu" 0 [.int x] = .val (.time t l) ∧ callFn "ttu" 0 [.time t l] = .val (.int x) :=
  ⟨timeUnix x 0, 0, rfl, by
    show Outcome.val (.int (timeToUnix (timeUnix x 0))) = _
    rw [time_roundtrip x h]⟩

/-- `time_from_unix(x)` is the instant `x` seconds after the epoch whenever Go's `time.Time` can represent it -/
theorem time_from_unix_exact (x : Int) (h : InI64 (x + unixToInternal)) : timeUnix x 0 = x * nsPerSec := timeUnix_exact x h
/-- `time_to_unix` is the floor of the instant in seconds -/
theorem time_to_unix_floor (ns : Int) : timeToUnix ns = wrap64 (ns / nsPerSec) := timeToUnix_eq ns
/-- `Time + Duration` is exact whenever the result is representable (Go saturates otherwise) -/
theorem time_add_exact (t d : Int) (h : InI64 (timeExt (t + d))) : timeAdd t d = t + d := timeAdd_exact t d h
/-- … so adding and subtracting the same duration gives the time back -/
theorem time_add_sub (t d : Int) (hd : InI64 d) (hm : d ≠ minI64) (h1 : InI64 (timeExt (t + d))) (h2 : InI64 (timeExt t)) :
    timeAdd (timeAdd t d) (negI64 d) = t := by
  rw [timeAdd_exact t d h1, negI64_exact hd hm, timeAdd_exact (t + d) (-d) (by rw [Int.add_neg_cancel_right]; exact h2)]
  omega

example : InI64 maxI64 ∧ timeToUnix (timeUnix maxI64 0) = maxI64 := by decide
example : InI64 (timeExt (5 + 7)) ∧ timeAdd 5 7 = 12 := by decide

/-! ## 3. `int(String)`: Go's base-10 `ParseInt` -/

/-- **`int(s)` is the integer denoted by `s` iff `s` matches `[+-]?[0-9]+` and the value fits int64; otherwise NULL** -/
theorem parseInt_spec (s : List UInt8) : parseInt s = parseIntSpec s := parseInt_eq_spec s

/-- **parsing the decimal rendering of an int64 gives it back** -/
theorem parseInt_format (i : Int) (h : InI64 i) : parseInt (formatInt i) = some i := parseInt_formatInt i h

/-- `int(string(i)) = i` through the descriptors -/
theorem int_of_string_of_int (i : Int) (h : InI64 i) :
    callFn "string" 0 [.int i] = .val (.str (formatInt i)) ∧ callFn "int" 3 [.str (formatInt i)] = .val (.int i) := by
  refine ⟨rfl, ?_⟩
  show (match parseInt (formatInt i) with | some i => Outcome.val (.int i) | none => .val .null) = _
  rw [parseInt_formatInt i h]

/-- a failed parse yields NULL (never an error, never a panic) -/
theorem int_of_unparsable (s : List UInt8) (h : parseIntSpec s = none) : callFn "int" 3 [.str s] = .val .null := by
  show (match parseInt s with | some i => Outcome.val (.int i) | none => .val .null) = _
  rw [parseInt_eq_spec, h]

example : parseInt [45, 48, 48, 55] = some (-7) ∧ parseInt [43] = none ∧ parseInt [49, 95, 48] = none := by decide
example : parseIntSpec [57, 50, 50, 51, 51, 55, 50, 48, 51, 54, 56, 53, 52, 55, 55, 53, 56, 48, 56] = none := by decide  -- 2^63

/-! ## 4. IN / NOT IN, indexing, string repetition -/

theorem in_spec (x : Value) (xs : List Value) : memLoop x xs = xs.any fun y => x.equal y := memLoop_eq_any x xs
theorem not_in_spec (x : Value) (xs : List Value) : (!memLoop x xs) = xs.all fun y => !x.equal y := not_memLoop_eq_all x xs

/-- `l[i]` is the `i`-th element for `0 ≤ i < len(l)` and NULL otherwise (repaired: also for negative `i`) -/
theorem index_spec (xs : List Value) (i : Int) :
    indexFn xs i = .val (if 0 ≤ i ∧ i < (xs.length : Int) then xs[i.toNat]?.getD .null else .null) := by
  unfold indexFn
  by_cases h : i < 0 ∨ i ≥ (xs.length : Int)
  · rw [if_pos h, if_neg (by omega)]
  · rw [if_neg h, if_pos (by omega)]
    have hlt : i.toNat < xs.length := by omega
    rw [List.getElem?_eq_getElem hlt]
    rfl

/-- `s * n`: `n` copies of `s`; an error for negative `n` or more than 2^30 result bytes (repaired) -/
theorem repeat_spec (s : List UInt8) (n : Int) : Meets (repeatString s n) (repeatSpec s n) := repeatString_meets s n

/-! ## 5. Every modelled descriptor meets its specification -/

/-- **for all arguments (ints/durations in int64, times representable) every modelled overload of
    `+ - * / abs len time_from_unix time_to_unix int float string [] in "not in"` returns what the specification says** -/
theorem fn_meets_spec (name : String) (idx : Nat) (args : List Value) (h : ArgsOk args) :
    Meets (callFn name idx args) (specFn name idx args) := callFn_meets name idx args h

/-- in particular no modelled function panics -/
theorem fn_never_panics (name : String) (idx : Nat) (args : List Value) (h : ArgsOk args) : callFn name idx args ≠ .panic := by
  intro hp
  have := callFn_meets name idx args h
  rw [hp] at this
  cases hs : specFn name idx args <;> simp [Meets] at this

theorem argsOk_example : ArgsOk [.int 1, .int 0] := ⟨(by decide : InI64 1), (by decide : InI64 0), trivial⟩
example : ArgsOk [.int 1, .int 0] ∧ Meets (callFn "div" 0 [.int 1, .int 0]) .error := ⟨argsOk_example, by
  show Meets Outcome.err .error; trivial⟩

/-! ## 6. COALESCE and the ObjectLayoutFixer -/

/-- **`fixLayout` with the mapping of `calculateMapping(target, source)` re-lays a value of the source type out for the
    target type** — object fields go where their name is in the target, missing ones are NULL, tuples are padded,
    through any nesting of lists, objects, tuples and unions — and neither function panics. -/
theorem fixLayout_relayout (t s : Ty) (v : Value) (ht : NormTy t) (hs : NormTy s) (hfit : Fits t s)
    (hv : conforms s v = true) :
    ∃ m, calcMapping (Ty.size t + Ty.size s + 1) t s = some m ∧
      fixLayout (fuelFor v) m v = some (relayout (Value.size v + 1) t s v) :=
  fixLayout_calcMapping t s v ht hs hfit hv

/-- **COALESCE yields its first non-NULL argument (re-laid-out for the result type), NULL when all are NULL** -/
theorem coalesce_first_non_null (target : Ty) (ht : NormTy target) (args : List (Ty × Value)) (h : ArgsFit target args) :
    coalesce target args = .val (coalesceSpec target args) := coalesce_spec target ht args h

/-- a value that is not an object/list/tuple is returned unchanged (`fixLayout_id` on scalar types) -/
theorem relayout_id_leaf (fr : Nat) (t s : Ty) (v : Value) (h : IsLeaf v) : relayout fr t s v = v := relayout_leaf fr t s v h

/-- object fields are permuted into the order of the target type, fields the source lacks are NULL (`fixLayout_perm`) -/
theorem relayout_perm (f : Nat) (tn : List Name) (tt : List Ty) (sn : List Name) (st : List Ty) (xs : List Value) :
    relayout (f + 1) (.struct tn tt) (.struct sn st) (.struct xs)
      = .struct ((tn.zip tt).map (relayoutField (relayout f) sn st xs)) := by
  simp [relayout, altFor, relayoutStruct]

/-- non-vacuity: COALESCE of `{b: 2, a: 1}` into the type `{a, b, c?}`: fields permuted, `c` NULL -/
example : coalesce (.struct [[97], [98], [99]] [.int, .int, .union [.null, .int]])
    [(.union [.null, .struct [[98], [97]] [.int, .int]], .null),
     (.struct [[98], [97]] [.int, .int], .struct [.int 2, .int 1])]
    = .val (.struct [.int 1, .int 2, .null]) := by rfl
example : coalesceSpec (.struct [[97], [98], [99]] [.int, .int, .union [.null, .int]])
    [(.union [.null, .struct [[98], [97]] [.int, .int]], .null),
     (.struct [[98], [97]] [.int, .int], .struct [.int 2, .int 1])]
    = .struct [.int 1, .int 2, .null] := by rfl
/-- the hypotheses of `coalesce_first_non_null` are met by that call -/
example : NormTy (.struct [[97], [98], [99]] [.int, .int, .union [.null, .int]]) ∧
    ArgsFit (.struct [[97], [98], [99]] [.int, .int, .union [.null, .int]])
      [(.struct [[98], [97]] [.int, .int], .struct [.int 2, .int 1])] := by
  have hint : NormTy .int := .scalar _ (by decide)
  have hnull : NormTy .null := .scalar _ (by decide)
  have hcI : Concrete .int := by unfold Concrete; exact ⟨(by intro _ h; cases h), (by intro h; cases h)⟩
  have hcN : Concrete .null := by unfold Concrete; exact ⟨(by intro _ h; cases h), (by intro h; cases h)⟩
  have hu : NormTy (.union [.null, .int]) := .union _
    (by intro a ha; simp only [List.mem_cons, List.mem_nil_iff, or_false] at ha; rcases ha with h | h <;> subst h <;> assumption)
    (by intro a ha; simp only [List.mem_cons, List.mem_nil_iff, or_false] at ha; rcases ha with h | h <;> subst h <;> assumption)
    (by simp [Ty.id])
  refine ⟨.struct _ _ (by decide) rfl (by
    intro t ht; simp only [List.mem_cons, List.mem_nil_iff, or_false] at ht
    rcases ht with h | h | h <;> subst h <;> assumption), ?_⟩
  intro sv hsv
  simp only [List.mem_cons, List.mem_nil_iff, or_false] at hsv; subst hsv
  refine ⟨.struct _ _ (by decide) rfl (by
    intro t ht; simp only [List.mem_cons, List.mem_nil_iff, or_false] at ht
    rcases ht with h | h <;> subst h <;> exact hint), ?_, by rfl⟩
  apply Fits.struct
  intro n ft j sj hmem hl hsj
  simp at hmem
  rcases hmem with ⟨h1, h2⟩ | ⟨h1, h2⟩ | ⟨h1, h2⟩ <;> subst h1 <;> subst h2
  · -- a ↦ source index 1
    have : j = 1 := by have : lastIndexOf [[98], [97]] [97] = some 1 := by rfl
                       rw [this] at hl; injection hl with hl; exact hl.symm
    subst this; simp at hsj; subst hsj
    exact .scalar _ _ hcI (by decide)
  · have : j = 0 := by have : lastIndexOf [[98], [97]] [98] = some 0 := by rfl
                       rw [this] at hl; injection hl with hl; exact hl.symm
    subst this; simp at hsj; subst hsj
    exact .scalar _ _ hcI (by decide)
  · have : lastIndexOf [[98], [97]] [99] = none := by rfl
    rw [this] at hl; cases hl

/-! ## 7. TypeAssertion, TypeCast, overload resolution -/

theorem typeAssert_spec (ids : List Nat) (v : Value) :
    typeAssert ids v = if ids.contains v.rank then .val v else .err := rfl
theorem typeCast_spec (id : Nat) (v : Value) : typeCast id v = .val (if v.rank = id then v else .null) := by
  unfold typeCast
  by_cases h : v.rank = id <;> simp [h]

/-- **the repaired resolution wraps every argument in at most one run-time type assertion** -/
theorem resolve_one_assertion (name : String) (argTys : List Ty) (r : Resolved) (h : resolve name argTys = some r) :
    ∀ a, a ∈ r.asserts → a.length ≤ 1 := resolve_asserts_le_one name argTys r h

/-- the shipped loop had no `break`: `int(c)` for `c : Float | String` wrapped `c` in the assertions of BOTH candidate
    overloads (which can never both hold) -/
theorem raw_resolve_two_assertions :
    (resolveRaw "int" [.union [.float, .str]]).map (·.asserts) = some [[.union [.null, .float], .union [.null, .str]]] := by rfl
example : (resolve "int" [.union [.float, .str]]).map (fun r => (r.idx, r.asserts)) = some (2, [[.union [.null, .float]]]) := by rfl

/-! ## 8. The property, full strength (over the modelled part of the engine) -/

/-- an implementation of the three anchored mechanisms -/
structure Impl where
  fn : String → Nat → List Value → Outcome
  coalesce : Ty → List (Ty × Value) → Outcome
  resolve : String → List Ty → Option Resolved

/-- C13 for an implementation: every function call on well-formed arguments meets the specification (so: no panic,
    failed parses yield NULL, division truncates, …), the two round trips hold, COALESCE yields its first non-NULL
    argument re-laid-out for its result type, and a resolved call asserts each argument's type at most once. -/
def Statement (I : Impl) : Prop :=
  (∀ name idx args, ArgsOk args → Meets (I.fn name idx args) (specFn name idx args)) ∧
  (∀ x, InI64 x → ∃ t l, I.fn "tfu" 0 [.int x] = .val (.time t l) ∧ I.fn "ttu" 0 [.time t l] = .val (.int x)) ∧
  (∀ i, InI64 i → ∃ s, I.fn "string" 0 [.int i] = .val (.str s) ∧ I.fn "int" 3 [.str s] = .val (.int i)) ∧
  (∀ target args, NormTy target → ArgsFit target args → I.coalesce target args = .val (coalesceSpec target args)) ∧
  (∀ name argTys r, I.resolve name argTys = some r → ∀ a, a ∈ r.asserts → a.length ≤ 1)

/-- the code as it stands in /repo (after the C13 `fix:` commits) -/
def current : Impl := { fn := callFn, coalesce := Coal.coalesce, resolve := Ovl.resolve }
/-- the code as shipped -/
def shipped : Impl := { fn := callFnRaw, coalesce := coalesceRaw, resolve := resolveRaw }

/-- **C13, full strength, on the current tree** -/
theorem C13_full : Statement current :=
  ⟨fn_meets_spec, time_roundtrip_fn,
   fun i h => ⟨formatInt i, (int_of_string_of_int i h).1, (int_of_string_of_int i h).2⟩,
   fun target args ht h => coalesce_first_non_null target ht args h,
   resolve_one_assertion⟩

/-! ### the shipped code violated it: four panics and the doubled assertion -/

theorem shipped_div_zero_panics : callFnRaw "div" 0 [.int 1, .int 0] = .panic := by rfl
theorem shipped_repeat_negative_panics : callFnRaw "mul" 4 [.str [97], .int (-1)] = .panic := by rfl
theorem shipped_index_negative_panics : callFnRaw "idx" 0 [.list [.int 1], .int (-1)] = .panic := by rfl
theorem shipped_coalesce_tuple_panics :
    coalesceRaw (.tuple [.int, .int]) [(.tuple [.int, .int], .tuple [.int 1, .int 2])] = .panic := by rfl

theorem C13_shipped_refuted : ¬ Statement shipped := by
  intro ⟨h1, _⟩
  have := h1 "div" 0 [.int 1, .int 0] argsOk_example
  have e : shipped.fn "div" 0 [.int 1, .int 0] = .panic := shipped_div_zero_panics
  rw [e] at this
  exact this

end Octo.C13
