import Octo.Lemmas.MaxDiffWatermark
/-!
# C20 — max_diff_watermark generates correct watermarks

Property: for every input stream, max_diff_watermark emits watermarks equal to (largest time seen, rounded down
to the resolution) minus max_diff, strictly increasing.  Records whose time is at or below the current watermark
are dropped; every other record passes through unchanged, with its event time set to the time field.

* `MaxDiff.run` is the model of `maxDifferenceWatermarkGenerator.Run`
  (`table_valued_functions/max_diff_watermark.go`): `.fixed` the code in /repo now (after the `fix:` commit),
  `.shipped` the code before it.  It is tied to the Go code by the C20 correspondence run on every check.
* `MaxDiffSpec.spec` is the prescribed output, written non-incrementally (every watermark recomputed from the
  list of all times seen so far); the theorems of the second half say what `spec` means, in the words of the property.

All theorems quantify over **all** input streams (any length, any order, duplicates, upstream watermarks mixed
in), all Int64-nanosecond times (also before 1970), all max_diff values (also negative) and all resolutions.
Domain (`InDomain`): every record holds a Time in the time field (guaranteed by the TVF's `OutputSchema` check)
whose `UnixNano` is defined, i.e. lies in the Int64 range; the resolution is an Int64 (`res < 2^63`).
-/
namespace Octo.C20
open Octo Octo.MaxDiff Octo.MaxDiffSpec

/-! ## The implementation computes the prescribed stream -/

/-- **main theorem**: on its domain the (repaired) generator emits exactly the prescribed stream -/
theorem run_eq_spec (md res : Int) (idx : Nat) (inp : List Msg) (hres : 0 < res) (hres2 : res < (2:Int)^63)
    (hd : InDomain idx inp) : run .fixed md res idx inp = .ok (spec res md idx inp) := by
  have hne : ¬ res ≤ 0 := by omega
  simp only [run, runFixed, hne, if_false]
  exact go_eq_spec hres hres2 inp St.init [] (by simp [MaxDiff.Inv, maxOf]) hd (fun _ _ t _ => roundFloor_eq hres t)

/-- a resolution that is not positive is rejected with an error (the shipped code divides by zero) -/
theorem nonpositive_resolution_rejected (md res : Int) (idx : Nat) (inp : List Msg) (h : res ≤ 0) :
    run .fixed md res idx inp = .error .err := by
  simp [run, runFixed, h]

/-! ## What the prescribed stream is (the words of the property) -/

/-- "rounded down to the resolution": `floorTo res t` is the multiple of `res` in `(t − res, t]`, and the only one -/
theorem floorTo_spec (res t : Int) (hres : 0 < res) :
    res ∣ floorTo res t ∧ floorTo res t ≤ t ∧ t < floorTo res t + res ∧
    ∀ x, res ∣ x → x ≤ t → t < x + res → x = floorTo res t :=
  ⟨floorTo_dvd res t, floorTo_le hres t, lt_floorTo_add hres t, fun _ h1 h2 h3 => floorTo_unique hres h1 h2 h3⟩

/-- `maxOf` is the largest time seen -/
theorem maxOf_spec (seen : List Int) (m : Int) (h : maxOf seen = some m) : m ∈ seen ∧ ∀ x ∈ seen, x ≤ m :=
  ⟨maxOf_mem h, maxOf_ge h⟩

/-- streaming: the output for a prefix of the input is a prefix of the output, and the rest only depends on
    the times seen so far -/
theorem spec_append (res md : Int) (idx : Nat) (pre suf : List Msg) (hd : InDomain idx pre) :
    spec res md idx (pre ++ suf) = spec res md idx pre ++ specFrom res md idx (times idx pre) suf := by
  have := specFrom_append (res := res) (md := md) pre suf [] hd
  simpa [spec] using this

/-- **watermark values**: after any input, the last watermark emitted — the *current* watermark — is
    (largest time seen so far, rounded down to the resolution) − max_diff; none before the first record -/
theorem current_watermark (res md : Int) (idx : Nat) (pre : List Msg) (hres : 0 < res) (hd : InDomain idx pre) :
    lastWm none (wms (spec res md idx pre)) = (maxOf (times idx pre)).map fun m => floorTo res m - md := by
  have := lastWm_specFrom (md := md) hres pre [] hd
  simpa [spec, wmAfter, maxOf] using this

/-- **strictly increasing**: the emitted watermarks are strictly increasing -/
theorem watermarks_strictly_increasing (res md : Int) (idx : Nat) (inp : List Msg) (hres : 0 < res) (hd : InDomain idx inp) :
    StrictIncr (wms (spec res md idx inp)) := by
  have := strictIncr_specFrom (md := md) hres inp [] hd
  simpa [spec, StrictIncr, wmAfter, maxOf] using this

/-- **the rule for one record**: when the record `r` with time `t` arrives after the input `pre`,
    with `W` the current watermark (the last one emitted, `current_watermark`):
    `r` is forwarded, unchanged but for `et := t`, iff not `t ≤ W`; then the watermark
    `floor(max(times so far, t)) − max_diff` is emitted iff it is above `W` (or is the first one). -/
theorem record_rule (res md : Int) (idx : Nat) (pre : List Msg) (r : Rec) (t : Int) (hres : 0 < res)
    (hd : InDomain idx pre) (ht : timeOf idx r = some t) :
    let W := lastWm none (wms (spec res md idx pre))
    let W' := (maxOf (times idx pre ++ [t])).map fun m => floorTo res m - md
    spec res md idx (pre ++ [.data r]) =
      spec res md idx pre
        ++ (if dropped W t then [] else [.data { r with et := some t }])
        ++ wmMsg W W' := by
  intro W W'
  have hW : W = wmAfter res md (times idx pre) := current_watermark res md idx pre hres hd
  rw [spec_append res md idx pre [.data r] hd]
  simp only [specFrom, ht, List.append_nil, List.append_assoc]
  rw [hW]; rfl

/-- **upstream watermarks are swallowed** -/
theorem upstream_watermark_swallowed (res md : Int) (idx : Nat) (pre : List Msg) (w : Int) (hd : InDomain idx pre) :
    spec res md idx (pre ++ [.wm w]) = spec res md idx pre := by
  rw [spec_append res md idx pre [.wm w] hd]; simp [specFrom]

/-- **forwarded records are input records**, in input order, values and retraction flag untouched, event time =
    time field (`stamped`) -/
theorem forwarded_unchanged (res md : Int) (idx : Nat) (inp : List Msg) :
    (recs (spec res md idx inp)).Sublist ((recs inp).map (stamped idx)) :=
  recs_specFrom_sublist inp []

/-- the watermark never exceeds the largest time seen when `max_diff ≥ 0` (what the shipped code violates) -/
theorem watermark_le_max (res md : Int) (idx : Nat) (pre : List Msg) (hres : 0 < res) (hmd : 0 ≤ md)
    (hd : InDomain idx pre) (w m : Int)
    (hw : lastWm none (wms (spec res md idx pre)) = some w) (hm : maxOf (times idx pre) = some m) : w ≤ m := by
  rw [current_watermark res md idx pre hres hd, hm] at hw
  simp at hw
  have := floorTo_le hres m
  omega

/-- **the time field**: when `OutputSchema` accepts the `time_field` descriptor, the `TimeField` it declares is the
    first column with that name, that column has type Time, and `Materialize` picks the same column for the
    running node (so the event times stamped at run time are those of the declared time field) -/
theorem time_field_agrees (want : String) (fields : List (String × Bool)) (i : Nat)
    (h : schemaTimeField want fields 0 = .ok i) :
    materializeIndex want fields 0 = some i ∧ fields[i]? = some (want, true) ∧
    ∀ j, j < i → ∀ f, fields[j]? = some f → f.1 ≠ want := by
  obtain ⟨_, h2, h3, h4⟩ := schemaTimeField_spec want fields 0 i h
  exact ⟨h2, by simpa using h3, by simpa using h4⟩

/-! ## Full statement, proved for the current code, refuted for the shipped code -/

/-- the full-strength statement of C20 for an implementation `run` -/
def Statement (run : Int → Int → Nat → List Msg → Except Fail (List Msg)) : Prop :=
  ∀ (md res : Int) (idx : Nat) (inp : List Msg), res < (2:Int)^63 → InDomain idx inp →
    (res ≤ 0 → run md res idx inp = .error .err) ∧
    (0 < res → run md res idx inp = .ok (spec res md idx inp))

/-- **C20, full strength, on the current tree.** -/
theorem C20_full : Statement (run .fixed) := fun md res idx inp h2 hd =>
  ⟨nonpositive_resolution_rejected md res idx inp, fun h => run_eq_spec md res idx inp h h2 hd⟩

/-! ### the shipped code -/

def tRec (ns : Int) : Msg := .data { vals := [.time ns 0], retr := false, et := none }
/-- three in-order times just before 1970 (−15 ns, −12 ns, −1 ns), resolution 10 ns, max_diff 0
    (the same shape as 1969-12-31 23:59:58.5, 58.8, 59.9 at resolution 1 s, which is in the generated corpus;
    small numbers keep the kernel re-check fast) -/
def witness : List Msg := [tRec (-15), tRec (-12), tRec (-1)]

/-- what the shipped code does on the witness: watermark −10 after the first record (above the record's own
    time −15), the second record (−12) is dropped as late, the final watermark is 0 (above every time seen) -/
theorem shipped_on_witness :
    (run .shipped 0 10 0 witness).toOption.map (fun o => (wms o, (recs o).length)) = some ([-10, 0], 2) := by decide
theorem spec_on_witness :
    ((wms (spec 10 0 0 witness)), (recs (spec 10 0 0 witness)).length) = ([-20, -10], 3) := by
  decide
theorem witness_inDomain : InDomain 0 witness := inDomain_of_B (by decide)

/-- the shipped code violates C20 (times before 1970 are rounded up) -/
theorem shipped_refuted : ¬ Statement (run .shipped) := by
  intro h
  have h1 := (h 0 10 0 witness (by decide) witness_inDomain).2 (by decide)
  have h2 := congrArg (fun o => o.toOption.map (fun o => (wms o, (recs o).length))) h1
  simp only [Except.toOption, Option.map, spec_on_witness] at h2
  exact absurd h2 (by decide)

/-- … and panics on resolution 0 as soon as a record arrives -/
theorem shipped_panics_on_zero_resolution : run .shipped 0 0 0 [tRec 5] = .error .panic := by
  simp [run, runShipped, go, tRec, timeAt, roundTrunc]

/-- what does hold for the shipped code: the property, restricted to positive resolutions and times at or after
    the Unix epoch (there truncation and floor coincide) -/
theorem shipped_partial (md res : Int) (idx : Nat) (inp : List Msg) (hres : 0 < res) (hres2 : res < (2:Int)^63)
    (hd : InDomain idx inp) (hpos : ∀ t ∈ times idx inp, 0 ≤ t) :
    run .shipped md res idx inp = .ok (spec res md idx inp) := by
  simp only [run, runShipped]
  refine go_eq_spec hres hres2 inp St.init [] (by simp [MaxDiff.Inv, maxOf]) hd ?_
  intro r hr t ht
  have h0 : 0 ≤ t := hpos t (by simp only [times, List.mem_filterMap]; exact ⟨r, hr, ht⟩)
  have hne : res ≠ 0 := by omega
  simp only [roundTrunc, hne, if_false, floorTo]
  rw [Int.tdiv_eq_ediv_of_nonneg h0, Int.mul_comm]

/-! ## Non-vacuity -/

/-- an out-of-order stream around 1970 with a duplicate and an upstream watermark, max_diff 3, resolution 10:
    in the domain, exercises forwarding, dropping, watermark emission and non-emission -/
def demo : List Msg := [tRec (-15), tRec (-12), .wm 99, tRec 7, tRec (-9), tRec 7, tRec 25, tRec 21, tRec 12]
example : InDomain 0 demo := inDomain_of_B (by decide)
example : wms (spec 10 3 0 demo) = [-23, -3, 17] ∧ (recs (spec 10 3 0 demo)).length = 6 := by decide
example : (run .fixed 3 10 0 demo).toOption.map wms = some [-23, -3, 17] := by decide
/-- the hypotheses of `shipped_partial` are satisfiable by a non-trivial stream -/
example : InDomain 0 [tRec 15, tRec 12, tRec 31] ∧ ∀ t ∈ times 0 [tRec 15, tRec 12, tRec 31], 0 ≤ t := by
  refine ⟨inDomain_of_B (by decide), ?_⟩
  decide
example : schemaTimeField "t" [("a", false), ("t", true), ("t", false)] 0 = .ok 1 := by simp [schemaTimeField]
example : schemaTimeField "a" [("a", false), ("t", true)] 0 = .error .err ∧ schemaTimeField "z" [("a", false)] 0 = .error .err := by
  simp [schemaTimeField]
/-- `record_rule` both ways: a record at the watermark is dropped, one just above is kept -/
example : (recs (spec 10 0 0 [tRec 25, tRec 20])).length = 1 ∧ (recs (spec 10 0 0 [tRec 25, tRec 21])).length = 2 := by
  decide

end Octo.C20
