import Octo.Model.MaxDiffWatermark
import Octo.Spec.MaxDiffWatermark
namespace Octo.C20
open Octo Octo.MaxDiff Octo.MaxDiffSpec

theorem placeholder : True := trivial

end Octo.C20
