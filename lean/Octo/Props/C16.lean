import Octo.Lemmas.TrigSimple
import Octo.Lemmas.TrigBufferOrder
/-!
# C16 — Triggers change when results appear, never what the final result is

Property: for every GROUP BY, every input stream and every TRIGGER combination (COUNTING n, ON WATERMARK,
ON END OF STREAM, in any combination) the consolidated output at end of stream equals the plain batch
grouping of the input.

Model: `Octo.Model.Triggers` (`execution/triggers.go`, `physical/triggers.go`) and
`Octo.Model.TriggerGroupBy` (`execution/nodes/custom_trigger_group_by.go` behind the `EventTimeBuffer`),
tied to the code by the exact-output correspondence run of every check.  `wl` is
`watermarkTriggerKey.Less`: `wlessFixed` is the code as it stands (after the `fix:` commit), `wlessRaw`
the code as it was shipped.  `groupSpec` is the reference semantics: the row of a group is its key followed by
the aggregates of its non-NULL inputs, present iff the group's net record count is not zero.
-/
namespace Octo.C16
open Octo Octo.Trig Octo.TMap

/-- **Triggers are transparent.**  For every trigger configuration containing at least one primitive trigger
    (any nesting of `MultiTrigger`, any `n`), every aggregate list, every key/argument expressions with keys
    of a fixed length and *every* message list `B` handed to the node (valid or not): the consolidated
    output at end of stream is the table the node holds — one row per key present in the `aggregates` tree —
    which does not depend on the trigger. -/
theorem trigger_transparent (C : GBConf) (nk : Nat) (hK : KeyLen C nk) (hlive : C.cfg.live = true)
    (B : List Msg) (row : Row) :
    net (recs (gbRun wlessFixed C B)) row = tableOf C nk (aggsAfter C (recs B)) row :=
  out_eq_table wlessFixed_laws hK hlive B row

/-- **Two trigger clauses, one result.**  Replacing the trigger configuration by any other one changes
    nothing in the consolidated output — in particular every TRIGGER clause gives what the default
    (ON END OF STREAM) gives. -/
theorem trigger_independent (C : GBConf) (nk : Nat) (hK : KeyLen C nk) (cfg₁ cfg₂ : TCfg)
    (h₁ : cfg₁.live = true) (h₂ : cfg₂.live = true) (B : List Msg) (row : Row) :
    net (recs (gbRun wlessFixed { C with cfg := cfg₁ } B)) row =
      net (recs (gbRun wlessFixed { C with cfg := cfg₂ } B)) row := by
  rw [trigger_transparent { C with cfg := cfg₁ } nk hK h₁, trigger_transparent { C with cfg := cfg₂ } nk hK h₂]
  rfl

/-- **The table is the batch grouping.**  For valid changelogs and aggregates that satisfy the C14
    contract, what the node holds after the records `rs` is the reference GROUP BY of `rs`. -/
theorem table_is_groupSpec (C : GBConf) (nk : Nat) (hC : ConfGood C nk) (rs : List Rec) (hv : ValidLog rs)
    (row : Row) : tableOf C nk (aggsAfter C rs) row = groupSpec C nk rs row :=
  table_eq_spec C nk hC rs hv row

/-- **The event-time buffer only reorders.** -/
theorem buffer_preserves_net (s : List Msg) (hs : EtInRange s) (row : Row) :
    net (recs (buffer s)) row = net (recs s) row := net_buffer s hs row

/-- the inputs the property speaks about: a valid watermarked changelog -/
structure ValidInput (C : GBConf) (s : List Msg) : Prop where
  /-- no prefix retracts a row that is not present … -/
  valid : ValidLog (recs s)
  /-- … also in the order in which the event-time buffer releases the records (automatic when a
      retraction carries the event time of the row it retracts, e.g. when event time is a column) -/
  validBuffered : ValidLog (recs (buffer s))
  /-- event times are `time.Time`s of int64 nanoseconds -/
  etRange : EtInRange s
  /-- the expressions can be evaluated on every record and the time indices are within the key -/
  noPanic : ∀ r ∈ recs s, stepOk C r.vals = true

/-- the full-strength statement of the property, for a given `watermarkTriggerKey.Less` -/
def Statement (wl : WKey → WKey → Bool) : Prop :=
  ∀ (C : GBConf) (nk : Nat), ConfGood C nk → C.cfg.live = true → ∀ s : List Msg, ValidInput C s →
    ∃ out, run wl C s = some out ∧ ∀ row, net (recs out) row = groupSpec C nk (recs s) row

/-- **C16, full strength, on the current tree**: every trigger configuration (any nesting, any `n`), every
    aggregate list satisfying the C14 contract, every valid watermarked input of any length: the node does
    not panic and its consolidated output at end of stream is the batch grouping of the input. -/
theorem C16_full : Statement wlessFixed := by
  intro C nk hC hlive s hs
  have hall : (recs s).all (fun r => stepOk C r.vals) = true := by
    rw [List.all_eq_true]; exact hs.noPanic
  refine ⟨gbRun wlessFixed C (buffer s), by simp [run, hall], fun row => ?_⟩
  rw [trigger_transparent C nk hC.keyLen hlive, table_eq_spec C nk hC _ hs.validBuffered]
  exact groupSpec_congr C nk hC _ _ (fun row' => net_buffer s hs.etRange row') hs.validBuffered hs.valid row

/-- **The second validity hypothesis is automatic when the event time is a function of the row** (a record's
    event time is one of its columns, as it is whenever the stream is grouped by its time field; or no record
    has an event time): the event-time buffer keeps the order of the records of one event time, so a valid
    changelog is still valid in the order in which it is released. -/
theorem validBuffered_of_etByRow (s : List Msg) (hs : EtInRange s) (hE : EtByRow (recs s))
    (hv : ValidLog (recs s)) : ValidLog (recs (buffer s)) :=
  validLog_buffer s hs hE hv

/-- C16 for streams whose event time is determined by the row: one validity hypothesis, on the input as given. -/
theorem C16_event_time_column (C : GBConf) (nk : Nat) (hC : ConfGood C nk) (hlive : C.cfg.live = true)
    (s : List Msg) (hv : ValidLog (recs s)) (hE : EtByRow (recs s)) (hr : EtInRange s)
    (hp : ∀ r ∈ recs s, stepOk C r.vals = true) :
    ∃ out, run wlessFixed C s = some out ∧ ∀ row, net (recs out) row = groupSpec C nk (recs s) row :=
  C16_full C nk hC hlive s ⟨hv, validLog_buffer s hr hE hv, hr, hp⟩

/-- **`SimpleGroupBy` — the node the planner picks for the default trigger — computes the batch grouping.** -/
theorem simple_is_groupSpec (C : GBConf) (nk : Nat) (hC : ConfGood C nk) (s : List Msg) (hv : ValidLog (recs s))
    (row : Row) : net (recs (simpleRun C s)) row = groupSpec C nk (recs s) row := by
  rw [simple_eq_table C nk hC.keyLen, table_eq_spec C nk hC _ hv]

/-- **Any TRIGGER clause gives what no TRIGGER clause gives**: the custom-trigger node (any configuration,
    behind its event-time buffer) and `SimpleGroupBy` agree on the consolidated result of every valid input. -/
theorem custom_eq_simple (C : GBConf) (nk : Nat) (hC : ConfGood C nk) (hlive : C.cfg.live = true) (s : List Msg)
    (hs : ValidInput C s) (row : Row) :
    net (recs (gbRun wlessFixed C (buffer s))) row = net (recs (simpleRun C s)) row := by
  obtain ⟨out, hrun, hnet⟩ := C16_full C nk hC hlive s hs
  have hall : (recs s).all (fun r => stepOk C r.vals) = true := by
    rw [List.all_eq_true]; exact hs.noPanic
  simp only [run, hall, if_true, Option.some.injEq] at hrun
  rw [hrun, hnet row, simple_is_groupSpec C nk hC s hs.valid]

/-! ## Non-vacuity, and the refutation of the code as shipped -/

/-- GROUP BY (column 0, column 1), count(column 2), event time = key column 0 -/
def exConf (cfg : TCfg) : GBConf where
  keyOf := fun v => [v.getD 0 .null, v.getD 1 .null]
  aggs := [⟨aggCount, fun v => v.getD 2 .null⟩]
  ket := some 0
  cfg := cfg
  recOk := fun v => decide (3 ≤ v.length)

theorem cmpList_getD {a b : List Value} (h : cmpList a b = 0) (i : Nat) :
    cmp (a.getD i .null) (b.getD i .null) = 0 := by
  induction a generalizing b i with
  | nil =>
    cases b with
    | nil => simp [cmpWith]
    | cons y ys => simp [cmpListWith] at h
  | cons x xs ih =>
    cases b with
    | nil => simp [cmpListWith] at h
    | cons y ys =>
      simp only [cmpListWith] at h
      split at h
      · rename_i hc; simp at hc; omega
      · rename_i hc
        simp at hc
        cases i with
        | zero => simpa using hc
        | succ j => simpa using ih h j

/-- `count` satisfies the C14 contract: it is the signed size of the history, a function of the net multiset -/
theorem aggCount_ok : AggOK aggCount := by
  intro h₁ h₂ _ _ hnet
  -- a history is a changelog of one-column rows
  let toRecs : Hist → List Rec := fun h => h.map fun x => ⟨[x.2], x.1, none⟩
  have hcount : ∀ h : Hist, aggCount h = .int (countOf (toRecs h)) := by
    intro h
    have : ∀ (c : Int), h.foldl (fun c x => if x.1 then c - 1 else c + 1) c = c + countOf (toRecs h) := by
      induction h with
      | nil => intro c; simp [toRecs, countOf]
      | cons x xs ih =>
        intro c
        simp only [List.foldl_cons, ih, toRecs, List.map_cons, countOf_cons, sign]
        cases x.1 <;> simp <;> omega
    simp only [aggCount, this]; simp
  have hnetR : ∀ (h : Hist) (row : Row), net (toRecs h) row =
      match row with
      | [v] => netH h v
      | _ => 0 := by
    intro h row
    induction h with
    | nil => cases row with
      | nil => rfl
      | cons v vs => cases vs <;> rfl
    | cons x xs ih =>
      simp only [toRecs, List.map_cons, net, weight_eq_sign, sign] at ih ⊢
      rw [ih]
      cases row with
      | nil => simp [rowEq, cmpListWith]
      | cons v vs =>
        cases vs with
        | nil =>
          simp only [netH, List.map_cons, List.sum_cons, rowEq, cmpListWith]
          by_cases hc : cmp x.2 v = 0
          · simp [hc]
          · simp [hc]
        | cons w ws =>
          simp only [rowEq, cmpListWith]
          by_cases hc : cmp x.2 v = 0 <;> simp [hc]
  have : countOf (toRecs h₁) = countOf (toRecs h₂) := by
    apply count_eq_of_net_eq
    intro row
    rw [hnetR, hnetR]
    cases row with
    | nil => rfl
    | cons v vs => cases vs <;> simp [hnet]
  rw [hcount, hcount, this]
  exact cmpWith_refl cmpFloatFixed_laws _

/-- the hypotheses of `C16_full` on the configuration are satisfiable -/
theorem exConf_good (cfg : TCfg) : ConfGood (exConf cfg) 2 where
  keyLen := fun _ => rfl
  keyCongr := by
    intro a b h
    have h0 := cmpList_getD (keq_iff.mp h) 0
    have h1 := cmpList_getD (keq_iff.mp h) 1
    simp only [exConf, keq, cmpListWith, h0, h1]
    simp
  aggs := by
    intro x hx
    simp only [exConf, List.mem_singleton] at hx
    subst hx
    exact ⟨aggCount_ok, fun a b h => cmpList_getD (keq_iff.mp h) 2⟩

/-- two groups with the same instant in two locations (`GROUP BY time, id` on timestamps with a +00:30 offset) -/
def wS : List Msg :=
  [.data ⟨[.time 1000 0, .int 0, .int 1], false, some 1000⟩,
   .data ⟨[.time 1000 101, .int 1, .int 1], false, some 1000⟩]
def wRow : Row := [.time 1000 0, .int 0, .int 1]

theorem validLog_of_additions (L : List Rec) (h : ∀ r ∈ L, r.retr = false) : ValidLog L := by
  intro n row
  have hsub : ∀ r ∈ L.take n, r.retr = false := fun r hr => h r (List.take_subset _ _ hr)
  generalize L.take n = M at hsub
  induction M with
  | nil => simp [net]
  | cons r rs ih =>
    have h1 := hsub r (by simp)
    have h2 := ih (fun x hx => hsub x (by simp [hx]))
    simp only [net, Rec.weight, h1]
    split <;> simp <;> omega

theorem wS_valid (cfg : TCfg) (hcfg : cfg.init.idxOk 2 = true) : ValidInput (exConf cfg) wS where
  valid := validLog_of_additions _ (by decide)
  validBuffered := validLog_of_additions _ (by decide)
  etRange := by
    intro r hr t ht
    simp only [wS, recs, List.mem_cons, List.not_mem_nil, or_false] at hr
    rcases hr with rfl | rfl <;> simp at ht <;> subst ht <;> decide
  noPanic := by
    intro r hr
    simp only [wS, recs, List.mem_cons, List.not_mem_nil, or_false] at hr
    rcases hr with rfl | rfl <;> simp [stepOk, exConf, hcfg]

/-- on this input the batch grouping has the row of group `(1000, 0)` … -/
example : groupSpec (exConf (.watermark 0)) 2 (recs wS) wRow = 1 := by decide
/-- … the current code emits it (for every configuration, by `C16_full`; here three of them, evaluated) … -/
example : (run wlessFixed (exConf (.watermark 0)) wS).map (fun o => net (recs o) wRow) = some 1 := by decide
example : (run wlessFixed (exConf (.multi [.counting 2, .watermark 0])) wS).map (fun o => net (recs o) wRow) = some 1 := by
  decide
example : (run wlessFixed (exConf (.counting 3)) wS).map (fun o => net (recs o) wRow) = some 1 := by decide
/-- … and the code as shipped loses it: the second key replaces the first in the trigger's tree. -/
theorem raw_loses_key : (run wlessRaw (exConf (.watermark 0)) wS).map (fun o => net (recs o) wRow) = some 0 := by
  decide

/-- **the code before the repair violates C16** (`TRIGGER ON WATERMARK`, two keys with one instant in two locations) -/
theorem C16_refuted_raw : ¬ Statement wlessRaw := by
  intro h
  obtain ⟨out, hrun, hnet⟩ := h (exConf (.watermark 0)) 2 (exConf_good _) rfl wS (wS_valid _ (by decide))
  have h1 := raw_loses_key
  rw [hrun] at h1
  simp only [Option.map_some, Option.some.injEq] at h1
  have h2 : groupSpec (exConf (.watermark 0)) 2 (recs wS) wRow = 1 := by decide
  rw [hnet wRow, h2] at h1
  exact absurd h1 (by decide)

end Octo.C16
