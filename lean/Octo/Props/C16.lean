import Octo.Lemmas.TriggerGroupBy
/-!
# C16 — Triggers change when results appear, never what the final result is

Property: for every GROUP BY, every input stream and every TRIGGER combination (COUNTING n, ON WATERMARK,
ON END OF STREAM, in any combination) the consolidated output at end of stream equals the plain batch
grouping of the input.

Model: `Octo.Model.Triggers` (`execution/triggers.go`, `physical/triggers.go`) and
`Octo.Model.TriggerGroupBy` (`execution/nodes/custom_trigger_group_by.go` behind the `EventTimeBuffer`),
tied to the code by the exact-output correspondence run of every check.  `wl` is
`watermarkTriggerKey.Less`: `wlessFixed` is the code as it stands (after the `fix:` commit), `wlessRaw`
the code as it was shipped.
-/
namespace Octo.C16
open Octo Octo.Trig

/-- **Triggers are transparent.**  For every trigger configuration containing at least one primitive trigger
    (any nesting of `MultiTrigger`, any `n`), every aggregate list, every key/argument expressions with keys
    of a fixed length and *every* message list `B` handed to the node (valid or not): the consolidated
    output at end of stream is the table the node holds — one row per key present in the `aggregates` tree —
    which does not depend on the trigger. -/
theorem trigger_transparent (C : GBConf) (nk : Nat) (hK : KeyLen C nk) (hlive : C.cfg.live = true)
    (B : List Msg) (row : Row) :
    net (recs (gbRun wlessFixed C B)) row = tableOf C nk (aggsAfter C (recs B)) row :=
  out_eq_table wlessFixed_laws hK hlive B row

end Octo.C16
