import Octo.Model.TriggerGroupBy
/-! # C16 — placeholder while the pipeline is brought up -/
namespace Octo.C16
open Octo Octo.Trig

theorem placeholder : True := trivial

end Octo.C16
