import Octo.Lemmas.PluginsSpec
import Octo.Gen.InstallSteps
/-!
  C28 — Installed plugins are discovered and versions resolved correctly.

  The model (`Octo.Plugins`) mirrors `ListInstalledPlugins`, the `dbLoop` of `cmd/root.go`, `Install`'s selection
  loop and `GetManifest`'s sort. The version library is a parameter `S : Sem V C`; the only thing assumed of it is
  that `GreaterThan` is a strict total order on the versions that occur (`OrderLaws`, sampled against the real
  library by the `semver` ops of the check).

  All theorems are for every file tree, every plugin name (any characters, dashes included), every list of
  versions, every constraint.
-/
namespace Octo.C28
open Octo.Fs Octo.Plugins

/-! ### discovery: the name -/

/-- a plugin installed as `octosql-plugin-<n>` is found under exactly the name `n`, whatever `n` contains -/
theorem name_roundtrip (n : FName) : nameOfDir (pluginDirName n) = n := nameOfDir_pluginDirName n

/-- two different plugin names never end up under the same reference -/
theorem name_injective (n n' : FName) (h : nameOfDir (pluginDirName n) = nameOfDir (pluginDirName n')) : n = n' := by
  simpa [name_roundtrip] using h

/-- the parse that was in the code before the repair (everything after the last dash) fails on every name with a dash… -/
example : nameOfDirLastDash (pluginDirName (lit "my-plugin")) = lit "plugin" := by decide
/-- …and confuses different plugins -/
example : nameOfDirLastDash (pluginDirName (lit "a-x")) = nameOfDirLastDash (pluginDirName (lit "b-x")) := by decide
example : nameOfDir (pluginDirName (lit "my-plugin")) = lit "my-plugin" := by decide

/-! ### the sort -/

/-- `sort.Slice(…GreaterThan…)` as modelled returns the same versions… -/
theorem sort_mem {V : Type} (gt : V → V → Bool) (l : List V) (v : V) : v ∈ sortDesc gt l ↔ v ∈ l := mem_sortDesc gt

theorem sort_length {V : Type} (gt : V → V → Bool) (l : List V) : (sortDesc gt l).length = l.length := length_sortDesc gt l

/-- …in descending order: nothing later is greater than anything earlier -/
theorem sort_desc {V : Type} {gt : V → V → Bool} (L : OrderLaws gt) (l : List V) :
    (sortDesc gt l).Pairwise (fun a b => gt b a = false) := desc_sortDesc L l

/-! ### resolution and install selection on lists -/

/-- the first version of the sorted list that passes the constraint is the greatest installed version that passes it;
    there is none iff no installed version passes -/
theorem resolve_max {V C : Type} {gt : V → V → Bool} (L : OrderLaws gt) (check : C → V → Bool) (c : C) (vs : List V) (v : V) :
    (sortDesc gt vs).find? (check c) = some v ↔
      v ∈ vs ∧ check c v = true ∧ ∀ w ∈ vs, check c w = true → gt w v = false :=
  find?_sortDesc_eq_some_iff L

theorem resolve_none {V C : Type} {gt : V → V → Bool} (check : C → V → Bool) (c : C) (vs : List V) :
    (sortDesc gt vs).find? (check c) = none ↔ ∀ w ∈ vs, check c w = false :=
  find?_sortDesc_eq_none_iff

/-- `Install` (after `GetManifest`'s sort): with a constraint the greatest manifest version passing it, without one the
    greatest version that is not a prerelease -/
theorem install_pick {V C : Type} (S : Sem V C) (L : OrderLaws S.gt) (c : Option C) (manifest : List V) (v : V) :
    installPick S c manifest = some v ↔
      v ∈ manifest ∧
      (match c with | some c => S.check c v = true | none => S.pre v = false) ∧
      ∀ w ∈ manifest, (match c with | some c => S.check c w = true | none => S.pre w = false) → S.gt w v = false := by
  cases c with
  | some c => exact find?_sortDesc_eq_some_iff L
  | none =>
    have := find?_sortDesc_eq_some_iff L (p := fun v => !S.pre v) (l := manifest) (v := v)
    simpa [installPick, pick, IsMaxSat] using this

theorem install_pick_none {V C : Type} (S : Sem V C) (c : Option C) (manifest : List V) :
    installPick S c manifest = none ↔
      ∀ w ∈ manifest, (match c with | some c => S.check c w = false | none => S.pre w = true) := by
  cases c with
  | some c => exact find?_sortDesc_eq_none_iff
  | none =>
    have := find?_sortDesc_eq_none_iff (gt := S.gt) (p := fun v => !S.pre v) (l := manifest)
    simpa [installPick, pick] using this

example : installPick (V := Nat) (C := Nat)
    { parse := fun _ => none, toStr := fun _ => [], gt := fun a b => decide (a > b), check := fun c v => decide (v ≤ c),
      pre := fun v => v % 2 = 1, star := 0, handlersOk := fun _ => true, repoEntryOk := fun _ => true }
    none [3, 8, 5, 6, 9] = some 8 := by decide

/-! ### discovery and resolution on a file tree -/

section tree
variable {V C : Type} (S : Sem V C)

/-- every plugin directory `plugins/<r>/octosql-plugin-<n>` is listed under the reference `<r>/<n>` — exactly `n`, dashes
    or not — with exactly the versions its non-dot entries parse to, in descending order -/
theorem discover_exact (L : OrderLaws S.gt) {fs : Fs} {ms : List (Meta V)} (h : listInstalled S fs = .ok ms) (r n : FName)
    (hP : (get fs pluginsDir).isSome = true) (hR : (get fs (pluginsDir ++ [r])).isSome = true)
    (hD : (get fs (pluginDir ⟨n, r⟩)).isSome = true) :
    ∃ m ∈ ms, m.ref = ⟨n, r⟩ ∧
      (∀ v, v ∈ m.versions ↔ ∃ x, isDot x = false ∧ (get fs (pluginDir ⟨n, r⟩ ++ [x])).isSome = true ∧ S.parse x = some v) ∧
      m.versions.Pairwise (fun a b => S.gt b a = false) := by
  have hok := (listInstalled_isOk_iff S).1 ⟨ms, h⟩
  rcases hok with hnone | ⟨hPd, hall⟩
  · simp [hnone] at hP
  · have hD' : (get fs (pluginsDir ++ [r, pluginDirName n])).isSome = true := hD
    obtain ⟨vs, hvs⟩ := (listVersions_isOk_iff S).2 ((hall r hR).2 _ hD')
    obtain ⟨_, l, hsort, hl⟩ := listVersions_ok S hvs
    refine ⟨⟨⟨nameOfDir (pluginDirName n), r⟩, vs⟩, ?_, by simp [name_roundtrip], ?_, ?_⟩
    · exact (listInstalled_mem S h).2 ⟨hPd, r, _, hR, hD', (listPlugin_ok_iff S).2 ⟨rfl, hvs⟩⟩
    · intro v
      simp only [hsort, mem_sortDesc, hl]
      rfl
    · simp only [hsort]; exact desc_sortDesc L l

/-- the listing fails only on a malformed tree (a file where a directory belongs, or an entry that is no version) -/
theorem listing_succeeds_iff (fs : Fs) : (∃ ms, listInstalled S fs = .ok ms) ↔ ListOk S fs := listInstalled_isOk_iff S

/-- start-up: every configured database resolves to the greatest installed version of its plugin that passes its
    constraint (`*` when it has none) -/
theorem startup_resolves_max (L : OrderLaws S.gt) {fs : Fs} (hnu : NoUnprefixed fs) {cfg : List (Db C)}
    {res : List (Db C × V)} (h : startup S fs cfg = .ok res) :
    res.map (·.1) = cfg ∧ ∀ e ∈ res, MaxInstalled S fs e.1.type (S.check (e.1.con S)) e.2 := by
  obtain ⟨ms, hms, hmap, _⟩ := (startup_ok_iff S).1 h
  constructor
  · clear h
    induction cfg generalizing res with
    | nil => simp only [mapE] at hmap; cases hmap; rfl
    | cons db rest ih =>
      obtain ⟨y, ys, hy, hys, rfl⟩ := mapE_cons_ok.1 hmap
      simp only [resolveE] at hy
      split at hy
      · cases hy; simp [ih hys]
      · cases hy
  · intro e he
    obtain ⟨db, _, hdb⟩ := (mapE_mem hmap).1 he
    simp only [resolveE] at hdb
    split at hdb
    · next v hv =>
      cases hdb
      exact (resolveDb_eq_some_iff S L hms hnu db v).1 hv
    · cases hdb

/-- … and start-up stops with "not installed with the required version" only if no installed version passes -/
theorem startup_not_installed {fs : Fs} (hnu : NoUnprefixed fs) {cfg : List (Db C)} {ms : List (Meta V)}
    (hms : listInstalled S fs = .ok ms) (db : Db C) (_ : db ∈ cfg) :
    resolveE S ms db = .error (.notInstalled db.name) ↔ ∀ w, Installed S fs db.type w → S.check (db.con S) w = false := by
  rw [← resolveDb_eq_none_iff S hms hnu db]
  simp only [resolveE]
  split <;> simp_all

end tree

/-! ### tie to the current source (regenerated by `vh extract installsteps`) -/

/-- the literal `ListInstalledPlugins` strips is the model's prefix, it is the prefix `Install` and `GetPluginBinaryPath`
    build directory names with, and the entries skipped are the ones starting with "." -/
theorem literals_tie :
    Octo.Gen.InstallSteps.listTrimPrefix.toList = pluginPrefix ∧
    Octo.Gen.InstallSteps.listSkipPrefix = "." ∧
    Octo.Gen.InstallSteps.paths.lookup "Install.pluginDir" =
      some ("filepath.Join(getPluginDir(), repoSlug, fmt.Sprintf(\"" ++ Octo.Gen.InstallSteps.listTrimPrefix ++ "%s\", name))") ∧
    Octo.Gen.InstallSteps.paths.lookup "GetPluginBinaryPath.fullName" =
      some ("fmt.Sprintf(\"" ++ Octo.Gen.InstallSteps.listTrimPrefix ++ "%s\", ref.Name)") := by
  decide

/-! ### the full statement -/

/-- C28 as stated: for every set of installed plugins (file tree) and every configuration, each installed plugin is
    discovered under the exact name it was installed with; every configured database resolves to the highest installed
    version passing its constraint; install selects the highest matching manifest version (highest non-prerelease without
    a constraint). -/
def Statement : Prop :=
  ∀ (V C : Type) (S : Sem V C), OrderLaws S.gt →
    -- discovery
    (∀ (fs : Fs) (ms : List (Meta V)), listInstalled S fs = .ok ms → ∀ r n : FName,
        (get fs pluginsDir).isSome = true → (get fs (pluginsDir ++ [r])).isSome = true →
        (get fs (pluginDir ⟨n, r⟩)).isSome = true →
        ∃ m ∈ ms, m.ref = ⟨n, r⟩ ∧
          (∀ v, v ∈ m.versions ↔ ∃ x, isDot x = false ∧ (get fs (pluginDir ⟨n, r⟩ ++ [x])).isSome = true ∧ S.parse x = some v) ∧
          m.versions.Pairwise (fun a b => S.gt b a = false)) ∧
    -- resolution
    (∀ (fs : Fs) (cfg : List (Db C)) (res : List (Db C × V)), NoUnprefixed fs → startup S fs cfg = .ok res →
        res.map (·.1) = cfg ∧ ∀ e ∈ res, MaxInstalled S fs e.1.type (S.check (e.1.con S)) e.2) ∧
    -- install selection
    (∀ (c : Option C) (manifest : List V) (v : V), installPick S c manifest = some v ↔
        v ∈ manifest ∧ (match c with | some c => S.check c v = true | none => S.pre v = false) ∧
        ∀ w ∈ manifest, (match c with | some c => S.check c w = true | none => S.pre w = false) → S.gt w v = false)

theorem C28_full : Statement := by
  intro V C S L
  exact ⟨fun fs ms h r n hP hR hD => discover_exact S L h r n hP hR hD,
         fun fs cfg res hnu h => startup_resolves_max S L hnu h,
         fun c manifest v => install_pick S L c manifest v⟩

end Octo.C28
