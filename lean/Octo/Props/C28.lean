import Octo.Model.Plugins
namespace Octo.C28
theorem placeholder : True := trivial
end Octo.C28
