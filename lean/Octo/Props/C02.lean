import Octo.Lemmas.SqlJoinTop
/-!
# C02 — Join results match relational join semantics (query level)

Property C02: for every inner JOIN, LOOKUP JOIN and LEFT/RIGHT/FULL OUTER JOIN query and every pair of inputs, the
output is the SQL join of the inputs. An equality condition never matches NULL keys, and every unmatched row of an
outer side appears exactly once, padded with NULLs. This holds whichever input finishes first.

* the SQL side is `Octo.SqlJoin.joinSem` (`Octo/Spec/JoinSem.lean`): nested loops, "ON evaluates to TRUE",
  unmatched rows of an outer side once with NULLs, then WHERE, then the SELECT list;
* the engine side is `Octo.SqlJoin.runQuery` (`Octo/Model/SqlJoin.lean`): `ParseJoinTableExpression` + the logical
  join nodes (`planOf`: StreamJoin + Filter, LookupJoin + Filter, OuterJoin with keys taken from the ON clause),
  the optimizer rules that move predicates into join branches and join keys (`optimize`), the execution nodes on
  changelogs — Filter, Map, LookupJoin, and StreamJoin / OuterJoin as the schedule machine of `Octo.Model.Join`
  under an arbitrary scheduler — and the consolidating sink;
* "whichever input finishes first" is the universal quantifier over schedulers: a scheduler is any function that
  interleaves the events of the two inputs of a join node (`ValidSched`).

The node-level half (StreamJoin / OuterJoin against the SQL (outer) join of their two input changelogs, for every
interleaving) is `Octo/Props/C02Nodes.lean`; the theorems below are built on it.
-/
namespace Octo.C02
open Octo Octo.Sql Octo.SqlJoin Octo.Join

/-! ### the stages -/

/-- **planner**: read relationally, the plan built for a FROM clause computes the SQL semantics of that FROM
    clause — StreamJoin + Filter for JOIN … ON, LookupJoin + Filter for LOOKUP JOIN, and for the outer joins the
    keys taken from the ON clause say exactly "ON is TRUE" (so a NULL key matches nothing). -/
theorem planner_is_sql {db : Db} (hdb : DbOK db) (f : From) (c : Nat) (p : Plan) (ctx : VRow)
    (h : planOf db f c = some p) (hc : ctx.length = c) : planBag db p ctx = fromSem db f ctx :=
  planOf_sound hdb f c p ctx h hc

/-- **optimizer**: any number of rounds of the predicate-moving rules (`MergeFilters`, pushing a filter into the
    branches of a stream join or a lookup join, turning equality conjuncts into join keys) leave the relation a
    plan computes unchanged. -/
theorem optimizer_preserves {db : Db} (hdb : DbOK db) (p : Plan) (h : p.ok = true) :
    planBag db (optimize db p) [] = planBag db p [] :=
  optimize_planBag hdb p h

/-- one key equality pushed into the join keys: `keys ++ [a = b]` matches iff the keys match and `a = b` is TRUE
    (`pushIntoJoinKey_sound`) -/
theorem pushIntoJoinKey_sound {c wl wr : Nat} {ctx a b : VRow} (hc : ctx.length = c) (ha : a.length = wl) (hb : b.length = wr)
    (parts : List SExpr) :
    parts.all (isTrue (ctx ++ a ++ b)) =
      ((keyParts c wl wr parts).1.all (isTrue (ctx ++ a ++ b)) &&
        keyMatch (keyParts c wl wr parts).2.1 (keyParts c wl wr parts).2.2 ctx a b) :=
  keyParts_match hc ha hb parts

/-- **execution**: for every scheduler, if the plan runs without error, the changelog it produces consolidates
    to the relation the plan computes: every stream join and outer join node under the interleaving the scheduler
    chose for it, retractions of NULL-padded rows included. -/
theorem execution_is_relational {db : Db} (hdb : DbOK db) {sch : Sched} (hs : ValidSched sch) (p : Plan) (ctx : VRow)
    (out : List Rec) (hok : p.ok = true) (h : denote sch db p ctx = some out) :
    ∀ row, net out row = (countRow row (planBag db p ctx) : Int) := by
  intro row
  rw [denote_sound hdb hs p ctx out hok h row, net_asRecs]

/-- **sink**: the count tree of the table printers / of `OrderSensitiveTransform` ends up holding every row as
    often as the changelog's net content says. -/
theorem sink_consolidates (rs : List Rec) (out : List VRow) (h : consolidate [] rs = some out) :
    ∀ row, (countRow row out : Int) = net rs row := by
  intro row
  have := consolidate_count rs [] out h row
  simpa [countRow] using this

/-! ### the property -/

/-- **join_sql**: the engine's result is the SQL join, as a bag -/
theorem join_sql {db : Db} (hdb : DbOK db) {sch : Sched} (hs : ValidSched sch) (opt : Bool) (q : JQuery) (hq : q.ok = true)
    (rows : List VRow) (h : runQuery sch opt q db = some rows) : SameBag rows (joinSem q db) :=
  runQuery_sound hdb hs opt q hq rows h

/-- LOOKUP JOIN (a nested loop that re-runs the joined side per source record): its output is the SQL join -/
theorem lookupJoin_sql {db : Db} (hdb : DbOK db) {sch : Sched} (hs : ValidSched sch) (i j : Nat) (on : SExpr) (hon : predOK on = true)
    (out : List Rec) (h : denote sch db (.filter on (.lookupJoin (.scan i) (.scan j))) [] = some out) :
    ∀ row, net out row = (countRow row (innerPart on [] (tableRows db i) (tableRows db j)) : Int) := by
  have hok : (Plan.filter on (.lookupJoin (.scan i) (.scan j))).ok = true := by simp [Plan.ok, hon]
  have hp : planOf db (.join .lookup (.tbl i) (.tbl j) on) 0 = some (.filter on (.lookupJoin (.scan i) (.scan j))) := rfl
  intro row
  rw [execution_is_relational hdb hs _ [] out hok h row, planOf_sound hdb _ 0 _ [] hp rfl]
  rfl

/-- `Schema.NoRetractions` is sound: a plan that carries the flag produces no retraction under any scheduler —
    the csv/json printers rely on it when they write such a plan's records as they arrive -/
theorem noRetractions_sound {db : Db} {sch : Sched} (hs : ValidSched sch) (p : Plan) (ctx : VRow) (out : List Rec)
    (hflag : p.noRetr = true) (h : denote sch db p ctx = some out) : ∀ r ∈ out, r.retr = false :=
  denote_nr hs p ctx out hflag h

/-- the planner's flag is exact: the plan of a FROM clause is flagged `NoRetractions` iff the clause contains no
    LEFT / RIGHT / FULL OUTER JOIN (stream join and lookup join: left ∧ right; outer join: never). The real
    planner's flags are compared with this node by node (`jf` op lines). -/
theorem planner_flag_exact (db : Db) : ∀ (f : From) (c : Nat) (p : Plan), planOf db f c = some p →
    p.noRetr = !f.mayRetract := by
  intro f
  induction f with
  | tbl i => intro c p h; simp only [planOf, Option.some.injEq] at h; subst h; rfl
  | sub s w ih =>
    intro c p h
    simp only [planOf] at h
    cases hs : planOf db s c with
    | none => simp [hs] at h
    | some ps => simp only [hs, Option.map_some, Option.some.injEq] at h; subst h; simp [Plan.noRetr, From.mayRetract, ih c ps hs]
  | proj s es ih =>
    intro c p h
    simp only [planOf] at h
    cases hs : planOf db s c with
    | none => simp [hs] at h
    | some ps => simp only [hs, Option.map_some, Option.some.injEq] at h; subst h; simp [Plan.noRetr, From.mayRetract, ih c ps hs]
  | join k l r on ihl ihr =>
    intro c p h
    cases k with
    | inner =>
      simp only [planOf] at h
      cases hl : planOf db l c <;> cases hr : planOf db r c <;> simp only [hl, hr] at h <;> try cases h
      simp only [Plan.noRetr, From.mayRetract, wantsLeft, wantsRight, ihl c _ hl, ihr c _ hr]
      cases l.mayRetract <;> cases r.mayRetract <;> rfl
    | lookup =>
      simp only [planOf] at h
      cases hl : planOf db l c <;> cases hr : planOf db r (c + l.width db) <;> simp only [hl, hr] at h <;> try cases h
      simp only [Plan.noRetr, From.mayRetract, wantsLeft, wantsRight, ihl c _ hl, ihr _ _ hr]
      cases l.mayRetract <;> cases r.mayRetract <;> rfl
    | left | right | full =>
      all_goals
        simp only [planOf] at h
        cases hl : planOf db l c <;> cases hr : planOf db r c <;> simp only [hl, hr] at h <;> try cases h
        cases hk : outerKeys c (l.width db) (r.width db) (splitAnd on) <;> simp only [hk, Option.map_none, Option.map_some] at h <;> cases h
        simp [Plan.noRetr, From.mayRetract, wantsLeft, wantsRight]

/-- the same for every kind of sink: table printers (count tree), csv/json (records as they arrive when the plan
    says `NoRetractions`, a count tree in front otherwise), stream_native (the changelog, consolidated by the reader) -/
theorem join_sql_mode {db : Db} (hdb : DbOK db) {sch : Sched} (hs : ValidSched sch) (m : SinkMode) (opt : Bool) (q : JQuery)
    (hq : q.ok = true) (rows : List VRow) (h : runQueryMode m sch opt q db = some rows) : SameBag rows (joinSem q db) :=
  runQueryMode_sound hdb hs m opt q hq rows h

/-- the full-strength statement of C02 for the modelled fragment: every output mode, every scheduler (whichever
    input finishes first), optimizer on or off, every query and all tables -/
def Statement : Prop :=
  ∀ (m : SinkMode) (sch : Sched), ValidSched sch → ∀ (opt : Bool) (db : Db), DbOK db → ∀ (q : JQuery), q.ok = true →
    ∀ rows, runQueryMode m sch opt q db = some rows → SameBag rows (joinSem q db)

theorem C02_full : Statement :=
  fun m _ hs opt _ hdb q hq rows h => join_sql_mode hdb hs m opt q hq rows h

/-- whichever input finishes first: two runs under different schedulers return the same bag -/
theorem schedule_independent {db : Db} (hdb : DbOK db) {s1 s2 : Sched} (h1 : ValidSched s1) (h2 : ValidSched s2)
    (opt : Bool) (q : JQuery) (hq : q.ok = true) (r1 r2 : List VRow)
    (e1 : runQuery s1 opt q db = some r1) (e2 : runQuery s2 opt q db = some r2) : SameBag r1 r2 :=
  fun row => (join_sql hdb h1 opt q hq r1 e1 row).trans (join_sql hdb h2 opt q hq r2 e2 row).symm

/-- `--optimize=false` and the optimized plan return the same bag -/
theorem optimizer_irrelevant {db : Db} (hdb : DbOK db) {s1 s2 : Sched} (h1 : ValidSched s1) (h2 : ValidSched s2)
    (q : JQuery) (hq : q.ok = true) (r1 r2 : List VRow)
    (e1 : runQuery s1 true q db = some r1) (e2 : runQuery s2 false q db = some r2) : SameBag r1 r2 :=
  fun row => (join_sql hdb h1 true q hq r1 e1 row).trans (join_sql hdb h2 false q hq r2 e2 row).symm

/-! ### NULL keys, unmatched rows -/

/-- an equality with a NULL side is never TRUE -/
theorem eq_with_null_is_not_true (row : VRow) (x y : SExpr)
    (h : eval row x = some .null ∨ eval row y = some .null) : isTrue row (.bin .eq x y) = false := by
  rw [isTrue_eq]
  unfold eqKey
  rcases h with h | h
  · rw [h]; cases eval row y <;> rfl
  · rw [h]
    cases hx : eval row x with
    | none => rfl
    | some u =>
      simp only
      by_cases hu : isNullV u = true
      · simp [hu]
      · have : ¬ cmp u .null = 0 := fun h0 => hu ((isNullV_iff u).mpr ((cmp_null_right u).mp h0))
        simp [this]

/-- so the SQL join on `l.i = r.j` contains no pair whose key is NULL … -/
theorem sql_join_has_no_null_keys (i j : Nat) (ctx : VRow) (L R : List VRow) :
    ∀ row ∈ innerPart (.bin .eq (.col i) (.col j)) ctx L R,
      (ctx ++ row)[i]? ≠ some .null ∧ (ctx ++ row)[j]? ≠ some .null := by
  intro row hrow
  simp only [innerPart, List.mem_flatMap, List.mem_map, List.mem_filter] at hrow
  obtain ⟨a, _, b, ⟨_, ht⟩, rfl⟩ := hrow
  rw [← List.append_assoc]
  constructor
  · intro hn
    have := eq_with_null_is_not_true (ctx ++ a ++ b) (.col i) (.col j) (Or.inl hn)
    rw [this] at ht; cases ht
  · intro hn
    have := eq_with_null_is_not_true (ctx ++ a ++ b) (.col i) (.col j) (Or.inr hn)
    rw [this] at ht; cases ht

theorem countRow_zero_of_forall (row : VRow) : ∀ (X : List VRow), (∀ x ∈ X, Sql.rowEq row x = false) → countRow row X = 0
  | [], _ => rfl
  | x :: X, h => by
    simp only [countRow, h x (by simp), Bool.false_eq_true, ↓reduceIte, Nat.zero_add]
    exact countRow_zero_of_forall row X (fun y hy => h y (by simp [hy]))

/-- … and neither does the engine's result (any scheduler, optimized or not): a row whose `i`-th or `j`-th column
    is NULL occurs zero times in the output of `t JOIN u ON t.i = u.j` -/
theorem engine_join_has_no_null_keys {db : Db} (hdb : DbOK db) {sch : Sched} (hs : ValidSched sch) (opt : Bool)
    (a b i j : Nat) (rows : List VRow)
    (h : runQuery sch opt ⟨.join .inner (.tbl a) (.tbl b) (.bin .eq (.col i) (.col j)), none, none⟩ db = some rows)
    (row : VRow) (hnull : row[i]? = some .null ∨ row[j]? = some .null) : countRow row rows = 0 := by
  have hq : (⟨.join .inner (.tbl a) (.tbl b) (.bin .eq (.col i) (.col j)), none, none⟩ : JQuery).ok = true := rfl
  rw [join_sql hdb hs opt _ hq rows h row]
  have hsem : joinSem ⟨.join .inner (.tbl a) (.tbl b) (.bin .eq (.col i) (.col j)), none, none⟩ db =
      innerPart (.bin .eq (.col i) (.col j)) [] (tableRows db a) (tableRows db b) := by
    simp [joinSem, specMap, specFilter, fromSem, wantsLeft, wantsRight]
  rw [hsem]
  apply countRow_zero_of_forall
  intro x hx
  have hk := sql_join_has_no_null_keys i j [] _ _ x hx
  simp only [List.nil_append] at hk
  cases hre : Sql.rowEq row x with
  | false => rfl
  | true =>
    exfalso
    have hc : cmpList row x = 0 := by simpa [Sql.rowEq] using hre
    rcases hnull with hn | hn
    · have := SqlJoin.getElem?_congr hc i
      rw [hn] at this
      cases hxi : x[i]? with
      | none => simp [hxi, optEq] at this
      | some v =>
        simp only [hxi, optEq] at this
        exact hk.1 (by rw [hxi, (cmp_null_left v).mp this])
    · have := SqlJoin.getElem?_congr hc j
      rw [hn] at this
      cases hxj : x[j]? with
      | none => simp [hxj, optEq] at this
      | some v =>
        simp only [hxj, optEq] at this
        exact hk.2 (by rw [hxj, (cmp_null_left v).mp this])

/-- LEFT JOIN: the engine's result is the matching pairs plus every left row without a partner, once, NULL-padded -/
theorem left_join_shape {db : Db} (hdb : DbOK db) {sch : Sched} (hs : ValidSched sch) (opt : Bool)
    (a b : Nat) (on : SExpr) (hon : predOK on = true) (rows : List VRow)
    (h : runQuery sch opt ⟨.join .left (.tbl a) (.tbl b) on, none, none⟩ db = some rows) (row : VRow) :
    countRow row rows =
      countRow row (innerPart on [] (tableRows db a) (tableRows db b)) +
      countRow row (leftPart on [] (tableWidth db b) (tableRows db a) (tableRows db b)) := by
  have hq : (⟨.join .left (.tbl a) (.tbl b) on, none, none⟩ : JQuery).ok = true := by
    simp [JQuery.ok, From.ok, hon]
  rw [join_sql hdb hs opt _ hq rows h row]
  have hsem : joinSem ⟨.join .left (.tbl a) (.tbl b) on, none, none⟩ db =
      innerPart on [] (tableRows db a) (tableRows db b) ++
        leftPart on [] (tableWidth db b) (tableRows db a) (tableRows db b) := by
    simp [joinSem, specMap, specFilter, fromSem, wantsLeft, wantsRight, From.width]
  rw [hsem, countRow_app]

/-- inner JOIN: exactly the pairs on which ON is TRUE (`innerJoin_sql`) -/
theorem innerJoin_sql {db : Db} (hdb : DbOK db) {sch : Sched} (hs : ValidSched sch) (m : SinkMode) (opt : Bool)
    (a b : Nat) (on : SExpr) (hon : predOK on = true) (rows : List VRow)
    (h : runQueryMode m sch opt ⟨.join .inner (.tbl a) (.tbl b) on, none, none⟩ db = some rows) :
    SameBag rows (innerPart on [] (tableRows db a) (tableRows db b)) := by
  have hq : (⟨.join .inner (.tbl a) (.tbl b) on, none, none⟩ : JQuery).ok = true := by
    simp [JQuery.ok, From.ok, hon]
  have hsem : joinSem ⟨.join .inner (.tbl a) (.tbl b) on, none, none⟩ db =
      innerPart on [] (tableRows db a) (tableRows db b) := by
    simp [joinSem, specMap, specFilter, fromSem, wantsLeft, wantsRight]
  rw [← hsem]
  exact join_sql_mode hdb hs m opt _ hq rows h

/-- RIGHT JOIN: the matching pairs plus every right row without a partner, once, NULL-padded -/
theorem right_join_shape {db : Db} (hdb : DbOK db) {sch : Sched} (hs : ValidSched sch) (m : SinkMode) (opt : Bool)
    (a b : Nat) (on : SExpr) (hon : predOK on = true) (rows : List VRow)
    (h : runQueryMode m sch opt ⟨.join .right (.tbl a) (.tbl b) on, none, none⟩ db = some rows) (row : VRow) :
    countRow row rows =
      countRow row (innerPart on [] (tableRows db a) (tableRows db b)) +
      countRow row (rightPart on [] (tableWidth db a) (tableRows db a) (tableRows db b)) := by
  have hq : (⟨.join .right (.tbl a) (.tbl b) on, none, none⟩ : JQuery).ok = true := by
    simp [JQuery.ok, From.ok, hon]
  rw [join_sql_mode hdb hs m opt _ hq rows h row]
  have hsem : joinSem ⟨.join .right (.tbl a) (.tbl b) on, none, none⟩ db =
      innerPart on [] (tableRows db a) (tableRows db b) ++
        rightPart on [] (tableWidth db a) (tableRows db a) (tableRows db b) := by
    simp [joinSem, specMap, specFilter, fromSem, wantsLeft, wantsRight, From.width]
  rw [hsem, countRow_app]

/-- FULL OUTER JOIN: … plus every right row without a partner, once, NULL-padded -/
theorem full_join_shape {db : Db} (hdb : DbOK db) {sch : Sched} (hs : ValidSched sch) (opt : Bool)
    (a b : Nat) (on : SExpr) (hon : predOK on = true) (rows : List VRow)
    (h : runQuery sch opt ⟨.join .full (.tbl a) (.tbl b) on, none, none⟩ db = some rows) (row : VRow) :
    countRow row rows =
      countRow row (innerPart on [] (tableRows db a) (tableRows db b)) +
      countRow row (leftPart on [] (tableWidth db b) (tableRows db a) (tableRows db b)) +
      countRow row (rightPart on [] (tableWidth db a) (tableRows db a) (tableRows db b)) := by
  have hq : (⟨.join .full (.tbl a) (.tbl b) on, none, none⟩ : JQuery).ok = true := by
    simp [JQuery.ok, From.ok, hon]
  rw [join_sql hdb hs opt _ hq rows h row]
  have hsem : joinSem ⟨.join .full (.tbl a) (.tbl b) on, none, none⟩ db =
      innerPart on [] (tableRows db a) (tableRows db b) ++
        leftPart on [] (tableWidth db b) (tableRows db a) (tableRows db b) ++
        rightPart on [] (tableWidth db a) (tableRows db a) (tableRows db b) := by
    simp [joinSem, specMap, specFilter, fromSem, wantsLeft, wantsRight, From.width]
  rw [hsem, countRow_app, countRow_app]

/-- an unmatched left row: its NULL-padded copy is in the SQL result as often as the row is in the left table
    among the unmatched rows — in particular at least once -/
theorem unmatched_left_row_is_padded (on : SExpr) (ctx : VRow) (nR : Nat) (L R : List VRow) (a : VRow) (ha : a ∈ L)
    (hun : ∀ b ∈ R, isTrue (ctx ++ a ++ b) on = false) : a ++ nullRow nR ∈ leftPart on ctx nR L R := by
  simp only [leftPart, List.mem_map, List.mem_filter]
  refine ⟨a, ⟨ha, ?_⟩, rfl⟩
  simp only [Bool.not_eq_true', List.any_eq_false]
  intro b hb
  rw [hun b hb]; simp

/-! ### the defect that was repaired: the eager sinks printed retractions as rows -/

def tEx : Table := ⟨2, [[.int 1, .int 7], [.int 2, .int 8], [.null, .int 9]]⟩
def uEx : Table := ⟨2, [[.int 1, .int 10], [.null, .int 30], [.int 3, .int 40]]⟩
def dbEx : Db := [tEx, uEx]
def onEq : SExpr := .bin .eq (.col 0) (.col 2)
def qInner : JQuery := ⟨.join .inner (.tbl 0) (.tbl 1) onEq, none, none⟩
def qLeft : JQuery := ⟨.join .left (.tbl 0) (.tbl 1) onEq, none, none⟩
def qFull : JQuery := ⟨.join .full (.tbl 0) (.tbl 1) onEq, none, none⟩

/-- what `-o csv` / `-o json` did before the repair (print every record's values, retractions too) depends on
    which input is served first: 5 lines when the left file is read first, 3 when the right one is -/
def RawSinkStatement : Prop :=
  ∀ (s1 s2 : Sched), ValidSched s1 → ValidSched s2 → ∀ (q : JQuery) (db : Db) (r1 r2 : List VRow),
    runQueryRaw s1 true q db = some r1 → runQueryRaw s2 true q db = some r2 → r1.length = r2.length

theorem eager_sink_before_fix_refuted : ¬ RawSinkStatement := by
  intro h
  have := h leftFirst rightFirst leftFirst_valid rightFirst_valid qLeft dbEx _ _ rfl rfl
  revert this
  decide

/-- the flag rule before `fix: outer join schema must not claim NoRetractions` (both inputs retraction-free) -/
def noRetrOld : Plan → Bool
  | .scan _ => true
  | .filter _ s => noRetrOld s
  | .map _ s => noRetrOld s
  | .streamJoin _ _ l r => noRetrOld l && noRetrOld r
  | .outerJoin _ _ _ _ l r => noRetrOld l && noRetrOld r
  | .lookupJoin s j => noRetrOld s && noRetrOld j

/-- … was not sound: a LEFT JOIN of two files retracts a NULL-padded row when the match arrives later -/
theorem old_noRetractions_flag_refuted :
    ¬ (∀ (sch : Sched), ValidSched sch → ∀ (db : Db) (p : Plan) (out : List Rec), noRetrOld p = true →
        denote sch db p [] = some out → out.all (fun r => !r.retr) = true) := by
  intro h
  have := h leftFirst leftFirst_valid dbEx (.outerJoin true false [.col 0] [.col 0] (.scan 0) (.scan 1)) _ rfl rfl
  revert this
  decide

/-! ### non-vacuity -/
example : DbOK dbEx := by
  intro t ht r hr
  simp only [dbEx, List.mem_cons, List.mem_nil_iff, or_false] at ht
  rcases ht with rfl | rfl <;> simp only [tEx, uEx, List.mem_cons, List.mem_nil_iff, or_false] at hr <;>
    rcases hr with rfl | rfl | rfl <;> rfl
example : qLeft.ok = true := rfl
example : ValidSched alternate := alternate_valid
example : ValidSched leftFirst := leftFirst_valid
example : ValidSched rightFirst := rightFirst_valid
/-- the optimizer turns the ON equality into join keys -/
example : (planQ dbEx qInner).map (optimize dbEx) = some (.streamJoin [.col 0] [.col 0] (.scan 0) (.scan 1)) := rfl
/-- a LEFT JOIN run: the NULL-keyed row and the unmatched row are padded, NULL does not match NULL -/
example : runQuery alternate true qLeft dbEx =
    some [[.int 1, .int 7, .int 1, .int 10], [.int 2, .int 8, .null, .null], [.null, .int 9, .null, .null]] := rfl
example : runQuery leftFirst false qLeft dbEx =
    some [[.int 2, .int 8, .null, .null], [.null, .int 9, .null, .null], [.int 1, .int 7, .int 1, .int 10]] := rfl
example : (runQuery alternate true qFull dbEx).map (·.length) = some 5 := rfl
/-- the inner join carries the flag (its records are printed as they arrive), the outer joins do not -/
example : (planQ dbEx qInner).map Plan.noRetr = some true := rfl
example : (planQ dbEx qLeft).map Plan.noRetr = some false := rfl
example : runQueryMode .eager rightFirst true qInner dbEx = some [[.int 1, .int 7, .int 1, .int 10]] := rfl
example : (runQueryMode .eager leftFirst true qLeft dbEx).map (·.length) = some 3 := rfl
example : joinSem qLeft dbEx =
    [[.int 1, .int 7, .int 1, .int 10], [.int 2, .int 8, .null, .null], [.null, .int 9, .null, .null]] := rfl

end Octo.C02
