import Octo.Spec.JoinSem
import Octo.Props.C02Nodes
/-! C02 (query level) — placeholder while the pipeline is brought up. -/
namespace Octo.C02
open Octo Octo.Sql Octo.SqlJoin

theorem splitAnd_ne_nil (e : SExpr) : splitAnd e ≠ [] := by
  induction e <;> simp [splitAnd, *]

end Octo.C02
