import Octo.Model.TvfSpec
/-! C21 — tumble, range and poll produce their documented streams (work in progress) -/
namespace Octo.C21
open Octo Octo.Tvf Octo.TvfSpec

/-- the window has the configured length -/
theorem window_len (t len off : Int) : windowEnd t len off - windowStart t len off = len := by
  unfold windowEnd; omega

end Octo.C21
