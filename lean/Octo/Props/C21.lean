import Octo.Lemmas.Tvf
/-!
# C21 — tumble, range and poll produce their documented streams

Property: tumble gives every record `window_start ≤ time < window_end`, with `window_end − window_start` equal to the
window length and `window_start − offset` a multiple of it; other fields and watermarks pass unchanged.
`range(start, end)` emits each integer in `[start, end)` once, in ascending order.  Each poll round retracts the
previous snapshot, emits the current one and then a watermark.

Models (`Octo.Model.Tvf`, tied to `table_valued_functions/{tumble,range,poll}.go` by the exact differential run of
every check): `windowStart`/`windowEnd`/`tumbleMsgs`/`tumbleRun`, `rangeLoop`/`rangeInts`/`rangeRun`,
`pollFrom`/`pollRun`.  Specifications (`Octo.Model.TvfSpec`): `IsWindow`, `TumbleOk`, `rangeSpec`, `rounds`, `Timely`.
All theorems quantify over **all** instants, lengths, offsets, streams, snapshots, clocks and round counts.
-/
namespace Octo.C21
open Octo Octo.Tvf Octo.TvfSpec

/-! ## tumble: the window arithmetic -/

/-- `window_start ≤ time < window_end` -/
theorem window_contains (t len off : Int) (hlen : 0 < len) (hoff : I64 off) (hne : off ≠ minI64) :
    windowStart t len off ≤ t ∧ t < windowEnd t len off := by
  have := window_isWindow t len off hlen (by unfold I64 at hoff; omega) hoff.2
  exact ⟨this.1, this.2.1⟩

/-- `window_end − window_start` is the window length (for every length and offset) -/
theorem window_len (t len off : Int) : windowEnd t len off - windowStart t len off = len := by
  unfold windowEnd; omega

/-- `window_start − offset` is a multiple of the window length, counted from Go's zero time (what `Truncate` documents) -/
theorem window_aligned (t len off : Int) (hlen : 0 < len) (hoff : I64 off) (hne : off ≠ minI64) :
    (windowStart t len off - off - zeroUnix) % len = 0 :=
  (window_isWindow t len off hlen (by unfold I64 at hoff; omega) hoff.2).2.2.2

/-- the three conditions of the property determine the window: the code's answer is the only one -/
theorem window_unique (t len off ws we : Int) (hlen : 0 < len) (hoff : I64 off) (hne : off ≠ minI64)
    (h : IsWindow t len off ws we) : ws = windowStart t len off ∧ we = windowEnd t len off :=
  Tvf.window_unique t len off ws we hlen (by unfold I64 at hoff; omega) hoff.2 h

/-- consecutive windows tile the time line: the window of `window_end` starts at `window_end` -/
theorem window_next (t len off : Int) (hlen : 0 < len) (hoff : I64 off) (hne : off ≠ minI64) :
    windowStart (windowEnd t len off) len off = windowEnd t len off := by
  have h1 : minI64 < off := by unfold I64 at hoff; omega
  have hw := window_isWindow t len off hlen h1 hoff.2
  have hu := Tvf.window_unique (windowEnd t len off) len off (windowEnd t len off) (windowEnd t len off + len)
    hlen h1 hoff.2
  refine (hu ⟨Int.le_refl _, by omega, by omega, ?_⟩).1.symm
  obtain ⟨_, _, h3, h4⟩ := hw
  have : windowEnd t len off - off - zeroUnix = (windowStart t len off - off - zeroUnix) + len := by omega
  rw [this, Int.add_emod, h4]; simp

/-! ## tumble: the stream -/

/-- every record gets exactly its window appended, everything else (other fields, flag, event time, order,
    watermarks) is unchanged, and the run ends normally — for every stream whose records carry a time at `idx` -/
theorem tumble_stream (c : TumbleCfg) (idx : Nat) (hc : c.idx = idx) (hlen : 0 < c.len) (hoff : I64 c.off)
    (hne : c.off ≠ minI64) (ms : List Msg) (ht : Timed idx ms) :
    (tumbleMsgs c ms).2 = .ok ∧ TumbleOk idx c.len c.off ms (tumbleMsgs c ms).1 :=
  tumbleMsgs_spec c idx hc hlen (by unfold I64 at hoff; omega) hoff.2 ms ht

/-- watermarks pass through unchanged (same values, same order) -/
theorem tumble_watermarks (c : TumbleCfg) (idx : Nat) (hc : c.idx = idx) (hlen : 0 < c.len) (hoff : I64 c.off)
    (hne : c.off ≠ minI64) (ms : List Msg) (ht : Timed idx ms) : wms (tumbleMsgs c ms).1 = wms ms :=
  tumbleOk_wms_eq (tumble_stream c idx hc hlen hoff hne ms ht).2

/-- with a consumer that fails after `budget` messages and a source that may fail at its end: the output is the
    documented image of the prefix of the input that got through, and the run reports the first failure -/
theorem tumble_run (c : TumbleCfg) (idx : Nat) (hc : c.idx = idx) (hlen : 0 < c.len) (hoff : I64 c.off)
    (hne : c.off ≠ minI64) (src : List Msg × Bool) (budget : Option Nat) (ht : Timed idx src.1) :
    TumbleOk idx c.len c.off (src.1.take (tumbleRun c src budget).1.length) (tumbleRun c src budget).1 ∧
    (tumbleRun c src budget).1.length = (match budget with | none => src.1.length | some b => min b src.1.length) ∧
    (tumbleRun c src budget).2 =
      (match budget with
       | some b => if src.1.length > b then .errBudget else (if src.2 then .errSource else .ok)
       | none => if src.2 then .errSource else .ok) := by
  obtain ⟨hs, hok⟩ := tumble_stream c idx hc hlen hoff hne src.1 ht
  have hl := tumbleOk_length_eq hok
  cases budget with
  | none =>
    simp only [tumbleRun, cut, hs, true_and, hl, List.take_length]
    exact ⟨hok, trivial⟩
  | some b =>
    simp only [tumbleRun, cut, hs, true_and, hl]
    by_cases hb : src.1.length > b
    · simp only [hb, if_true, List.length_take, hl]
      have hmin : min b src.1.length = b := by omega
      rw [hmin]
      exact ⟨tumbleOk_take b hok, trivial, trivial⟩
    · simp only [hb, if_false, hl, List.take_length]
      have hmin : min b src.1.length = src.1.length := by omega
      rw [hmin]
      exact ⟨hok, rfl, trivial⟩

/-- tumble creates no late data and keeps watermarks increasing: event times and watermarks are untouched -/
theorem tumble_timely (c : TumbleCfg) (idx : Nat) (hc : c.idx = idx) (hlen : 0 < c.len) (hoff : I64 c.off)
    (hne : c.off ≠ minI64) (ms : List Msg) (ht : Timed idx ms) (w : Option Int) (h : Timely w ms) :
    Timely w (tumbleMsgs c ms).1 :=
  tumbleOk_timely w (tumble_stream c idx hc hlen hoff hne ms ht).2 h

/-- … also with respect to the time field the output schema declares (`window_end`): a record whose time is above
    a watermark has its `window_end` above that watermark -/
theorem tumble_window_end_not_late (t len off W : Int) (hlen : 0 < len) (hoff : I64 off) (hne : off ≠ minI64)
    (h : W < t) : W < windowEnd t len off := by
  have := (window_contains t len off hlen hoff hne).2
  omega

/-- the declared `NoRetractions` (copied from the source) is honoured -/
theorem tumble_no_retractions (c : TumbleCfg) (idx : Nat) (hc : c.idx = idx) (hlen : 0 < c.len) (hoff : I64 c.off)
    (hne : c.off ≠ minI64) (ms : List Msg) (ht : Timed idx ms) (h : ∀ r ∈ recs ms, r.retr = false) :
    ∀ r ∈ recs (tumbleMsgs c ms).1, r.retr = false :=
  tumbleOk_no_retractions (tumble_stream c idx hc hlen hoff hne ms ht).2 h

/-- a record without a value at the time field index (Go: index out of range): the documented image of everything
    before it has been emitted, then the run panics -/
theorem tumble_panic_prefix (c : TumbleCfg) (idx : Nat) (hc : c.idx = idx) (hlen : 0 < c.len) (hoff : I64 c.off)
    (hne : c.off ≠ minI64) (pre post : List Msg) (r : Rec) (ht : Timed idx pre) (hr : r.vals[idx]? = none) :
    (tumbleMsgs c (pre ++ .data r :: post)).2 = .panic ∧
    TumbleOk idx c.len c.off pre (tumbleMsgs c (pre ++ .data r :: post)).1 :=
  tumbleMsgs_panic c idx hc hlen (by unfold I64 at hoff; omega) hoff.2 pre post r ht hr

/-- `OutputSchema` and `Materialize` look the time field up with two separate loops; when `OutputSchema` accepts
    `time_field => DESCRIPTOR(name)`, the index `Materialize` computes is that of a `Time` field with that name -/
theorem tumble_schema_index (name : String) (src : Schema) (out : Schema)
    (h : tumbleSchema (some name) src = some out) :
    src.fields[lookupIdx name src.fields 0]? = some (name, .time) := by
  unfold tumbleSchema at h
  simp only at h
  split at h
  · next hf =>
    obtain ⟨j, h1, h2⟩ := lookupIdx_of_find name src.fields 0 hf
    rw [h1]; simpa using h2
  · simp at h

/-- the declared schema: the source's fields, then `window_start`, `window_end` (both `Time`); the time field is
    `window_end`; `NoRetractions` as the source's -/
theorem tumble_schema_shape (tf : Option String) (src out : Schema) (h : tumbleSchema tf src = some out) :
    out.fields = src.fields ++ [("window_start_0", .time), ("window_end_0", .time)] ∧
    out.timeField = src.fields.length + 1 ∧ out.noRetr = src.noRetr := by
  unfold tumbleSchema at h
  simp only at h
  split at h
  · split at h
    · simp at h; subst h; exact ⟨rfl, rfl, rfl⟩
    · simp at h
  · split at h
    · simp at h
    · simp at h; subst h; exact ⟨rfl, rfl, rfl⟩

/-- outside the statement: a non-positive window length makes `Truncate` the identity, so `time < window_end` fails -/
theorem tumble_nonpositive_length (t len off : Int) (hlen : len ≤ 0) (hoff : I64 off) (hne : off ≠ minI64) :
    windowStart t len off = t ∧ windowEnd t len off ≤ t := by
  have h1 : minI64 < off := by unfold I64 at hoff; omega
  unfold windowEnd windowStart
  rw [negDur_eq off h1 hoff.2, truncate_nonpos _ _ hlen]
  omega

/-- the one offset for which the code is wrong: `-1 * offset` wraps at `MinInt64`, the window lands 2⁶⁴ ns early
    (witness replayed on the real node: `tumble im 0 1 1000 -9223372036854775808 -1 -1 | R1 t5:0 + z`) -/
theorem tumble_minint64_offset : ¬ (windowStart 5 1000 minI64 ≤ 5 ∧ 5 < windowEnd 5 1000 minI64) := by decide

/-! ## range -/

/-- the loop emits exactly `[start, end)` ascending (`rangeSpec = map (start + ·) (List.range (end − start))`) -/
theorem range_spec (s e : Int) : rangeInts s e = rangeSpec s e := rangeInts_eq s e
/-- each integer of `[start, end)` and nothing else -/
theorem range_mem (s e x : Int) : x ∈ rangeInts s e ↔ s ≤ x ∧ x < e := by
  rw [range_spec]; exact mem_rangeSpec s e x
/-- strictly ascending, hence each integer once -/
theorem range_ascending (s e : Int) : List.Pairwise (· < ·) (rangeInts s e) := by
  rw [range_spec]; exact rangeSpec_sorted s e
theorem range_nodup (s e : Int) : (rangeInts s e).Nodup := by
  have := range_ascending s e
  exact this.imp (fun h => Int.ne_of_lt h)
/-- `end − start` records … -/
theorem range_length (s e : Int) : (rangeInts s e).length = (e - s).toNat := by
  rw [range_spec]; exact rangeSpec_length s e
/-- … in particular nothing when `end ≤ start` -/
theorem range_empty (s e : Int) (h : e ≤ s) : rangeInts s e = [] := by
  rw [range_spec]; exact rangeSpec_nil s e h
/-- the node: one record `(i)` per integer, no retractions, no event time, no watermark; a failing consumer cuts
    the stream and is reported -/
theorem range_run (s e : Int) (budget : Option Nat) :
    (rangeRun (.int s) (.int e) budget).1 =
      (match budget with
       | none => (rangeSpec s e).map rangeMsg
       | some b => ((rangeSpec s e).take b).map rangeMsg) ∧
    (rangeRun (.int s) (.int e) budget).2 =
      (match budget with
       | none => .ok
       | some b => if (e - s).toNat > b then .errBudget else .ok) := by
  unfold rangeRun
  rw [cut_fst, cut_snd]
  simp only [intOf, range_spec, List.length_map, rangeSpec_length]
  cases budget <;> simp [List.map_take]

/-! ## poll -/

/-- a clock for the witnesses: 100, 101, 102, … -/
def wclock (k : Nat) : Int := 100 + k

/-- **the rounds.** Over any clock that never reads the zero time and any list of snapshots, the loop emits exactly
    `rounds`: round `k` = undo of snapshot `k−1` (nothing in round 0), snapshot `k` with the reading prepended,
    watermark `clock k`; when the source then fails, the undo of the last snapshot has already been emitted. -/
theorem poll_rounds (clock : Nat → Int) (hz : ∀ j, clock j ≠ zeroUnix) (snaps : List (List Msg)) :
    pollFrom clock 0 {} (okRounds snaps) =
      (rounds clock snaps snaps.length ++ undoBefore clock snaps snaps.length, .errSource) :=
  pollFrom_rounds clock hz snaps

/-- the shape of one round, spelled out -/
theorem poll_round (clock : Nat → Int) (snaps : List (List Msg)) (k : Nat) :
    rounds clock snaps (k + 1) =
      rounds clock snaps k ++
        (undoBefore clock snaps k ++ body (clock k) (snaps.getD k []) ++ [.wm (clock k)]) :=
  rounds_succ clock snaps k

/-- the source failing in the middle of a snapshot: what it delivered is still reported, then the error -/
theorem poll_rounds_fail (clock : Nat → Int) (hz : ∀ j, clock j ≠ zeroUnix) (snaps : List (List Msg)) (msgs : List Msg) :
    pollFrom clock 0 {} (okRounds snaps ++ [(msgs, true)]) =
      (rounds clock snaps snaps.length ++ (undoBefore clock snaps snaps.length ++ body (clock snaps.length) msgs),
        .errSource) :=
  pollFrom_rounds_fail clock hz snaps msgs

/-- every completed round is a prefix of what poll has emitted -/
theorem poll_prefix (clock : Nat → Int) (hz : ∀ j, clock j ≠ zeroUnix) (snaps : List (List Msg)) (n : Nat)
    (hn : n ≤ snaps.length) : ∃ rest, (pollFrom clock 0 {} (okRounds snaps)).1 = rounds clock snaps n ++ rest := by
  rw [poll_rounds clock hz]
  obtain ⟨d, hd⟩ := Nat.exists_eq_add_of_le hn
  rw [hd]
  refine ⟨(List.range' n d).flatMap (round clock snaps) ++ undoBefore clock snaps (n + d), ?_⟩
  simp only [rounds, List.range_eq_range']
  have : List.range' 0 (n + d) = List.range' 0 n ++ List.range' n d := by
    have := List.range'_append (s := 0) (m := n) (n := d) (step := 1)
    simpa using this.symm
  rw [this, List.flatMap_append, List.append_assoc]

/-- **consolidated output.** At the watermark of round `n` the net content of everything emitted so far is exactly
    snapshot `n` as reported (clock reading in front, the source's own retractions honoured) -/
theorem poll_consolidated (clock : Nat → Int) (snaps : List (List Msg)) (n : Nat) (row : Row) :
    net (recs (rounds clock snaps (n + 1))) row = net (stamped (clock n) (snaps.getD n [])) row :=
  net_rounds clock snaps n row

/-- no late data and strictly increasing watermarks (C18's notion), for a strictly increasing clock and sources
    that send no watermarks of their own -/
theorem poll_timely (clock : Nat → Int) (hz : ∀ j, clock j ≠ zeroUnix) (hinc : ∀ j, clock j < clock (j + 1))
    (snaps : List (List Msg)) (hs : ∀ k, wms (snaps.getD k []) = []) :
    Timely none (pollFrom clock 0 {} (okRounds snaps)).1 := by
  rw [poll_rounds clock hz]
  exact timely_rounds clock hz hinc snaps hs snaps.length

/-- the output is a valid changelog (no prefix retracts what is not there) whenever every snapshot is one -/
theorem poll_valid (clock : Nat → Int) (hz : ∀ j, clock j ≠ zeroUnix) (snaps : List (List Msg))
    (hv : ∀ k, ValidLog (recs (snaps.getD k []))) : ValidLog (recs (pollFrom clock 0 {} (okRounds snaps)).1) := by
  rw [poll_rounds clock hz]
  exact valid_rounds clock snaps hv snaps.length

/-- why `poll_timely` needs sources without watermarks: poll hands the source its own `metaSend`, so a source
    watermark (here 500, above the clock) is forwarded and poll's next watermark (100) goes backwards -/
theorem poll_forwards_source_watermarks :
    (pollFrom wclock 0 {} (okRounds [[.wm 500]])).1 = [.wm 500, .wm 100] ∧
    ¬ Timely none (pollFrom wclock 0 {} (okRounds [[.wm 500]])).1 := by
  have heq : (pollFrom wclock 0 {} (okRounds [[.wm 500]])).1 = [.wm 500, .wm 100] := rfl
  refine ⟨heq, ?_⟩
  rw [heq]
  intro h
  have := h.2.1 500 rfl
  omega

/-- range declares `NoRetractions` and no time field, and indeed emits neither retractions, event times nor watermarks -/
theorem range_plain (s e : Int) (budget : Option Nat) :
    ∀ m ∈ (rangeRun (.int s) (.int e) budget).1, ∃ i, m = .data { vals := [.int i], retr := false, et := none } := by
  intro m hm
  have h := (range_run s e budget).1
  rw [h] at hm
  cases budget with
  | none => simp only [List.mem_map] at hm; obtain ⟨i, _, rfl⟩ := hm; exact ⟨i, rfl⟩
  | some b => simp only [List.mem_map] at hm; obtain ⟨i, _, rfl⟩ := hm; exact ⟨i, rfl⟩

/-- a failing consumer: poll's output is the prefix that got through -/
theorem poll_run (clock : Nat → Int) (hz : ∀ j, clock j ≠ zeroUnix) (snaps : List (List Msg)) (b : Nat) :
    (pollRun clock (okRounds snaps) (some b)).1 =
      (rounds clock snaps snaps.length ++ undoBefore clock snaps snaps.length).take b := by
  unfold pollRun
  rw [cut_fst, poll_rounds clock hz]

/-! ## the code as shipped (before the two `fix:` commits) violates the poll part -/

def rowA : Msg := .data { vals := [.int 7], retr := false, et := none }
def rowA' : Msg := .data { vals := [.int 7], retr := true, et := none }

/-- shipped: the undo of round 0's snapshot carries event time 100 — the watermark already sent (late data) -/
theorem shipped_poll_late :
    (Shipped.pollFrom wclock 0 {} [([rowA], false)]).1 =
      [.data { vals := [.time 100 0, .int 7], retr := false, et := some 100 }, .wm 100,
       .data { vals := [.time 100 0, .int 7], retr := true, et := some 100 }] ∧
    ¬ Timely none (Shipped.pollFrom wclock 0 {} [([rowA], false)]).1 := by
  have heq : (Shipped.pollFrom wclock 0 {} [([rowA], false)]).1 =
      [.data { vals := [.time 100 0, .int 7], retr := false, et := some 100 }, .wm 100,
       .data { vals := [.time 100 0, .int 7], retr := true, et := some 100 }] := rfl
  refine ⟨heq, ?_⟩
  · intro h
    rw [heq] at h
    obtain ⟨_, _, h3, _⟩ := h
    obtain ⟨e, he, hlt⟩ := h3 100 rfl
    simp at he
    omega

/-- shipped: a source snapshot `+7, −7` (net empty) is reported as two additions: consolidated output ≠ snapshot -/
theorem shipped_poll_drops_retractions :
    net (recs ((Shipped.pollFrom wclock 0 {} [([rowA, rowA'], false)]).1.take 3)) [.time 100 0, .int 7] = 2 ∧
    net (stamped 100 [rowA, rowA']) [.time 100 0, .int 7] = 0 := by decide

/-! ## the full statement -/

/-- tumble part, for a tumble implementation `tm` -/
def TumbleStatement (tm : TumbleCfg → List Msg → Result) : Prop :=
  ∀ (c : TumbleCfg) (idx : Nat), c.idx = idx → 0 < c.len → I64 c.off → ∀ ms, Timed idx ms →
    (tm c ms).2 = .ok ∧ TumbleOk idx c.len c.off ms (tm c ms).1

/-- range part -/
def RangeStatement (rg : Int → Int → List Int) : Prop :=
  ∀ s e, rg s e = rangeSpec s e ∧ List.Pairwise (· < ·) (rg s e) ∧ (∀ x, x ∈ rg s e ↔ s ≤ x ∧ x < e)

/-- poll part, for a poll implementation `pl` (clock ↦ rounds ↦ result) -/
def PollStatement (pl : (Nat → Int) → List (List Msg × Bool) → Result) : Prop :=
  ∀ (clock : Nat → Int), (∀ j, clock j ≠ zeroUnix) → ∀ (snaps : List (List Msg)),
    pl clock (okRounds snaps) = (rounds clock snaps snaps.length ++ undoBefore clock snaps snaps.length, .errSource) ∧
    (∀ n, n < snaps.length → ∀ row,
      net (recs (rounds clock snaps (n + 1))) row = net (stamped (clock n) (snaps.getD n [])) row)

/-- **C21 at full strength**: every int64 offset, every positive length, every instant, every stream; every
    `(start, end)`; every clock, every list of snapshots (retracting sources included) -/
def Statement (tm : TumbleCfg → List Msg → Result) (rg : Int → Int → List Int)
    (pl : (Nat → Int) → List (List Msg × Bool) → Result) : Prop :=
  TumbleStatement tm ∧ RangeStatement rg ∧ PollStatement pl

theorem range_statement : RangeStatement rangeInts :=
  fun s e => ⟨range_spec s e, range_ascending s e, range_mem s e⟩

theorem poll_statement : PollStatement (fun clock rs => pollFrom clock 0 {} rs) :=
  fun clock hz snaps => ⟨poll_rounds clock hz snaps, fun n _ row => poll_consolidated clock snaps n row⟩

/-- the tumble part fails for exactly one offset, `MinInt64` (known finding `tumble-offset-minint64`) -/
theorem tumble_refuted : ¬ TumbleStatement tumbleMsgs := by
  intro h
  have := (h { idx := 0, len := 1000, off := minI64 } 0 rfl (by decide) (by decide)
    [.data { vals := [.time 5 0], retr := false, et := none }] ⟨⟨5, 0, rfl⟩, trivial⟩).2
  have hm : (tumbleMsgs { idx := 0, len := 1000, off := minI64 }
      [.data { vals := [.time 5 0], retr := false, et := none }]).1 =
      [.data { vals := [.time 5 0, .time (-18446744073709551808) 0, .time (-18446744073709550808) 0],
               retr := false, et := none }] := rfl
  rw [hm] at this
  obtain ⟨⟨_, _, t, loc, ws, we, hv, hvals, hw⟩, _⟩ := this
  simp at hv hvals
  obtain ⟨⟨rfl, _⟩, ⟨rfl, _⟩⟩ := hvals
  obtain ⟨rfl, _⟩ := hv
  have := hw.2.1
  revert this; decide

theorem C21_refuted : ¬ Statement tumbleMsgs rangeInts (fun clock rs => pollFrom clock 0 {} rs) :=
  fun h => tumble_refuted h.1

/-- **what holds**: the whole statement with the single exclusion `offset ≠ MinInt64` -/
theorem C21_partial :
    (∀ (c : TumbleCfg) (idx : Nat), c.idx = idx → 0 < c.len → I64 c.off → c.off ≠ minI64 → ∀ ms, Timed idx ms →
      (tumbleMsgs c ms).2 = .ok ∧ TumbleOk idx c.len c.off ms (tumbleMsgs c ms).1) ∧
    RangeStatement rangeInts ∧ PollStatement (fun clock rs => pollFrom clock 0 {} rs) :=
  ⟨fun c idx hc hlen hoff hne ms ht => tumble_stream c idx hc hlen hoff hne ms ht, range_statement, poll_statement⟩

/-- the retraction flags of a stream (`none` for a watermark) -/
def flags (ms : List Msg) : List (Option Bool) := ms.map fun | .data r => some r.retr | .wm _ => none

/-- the shipped poll loop does not satisfy the poll part (retracting source `+7, −7`) -/
theorem shipped_poll_refuted : ¬ PollStatement (fun clock rs => Shipped.pollFrom clock 0 {} rs) := by
  intro h
  have := (h wclock (by intro j; unfold wclock zeroUnix; omega) [[rowA, rowA']]).1
  have hne : flags (Shipped.pollFrom wclock 0 {} (okRounds [[rowA, rowA']])).1 ≠
      flags (rounds wclock [[rowA, rowA']] 1 ++ undoBefore wclock [[rowA, rowA']] 1) := by decide
  exact hne (congrArg (fun r => flags r.1) this)

/-! ## non-vacuity -/

-- the hypotheses of the window theorems are met by ordinary and by awkward arguments
example : (0 : Int) < 1000000000 ∧ I64 (-3600000000000) ∧ (-3600000000000 : Int) ≠ minI64 := by decide
-- a pre-1970 instant, 1 s windows: −1.5 s lies in [−2 s, −1 s)  (the C20 witness region; Truncate floors)
example : windowStart (-1500000000) 1000000000 0 = -2000000000 ∧ windowEnd (-1500000000) 1000000000 0 = -1000000000 := by decide
-- 7-day windows are aligned to the zero time (a Monday), not to the Unix epoch (a Thursday)
example : windowStart 0 604800000000000 0 = -259200000000000 := by decide
-- negative offset
example : windowStart 10 7 (-3) = 8 ∧ windowEnd 10 7 (-3) = 15 := by decide
example : IsWindow 10 7 (-3) 8 15 := by decide
-- `Timed` is satisfiable by a stream with watermarks, retractions and several fields
example : Timed 1 [.wm 3, .data { vals := [.null, .time 10 2], retr := true, et := some 4 }, .wm 9] :=
  ⟨⟨10, 2, rfl⟩, trivial⟩
example : (tumbleMsgs { idx := 1, len := 7, off := -3 }
    [.wm 3, .data { vals := [.null, .time 10 2], retr := true, et := some 4 }, .wm 9]).1 =
    [.wm 3, .data { vals := [.null, .time 10 2, .time 8 2, .time 15 2], retr := true, et := some 4 }, .wm 9] := rfl
-- range
example : rangeInts (-2) 3 = [-2, -1, 0, 1, 2] := by decide
example : rangeInts 3 (-2) = [] := by decide
-- poll: two rounds over a retracting source; hypotheses of poll_timely / poll_valid are satisfiable
example : ∀ j, wclock j ≠ zeroUnix := by intro j; unfold wclock zeroUnix; omega
example : ∀ j, wclock j < wclock (j + 1) := by intro j; unfold wclock; omega
example : (pollFrom wclock 0 {} (okRounds [[rowA], []])).1 =
    [.data { vals := [.time 100 0, .int 7], retr := false, et := some 100 }, .wm 100,
     .data { vals := [.time 100 0, .int 7], retr := true, et := some 101 }, .wm 101] := rfl
example : ValidLog (recs [rowA, rowA']) := by
  intro n row
  match n with
  | 0 => simp [net]
  | 1 => simp [recs, rowA, rowA', net, Rec.weight]; split <;> simp
  | n + 2 => simp [recs, rowA, rowA', net, Rec.weight]; split <;> simp

end Octo.C21
