import Octo.Model.ErrFlow
/-!
# C06 — Runtime errors are never swallowed

`Octo.ErrFlow.runQuery` models how an error travels through a plan; `Octo.Gen.ErrorFlow.sites` is
regenerated from `/repo`'s sources on every run (every call of a child's `Run`/`Evaluate`/scanner `Err()`
inside a node's `Run`/`Evaluate`, and whether its error is used). The theorems: on the current tree
every such error is used, hence for **every** plan (any nesting of DISTINCT, ORDER BY, GROUP BY, joins,
subquery expressions) a failure anywhere makes the query fail.
-/
namespace Octo.C06
open Octo.ErrFlow Octo.Gen.ErrorFlow

/-- every recorded call site uses the error it is handed (re-proved against the generated table) -/
theorem all_sites_used : sites.all (·.used) = true := by decide

/-- hence every node kind propagates -/
theorem all_kinds_propagate : ∀ k ∈ allKinds, propagates k = true := by decide

theorem allKinds_complete (k : Kind) : k ∈ allKinds := by cases k <;> decide

theorem propagates_all (k : Kind) : propagates k = true := all_kinds_propagate k (allKinds_complete k)

/-- with error-using nodes everywhere, a failure anywhere (or in a callback above) is an error -/
theorem run_err_of_failure (flow : Kind → Bool) (hf : ∀ k, flow k = true) (p : Plan) (above : Bool)
    (h : (above || hasFailure p) = true) : run flow above p = .err := by
  induction p generalizing above with
  | source k f =>
    simp only [run, hf k, Bool.and_true]
    simp only [hasFailure] at h
    have : (f || above) = true := by cases f <;> cases above <;> simp_all
    simp [this]
  | unary k ef c ih =>
    simp only [run]
    have hc : run flow (above || ef) c = .err := ih (above || ef) (by
      simp only [hasFailure] at h
      cases above <;> cases ef <;> simp_all)
    simp [hc, hf k]
  | binary k ef l r ihl ihr =>
    simp only [run]
    simp only [hasFailure] at h
    by_cases hl : (above || ef || hasFailure l) = true
    · have := ihl (above || ef) (by simpa using hl)
      simp [this, hf k]
    · have hr : (above || ef || hasFailure r) = true := by
        cases above <;> cases ef <;> cases hasFailure l <;> simp_all
      have := ihr (above || ef) (by simpa using hr)
      cases hl' : run flow (above || ef) l <;> simp [this, hf k]
  | withSub k ef qk c s ihc ihs =>
    simp only [run]
    simp only [hasFailure] at h
    by_cases hs : hasFailure s = true
    · have hsub : run flow false s = .err := ihs false (by simpa using hs)
      have hc : run flow true c = .err := ihc true (by simp)
      simp [hsub, hf qk, hc, hf k]
    · have hs' : hasFailure s = false := by simpa using hs
      have hc : ∀ sf, run flow (above || ef || sf) c = .err := fun sf => ihc (above || ef || sf) (by
        cases above <;> cases ef <;> cases sf <;> simp_all)
      rw [hc]; simp [hf k]

/-- and without any failure the run succeeds -/
theorem run_ok_of_no_failure (flow : Kind → Bool) (p : Plan) (h : hasFailure p = false) :
    run flow false p = .ok := by
  induction p with
  | source k f => simp only [hasFailure] at h; simp [run, h]
  | unary k ef c ih =>
    simp only [hasFailure, Bool.or_eq_false_iff] at h
    simp [run, h.1, ih h.2]
  | binary k ef l r ihl ihr =>
    simp only [hasFailure, Bool.or_eq_false_iff] at h
    simp [run, h.1.1, ihl h.1.2, ihr h.2]
  | withSub k ef qk c s ihc ihs =>
    simp only [hasFailure, Bool.or_eq_false_iff] at h
    simp [run, h.1.1, ihc h.1.2, ihs h.2]

/-- the full-strength statement for a flow table -/
def Statement (flow : Kind → Bool) : Prop :=
  ∀ (sink : Kind) (p : Plan), (hasFailure p = true → runQuery flow sink p = .err) ∧
                               (hasFailure p = false → runQuery flow sink p = .ok)

/-- **C06** on the current tree: a runtime failure anywhere in any plan fails the query, and a
    zero exit means nothing failed. -/
theorem C06_full : Statement propagates := by
  intro sink p
  constructor
  · intro h
    have := run_err_of_failure propagates propagates_all p false (by simpa using h)
    simp [runQuery, this, propagates_all sink]
  · intro h
    simp [runQuery, run_ok_of_no_failure propagates p h]

/-! ### the tree before the four repairs -/

/-- the flow table of the shipped code: Distinct, OrderSensitiveTransform, the two query
    expressions and the lines datasource dropped the error -/
def shippedFlow : Kind → Bool
  | .distinct | .orderBy | .singleColQuery | .multiColQuery | .linesSource => false
  | _ => true

/-- `SELECT DISTINCT panic(b) …`: exit 0 -/
theorem shipped_refuted : ¬ Statement shippedFlow := by
  intro h
  have := (h .eagerSink (.unary .distinct false (.unary .map true (.source .csvSource false)))).1 (by decide)
  exact absurd this (by decide)

/-! ### non-vacuity -/
example : hasFailure (.withSub .filter false .singleColQuery (.source .csvSource false)
    (.unary .filter true (.source .jsonSource false))) = true := by decide
example : runQuery propagates .eagerSink (.withSub .filter false .singleColQuery (.source .csvSource false)
    (.unary .filter true (.source .jsonSource false))) = .err := by decide
example : runQuery propagates .batchSink (.binary .streamJoin false (.source .csvSource false)
    (.unary .orderBy false (.source .linesSource true))) = .err := by decide

end Octo.C06
