import Octo.Lemmas.OpsStateless
import Octo.Lemmas.OpsDistinct
import Octo.Lemmas.OpsGroupFinal
/-!
# C15 — Operators keep a valid changelog and compute incrementally what batch computes

For every valid input changelog (additions and retractions in any order, never retracting an absent
row) each operator's output never retracts a row that is not currently present (`…_valid_out`), and
its consolidated output equals the batch operator of `Octo.Model.OpSpec` applied to the consolidated
input (`…_net_commutes`).  All theorems quantify over message streams of **any** length, with
watermarks and event times; rows are identified by `Compare == 0` (`rowEq`).

The operator models (`Octo.Model.Ops`) are tied to `execution/nodes/*.go` by the exact-sequence
correspondence run of every check.
-/
namespace Octo.C15
open Octo Octo.Ops

/-- the records a node emits for a message stream (source ends normally) -/
abbrev outRecs (op : Op σ) (ms : List Msg) : List Rec := recs (op.run ms).1

/-- every valid changelog has a consolidation (so the hypotheses `Consolidates rows …` below are
    satisfiable exactly for the changelogs the property talks about) -/
theorem valid_has_consolidation (log : List Rec) (h : ValidLog log) : Consolidates (consolidate log) log :=
  consolidate_correct h

/-! ## Filter -/
theorem filter_valid_out (p : Row → Value) (hp : PredCongr p) (ms : List Msg) (hv : ValidLog (recs ms)) :
    ValidLog (outRecs (filterOp fun x => .ok (p x)) ms) := by
  simp only [outRecs, filter_recs]; exact linear_valid (filter_linear p hp) hv

theorem filter_net_commutes (p : Row → Value) (hp : PredCongr p) (ms : List Msg) (rows : List Row)
    (hc : Consolidates rows (recs ms)) (y : Row) :
    net (outRecs (filterOp fun x => .ok (p x)) ms) y = cnt (filterB p rows) y := by
  simp only [outRecs, filter_recs]
  rw [linear_net (filter_linear p hp).net_block (filter_linear p hp).congr hc, sumOver_filterK]

/-! ## Map (the image multiset) -/
theorem map_valid_out (f : Row → Row) (hf : RowCongr f) (ms : List Msg) (hv : ValidLog (recs ms)) :
    ValidLog (outRecs (mapOp fun x => .ok (f x)) ms) := by
  simp only [outRecs, map_recs]; exact linear_valid (map_linear f hf) hv

theorem map_net_commutes (f : Row → Row) (hf : RowCongr f) (ms : List Msg) (rows : List Row)
    (hc : Consolidates rows (recs ms)) (y : Row) :
    net (outRecs (mapOp fun x => .ok (f x)) ms) y = cnt (mapB f rows) y := by
  simp only [outRecs, map_recs]
  rw [linear_net (map_linear f hf).net_block (map_linear f hf).congr hc, sumOver_mapK]

/-! ## Distinct (indicator of positive multiplicity) -/
theorem distinct_valid_out (ms : List Msg) (hv : ValidLog (recs ms)) : ValidLog (outRecs distinctOp ms) := by
  rw [validLog_iff_validFrom]
  have := (distinct_runFrom ms [] (by intro y; simp [getc, aget]) (by intro n y; simpa [getc, aget] using hv n y)).2.2
  show ValidFrom _ (recs (distinctOp.runFrom [] ms false).1)
  simpa [getc, aget, ind] using this

theorem distinct_net_commutes (ms : List Msg) (hv : ValidLog (recs ms)) (rows : List Row)
    (hc : Consolidates rows (recs ms)) (y : Row) :
    net (outRecs distinctOp ms) y = distinctSpec rows y := by
  have := (distinct_runFrom ms [] (by intro y; simp [getc, aget]) (by intro n y; simpa [getc, aget] using hv n y)).2.1 y
  show net (recs (distinctOp.runFrom [] ms false).1) y = _
  rw [this, hc y]
  simp [getc, aget, ind, distinctSpec]

/-! ## LookupJoin -/
/-- net_commutes holds for any (error-free, row-congruent) joined side, also one that retracts -/
theorem lookup_net_commutes (J : Row → List Msg) (hJ : ∀ y, Congr (fun x => lookupK J x y)) (ms : List Msg)
    (rows : List Row) (hc : Consolidates rows (recs ms)) (y : Row) :
    net (outRecs (lookupOp fun x => (J x, none)) ms) y = lookupSpec (fun x => recs (J x)) rows y := by
  simp only [outRecs, lookup_recs]
  rw [linear_net (lookup_net_block J) hJ hc, sumOver_lookupK]

/-- valid_out needs the joined side to emit additions only (see `lookup_refuted`) -/
theorem lookup_valid_out (J : Row → List Msg) (hJ : ∀ y, Congr (fun x => lookupK J x y))
    (hadd : ∀ x, ∀ j ∈ recs (J x), j.retr = false) (ms : List Msg) (hv : ValidLog (recs ms)) :
    ValidLog (outRecs (lookupOp fun x => (J x, none)) ms) := by
  simp only [outRecs, lookup_recs]; exact linear_valid (lookup_linear J hJ hadd) hv

/-! ## SimpleGroupBy, with abstract aggregates satisfying the C14 contract `GAggOK` -/
theorem sgroup_net_commutes (agg : GAgg α) (spec : List Row → Row) (hagg : GAggOK agg spec) (kf inf : Row → Row)
    (hk : RowCongr kf) (hi : RowCongr inf) (ms : List Msg) (hv : ValidLog (recs ms)) (rows : List Row)
    (hc : Consolidates rows (recs ms)) (y : Row) :
    net (outRecs (simpleGroupOp agg (fun x => .ok (kf x)) (fun x => .ok (inf x))) ms) y
      = cnt (groupB spec kf inf rows) y := by
  obtain ⟨g, hg, hrun⟩ := sgroup_run agg spec hagg kf inf hk hi ms hv
  simp only [outRecs, hrun, recs_append, recs_wmMsgs, List.nil_append, recs_map_data, net_adds]
  exact (ginv_result agg spec hagg kf inf hk hi (recs ms) g hg rows hc).2 y

/-- the output consists of additions only (and the node does not fail) -/
theorem sgroup_valid_out (agg : GAgg α) (spec : List Row → Row) (hagg : GAggOK agg spec) (kf inf : Row → Row)
    (hk : RowCongr kf) (hi : RowCongr inf) (ms : List Msg) (hv : ValidLog (recs ms)) :
    ValidLog (outRecs (simpleGroupOp agg (fun x => .ok (kf x)) (fun x => .ok (inf x))) ms) ∧
    ((simpleGroupOp agg (fun x => .ok (kf x)) (fun x => .ok (inf x))).run ms).2 = none := by
  obtain ⟨g, _, hrun⟩ := sgroup_run agg spec hagg kf inf hk hi ms hv
  simp only [outRecs, hrun, recs_append, recs_wmMsgs, List.nil_append, recs_map_data, and_true]
  rw [validLog_iff_validFrom]
  apply validFrom_adds (fun _ => Int.le_refl 0)
  intro r hr
  simp only [adds, List.mem_map] at hr
  obtain ⟨_, _, rfl⟩ := hr
  rfl

end Octo.C15
