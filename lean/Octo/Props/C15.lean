import Octo.Lemmas.OpsStateless
import Octo.Lemmas.OpsDistinct
import Octo.Lemmas.OpsGroupFinal
import Octo.Lemmas.OpsSortRun
import Octo.Lemmas.OpsUnnest
import Octo.Lemmas.OpsBufferProps
import Octo.Lemmas.OpsCtgb
import Octo.Lemmas.OpsExamples
/-!
# C15 — Operators keep a valid changelog and compute incrementally what batch computes

For every valid input changelog (additions and retractions in any order, never retracting an absent
row) each operator's output never retracts a row that is not currently present (`…_valid_out`), and
its consolidated output equals the batch operator of `Octo.Model.OpSpec` applied to the consolidated
input (`…_net_commutes`).  All theorems quantify over message streams of **any** length, with
watermarks and event times; rows are identified by `Compare == 0` (`rowEq`).

The operator models (`Octo.Model.Ops`) are tied to `execution/nodes/*.go` by the exact-sequence
correspondence run of every check.
-/
namespace Octo.C15
open Octo Octo.Ops

/-- the records a node emits for a message stream (source ends normally) -/
abbrev outRecs (op : Op σ) (ms : List Msg) : List Rec := recs (op.run ms).1

/-- every valid changelog has a consolidation (so the hypotheses `Consolidates rows …` below are
    satisfiable exactly for the changelogs the property talks about) -/
theorem valid_has_consolidation (log : List Rec) (h : ValidLog log) : Consolidates (consolidate log) log :=
  consolidate_correct h

/-! ## Filter -/
theorem filter_valid_out (p : Row → Value) (hp : PredCongr p) (ms : List Msg) (hv : ValidLog (recs ms)) :
    ValidLog (outRecs (filterOp fun x => .ok (p x)) ms) := by
  simp only [outRecs, filter_recs]; exact linear_valid (filter_linear p hp) hv

theorem filter_net_commutes (p : Row → Value) (hp : PredCongr p) (ms : List Msg) (rows : List Row)
    (hc : Consolidates rows (recs ms)) (y : Row) :
    net (outRecs (filterOp fun x => .ok (p x)) ms) y = cnt (filterB p rows) y := by
  simp only [outRecs, filter_recs]
  rw [linear_net (filter_linear p hp).net_block (filter_linear p hp).congr hc, sumOver_filterK]

/-! ## Map (the image multiset) -/
theorem map_valid_out (f : Row → Row) (hf : RowCongr f) (ms : List Msg) (hv : ValidLog (recs ms)) :
    ValidLog (outRecs (mapOp fun x => .ok (f x)) ms) := by
  simp only [outRecs, map_recs]; exact linear_valid (map_linear f hf) hv

theorem map_net_commutes (f : Row → Row) (hf : RowCongr f) (ms : List Msg) (rows : List Row)
    (hc : Consolidates rows (recs ms)) (y : Row) :
    net (outRecs (mapOp fun x => .ok (f x)) ms) y = cnt (mapB f rows) y := by
  simp only [outRecs, map_recs]
  rw [linear_net (map_linear f hf).net_block (map_linear f hf).congr hc, sumOver_mapK]

/-! ## Distinct (indicator of positive multiplicity) -/
theorem distinct_valid_out (ms : List Msg) (hv : ValidLog (recs ms)) : ValidLog (outRecs distinctOp ms) := by
  rw [validLog_iff_validFrom]
  have := (distinct_runFrom ms [] (by intro y; simp [getc, aget]) (by intro n y; simpa [getc, aget] using hv n y)).2.2
  show ValidFrom _ (recs (distinctOp.runFrom [] ms false).1)
  simpa [getc, aget, ind] using this

theorem distinct_net_commutes (ms : List Msg) (hv : ValidLog (recs ms)) (rows : List Row)
    (hc : Consolidates rows (recs ms)) (y : Row) :
    net (outRecs distinctOp ms) y = distinctSpec rows y := by
  have := (distinct_runFrom ms [] (by intro y; simp [getc, aget]) (by intro n y; simpa [getc, aget] using hv n y)).2.1 y
  show net (recs (distinctOp.runFrom [] ms false).1) y = _
  rw [this, hc y]
  simp [getc, aget, ind, distinctSpec]

/-! ## LookupJoin -/
/-- net_commutes holds for any (error-free, row-congruent) joined side, also one that retracts -/
theorem lookup_net_commutes (J : Row → List Msg) (hJ : ∀ y, Congr (fun x => lookupK J x y)) (ms : List Msg)
    (rows : List Row) (hc : Consolidates rows (recs ms)) (y : Row) :
    net (outRecs (lookupOp fun x => (J x, none)) ms) y = lookupSpec (fun x => recs (J x)) rows y := by
  simp only [outRecs, lookup_recs]
  rw [linear_net (lookup_net_block J) hJ hc, sumOver_lookupK]

/-- valid_out needs the joined side to emit additions only (see `lookup_refuted`) -/
theorem lookup_valid_out (J : Row → List Msg) (hJ : ∀ y, Congr (fun x => lookupK J x y))
    (hadd : ∀ x, ∀ j ∈ recs (J x), j.retr = false) (ms : List Msg) (hv : ValidLog (recs ms)) :
    ValidLog (outRecs (lookupOp fun x => (J x, none)) ms) := by
  simp only [outRecs, lookup_recs]; exact linear_valid (lookup_linear J hJ hadd) hv

/-! ## SimpleGroupBy, with abstract aggregates satisfying the C14 contract `GAggOK` -/
theorem sgroup_net_commutes (agg : GAgg α) (spec : List Row → Row) (hagg : GAggOK agg spec) (kf inf : Row → Row)
    (hk : RowCongr kf) (hi : RowCongr inf) (ms : List Msg) (hv : ValidLog (recs ms)) (rows : List Row)
    (hc : Consolidates rows (recs ms)) (y : Row) :
    net (outRecs (simpleGroupOp agg (fun x => .ok (kf x)) (fun x => .ok (inf x))) ms) y
      = cnt (groupB spec kf inf rows) y := by
  obtain ⟨g, hg, hrun⟩ := sgroup_run agg spec hagg kf inf hk hi ms hv
  simp only [outRecs, hrun, recs_append, recs_wmMsgs, List.nil_append, recs_map_data, net_adds]
  exact (ginv_result agg spec hagg kf inf hk hi (recs ms) g hg rows hc).2 y

/-- the output consists of additions only (and the node does not fail) -/
theorem sgroup_valid_out (agg : GAgg α) (spec : List Row → Row) (hagg : GAggOK agg spec) (kf inf : Row → Row)
    (hk : RowCongr kf) (hi : RowCongr inf) (ms : List Msg) (hv : ValidLog (recs ms)) :
    ValidLog (outRecs (simpleGroupOp agg (fun x => .ok (kf x)) (fun x => .ok (inf x))) ms) ∧
    ((simpleGroupOp agg (fun x => .ok (kf x)) (fun x => .ok (inf x))).run ms).2 = none := by
  obtain ⟨g, _, hrun⟩ := sgroup_run agg spec hagg kf inf hk hi ms hv
  simp only [outRecs, hrun, recs_append, recs_wmMsgs, List.nil_append, recs_map_data, and_true]
  rw [validLog_iff_validFrom]
  apply validFrom_adds (fun _ => Int.le_refl 0)
  intro r hr
  simp only [adds, List.mem_map] at hr
  obtain ⟨_, _, rfl⟩ := hr
  rfl

/-! ## Unnest -/
theorem unnest_valid_out (idx : Nat) (ms : List Msg) (hi : ∀ r ∈ recs ms, idx < r.vals.length)
    (hv : ValidLog (recs ms)) : ValidLog (outRecs (unnestOp idx) ms) := by
  simp only [outRecs, unnest_recs idx ms hi]; exact linear_valid (unnest_linear idx) hv

theorem unnest_net_commutes (idx : Nat) (ms : List Msg) (hi : ∀ r ∈ recs ms, idx < r.vals.length)
    (rows : List Row) (hc : Consolidates rows (recs ms)) (y : Row) :
    net (outRecs (unnestOp idx) ms) y = cnt (unnestB idx rows) y := by
  simp only [outRecs, unnest_recs idx ms hi]
  rw [linear_net (unnest_linear idx).net_block (unnest_linear idx).congr hc, sumOver_unnestK]

/-! ## Limit: the output is a prefix of the input, hence valid -/
theorem validLog_of_sublist_prefix {l l' : List Rec} (h : l' <+: l) (hv : ValidLog l) : ValidLog l' := by
  obtain ⟨t, rfl⟩ := h; exact validLog_prefix hv

theorem limit_out_prefix (n : Int) (ms : List Msg) : ∀ i f, ((limitOp n).runFrom i ms f).1 <+: ms := by
  induction ms with
  | nil => intro i f; cases f <;> simp [Op.runFrom, limitOp, propagate]
  | cons m ms ih =>
    intro i f
    cases m with
    | wm t =>
      have hstep : (limitOp n).onMsg i (.wm t) = (i, [.wm t], none) := rfl
      simp only [Op.runFrom, hstep, List.singleton_append]
      exact (List.prefix_cons_inj _).mpr (ih i f)
    | data r =>
      by_cases h : i + 1 = n
      · have hstep : (limitOp n).onMsg i (.data r) = (i + 1, [.data r], some .limit) := by simp [limitOp, h]
        simp only [Op.runFrom, hstep]
        simp [limitOp]
      · have hstep : (limitOp n).onMsg i (.data r) = (i + 1, [.data r], none) := by simp [limitOp, h]
        simp only [Op.runFrom, hstep, List.singleton_append]
        exact (List.prefix_cons_inj _).mpr (ih (i + 1) f)

theorem recs_prefix {a b : List Msg} (h : a <+: b) : recs a <+: recs b := by
  obtain ⟨t, rfl⟩ := h; rw [recs_append]; exact List.prefix_append _ _

theorem limit_valid_out (n : Int) (ms : List Msg) (f : Bool) (hv : ValidLog (recs ms)) :
    ValidLog (recs (limitNode n ms f).1) := by
  simp only [limitNode]
  split
  · exact validLog_nil
  · exact validLog_of_sublist_prefix (recs_prefix (limit_out_prefix n ms 0 f)) hv

/-! ## ORDER BY (OrderSensitiveTransform) and the batch printer: the sorted consolidated input -/
/-- sortSpec: the node ends with `limit`-many rows of a list that is sorted by the node's `Less`
    and has exactly the net multiplicities of the input (which determines it up to `Compare == 0`) -/
theorem order_spec (c : SortCfg) (limit : Option Int) (noRetr : Bool) (hlim : limit = none ∨ noRetr = false)
    (ms : List Msg) (hv : ValidLog (recs ms)) (hw : ∀ r ∈ recs ms, r.vals.length = c.w) :
    ∃ full : List Row,
      (orderOp c.dirs (fun x => .ok (c.kf x)) limit noRetr).run ms = ((takeOpt limit full).map addRec, none) ∧
      full.Pairwise (fun x y => lessRow c.dirs c.kf y x = false) ∧ ∀ y, cnt full y = net (recs ms) y := by
  obtain ⟨t, inv, hrun⟩ := order_runFrom c limit noRetr hlim ms [] [] (sinv_init c) (by simpa using hv) hw
  simp only [List.nil_append] at inv
  exact ⟨treeRows t, hrun, sinv_rows c t (recs ms) inv hw⟩

theorem order_net_commutes (c : SortCfg) (noRetr : Bool) (ms : List Msg) (hv : ValidLog (recs ms))
    (hw : ∀ r ∈ recs ms, r.vals.length = c.w) (rows : List Row) (hc : Consolidates rows (recs ms)) (y : Row) :
    net (outRecs (orderOp c.dirs (fun x => .ok (c.kf x)) none noRetr) ms) y = cnt rows y := by
  obtain ⟨full, hrun, _, hcnt⟩ := order_spec c none noRetr (Or.inl rfl) ms hv hw
  simp only [outRecs, hrun, takeOpt, recs_map_addRec, net_adds, hcnt, hc y]

/-- ORDER BY never emits a retraction -/
theorem order_valid_out (c : SortCfg) (limit : Option Int) (noRetr : Bool) (ms : List Msg) :
    ValidLog (outRecs (orderOp c.dirs (fun x => .ok (c.kf x)) limit noRetr) ms) := by
  obtain ⟨l, hl, h⟩ := order_shape c.dirs c.kf limit noRetr ms []
  simp only [outRecs, Op.run]
  rw [show (orderOp c.dirs (fun x => .ok (c.kf x)) limit noRetr).init = [] from rfl, hl, recs_map_data,
    validLog_iff_validFrom]
  exact validFrom_adds (fun _ => Int.le_refl 0) l (fun r hr => (h r hr).2)

/-- the batch printer's multiset bookkeeping: it panics ("received retraction before value")
    exactly on invalid changelogs, and otherwise prints the sorted consolidated input -/
theorem printer_panics_iff_invalid (c : SortCfg) (limit : Option Int) (noRetr : Bool)
    (hlim : limit = none ∨ noRetr = false) (ms : List Msg) (hw : ∀ r ∈ recs ms, r.vals.length = c.w) :
    ((printerOp c.dirs (fun x => .ok (c.kf x)) limit noRetr).run ms).2 = some .panic ↔ ¬ ValidLog (recs ms) := by
  obtain ⟨h1, h2⟩ := printer_runFrom c limit noRetr hlim ms [] [] (sinv_init c) validLog_nil hw
  simp only [List.nil_append] at h1 h2
  constructor
  · intro hp hv
    obtain ⟨t, _, hrun⟩ := h1 hv
    simp only [Op.run] at hp
    rw [show (printerOp c.dirs (fun x => .ok (c.kf x)) limit noRetr).init = [] from rfl, hrun] at hp
    cases hp
  · intro hv
    simp only [Op.run]
    rw [show (printerOp c.dirs (fun x => .ok (c.kf x)) limit noRetr).init = [] from rfl, h2 hv]

theorem printer_spec (c : SortCfg) (limit : Option Int) (noRetr : Bool) (hlim : limit = none ∨ noRetr = false)
    (ms : List Msg) (hv : ValidLog (recs ms)) (hw : ∀ r ∈ recs ms, r.vals.length = c.w) :
    ∃ full : List Row,
      (printerOp c.dirs (fun x => .ok (c.kf x)) limit noRetr).run ms = ((takeOpt limit full).map addRec, none) ∧
      full.Pairwise (fun x y => lessRow c.dirs c.kf y x = false) ∧ ∀ y, cnt full y = net (recs ms) y := by
  obtain ⟨h1, _⟩ := printer_runFrom c limit noRetr hlim ms [] [] (sinv_init c) validLog_nil hw
  obtain ⟨t, inv, hrun⟩ := h1 (by simpa using hv)
  simp only [List.nil_append] at inv
  exact ⟨treeRows t, hrun, sinv_rows c t (recs ms) inv hw⟩

/-! ## EventTimeBuffer: the content is unchanged -/
theorem etb_net_commutes (ms : List Msg) (hr : InRange ms) (rows : List Row) (hc : Consolidates rows (recs ms))
    (y : Row) : net (outRecs etbOp ms) y = cnt rows y := by
  have hrun : etbOp.run ms = (bufSpec [] ms, none) := etb_runFrom ms [] [] List.Pairwise.nil rfl
  simp only [outRecs, hrun]
  rw [net_perm (recs_bufSpec_perm ms [] (by simp) hr) y]
  simpa using hc y

/-- the buffer keeps the changelog valid when the event time is a function of the row
    (see `etb_refuted` for what happens otherwise) -/
theorem etb_valid_out (ms : List Msg) (hr : InRange ms) (he : EtByRow (recs ms)) (hv : ValidLog (recs ms)) :
    ValidLog (outRecs etbOp ms) := by
  have hrun : etbOp.run ms = (bufSpec [] ms, none) := etb_runFrom ms [] [] List.Pairwise.nil rfl
  simp only [outRecs, hrun]
  apply validLog_of_cls_eq hv
  intro y
  -- all records of the class of `y` carry one event time
  have : ∃ e : Option Int, ∀ r ∈ snds [] ++ recs ms, rowEq r.vals y = true → r.et = e := by
    by_cases hex : ∃ a ∈ recs ms, rowEq a.vals y = true
    · obtain ⟨a, ha, hay⟩ := hex
      refine ⟨a.et, ?_⟩
      intro r hrm hry
      have hrm' : r ∈ recs ms := by simpa [snds] using hrm
      exact he r hrm' a ha (rowEq_trans hry (by rw [rowEq_symm]; exact hay))
    · refine ⟨none, ?_⟩
      intro r hrm hry
      exact absurd ⟨r, by simpa [snds] using hrm, hry⟩ hex
  obtain ⟨e, hcl⟩ := this
  have := cls_bufSpec y ms [] e (by simp) hr hcl
  simpa [snds, cls] using this

/-! ## CustomTriggerGroupBy with the end-of-stream trigger, behind its EventTimeBuffer -/
theorem ctgb_spec (agg : GAgg α) (spec : List Row → Row) (hagg : GAggOK agg spec) (kf inf : Row → Row)
    (hk : RowCongr kf) (hi : RowCongr inf) (etIdx : Option Nat)
    (hEt : ∀ x out, ∃ et, ctgbEventTime etIdx (kf x ++ out) = .ok et)
    (ms : List Msg) (hr : InRange ms) (he : EtByRow (recs ms)) (hv : ValidLog (recs ms)) (rows : List Row)
    (hc : Consolidates rows (recs ms)) :
    let o := ctgbNode agg (fun x => .ok (kf x)) (fun x => .ok (inf x)) etIdx ms false
    o.2 = none ∧ (∀ q ∈ recs o.1, q.retr = false) ∧ ∀ y, net (recs o.1) y = cnt (groupB spec kf inf rows) y := by
  have hrun : etbOp.run ms = (bufSpec [] ms, none) := etb_runFrom ms [] [] List.Pairwise.nil rfl
  -- what the group-by core receives is again a valid changelog with the same content
  have hv' : ValidLog (recs (bufSpec [] ms)) := by
    have := etb_valid_out ms hr he hv
    simpa only [outRecs, hrun] using this
  have hc' : Consolidates rows (recs (bufSpec [] ms)) := by
    intro y
    rw [net_perm (recs_bufSpec_perm ms [] (by simp) hr) y]
    simpa using hc y
  obtain ⟨s', inv, hcore⟩ := ctgb_runFrom agg kf inf hk hi etIdx (bufSpec [] ms) ⟨[], []⟩ [] (cinv_init agg kf inf)
    (by simpa using hv')
  simp only [List.nil_append] at inv
  obtain ⟨htrig, hcnt⟩ := cinv_result agg spec hagg kf inf hk hi _ s' inv rows hc'
  obtain ⟨l, hfl, hvals, hadd⟩ := ctgbFlush_ok agg etIdx s'.groups s'.keys htrig
    (by intro k hkm out; obtain ⟨x, rfl⟩ := inv.isKey k hkm; exact hEt x out)
  have hend : (ctgbOp agg (fun x => .ok (kf x)) (fun x => .ok (inf x)) etIdx).onEnd s' = (l.map .data, none) := by
    simp only [ctgbOp, hfl]
  simp only [ctgbNode, feed, hrun, Option.isSome_none]
  simp only [Op.run]
  rw [show (ctgbOp agg (fun x => .ok (kf x)) (fun x => .ok (inf x)) etIdx).init = ⟨[], []⟩ from rfl, hcore, hend]
  refine ⟨rfl, ?_, ?_⟩
  · intro q hq
    simp only [recs_append, recs_wmMsgs, List.nil_append, recs_map_data] at hq
    exact hadd q hq
  · intro y
    simp only [recs_append, recs_wmMsgs, List.nil_append, recs_map_data]
    rw [← hcnt y, ← hvals]
    -- the net of additions is the count of their rows
    clear hfl hend hvals
    induction l with
    | nil => rfl
    | cons q qs ih =>
      have hq := hadd q List.mem_cons_self
      simp only [net, weight_eq, sgn, hq, List.map_cons, cnt, ih (fun a ha => hadd a (List.mem_cons_of_mem _ ha))]
      simp

/-! # The full-strength statement, its refutation on the current tree, and what does hold -/

/-- what C15 demands of one operator: on every valid changelog (satisfying the operator's structural
    side conditions `Side`) the output is a valid changelog and its consolidation is `spec` of the
    consolidated input -/
def Holds (run : List Msg → Out) (spec : List Row → Row → Int) (Side : List Msg → Prop) : Prop :=
  ∀ ms, Side ms → ValidLog (recs ms) →
    ValidLog (recs (run ms).1) ∧ ∀ rows, Consolidates rows (recs ms) → ∀ y, net (recs (run ms).1) y = spec rows y

/-- **C15 at full strength**: every operator, every valid changelog.  `extraLookup` / `extraTime`
    are the hypotheses that the current tree needs in addition (`fun _ => True` = none). -/
structure StatementWith (extraLookup : (Row → List Msg) → Prop) (extraTime : List Msg → Prop) : Prop where
  filter : ∀ p, PredCongr p → Holds (filterOp fun x => .ok (p x)).run (fun rows => cnt (filterB p rows)) (fun _ => True)
  map : ∀ f, RowCongr f → Holds (mapOp fun x => .ok (f x)).run (fun rows => cnt (mapB f rows)) (fun _ => True)
  distinct : Holds distinctOp.run distinctSpec (fun _ => True)
  unnest : ∀ idx, Holds (unnestOp idx).run (fun rows => cnt (unnestB idx rows)) (fun ms => ∀ r ∈ recs ms, idx < r.vals.length)
  groupBy : ∀ (α : Type) (agg : GAgg α) (spec : List Row → Row) (kf inf : Row → Row), GAggOK agg spec → RowCongr kf →
    RowCongr inf →
    Holds (simpleGroupOp agg (fun x => .ok (kf x)) (fun x => .ok (inf x))).run (fun rows => cnt (groupB spec kf inf rows)) (fun _ => True)
  groupByCustom : ∀ (α : Type) (agg : GAgg α) (spec : List Row → Row) (kf inf : Row → Row) (etIdx : Option Nat),
    GAggOK agg spec → RowCongr kf → RowCongr inf → (∀ x out, ∃ et, ctgbEventTime etIdx (kf x ++ out) = .ok et) →
    Holds (fun ms => ctgbNode agg (fun x => .ok (kf x)) (fun x => .ok (inf x)) etIdx ms false)
      (fun rows => cnt (groupB spec kf inf rows)) (fun ms => InRange ms ∧ extraTime ms)
  lookupJoin : ∀ J : Row → List Msg, (∀ y, Congr (fun x => lookupK J x y)) → extraLookup J →
    Holds (lookupOp fun x => (J x, none)).run (lookupSpec fun x => recs (J x)) (fun _ => True)
  orderBy : ∀ (c : SortCfg) (noRetr : Bool),
    Holds (orderOp c.dirs (fun x => .ok (c.kf x)) none noRetr).run (fun rows => cnt rows) (fun ms => ∀ r ∈ recs ms, r.vals.length = c.w)
  eventTimeBuffer : Holds etbOp.run (fun rows => cnt rows) (fun ms => InRange ms ∧ extraTime ms)

/-- the property as stated: no extra hypotheses -/
def Statement : Prop := StatementWith (fun _ => True) (fun _ => True)

/-! ### witnesses -/
def r1 : Row := [.int 1]
/-- joined side that adds a row and takes it back -/
def Jflip : Row → List Msg := fun _ =>
  [.data { vals := r1, retr := false, et := none }, .data { vals := r1, retr := true, et := none }]
/-- source: the same -/
def srcFlip : List Msg := Jflip []

/-- a retraction (zero event time) whose addition carries event time 11 -/
def srcOvertake : List Msg :=
  [.data { vals := r1, retr := false, et := some 11 }, .wm 9, .data { vals := r1, retr := true, et := none }]

example : ValidLog (recs srcFlip) := validLog_of_validLogB _ (by decide)
example : ValidLog (recs srcOvertake) := validLog_of_validLogB _ (by decide)

/-- LookupJoin re-emits the joined changelog with flipped signs in the same order: the third
    message retracts an absent row -/
theorem lookup_refuted : ¬ (∀ J : Row → List Msg, (∀ y, Congr (fun x => lookupK J x y)) →
    Holds (lookupOp fun x => (J x, none)).run (lookupSpec fun x => recs (J x)) (fun _ => True)) := by
  intro h
  have hv : ValidLog (recs srcFlip) := validLog_of_validLogB _ (by decide)
  have hJ : ∀ y, Congr (fun x => lookupK Jflip x y) := by
    intro y x x' hx
    simp only [lookupK, lookupRecs, Jflip, recs, List.map, net, weight_eq,
      rowEq_congr_left (rowEq_append hx (rowEq_refl r1)) y, sgn]
  have := (h Jflip hJ srcFlip trivial hv).1 3 (r1 ++ r1)
  revert this; decide

/-- the EventTimeBuffer releases the zero-time retraction before its buffered addition -/
theorem etb_refuted : ¬ Holds etbOp.run (fun rows => cnt rows) (fun ms => InRange ms ∧ True) := by
  intro h
  have hv : ValidLog (recs srcOvertake) := validLog_of_validLogB _ (by decide)
  have hr : InRange srcOvertake := by
    intro r hr t ht
    simp only [srcOvertake, recs, List.mem_cons, List.not_mem_nil, or_false] at hr
    rcases hr with rfl | rfl <;> simp at ht
    subst ht; decide
  have := (h srcOvertake ⟨hr, trivial⟩ hv).1 1 r1
  revert this; decide

/-- **C15 is refuted on the current tree** (two independent witnesses; both reproduced on the real
    nodes: known findings `lookup-join-retracting-joined-side`, `event-time-buffer-reorders-retraction`) -/
theorem C15_refuted : ¬ Statement := by
  intro h
  exact lookup_refuted (fun J hJ => h.lookupJoin J hJ trivial)

/-- **What holds**: the full statement for every operator, with exactly two extra hypotheses —
    the joined side of a lookup join emits additions only; for the event-time buffer (alone and in
    front of CustomTriggerGroupBy) the event time is a function of the row. -/
theorem C15_partial :
    StatementWith (fun J => ∀ x, ∀ j ∈ recs (J x), j.retr = false) (fun ms => EtByRow (recs ms)) where
  filter p hp ms _ hv := ⟨filter_valid_out p hp ms hv, fun rows hc y => filter_net_commutes p hp ms rows hc y⟩
  map f hf ms _ hv := ⟨map_valid_out f hf ms hv, fun rows hc y => map_net_commutes f hf ms rows hc y⟩
  distinct ms _ hv := ⟨distinct_valid_out ms hv, fun rows hc y => distinct_net_commutes ms hv rows hc y⟩
  unnest idx ms hi hv := ⟨unnest_valid_out idx ms hi hv, fun rows hc y => unnest_net_commutes idx ms hi rows hc y⟩
  groupBy _ agg spec kf inf hagg hk hi ms _ hv :=
    ⟨(sgroup_valid_out agg spec hagg kf inf hk hi ms hv).1, fun rows hc y => sgroup_net_commutes agg spec hagg kf inf hk hi ms hv rows hc y⟩
  groupByCustom _ agg spec kf inf etIdx hagg hk hi hEt ms hside hv := by
    have hcons := consolidate_correct hv
    have h := ctgb_spec agg spec hagg kf inf hk hi etIdx hEt ms hside.1 hside.2 hv
    constructor
    · rw [validLog_iff_validFrom]
      exact validFrom_adds (fun _ => Int.le_refl 0) _ (h _ hcons).2.1
    · intro rows hc y; exact (h rows hc).2.2 y
  lookupJoin J hJ hadd ms _ hv := ⟨lookup_valid_out J hJ hadd ms hv, fun rows hc y => lookup_net_commutes J hJ ms rows hc y⟩
  orderBy c noRetr ms hw hv := ⟨order_valid_out c none noRetr ms, fun rows hc y => order_net_commutes c noRetr ms hv hw rows hc y⟩
  eventTimeBuffer ms hside hv := ⟨etb_valid_out ms hside.1 hside.2 hv, fun rows hc y => etb_net_commutes ms hside.1 rows hc y⟩

/-! ### the hypotheses are satisfiable by non-trivial instances -/
example : PredCongr (fun x => Value.bool (rowEq x [Value.int 1])) := by
  intro x x' h; simp only [rowEq_congr_left h]
example : RowCongr (fun x => x ++ [.int 5]) := fun _ _ h => rowEq_append h (rowEq_refl _)
example : GAggOK countAgg countSpec := countAgg_ok
/-- ORDER BY a constant key, descending: rows are ordered by their values -/
def exampleCfg : SortCfg :=
  { dirs := [-1], w := 2, kf := fun _ => [.int 0], hd := by intro d hd; simp at hd; simp [hd], hkl := fun _ => rfl,
    hk := fun _ _ _ => rowEq_refl _ }
example : EtByRow (recs [.data { vals := r1, retr := false, et := some 3 }, .wm 5, .data { vals := r1, retr := true, et := some 3 }]) := by
  intro a ha b hb _
  simp only [recs, List.mem_cons, List.not_mem_nil, or_false] at ha hb
  rcases ha with rfl | rfl <;> rcases hb with rfl | rfl <;> rfl
/-- the theorems are about runs that really emit retractions: Distinct on `+a +a -a -a` -/
example : (outRecs distinctOp [.data ⟨r1, false, none⟩, .data ⟨r1, false, none⟩, .data ⟨r1, true, none⟩,
    .data ⟨r1, true, none⟩]).map (·.retr) = [false, true] := by decide

end Octo.C15
