import Octo.Model.OpSpec
/-! # C15 — placeholder while the pipeline is wired (replaced below) -/
namespace Octo.C15
open Octo Octo.Ops

theorem filter_wm (p : Row → Except Err Value) (t : Int) :
    (filterOp p).onMsg () (.wm t) = ((), [.wm t], none) := rfl

end Octo.C15
