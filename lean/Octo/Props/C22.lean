import Octo.Model.ConsistentOutput
namespace Octo.C22
open Octo Octo.ICW

theorem placeholder : True := trivial

end Octo.C22
