import Octo.Lemmas.ConsistentOutput
/-!
# C22 — The internally-consistent output wrapper forwards exactly the settled changes

Property: for every input changelog with watermarks, each time the wrapper forwards watermark W, the consolidated
records it has emitted equal the consolidated input records with event time at or below W.  It never emits a
record that was not in its input, and by end of stream everything has been emitted.

`ICW.run` is the model of `InternallyConsistentOutputStreamWrapper.Run`
(`outputs/stream/internally_consistent_output_stream_wrapper.go`); `ICW.fixed` is the code in /repo now (after the
`fix:` commit), `ICW.shipped` the code before it.  The model is tied to the Go code by the C22 correspondence run
(exact emitted sequence) on every check.

All theorems quantify over **all** inputs: any length, any rows (values of any nesting), duplicates, retractions
(also of rows that are not present — validity of the changelog is *not* needed), out-of-order and late event times,
records without event time.  Hypotheses, where present:
* `SameArity k (recs inp)` — all records have the same number of columns (a stream has one schema); without it the
  Go value loop indexes out of range (modelled as `.panic`);
* `Mono (wms inp)` — watermarks are non-decreasing (C18), needed for `at_wm` only;
* `InRange inp` — event times are at most `WatermarkMaxValue` = MaxInt64 ns (all that `time.Time.UnixNano` can express),
  needed for `complete` only.
"Consolidated … equal" is `∀ row, net … row = net … row` (DESIGN §2.7): equal signed multiplicity for every row,
rows identified by the engine's own `Compare == 0`.
-/
namespace Octo.C22
open Octo Octo.ICW

/-- event time at or below `W` (records without event time count as below everything) -/
def etLe (W : Int) (r : Rec) : Bool := !after W r

/-- `a` is contained in `b` as a multiset: `b` is a rearrangement of `a` plus something -/
def SubMulti (a b : List Rec) : Prop := ∃ c, (a ++ c).Perm b

def InRange (inp : List Msg) : Prop := ∀ r ∈ recs inp, after wmMax r = false

/-- everything about a complete run, in one place -/
theorem run_decomp (k : Nat) (inp : List Msg) (har : SameArity k (recs inp)) :
    ∃ s o c, steps fixed St.init inp = .ok s ∧ Inv k inp s ∧ run fixed inp = .ok (s.out ++ o.map .data) ∧
      (o ++ c).Perm (s.pending.filter (fun r => !after wmMax r)) ∧ ∀ row, net c row = 0 := by
  obtain ⟨s, hs, hinv⟩ := steps_inv k inp [] St.init (inv_init k) har
  obtain ⟨o, c, hf, hp, hc⟩ := flush_spec k wmMax s.pending hinv.arity
  exact ⟨s, o, c, hs, by simpa using hinv, by simp [run, hs, finish, hf], hp, hc⟩

/-- **no panic**: on records of one arity the wrapper always completes -/
theorem no_panic (k : Nat) (inp : List Msg) (har : SameArity k (recs inp)) : ∃ out, run fixed inp = .ok out := by
  obtain ⟨s, o, _, _, _, h, _, _⟩ := run_decomp k inp har
  exact ⟨_, h⟩

/-- every watermark is forwarded, once, in order -/
theorem watermarks_forwarded (k : Nat) (inp out : List Msg) (har : SameArity k (recs inp))
    (hrun : run fixed inp = .ok out) : wms out = wms inp := by
  obtain ⟨s, o, _, _, hinv, h, _, _⟩ := run_decomp k inp har
  rw [h] at hrun; cases hrun
  simp [wms_append, wms_map_data, hinv.wmsOut]

/-- **at every forwarded watermark**: when the input is `pre ++ [wm W] ++ suf`, the output is `o1 ++ [wm W] ++ o2`
    where `o1` is what was emitted before that watermark (it contains as many watermarks as `pre`), and the
    consolidated records of `o1` equal the consolidated records of `pre` with event time ≤ W -/
theorem at_wm (k : Nat) (pre suf : List Msg) (W : Int) (out : List Msg)
    (har : SameArity k (recs (pre ++ .wm W :: suf))) (hm : Mono (wms (pre ++ .wm W :: suf)))
    (hrun : run fixed (pre ++ .wm W :: suf) = .ok out) :
    ∃ o1 o2, out = o1 ++ .wm W :: o2 ∧ wms o1 = wms pre ∧
      ∀ row, net (recs o1) row = net ((recs pre).filter (etLe W)) row := by
  have har1 : SameArity k (recs pre) := fun r hr => har r (by simp [recs_append, hr])
  have har2 : SameArity k (recs suf) := fun r hr => har r (by simp [recs_append, recs, hr])
  obtain ⟨s1, hs1, hinv1⟩ := steps_inv k pre [] St.init (inv_init k) har1
  have hinv1' : Inv k pre s1 := by simpa using hinv1
  obtain ⟨s2, hs2, hinv2, ⟨o, ho⟩, hnet⟩ := step_wm k pre s1 W hinv1'
  obtain ⟨s3, hs3, hinv3⟩ := steps_inv k suf (pre ++ [.wm W]) s2 hinv2 har2
  obtain ⟨o', ho'⟩ := steps_out_prefix fixed suf s2 s3 hs3
  obtain ⟨of, c, hf, _, _⟩ := flush_spec k wmMax s3.pending hinv3.arity
  have hsteps : steps fixed St.init (pre ++ .wm W :: suf) = .ok s3 := by
    rw [steps_append, hs1]; simp only [steps, hs2, hs3]
  have hout : out = s3.out ++ of.map .data := by
    simp [run, hsteps, finish, hf] at hrun; exact hrun.symm
  have hmono : Mono (wms (pre ++ [.wm W])) := by
    have : wms (pre ++ .wm W :: suf) = wms (pre ++ [.wm W]) ++ wms suf := by
      simp [wms_append, wms]
    rw [this] at hm; exact mono_append_left hm
  refine ⟨s1.out ++ o.map .data, o' ++ of.map .data, ?_, ?_, ?_⟩
  · rw [hout, ho', ho]; simp [List.append_assoc]
  · simp [wms_append, wms_map_data, hinv1'.wmsOut]
  · intro row
    have := hnet hmono row
    rw [ho] at this
    simp only [recs_append, recs, List.append_nil] at this ⊢
    exact this

/-- **never emits a record that was not in its input**: the emitted records are a sub-multiset of the input
    records (each emitted record is one of the input records, and none is emitted more often than received) -/
theorem no_invention (k : Nat) (inp out : List Msg) (har : SameArity k (recs inp))
    (hrun : run fixed inp = .ok out) : SubMulti (recs out) (recs inp) := by
  obtain ⟨s, o, c, _, hinv, h, hp, _⟩ := run_decomp k inp har
  rw [h] at hrun; cases hrun
  obtain ⟨C, hC, _⟩ := hinv.cons
  refine ⟨c ++ s.pending.filter (after wmMax) ++ C, ?_⟩
  simp only [recs_append, recs_map_data]
  refine List.Perm.trans ?_ hC
  -- recs s.out ++ o ++ (c ++ kept ++ C) ~ recs s.out ++ pending ++ C
  have hpend : (o ++ (c ++ s.pending.filter (after wmMax))).Perm s.pending := by
    have h1 : (o ++ (c ++ s.pending.filter (after wmMax))).Perm ((o ++ c) ++ s.pending.filter (after wmMax)) := by
      simp [List.append_assoc]
    refine h1.trans ((List.Perm.append_right _ hp).trans ?_)
    have := List.filter_append_perm (fun r => !after wmMax r) s.pending
    simpa using this
  have : recs s.out ++ o ++ (c ++ s.pending.filter (after wmMax) ++ C)
      = recs s.out ++ ((o ++ (c ++ s.pending.filter (after wmMax))) ++ C) := by simp [List.append_assoc]
  rw [this]
  simp only [List.append_assoc]
  exact List.Perm.append_left _ (by simpa [List.append_assoc] using List.Perm.append_right C hpend)

/-- in particular every emitted record *is* an input record -/
theorem emitted_mem_input (k : Nat) (inp out : List Msg) (har : SameArity k (recs inp))
    (hrun : run fixed inp = .ok out) : ∀ r ∈ recs out, r ∈ recs inp := by
  obtain ⟨c, hc⟩ := no_invention k inp out har hrun
  intro r hr
  exact hc.subset (List.mem_append_left _ hr)

/-- **complete**: by end of stream the consolidated output equals the consolidated input -/
theorem complete (k : Nat) (inp out : List Msg) (har : SameArity k (recs inp)) (hrange : InRange inp)
    (hrun : run fixed inp = .ok out) : ∀ row, net (recs out) row = net (recs inp) row := by
  obtain ⟨s, o, c, _, hinv, h, hp, hc⟩ := run_decomp k inp har
  rw [h] at hrun; cases hrun
  obtain ⟨C, hC, hC0⟩ := hinv.cons
  intro row
  have hkept : s.pending.filter (after wmMax) = [] := by
    apply List.filter_eq_nil_iff.mpr
    intro r hr
    have : r ∈ recs inp := hC.subset (List.mem_append_left _ (List.mem_append_right _ hr))
    simp [hrange r this]
  have e1 := net_perm hC row
  have e2 := net_perm hp row
  have e3 := net_filter_add (after wmMax) s.pending row
  simp only [net_append, hc row, hC0 row] at e1 e2
  simp only [recs_append, recs_map_data, net_append]
  rw [hkept] at e3
  simp only [net_nil] at e3
  omega

/-- when no record is late (every record delivered after a watermark lies above it — the usual contract between
    a source and its watermarks), "the input records at or below W" may be read over the **whole** input -/
theorem at_wm_whole_input (k : Nat) (pre suf : List Msg) (W : Int) (out : List Msg)
    (har : SameArity k (recs (pre ++ .wm W :: suf))) (hm : Mono (wms (pre ++ .wm W :: suf)))
    (hlate : ∀ r ∈ recs suf, after W r = true)
    (hrun : run fixed (pre ++ .wm W :: suf) = .ok out) :
    ∃ o1 o2, out = o1 ++ .wm W :: o2 ∧ wms o1 = wms pre ∧
      ∀ row, net (recs o1) row = net ((recs (pre ++ .wm W :: suf)).filter (etLe W)) row := by
  obtain ⟨o1, o2, h1, h2, h3⟩ := at_wm k pre suf W out har hm hrun
  refine ⟨o1, o2, h1, h2, fun row => ?_⟩
  have : (recs suf).filter (etLe W) = [] := by
    apply List.filter_eq_nil_iff.mpr
    intro r hr; simp [etLe, hlate r hr]
  rw [h3 row]
  simp [recs_append, recs, List.filter_append, this]

/-- what has been emitted when the source stops (or fails) after `pre` is a prefix of what is emitted for any
    continuation: "each time the wrapper forwards a watermark" is a statement about input prefixes -/
theorem emitted_is_prefix (pre suf : List Msg) (o1 out : List Msg)
    (h1 : runFail fixed pre = .ok o1) (h2 : run fixed (pre ++ suf) = .ok out) : ∃ o2, out = o1 ++ o2 := by
  simp only [runFail] at h1
  cases hs1 : steps fixed St.init pre with
  | error e => rw [hs1] at h1; cases h1
  | ok s1 =>
    rw [hs1] at h1; cases h1
    simp only [run, steps_append, hs1] at h2
    cases hs2 : steps fixed s1 suf with
    | error e => rw [hs2] at h2; cases h2
    | ok s2 =>
      rw [hs2] at h2
      obtain ⟨o', ho'⟩ := steps_out_prefix fixed suf s1 s2 hs2
      simp only [finish] at h2
      cases hf : flush fixed wmMax s2.pending with
      | error e => rw [hf] at h2; cases h2
      | ok p =>
        rw [hf] at h2; cases h2
        exact ⟨o' ++ p.1.map .data, by rw [ho']; simp [List.append_assoc]⟩

/-! ## Full statement -/

/-- the full-strength statement of C22 for an implementation `run` -/
def Statement (run : List Msg → Except Fail (List Msg)) : Prop :=
  ∀ (k : Nat) (inp : List Msg), SameArity k (recs inp) → Mono (wms inp) →
    ∃ out, run inp = .ok out ∧
      -- each time a watermark W is forwarded: consolidated emitted = consolidated input so far with event time ≤ W
      (∀ pre W suf, inp = pre ++ .wm W :: suf →
        ∃ o1 o2, out = o1 ++ .wm W :: o2 ∧ wms o1 = wms pre ∧
          ∀ row, net (recs o1) row = net ((recs pre).filter (etLe W)) row) ∧
      -- never a record that was not in the input
      SubMulti (recs out) (recs inp) ∧
      -- by end of stream everything has been emitted
      (InRange inp → ∀ row, net (recs out) row = net (recs inp) row)

/-- **C22, full strength, on the current tree.** -/
theorem C22_full : Statement (run fixed) := by
  intro k inp har hm
  obtain ⟨out, hrun⟩ := no_panic k inp har
  refine ⟨out, hrun, ?_, no_invention k inp out har hrun, fun hr => complete k inp out har hr hrun⟩
  intro pre W suf he
  subst he
  exact at_wm k pre suf W out har hm hrun

/-! ## The shipped code violates the property (three independent defects) -/

def row1 (retr : Bool) (et : Int) : Msg := .data { vals := [.int 1], retr := retr, et := some et }
/-- a decidable view of an output: per message, `none` for a watermark, `some (arity, retraction, et)` for a record -/
def view (o : Except Fail (List Msg)) : Option (List (Option (Nat × Bool × Option Int))) :=
  o.toOption.map fun ms => ms.map fun m => match m with
    | .wm _ => none
    | .data r => some (r.vals.length, r.retr, r.et)

/-- defect 1 (`make([]Record, n)` then `append`): input `+a(et 9), wm 5, wm 10` — an empty record that was never in
    the input is emitted before `a` -/
theorem shipped_invents_zero_record :
    view (run shipped [row1 false 9, .wm 5, .wm 10]) = some [none, some (0, false, none), some (1, false, some 9), none] := by
  decide
/-- defect 2 (crossed-out retractions are matched again): `+a +a −a, wm` emits nothing, the consolidated input is `+a` -/
theorem shipped_one_retraction_cancels_two :
    view (run shipped [row1 false 1, row1 false 1, row1 true 1, .wm 5]) = some [none] := by decide
/-- defect 3 (an addition ≤ W cancelled against a retraction > W): `+a(et 1) −a(et 9), wm 5, wm 10` emits nothing
    before `wm 5` although the consolidated input ≤ 5 is `+a`.  (With defect 1 present the retraction then vanishes
    too: the zero record in front of it has no values, so the value loop "matches" it with the retraction.) -/
theorem shipped_cancels_against_later_retraction :
    view (run shipped [row1 false 1, row1 true 9, .wm 5, .wm 10]) = some [none, none] := by decide

theorem shipped_refuted : ¬ Statement (run shipped) := by
  intro h
  obtain ⟨out, hrun, _, hsub, _⟩ := h 1 [row1 false 9, .wm 5, .wm 10]
    (by intro r hr; simp [recs, row1] at hr; subst hr; rfl) (by simp [wms, row1, Mono])
  -- the output contains a record of arity 0, the input does not
  have hv := shipped_invents_zero_record
  rw [hrun] at hv
  obtain ⟨c, hc⟩ := hsub
  have hmem : ∀ r ∈ recs out, r.vals.length = 1 := by
    intro r hr
    have : r ∈ recs [row1 false 9, .wm 5, .wm 10] := hc.subset (List.mem_append_left _ hr)
    simp [recs, row1] at this; subst this; rfl
  simp only [view, Except.toOption, Option.map, Option.some.injEq] at hv
  match out, hv, hmem with
  | [.wm _, .data r, .data _, .wm _], hv, hmem =>
    have h0 := hmem r (by simp [recs])
    simp at hv
    rw [hv.1.1] at h0
    cases h0

/-! ## Non-vacuity -/

def rowA (retr : Bool) (et : Option Int) : Msg := .data { vals := [.int 1, .str [97]], retr := retr, et := et }
def rowB (retr : Bool) (et : Option Int) : Msg := .data { vals := [.int 2, .str [98]], retr := retr, et := et }
/-- duplicates, a retraction, out-of-order and late event times, a record without event time, repeated watermark -/
def demo : List Msg :=
  [rowA false (some 3), rowA false (some 3), rowB false (some 7), rowA true (some 4), .wm 4, rowB true (some 9),
   rowA false (some 2), .wm 4, rowB false none, .wm 8, rowA false (some 20)]

example : SameArity 2 (recs demo) := by simp [SameArity, demo, recs, rowA, rowB]
example : Mono (wms demo) := by simp [demo, wms, rowA, rowB, Mono]
example : InRange demo := by simp [InRange, demo, recs, rowA, rowB, after, wmMax]
/-- the repaired code on the demo: at `wm 4` one `+A` (two additions, one retraction), then the late `+A`, … -/
example : view (run fixed demo) =
    some [some (2, false, some 3), none, some (2, false, some 2), none, some (2, false, some 7), some (2, false, none), none,
          some (2, true, some 9), some (2, false, some 20)] := by decide
/-- the three witnesses, on the repaired code -/
example : view (run fixed [row1 false 9, .wm 5, .wm 10]) = some [none, some (1, false, some 9), none] := by decide
example : view (run fixed [row1 false 1, row1 false 1, row1 true 1, .wm 5]) = some [some (1, false, some 1), none] := by decide
example : view (run fixed [row1 false 1, row1 true 9, .wm 5, .wm 10]) =
    some [some (1, false, some 1), none, some (1, true, some 9), none] := by decide

end Octo.C22
