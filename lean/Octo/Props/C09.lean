import Octo.Lemmas.HashCongr
/-!
# C09 — Value ordering, equality and hashing agree

Property: over all values (NaN, signed zeros, infinities, nested lists/objects/tuples) the
value comparison is a total preorder and values that compare equal hash equally.

`cmp`/`hashV` are the models of `Value.Compare`/`Value.hash` of `octosql/values.go`
(tied to the code by the C09 correspondence run on every check).
All theorems quantify over values of **any** nesting depth.
-/
namespace Octo.C09
open Octo

/-- reflexive -/
theorem cmp_refl (a : Value) : cmp a a = 0 := cmpWith_refl cmpFloatFixed_laws a
/-- antisymmetric in the sense of a comparator: swapping the arguments negates the result -/
theorem cmp_antisymm (a b : Value) : cmp a b = - cmp b a := cmpWith_antisymm cmpFloatFixed_laws a b
/-- transitive -/
theorem cmp_trans (a b c : Value) : cmp a b ≤ 0 → cmp b c ≤ 0 → cmp a c ≤ 0 :=
  cmpWith_trans cmpFloatFixed_laws a b c
/-- total: any two values are comparable (the result is one of −1, 0, 1) -/
theorem cmp_total (a b : Value) : cmp a b = -1 ∨ cmp a b = 0 ∨ cmp a b = 1 :=
  cmpWith_range cmpFloatFixed_laws a b
/-- "compares equal" is an equivalence (with `cmp_refl`, `cmp_antisymm`) -/
theorem cmp_eq_trans (a b c : Value) : cmp a b = 0 → cmp b c = 0 → cmp a c = 0 :=
  cmpWith_eq_trans cmpFloatFixed_laws a b c
/-- strict part is transitive (what the btrees' `Less` needs) -/
theorem cmp_lt_trans (a b c : Value) (h1 : cmp a b < 0) (h2 : cmp b c < 0) : cmp a c < 0 := by
  have t := cmp_trans a b c (by omega) (by omega)
  have t2 := cmp_trans c a b
  have a1 := cmp_antisymm a c; have a2 := cmp_antisymm b c
  omega

/-- values that compare equal hash equally, from any running hash state -/
theorem hash_congr (a b : Value) (wa : a.wf = true) (wb : b.wf = true)
    (h : cmp a b = 0) (s : UInt64) : hashV s a = hashV s b :=
  hashWith_congr floatHashOk_fixed false a b wa wb h s

theorem hash_congr' (a b : Value) (wa : a.wf = true) (wb : b.wf = true)
    (h : cmp a b = 0) : a.hash = b.hash := hash_congr a b wa wb h _

/-- rows (`[]Value`, `GroupKey`): pointwise-equal rows hash equally under `HashManyValues` -/
theorem hashMany_congr (xs ys : List Value) (wx : Value.wfList xs = true) (wy : Value.wfList ys = true)
    (h : cmpList xs ys = 0) : hashMany xs = hashMany ys :=
  hashListWith_congr_of (cf := cmpFloatFixed) (fb := hashBitsFixed) false
    (Value.sizeList xs + Value.sizeList ys + 1)
    (fun x y _ wx wy hc s => hashWith_congr floatHashOk_fixed false x y wx wy hc s)
    xs ys (Nat.lt_succ_self _) wx wy h _

/-- `Equal` (the `=` operator on non-NULL values) agrees with `Compare == 0` -/
theorem equal_iff (a b : Value) (h : a ≠ .null ∨ b ≠ .null) : a.equal b = true ↔ cmp a b = 0 := by
  unfold Value.equal
  split
  · simp at h
  · simp

/-- the btrees' `Less` on rows (GROUP BY keys, ORDER BY items, MIN/MAX/array_agg) is exactly the strict part of
    the row order — it relies on `Compare` returning −1 (not just a negative number) for "less" -/
theorem lessRows_iff (a b : List Value) : lessRows a b = true ↔ cmpList a b < 0 := by
  induction a generalizing b with
  | nil => cases b <;> simp [lessRows, cmpListWith]
  | cons x xs ih =>
    cases b with
    | nil => simp [lessRows, cmpListWith]
    | cons y ys =>
      have r := cmpWith_range cmpFloatFixed_laws x y
      have hb : (cmpWith cmpFloatFixed x y == -1) = true ↔ cmpWith cmpFloatFixed x y = -1 := by simp
      simp only [lessRows, cmpListWith, bne_iff_ne, ne_eq, ite_not]
      split
      · exact ih ys
      · rw [hb]; constructor <;> intro h <;> omega

/-- the full-strength statement of the property for a comparison/hash pair -/
def Statement (c : Value → Value → Int) (hsh : UInt64 → Value → UInt64) : Prop :=
  (∀ a, c a a = 0) ∧ (∀ a b, c a b = - c b a) ∧
  (∀ a b d, c a b ≤ 0 → c b d ≤ 0 → c a d ≤ 0) ∧
  (∀ a b, a.wf = true → b.wf = true → c a b = 0 → ∀ s, hsh s a = hsh s b)

/-- **C09, full strength, on the current tree.** -/
theorem C09_full : Statement cmp hashV :=
  ⟨cmp_refl, cmp_antisymm, cmp_trans, fun a b wa wb h s => hash_congr a b wa wb h s⟩

/-! ## Non-vacuity and the refutation of the pre-repair code -/

def f1 : Value := .float 0x3FF0000000000000   -- 1.0
def f2 : Value := .float 0x4000000000000000   -- 2.0
def nan : Value := .float 0x7FF8000000000001
def nan2 : Value := .float 0xFFF8000000000123
def pz : Value := .float 0
def nz : Value := .float F64.negZero

/-- the hypotheses of `hash_congr` are met by non-identical values -/
example : pz.wf = true ∧ nz.wf = true ∧ cmp pz nz = 0 := by decide
example : pz ≠ nz := by simp [pz, nz, F64.negZero, F64.signBit]
example : cmp (.list [nan, .str [97]]) (.list [nan2, .str [97]]) = 0 := by decide
example : cmp nan f1 = -1 ∧ cmp f1 nan = 1 ∧ cmp nan nan2 = 0 := by decide

/-- the code before the repair: transitivity fails at 1.0, NaN, 2.0 … -/
theorem raw_not_transitive : cmpRaw f1 nan ≤ 0 ∧ cmpRaw nan f2 ≤ 0 ∧ ¬ cmpRaw f2 f1 ≤ 0 ∧ cmpRaw f1 nan = 0 ∧ cmpRaw nan f2 = 0 ∧ cmpRaw f1 f2 ≠ 0 := by decide
/-- … and equal values hash differently (+0 / −0; a NaN and anything). -/
theorem raw_hash_not_congr : cmpRaw pz nz = 0 ∧ hashRaw Fnv.offset64 pz ≠ hashRaw Fnv.offset64 nz := by decide
theorem raw_refuted : ¬ Statement cmpRaw hashRaw := by
  intro ⟨_, _, _, h4⟩
  have := h4 pz nz (by decide) (by decide) (by decide) Fnv.offset64
  exact absurd this (by decide)

end Octo.C09
