import Octo.Model.Optimizer
namespace Octo.C04
open Octo.Plan
theorem all_rules_modelled : (defaultRules).isSome = true := by decide
end Octo.C04
