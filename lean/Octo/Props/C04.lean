import Octo.Lemmas.PlanPrunable
import Octo.Lemmas.PlanExamples
/-!
  C04 — Query optimization never changes results.

  `Octo.Plan.denote` is what a physical plan computes on batch input (a list of records in one of the orders the
  engine may produce); `Octo.Plan.optimize` is `optimizer.Optimize` over the rule list the translator reads from
  optimizer/optimize.go (`Octo.Gen.OptimizerRules.rules`).  The theorems below are about every plan, every
  database and every bound on the number of optimizer passes; the hypotheses are

  * `WellFormed db p` (= `Good db p []`, "WellScoped ∧ TotalExprs"): field names of a schema are unique, the
    declared schemas of filters / joins / pass-through nodes agree with their inputs, every expression refers to
    fields of its input (or of an enclosing lookup-join record) and cannot fail, `=` has two arguments, the
    datasources can deliver their declared fields, the right side of a lookup join cannot fail;
  * `MapRemovable p` / `DatasourceRemovable p` / `GroupByRemovable p` (for the three removal rules): no field of a Map
    node / a datasource / no aggregate of a group-by reaches an ORDER BY / LIMIT node, an outer join, a table valued
    function schema, a group-by key or the source side of a lookup join, and no two kinds of node declare the same name;
  * `Prunable p` (for the whole optimizer): all three, for all fields of those nodes.
  Group-by nodes must in addition not be able to fail (e.g. no `sum` over a column that may hold a String).

  The results are compared as bags (`bagEq`); in fact the model's nested-loop order makes them equal as lists.
-/
namespace Octo.C04
open Octo Octo.Plan

/-- equal as multisets of records, or both failing -/
def bagEq : Option (List Row) → Option (List Row) → Prop
  | some a, some b => a.Perm b
  | none, none => True
  | _, _ => False

theorem bagEq_of_eq {a b : Option (List Row)} (h : a = b) : bagEq a b := by
  subst h
  cases a with
  | none => trivial
  | some x => exact List.Perm.refl x

/-- `WellScoped ∧ TotalExprs` for a whole query (no enclosing record) -/
abbrev WellFormed (db : Db) (p : Plan) : Prop := Good db p []

/-- a rule never changes what a well-formed plan computes, and keeps it well-formed -/
def Sound (db : Db) (r : Rule) : Prop :=
  ∀ (p p' : Plan) (c : Bool), WellFormed db p → r p = some (p', c) →
    WellFormed db p' ∧ p'.schema = p.schema ∧ bagEq (denote db p' []) (denote db p [])

theorem binds_nil : Binds [] [] := fun x hx => by cases hx

theorem sound_of_ruleOK {db : Db} {r : Rule} (h : RuleOK db r) : Sound db r := by
  intro p p' c hg hr
  obtain ⟨h1, h2, h3⟩ := h [] p p' c hg hr
  exact ⟨h1, h2, bagEq_of_eq (h3 [] binds_nil)⟩

/-! ### the translator's rule list is modelled -/

theorem all_rules_modelled : defaultRules.isSome = true := by decide

/-! ### the five filter rules -/

/-- `MergeFilters`: two stacked filters are the filter of the conjunction -/
theorem mergeFilters_sound (db : Db) : Sound db mergeFilters := sound_of_ruleOK (mergeFilters_ok db)

/-- `PushDownFilterPredicatesIntoStreamJoinBranch`: conjuncts that read one join input only are evaluated below the join -/
theorem pushIntoStreamJoinBranch_sound (db : Db) : Sound db pushDownFilterPredicatesIntoStreamJoinBranch :=
  sound_of_ruleOK (pushIntoStreamJoinBranch_ok db)

/-- `PushDownFilterPredicatesIntoStreamJoinKey`: `l = r` conjuncts become join keys (NULL keys never match, keys are
    compared with `Compare`, `Compare = 0` is symmetric — C09) -/
theorem pushIntoStreamJoinKey_sound (db : Db) : Sound db pushDownFilterPredicatesIntoStreamJoinKey :=
  sound_of_ruleOK (pushIntoStreamJoinKey_ok db)

/-- `PushDownFilterPredicatesIntoLookupJoinBranch` -/
theorem pushIntoLookupJoinBranch_sound (db : Db) : Sound db pushDownFilterPredicatesIntoLookupJoinBranch :=
  sound_of_ruleOK (pushIntoLookupJoin_ok db)

/-- `PushDownFilterPredicatesToDatasource`, for datasources that reject every predicate (the built-in file formats)
    and for datasources that accept `column = constant` (the contract: a datasource applies what it accepted) -/
theorem pushToDatasource_sound (db : Db) : Sound db pushDownFilterPredicatesToDatasource :=
  sound_of_ruleOK (pushToDatasource_ok db)

/-! ### removal of unused Map fields -/

/-- `RemoveUnusedMapFields`: the whole loop over the collected fields -/
theorem removeUnusedMapFields_sound (db : Db) (p p' : Plan) (c : Bool)
    (hw : WellFormed db p) (hr : MapRemovable p) (h : removeUnusedMapFields p = some (p', c)) :
    WellFormed db p' ∧ p'.schema = p.schema ∧ bagEq (denote db p' []) (denote db p []) := by
  obtain ⟨h1, h2, h3⟩ := removeUnusedMapFields_ok db [] p p' c hw hr h
  exact ⟨h1, h2, bagEq_of_eq (h3 [] binds_nil)⟩

/-- `RemoveUnusedDatasourceFields`: the whole loop over the collected fields -/
theorem removeUnusedDatasourceFields_sound (db : Db) (p p' : Plan) (c : Bool)
    (hw : WellFormed db p) (hr : DatasourceRemovable p) (h : removeUnusedDatasourceFields p = some (p', c)) :
    WellFormed db p' ∧ p'.schema = p.schema ∧ bagEq (denote db p' []) (denote db p []) := by
  obtain ⟨h1, h2, h3⟩ := removeUnusedDatasourceFields_ok db [] p p' c hw hr h
  exact ⟨h1, h2, bagEq_of_eq (h3 [] binds_nil)⟩

/-- `RemoveUnusedGroupByNonKeyFields`: the whole loop over the collected fields -/
theorem removeUnusedGroupByNonKeyFields_sound (db : Db) (p p' : Plan) (c : Bool)
    (hw : WellFormed db p) (hr : GroupByRemovable p) (h : removeUnusedGroupByNonKeyFields p = some (p', c)) :
    WellFormed db p' ∧ p'.schema = p.schema ∧ bagEq (denote db p' []) (denote db p []) := by
  obtain ⟨h1, h2, h3⟩ := removeUnusedGroupByNonKeyFields_ok db [] p p' c hw hr h
  exact ⟨h1, h2, bagEq_of_eq (h3 [] binds_nil)⟩

/-- one removal step erases the field from every record of every sub-plan (the simulation behind the rule) -/
theorem removeField_simulation (db : Db) (f : String) (p p' : Plan) (outer : List String) (ctx : Ctx)
    (hg : Good db p outer) (hu : usedBelow f p = false) (hr : Removable f p) (h : rmPlan f p = some p')
    (hb : Binds outer ctx) :
    denote db p' ctx = (denote db p ctx).map (List.map (eraseKey f)) :=
  (rm_sim db f p outer p' hg hu hr h).sim ctx hb

/-- the two `TransformNode` passes of one removal step compute `rmPlan` -/
theorem removal_passes_eq (f : String) (p : Plan) (h : AllNodup p) (hg : NoGroupByHas f p) :
    (match mapNodes (removeMapFieldLocal f) p with
     | some p1 => removeFieldFromPassers f p1
     | none => none) = rmPlan f p := twoPass f p h hg

/-! ### the fixpoint -/

/-- the optimizer's loop over any list of sound rules, for every bound on the number of passes -/
theorem optimizeWith_sound (db : Db) (rules : List Rule) (hr : ∀ r ∈ rules, RuleOK db r) (fuel : Nat)
    (p p' : Plan) (hw : WellFormed db p) (h : optimizeWith rules fuel p = .ok p') :
    WellFormed db p' ∧ p'.schema = p.schema ∧ bagEq (denote db p' []) (denote db p []) := by
  obtain ⟨h1, h2, h3⟩ := optimizeWith_ok hr fuel [] p p' hw h
  exact ⟨h1, h2, bagEq_of_eq (h3 [] binds_nil)⟩

/-- the rules of the generated list that move filters (everything but the three `RemoveUnused…` rules), in the
    generated order -/
def filterRuleNames : List String :=
  Octo.Gen.OptimizerRules.rules.filter fun n =>
    !(n == "RemoveUnusedMapFields" || n == "RemoveUnusedGroupByNonKeyFields" || n == "RemoveUnusedDatasourceFields")

theorem filterRules_ok (db : Db) : ∀ rs, rulesOfNames filterRuleNames = some rs → ∀ r ∈ rs, RuleOK db r := by
  intro rs h r hr
  have : rulesOfNames filterRuleNames = some [pushDownFilterPredicatesToDatasource,
      pushDownFilterPredicatesIntoLookupJoinBranch, pushDownFilterPredicatesIntoStreamJoinBranch,
      pushDownFilterPredicatesIntoStreamJoinKey, mergeFilters] := by rfl
  rw [this] at h
  simp only [Option.some.injEq] at h
  subst h
  simp only [List.mem_cons, List.not_mem_nil, or_false] at hr
  rcases hr with rfl | rfl | rfl | rfl | rfl
  · exact pushToDatasource_ok db
  · exact pushIntoLookupJoin_ok db
  · exact pushIntoStreamJoinBranch_ok db
  · exact pushIntoStreamJoinKey_ok db
  · exact mergeFilters_ok db

/-- `Optimize` restricted to the filter rules of the generated list never changes the result -/
theorem optimize_filter_rules_sound (db : Db) (rs : List Rule) (hrs : rulesOfNames filterRuleNames = some rs)
    (fuel : Nat) (p p' : Plan) (hw : WellFormed db p) (h : optimizeWith rs fuel p = .ok p') :
    WellFormed db p' ∧ p'.schema = p.schema ∧ bagEq (denote db p' []) (denote db p []) :=
  optimizeWith_sound db rs (filterRules_ok db rs hrs) fuel p p' hw h

/-- `optimizer.Optimize` itself — the rule list the translator read from optimizer/optimize.go, all eight rules, any
    number of passes — never changes the result of a well-formed plan whose Map, datasource and aggregate fields are
    removable; the optimized plan is again well-formed and prunable -/
theorem optimize_sound (db : Db) (fuel : Nat) (p p' : Plan) (hw : WellFormed db p) (hp : Prunable p)
    (h : optimize fuel p = .ok p') :
    WellFormed db p' ∧ Prunable p' ∧ p'.schema = p.schema ∧ bagEq (denote db p' []) (denote db p []) := by
  obtain ⟨⟨h1, h2, h3⟩, h4⟩ := optimize_ok db fuel [] p p' hw hp h
  exact ⟨h1, h4, h2, bagEq_of_eq (h3 [] binds_nil)⟩

/-! ### the property -/

/-- C04 at full strength: on every well-formed plan and every database, whatever the real rule list makes of the plan
    computes the same bag of records -/
def Statement : Prop :=
  ∀ (db : Db) (p p' : Plan) (fuel : Nat), WellFormed db p → optimize fuel p = .ok p' →
    bagEq (denote db p' []) (denote db p [])

/-- It does not hold: `SELECT a FROM (SELECT b, a, k FROM t ORDER BY k LIMIT 1) q` over the rows
    `(a,b,k) = (2,1,0), (1,2,0)`.  The two rows tie on `k`; `OrderSensitiveTransform` breaks the tie by the record's
    values, so with `b` first it keeps `(b,a,k) = (1,2,0)` (a = 2); `RemoveUnusedMapFields` removes the unused `b`,
    after which the tie is broken by `a` and `(a,k) = (1,0)` survives (a = 1).
    (known finding `orderby-limit-tiebreak-pruning`; both answers are legal SQL) -/
theorem C04_refuted : ¬ Statement := by
  intro h
  have h1 := h Examples.db0 Examples.p0 Examples.p1 64 Examples.p0_wellFormed Examples.p0_optimized
  rw [Examples.p0_result, Examples.p1_result] at h1
  simp only [bagEq] at h1
  have := List.singleton_perm_singleton.mp h1
  simp at this

/-- What does hold (for every plan, database and pass bound):
    1. every rule of the generated list has a model, and the five filter-moving rules are sound one by one;
    2. `Optimize` restricted to them (in the generated order) never changes the result;
    3. the three removal rules are sound on plans whose Map / datasource / aggregate fields are removable (`Removable`
       excludes exactly the shape of `C04_refuted` — a field that reaches an ORDER BY / LIMIT — and the shapes the proof
       does not cover: outer joins, the source side of a lookup join);
    4. the real `Optimize` (all eight rules) never changes the result of a well-formed prunable plan. -/
theorem C04_partial (db : Db) :
    defaultRules.isSome = true ∧
    Sound db pushDownFilterPredicatesToDatasource ∧ Sound db pushDownFilterPredicatesIntoLookupJoinBranch ∧
    Sound db pushDownFilterPredicatesIntoStreamJoinBranch ∧ Sound db pushDownFilterPredicatesIntoStreamJoinKey ∧
    Sound db mergeFilters ∧
    (∀ rs, rulesOfNames filterRuleNames = some rs → ∀ (fuel : Nat) (p p' : Plan), WellFormed db p →
      optimizeWith rs fuel p = .ok p' →
      WellFormed db p' ∧ p'.schema = p.schema ∧ bagEq (denote db p' []) (denote db p [])) ∧
    (∀ (p p' : Plan) (c : Bool), WellFormed db p → MapRemovable p → removeUnusedMapFields p = some (p', c) →
      WellFormed db p' ∧ p'.schema = p.schema ∧ bagEq (denote db p' []) (denote db p [])) ∧
    (∀ (p p' : Plan) (c : Bool), WellFormed db p → DatasourceRemovable p → removeUnusedDatasourceFields p = some (p', c) →
      WellFormed db p' ∧ p'.schema = p.schema ∧ bagEq (denote db p' []) (denote db p [])) ∧
    (∀ (p p' : Plan) (c : Bool), WellFormed db p → GroupByRemovable p → removeUnusedGroupByNonKeyFields p = some (p', c) →
      WellFormed db p' ∧ p'.schema = p.schema ∧ bagEq (denote db p' []) (denote db p [])) ∧
    (∀ (fuel : Nat) (p p' : Plan), WellFormed db p → Prunable p → optimize fuel p = .ok p' →
      WellFormed db p' ∧ Prunable p' ∧ p'.schema = p.schema ∧ bagEq (denote db p' []) (denote db p [])) :=
  ⟨all_rules_modelled, pushToDatasource_sound db, pushIntoLookupJoinBranch_sound db, pushIntoStreamJoinBranch_sound db,
   pushIntoStreamJoinKey_sound db, mergeFilters_sound db,
   fun rs hrs fuel p p' hw h => optimize_filter_rules_sound db rs hrs fuel p p' hw h,
   fun p p' c hw hr h => removeUnusedMapFields_sound db p p' c hw hr h,
   fun p p' c hw hr h => removeUnusedDatasourceFields_sound db p p' c hw hr h,
   fun p p' c hw hr h => removeUnusedGroupByNonKeyFields_sound db p p' c hw hr h,
   fun fuel p p' hw hp h => optimize_sound db fuel p p' hw hp h⟩

/-! ### non-vacuity -/

-- a join with a WHERE that has left-only, right-only, two-sided and key conjuncts is well-formed …
example : WellFormed Examples.dbJ Examples.pJ := Examples.pJ_wellFormed
-- … the rules fire on it …
example : ∃ q, pushDownFilterPredicatesIntoStreamJoinBranch Examples.pJ = some (q, true) := ⟨_, rfl⟩
example : ∃ q, pushDownFilterPredicatesIntoStreamJoinKey Examples.pJ = some (q, true) := ⟨_, rfl⟩
-- … and the filter-rule fixpoint changes the plan while (by the theorem) keeping its two result rows
example : ∃ rs q, rulesOfNames filterRuleNames = some rs ∧ optimizeWith rs 64 Examples.pJ = .ok q ∧
    (denote Examples.dbJ q []).map List.length = some 2 := ⟨_, _, rfl, rfl, rfl⟩
example : (denote Examples.dbJ Examples.pJ []).map List.length = some 2 := rfl
-- a plan with an unused Map field that is removable: the rule removes it
example : MapRemovable Examples.pM := Examples.pM_removable
example : WellFormed Examples.db0 Examples.pM := Examples.pM_wellFormed
example : ∃ q, removeUnusedMapFields Examples.pM = some (q, true) := ⟨_, rfl⟩

-- the real optimizer on a well-formed, prunable join query: filters pushed, key extracted, columns pruned
example : WellFormed Examples.dbJ Examples.pJ2 ∧ Prunable Examples.pJ2 := ⟨Examples.pJ2_wellFormed, Examples.pJ2_prunable⟩
example : ∃ q, optimize 64 Examples.pJ2 = .ok q ∧ (denote Examples.dbJ q []).map List.length = some 2 ∧
    q.fields = ["q.b_0", "q.c_0"] := ⟨_, rfl, rfl, rfl⟩
-- … and on a group-by whose aggregates are unused: they are removed, the two groups stay
example : WellFormed Examples.db0 Examples.pG ∧ Prunable Examples.pG := ⟨Examples.pG_wellFormed, Examples.pG_prunable⟩
example : ∃ q, optimize 64 Examples.pG = .ok q ∧
    (match q with | .un _ _ g => g.fields | _ => []) = ["g.k_0"] ∧
    (denote Examples.db0 q []).map List.length = (denote Examples.db0 Examples.pG []).map List.length :=
  ⟨_, rfl, rfl, rfl⟩
-- (the refutation witness is well-formed but not prunable: its Map fields reach the ORDER BY … LIMIT node)

end Octo.C04
