import Octo.Lemmas.Strings
import Octo.Lemmas.Like
import Octo.Gen.LikeEscapes
/-!
# C12 — String and pattern functions meet their specification

Property: for all strings (multibyte UTF-8, regexp metacharacters, malformed UTF-8 included)
`upper/lower/reverse/substr/replace/position/len` return what their descriptions state; LIKE matches exactly
when the string matches the pattern (`_` any character, `%` any run, backslash escapes, everything else
literal); `~` / `~*` agree with Go regular-expression matching, `~*` ignoring case.

The functions of `Octo.Str` / `Octo.Like` are the models of the descriptors of `functions/functions.go`
(after the C12 `fix:` commits), tied to the code by the C12 correspondence run on every check; the
`…Raw` versions are the bodies before the repair.

Trusted parameters (not modelled): Go's `regexp` engine — it appears as the argument `engine`; statements
about LIKE hold for every engine that agrees with the mini semantics `Octo.Rx` on the sub-language that
semantics covers (`ReAgrees`), which the correspondence run samples; `strings.ToUpper/ToLower` outside ASCII.
All theorems quantify over strings of any length.
-/
namespace Octo.C12
open Octo Octo.Utf8 Octo.Str Octo.Rx Octo.Like

/-! ## len, substr -/

/-- `len` is the number of bytes -/
theorem len_spec (s : Bytes) : len s = s.length := rfl

/-- `substr(s, start, length)`: for non-negative arguments the `length` bytes from byte offset `start`
    (fewer at the end of the string) -/
theorem substr_spec (s : Bytes) (start length : Int) (h1 : 0 ≤ start) (h2 : 0 ≤ length) :
    substr3 s start length = .ok ((s.drop start.toNat).take length.toNat) := substr3_ok s start length h1 h2

/-- `substr(s, start)`: the bytes from byte offset `start` -/
theorem substr2_spec (s : Bytes) (start : Int) (h1 : 0 ≤ start) :
    substr2 s start = .ok (s.drop start.toNat) := substr2_ok s start h1

/-- a negative argument is an error, and no argument makes `substr` panic -/
theorem substr_total (s : Bytes) (start length : Int) :
    ((start < 0 ∨ length < 0) → substr3 s start length = .err) ∧ (start < 0 → substr2 s start = .err) ∧
    substr3 s start length ≠ .panic ∧ substr2 s start ≠ .panic := by
  refine ⟨?_, ?_, ?_, ?_⟩
  · intro h
    unfold substr3
    by_cases hs : start < 0
    · rw [if_pos hs]
    · rw [if_neg hs, if_pos (by omega)]
  · intro h; unfold substr2; rw [if_pos h]
  · unfold substr3; repeat' split
    all_goals simp
  · unfold substr2; repeat' split
    all_goals simp

example : substr3 [97, 98, 99, 100] 1 2 = .ok [98, 99] := by decide
example : substr3 [97, 98, 99] 1 9223372036854775807 = .ok [98, 99] := by decide

/-! ## position -/

/-- `position(s, sub)`: a non-NULL result is the byte offset of an occurrence and no occurrence starts
    earlier; NULL exactly when `sub` does not occur -/
theorem position_spec (s sub : Bytes) :
    match position s sub with
    | some i => 0 ≤ i ∧ i.toNat ≤ s.length ∧ sub <+: s.drop i.toNat ∧ ∀ j, j < i.toNat → ¬ sub <+: s.drop j
    | none => ∀ j, ¬ sub <+: s.drop j := by
  unfold position
  cases h : indexOf sub s with
  | none => exact indexOf_none h
  | some i =>
    obtain ⟨h1, h2, h3⟩ := indexOf_some h
    simp only [Option.map_some]
    exact ⟨Int.natCast_nonneg i, by simpa using h1, by simpa using h2, by simpa using h3⟩

/-- `position` and `substr` use the same byte offsets: cutting at the reported position gives the needle back -/
theorem position_substr (s sub : Bytes) (i : Int) (h : position s sub = some i) :
    substr3 s i sub.length = .ok sub := by
  have hp := position_spec s sub
  rw [h] at hp
  obtain ⟨h0, _, ⟨t, ht⟩, _⟩ := hp
  rw [substr3_ok s i sub.length h0 (Int.natCast_nonneg _), ← ht]
  simp

example : position [97, 195, 169, 98] [98] = some 3 := by decide
example : position [97, 98] [99] = none := by decide

/-! ## replace -/

/-- `replace(s, old, new)` for a non-empty `old`: all occurrences, left to right, non-overlapping
    (`Octo.Str.Replaced` is the declarative reading) -/
theorem replace_spec (s old new : Bytes) (hold : old ≠ []) : Replaced old new s (replace s old new) := by
  unfold replace
  have : old.isEmpty = false := by cases old <;> simp_all
  rw [this]
  exact replaceLoop_spec old new hold _ s (Nat.lt_succ_self _)

/-- the specification leaves no freedom: any two results meeting it are equal -/
theorem replace_unique (s old new o1 o2 : Bytes) (h1 : Replaced old new s o1) (h2 : Replaced old new s o2) :
    o1 = o2 := Replaced.unique h1 h2

/-- the single-scan formulation used by the run-time oracle meets the same specification, hence equals `replace` -/
theorem replace_eq_scan (s old new : Bytes) (hold : old ≠ []) : replace s old new = replaceScan old new 0 s :=
  Replaced.unique (replace_spec s old new hold) (replaceScan_spec old new hold _ s (Nat.le_refl _))

/-- no occurrence: unchanged -/
theorem replace_no_occurrence (s old new : Bytes) (hold : old ≠ []) (h : ∀ j, ¬ old <+: s.drop j) :
    replace s old new = s := (replace_spec s old new hold).of_no_occurrence h

/-- empty `old` on valid UTF-8 text: `new` before every character and at the end -/
theorem replace_empty_spec (rs : List Rune) (hv : ∀ r ∈ rs, validRune r = true) (new : Bytes) :
    replace (encodeAll rs) [] new = new ++ rs.flatMap (fun r => encodeRune r ++ new) :=
  Str.replace_empty_spec rs hv new

example : replace [97, 97, 97] [97, 97] [98] = [98, 97] := by decide
example : replace [97, 195, 169] [] [45] = [45, 97, 45, 195, 169, 45] := by decide

/-! ## reverse -/

/-- `reverse` of valid UTF-8 text is the text of the reversed character sequence -/
theorem reverse_spec (rs : List Rune) (hv : ∀ r ∈ rs, validRune r = true) :
    reverse (encodeAll rs) = encodeAll rs.reverse := reverse_encodeAll rs hv

/-- for every string, malformed or not: the characters of the result (as Go decodes them) are the characters
    of the argument in reverse order -/
theorem reverse_chars (s : Bytes) : decodeAll (reverse s) = (decodeAll s).reverse := decodeAll_reverse s

/-- on valid UTF-8 `reverse` is an involution -/
theorem reverse_involutive (s : Bytes) (h : validUtf8 s = true) : reverse (reverse s) = s :=
  reverse_reverse_of_valid s h

/-- the codec facts behind it: `[]rune(string(rs)) = rs` on scalar values, and `range` yields only scalar values -/
theorem utf8_roundtrip (rs : List Rune) (hv : ∀ r ∈ rs, validRune r = true) : decodeAll (encodeAll rs) = rs :=
  decodeAll_encodeAll rs hv

theorem utf8_decode_valid (s : Bytes) : ∀ r ∈ decodeAll s, validRune r = true := decodeAll_valid s

-- żółw  →  włóż
example : reverse [0xC5, 0xBC, 0xC3, 0xB3, 0xC5, 0x82, 0x77] = [0x77, 0xC5, 0x82, 0xC3, 0xB3, 0xC5, 0xBC] := by decide
example : ∀ r ∈ [0x17C, 0xF3, 0x142, 0x77, 0x1F600], validRune r = true := by decide

/-! ## upper / lower (ASCII) -/

/-- on ASCII text `upper` maps exactly the bytes `a`–`z` to `A`–`Z` and nothing else, byte by byte -/
theorem upper_ascii_spec (s : Bytes) (h : isAscii s = true) :
    ∃ r, upper s = some r ∧ r.length = s.length ∧
      ∀ i (hi : i < s.length) (hr : i < r.length),
        r[i].toNat = if 97 ≤ s[i].toNat ∧ s[i].toNat ≤ 122 then s[i].toNat - 32 else s[i].toNat := by
  refine ⟨s.map upperByte, by simp [upper, h], by simp, ?_⟩
  intro i hi hr
  simp only [List.getElem_map, upperByte]
  split
  · rename_i hc
    have := UInt8.toNat_lt s[i]
    simp; omega
  · rfl

theorem lower_ascii_spec (s : Bytes) (h : isAscii s = true) :
    ∃ r, lower s = some r ∧ r.length = s.length ∧
      ∀ i (hi : i < s.length) (hr : i < r.length),
        r[i].toNat = if 65 ≤ s[i].toNat ∧ s[i].toNat ≤ 90 then s[i].toNat + 32 else s[i].toNat := by
  refine ⟨s.map lowerByte, by simp [lower, h], by simp, ?_⟩
  intro i hi hr
  simp only [List.getElem_map, lowerByte]
  split
  · rename_i hc
    simp; omega
  · rfl

example : upper [97, 122, 64, 91, 96, 123, 65] = some [65, 90, 64, 91, 96, 123, 65] := by decide
example : lower [65, 90, 64, 91, 96, 123, 97] = some [97, 122, 64, 91, 96, 123, 97] := by decide

/-! ## LIKE -/

/-- the mini regular-expression matcher decides the textbook language semantics -/
theorem re_accepts_iff_lang (r : Re) (s : List Rune) : Re.accepts r s = true ↔ Re.Lang r s := Re.accepts_iff r s

/-- the direct LIKE matcher means: the string splits into one piece per pattern element
    (a literal: that character; `_`: any one character; `%`: anything) -/
theorem likeSpec_meaning (toks : List Tok) (s : List Rune) : tokMatch toks s = true ↔ Matches toks s :=
  tokMatch_iff toks s

/-- a malformed pattern (`\` before something else than `_ % \`, or at the end) is exactly what the translation rejects -/
theorem like_error_iff (p : List Rune) : (∃ e, likeRegex p = .error e) ↔ likeTokens p = none := by
  constructor
  · intro ⟨e, he⟩
    cases ht : likeTokens p with
    | none => rfl
    | some toks => rw [likeRegex_of_tokens ht] at he; cases he
  · exact likeRegex_of_malformed

/-- **the translation is correct for all patterns and all strings**: the regexp text built for a well-formed
    pattern, read by the regexp syntax `parseRegex`, matches (`MatchString`) exactly the strings the direct
    matcher accepts -/
theorem like_spec (p : List Rune) (toks : List Tok) (h : likeTokens p = some toks) :
    ∃ rx pat, likeRegex p = .ok rx ∧ parseRegex rx = some pat ∧ ∀ s, pat.search s = tokMatch toks s := by
  refine ⟨_, _, likeRegex_of_tokens h, parseRegex_emitted toks, ?_⟩
  intro s
  rw [search_anchored, accepts_bodyRe]

/-- tie to the source, regenerated on every run (`vh extract likeescapes` parses functions/functions.go): the
    model's `needsEscaping` answers true for exactly the characters the Go closure lists … -/
theorem source_needsEscaping (r : Rune) :
    needsEscaping r = Gen.LikeEscapes.needsEscaping.contains r := by
  rw [Bool.eq_iff_iff]
  csimp [needsEscaping, Gen.LikeEscapes.needsEscaping]
  omega

/-- … and the text written before and after the loop and the three LIKE special characters are the source's -/
theorem source_texts :
    prefixFixed = Gen.LikeEscapes.prefixText ∧ [cDollar] = Gen.LikeEscapes.suffixText ∧
    cBackslash = Gen.LikeEscapes.likeEscape ∧ cUnderscore = Gen.LikeEscapes.likeAny ∧
    cPercent = Gen.LikeEscapes.likeAll := by decide

/-- sanity of the specification: a pattern without `%`, `_`, `\` matches exactly itself … -/
theorem like_literal_is_equality (p s : List Rune)
    (h : ∀ c ∈ p, c ≠ cBackslash ∧ c ≠ cUnderscore ∧ c ≠ cPercent) : likeSpecRunes p s = some (p == s) := by
  simp [likeSpecRunes, likeTokens_plain_all p h, tokMatch_lits]

/-- … `%` matches every string … -/
theorem like_percent_matches_all (s : List Rune) : likeSpecRunes [cPercent] s = some true := by
  have : likeTokens [cPercent] = some [.many] := by decide
  simp [likeSpecRunes, this, tokMatch_many_all]

/-- … and `MatchString` of an unanchored regexp means "some substring is in the language" -/
theorem search_unanchored (body : Re) (s : List Rune) :
    Pat.search [⟨false, body, false⟩] s = true ↔ ∃ s1 m s2, s = s1 ++ m ++ s2 ∧ Re.Lang body m :=
  search_unanchored_iff body s

/-- the outcome the specification demands of `like(s, p)` on Go strings -/
def likeOracle (s p : Bytes) : RxOut :=
  match likeSpec s p with
  | none => .err
  | some b => .ok b

/-- an engine agrees with the mini semantics wherever the latter is defined -/
def ReAgrees (engine : Bytes → Bytes → RxOut) : Prop :=
  ∀ rx s, miniEngine rx s ≠ .unmodelled → engine rx s = miniEngine rx s

/-- **LIKE end to end on Go strings** (UTF-8 decoding of pattern and subject, encoding of the regexp text and
    its decoding by `regexp.Compile` included), for every engine that agrees with the mini semantics -/
theorem like_spec_bytes (engine : Bytes → Bytes → RxOut) (ha : ReAgrees engine) (s p : Bytes) :
    likeWith engine s p = likeOracle s p := by
  have h := like_eq_spec s p
  unfold like likeWith at h
  unfold likeWith likeOracle
  cases hrx : likeRegexText p with
  | error e => simp only [hrx] at h ⊢; exact h
  | ok rx =>
    simp only [hrx] at h ⊢
    have hne : miniEngine rx s ≠ .unmodelled := by
      rw [h]; cases likeSpec s p <;> simp
    rw [ha rx s hne]; exact h

example : ReAgrees miniEngine := fun _ _ _ => rfl

-- 'a*' LIKE 'a*', 'aaa' NOT LIKE 'a*', 'a' NOT LIKE 'a|b', newline matched by _ and %, escapes, malformed patterns
example : like [97, 42] [97, 42] = .ok true := by decide
example : like [97, 97, 97] [97, 42] = .ok false := by decide
example : like [97] [97, 124, 98] = .ok false := by decide
example : like [97, 10, 98] [97, 95, 98] = .ok true := by decide
example : like [97, 10, 98] [37] = .ok true := by decide
example : like [49, 48, 48, 37] [37, 92, 37] = .ok true := by decide
example : like [97] [92, 97] = .err := by decide
example : like [97] [97, 92] = .err := by decide
example : like [0xC5, 0xBC, 98] [95, 98] = .ok true := by decide
example : likeTokens [37, 92, 95, 95, 46] = some [.many, .lit 95, .one, .lit 46] := by decide

/-! ## ~ and ~* -/

/-- `~` hands pattern and subject to the regexp engine unchanged -/
theorem tilde_spec (engine : Bytes → Bytes → RxOut) (s p : Bytes) : tildeWith engine s p = engine p s := rfl

/-- `~*` is the engine's own case-insensitive matching (`(?i)`) of the unchanged pattern on the unchanged subject -/
theorem tildeStar_spec (engine : Bytes → Bytes → RxOut) (s p : Bytes) :
    tildeStarWith engine s p = engine (flagI ++ p) s := rfl

-- 'AbC' ~* 'b' ; ' ' ~* '\S' is false and 'ab' ~* '\S' is true ; 'A' ~* '^a$'
example : tildeStarWith miniEngine [65, 98, 67] [66] = .ok true := by decide
example : tildeStarWith miniEngine [32] [92, 83] = .ok false := by decide
example : tildeStarWith miniEngine [97, 98] [92, 83] = .ok true := by decide
example : tildeStarWith miniEngine [65] [94, 97, 36] = .ok true := by decide
example : tildeWith miniEngine [65] [94, 97, 36] = .ok false := by decide

/-! ## The full-strength statement -/

/-- an implementation of the C12 functions (pattern functions take the regexp engine as a parameter) -/
structure Impl where
  reverse : Bytes → Bytes
  substr2 : Bytes → Int → Out Bytes
  substr3 : Bytes → Int → Int → Out Bytes
  replace : Bytes → Bytes → Bytes → Bytes
  position : Bytes → Bytes → Option Int
  len : Bytes → Int
  upper : Bytes → Option Bytes
  lower : Bytes → Option Bytes
  like : (Bytes → Bytes → RxOut) → Bytes → Bytes → RxOut
  tilde : (Bytes → Bytes → RxOut) → Bytes → Bytes → RxOut
  tildeStar : (Bytes → Bytes → RxOut) → Bytes → Bytes → RxOut

/-- the full-strength statement of C12 -/
def Statement (I : Impl) : Prop :=
  (∀ rs : List Rune, (∀ r ∈ rs, validRune r = true) → I.reverse (encodeAll rs) = encodeAll rs.reverse) ∧
  (∀ s start length, (0 ≤ start → 0 ≤ length → I.substr3 s start length = .ok ((s.drop start.toNat).take length.toNat)) ∧
      I.substr3 s start length ≠ .panic) ∧
  (∀ s start, (0 ≤ start → I.substr2 s start = .ok (s.drop start.toNat)) ∧ I.substr2 s start ≠ .panic) ∧
  (∀ s old new, old ≠ [] → Replaced old new s (I.replace s old new)) ∧
  (∀ s sub, match I.position s sub with
      | some i => 0 ≤ i ∧ i.toNat ≤ s.length ∧ sub <+: s.drop i.toNat ∧ ∀ j, j < i.toNat → ¬ sub <+: s.drop j
      | none => ∀ j, ¬ sub <+: s.drop j) ∧
  (∀ s, I.len s = s.length) ∧
  (∀ s, isAscii s = true → I.upper s = some (s.map upperByte) ∧ I.lower s = some (s.map lowerByte)) ∧
  (∀ engine, ReAgrees engine → ∀ s p, I.like engine s p = likeOracle s p) ∧
  (∀ engine s p, I.tilde engine s p = engine p s) ∧
  (∀ engine s p, I.tildeStar engine s p = engine (flagI ++ p) s)

/-- the functions as they are after the C12 repairs -/
def fixedImpl : Impl where
  reverse := Str.reverse
  substr2 := Str.substr2
  substr3 := Str.substr3
  replace := Str.replace
  position := Str.position
  len := Str.len
  upper := Str.upper
  lower := Str.lower
  like := likeWith
  tilde := tildeWith
  tildeStar := tildeStarWith

/-- **C12, full strength, on the current tree.** -/
theorem C12_full : Statement fixedImpl := by
  refine ⟨reverse_spec, ?_, ?_, replace_spec, position_spec, len_spec, ?_, like_spec_bytes, tilde_spec, tildeStar_spec⟩
  · intro s start length
    exact ⟨substr_spec s start length, (substr_total s start length).2.2.1⟩
  · intro s start
    exact ⟨substr2_spec s start, (substr_total s start 0).2.2.2⟩
  · intro s h
    simp [fixedImpl, upper, lower, h]

/-! ## The code before the repair -/

/-- ASCII action of `strings.ToLower` (all the witnesses below need) -/
def asciiLower (s : Bytes) : Bytes := s.map lowerByte

def rawImpl : Impl where
  reverse := Str.reverseRaw
  substr2 := Str.substr2Raw
  substr3 := Str.substr3Raw
  replace := Str.replace
  position := Str.position
  len := Str.len
  upper := Str.upper
  lower := Str.lower
  like := fun engine s p => match likeRegexTextRaw p with
    | .error _ => .err
    | .ok rx => engine rx s
  tilde := tildeWith
  tildeStar := fun engine s p => tildeStarRawWith engine asciiLower s p

/-- `reverse('żółw')` = `"w\x00ł\x00ó\x00ż"` -/
theorem raw_reverse_witness :
    reverseRaw [0xC5, 0xBC, 0xC3, 0xB3, 0xC5, 0x82, 0x77] = [0x77, 0, 0xC5, 0x82, 0, 0xC3, 0xB3, 0, 0xC5, 0xBC] := by
  decide

/-- `'aaa' LIKE 'a*'` and `'a' LIKE 'a|b'` hold, `'a*' LIKE 'a*'` does not, `_` and `%` miss a newline -/
theorem raw_like_witnesses :
    likeRaw [97, 97, 97] [97, 42] = .ok true ∧ likeOracle [97, 97, 97] [97, 42] = .ok false ∧
    likeRaw [97] [97, 124, 98] = .ok true ∧ likeOracle [97] [97, 124, 98] = .ok false ∧
    likeRaw [97, 42] [97, 42] = .ok false ∧ likeOracle [97, 42] [97, 42] = .ok true ∧
    likeRaw [10] [95] = .ok false ∧ likeOracle [10] [95] = .ok true ∧
    likeRaw [97, 10] [37] = .ok false ∧ likeOracle [97, 10] [37] = .ok true := by decide

/-- `' ' ~* '\S'` holds and `'ab' ~* '\S'` does not: lower-casing the pattern turned `\S` into `\s` -/
theorem raw_tildeStar_witness :
    tildeStarRawWith miniEngine asciiLower [32] [92, 83] = .ok true ∧ miniEngine (flagI ++ [92, 83]) [32] = .ok false ∧
    tildeStarRawWith miniEngine asciiLower [97, 98] [92, 83] = .ok false ∧
    miniEngine (flagI ++ [92, 83]) [97, 98] = .ok true := by decide

/-- `substr('abc', -1)`, `substr('abc', 1, -1)` and `substr('abc', 1, MaxInt64)` panic -/
theorem raw_substr_witnesses :
    substr2Raw [97, 98, 99] (-1) = .panic ∧ substr3Raw [97, 98, 99] 1 (-1) = .panic ∧
    substr3Raw [97, 98, 99] 1 9223372036854775807 = .panic := by decide

/-- the unrepaired code violates the statement (here through `reverse`; the theorems above give the others) -/
theorem raw_refuted : ¬ Statement rawImpl := by
  intro h
  have := h.1 [0x17C, 0xF3, 0x142, 0x77] (by decide)
  exact absurd this (by decide)

end Octo.C12
