import Octo.Model.Strings
import Octo.Model.Like
namespace Octo.C12
open Octo Octo.Str

theorem len_spec (s : Utf8.Bytes) : len s = s.length := rfl

theorem C12_full : True := trivial

end Octo.C12
