import Octo.Lemmas.Logic
/-!
# C11 — Three-valued logic and NULL propagation

Property: AND, OR and NOT follow Kleene three-valued logic over TRUE, FALSE and NULL for every combination of
operands. Comparisons and other strict functions return NULL whenever an argument is NULL, and IS [NOT] NULL never
returns NULL. WHERE keeps exactly the rows whose predicate is TRUE.

`eval`, `materialize`, `filterRun`, `nullIs`, `fnNot`, … (Octo.Model.Logic) are the models of
`execution.{And,Or,FunctionCall,Variable,Constant}.Evaluate`, `physical.Expression.Materialize`,
`nodes.Filter.Run`, `octosql.Null.Is` and the bodies in `functions/functions.go`; they are tied to the code by the
C11 correspondence run on every check.  `Octo.Gen.Strict.table` is regenerated from `functions/functions.go`
on every check.  The reference semantics (`kAnd`, `kOr`, `not3`, `TTree.den`, `conforms`) is Octo.Spec.Kleene.

No theorem below has a bound on the number of operands, the depth of a tree or the length of a stream.
-/
namespace Octo.C11
open Octo Octo.Logic

/-! ## AND / OR over TRUE, FALSE, NULL: the n-ary Kleene fold -/

/-- `And.Evaluate` on operands that evaluate to truth values `ts` is the Kleene conjunction of `ts`, ∀ k -/
theorem and_kleene (env : List (List Value)) (ts : List Tri) :
    eval env (.and (ts.map fun t => .const t.toValue)) = .val (kAnd ts).toValue := by
  simp only [eval]
  rw [evalAnd_eq]
  have : evalList env (ts.map fun t => Expr.const t.toValue) = ts.map fun t => Res.val t.toValue := by
    have := evalList_const env (ts.map Tri.toValue)
    simpa [List.map_map, Function.comp_def] using this
  rw [this, andLoop_tri]
  simp

/-- `Or.Evaluate` on operands that evaluate to truth values `ts` is the Kleene disjunction of `ts`, ∀ k -/
theorem or_kleene (env : List (List Value)) (ts : List Tri) :
    eval env (.or (ts.map fun t => .const t.toValue)) = .val (kOr ts).toValue := by
  simp only [eval]
  rw [evalOr_eq]
  have : evalList env (ts.map fun t => Expr.const t.toValue) = ts.map fun t => Res.val t.toValue := by
    have := evalList_const env (ts.map Tri.toValue)
    simpa [List.map_map, Function.comp_def] using this
  rw [this, orLoop_tri]
  simp

/-- the same for arbitrary operand *expressions*, as long as each evaluates to a truth value -/
theorem and_kleene_exprs (env : List (List Value)) (args : List Expr) (ts : List Tri)
    (h : evalList env args = ts.map fun t => Res.val t.toValue) :
    eval env (.and args) = .val (kAnd ts).toValue := by
  simp only [eval]
  rw [evalAnd_eq, h, andLoop_tri]
  simp

theorem or_kleene_exprs (env : List (List Value)) (args : List Expr) (ts : List Tri)
    (h : evalList env args = ts.map fun t => Res.val t.toValue) :
    eval env (.or args) = .val (kOr ts).toValue := by
  simp only [eval]
  rw [evalOr_eq, h, orLoop_tri]
  simp

/-- the binary tables, spelled out (what `kAnd`/`kOr` fold) -/
theorem and_table :
    and3 (some true) (some true) = some true ∧ and3 (some true) (some false) = some false ∧
    and3 (some true) none = none ∧ and3 (some false) (some true) = some false ∧
    and3 (some false) (some false) = some false ∧ and3 (some false) none = some false ∧
    and3 none (some true) = none ∧ and3 none (some false) = some false ∧ and3 none none = none := by decide
theorem or_table :
    or3 (some true) (some true) = some true ∧ or3 (some true) (some false) = some true ∧
    or3 (some true) none = some true ∧ or3 (some false) (some true) = some true ∧
    or3 (some false) (some false) = some false ∧ or3 (some false) none = none ∧
    or3 none (some true) = some true ∧ or3 none (some false) = none ∧ or3 none none = none := by decide

/-! ## Errors: an error in operand i is the result only if evaluation reaches operand i -/

/-- AND: operands before position `pre.length` are TRUE or NULL, the operand there fails ⇒ that error (wrapped
    with its position) is the result, whatever follows -/
theorem and_error_reached (pre : List Tri) (hpre : ∀ t ∈ pre, t ≠ some false) (e : Err) (post : List Res) :
    ∀ i ne, andLoop i ne ((pre.map fun t => Res.val t.toValue) ++ .err e :: post) =
      .err (e.wrap (.andArg (i + pre.length))) := by
  induction pre with
  | nil => intro i ne; simp [andLoop]
  | cons t pre ih =>
    intro i ne
    have ih' := ih (fun u hu => hpre u (List.mem_cons_of_mem _ hu))
    rw [List.map_cons, List.cons_append, List.length_cons]
    rcases t with _ | _ | _
    · rw [toValue_none, andLoop_null, ih']; congr 3; omega
    · exact absurd rfl (hpre (some false) (by simp))
    · rw [toValue_true, andLoop_true, ih']; congr 3; omega

/-- AND: a FALSE operand that is reached decides the result; later errors (and panics) are never seen -/
theorem and_false_shortcircuit (pre : List Tri) (hpre : ∀ t ∈ pre, t ≠ some false) (post : List Res) :
    ∀ i ne, andLoop i ne ((pre.map fun t => Res.val t.toValue) ++ .val (.bool false) :: post) =
      .val (.bool false) := by
  induction pre with
  | nil => intro i ne; simp [andLoop_false]
  | cons t pre ih =>
    intro i ne
    have ih' := ih (fun u hu => hpre u (List.mem_cons_of_mem _ hu))
    rw [List.map_cons, List.cons_append]
    rcases t with _ | _ | _
    · rw [toValue_none, andLoop_null, ih']
    · exact absurd rfl (hpre (some false) (by simp))
    · rw [toValue_true, andLoop_true, ih']

/-- OR, dually -/
theorem or_error_reached (pre : List Tri) (hpre : ∀ t ∈ pre, t ≠ some true) (e : Err) (post : List Res) :
    ∀ i ne, orLoop i ne ((pre.map fun t => Res.val t.toValue) ++ .err e :: post) =
      .err (e.wrap (.orArg (i + pre.length))) := by
  induction pre with
  | nil => intro i ne; simp [orLoop]
  | cons t pre ih =>
    intro i ne
    have ih' := ih (fun u hu => hpre u (List.mem_cons_of_mem _ hu))
    rw [List.map_cons, List.cons_append, List.length_cons]
    rcases t with _ | _ | _
    · rw [toValue_none, orLoop_null, ih']; congr 3; omega
    · rw [toValue_false, orLoop_false, ih']; congr 3; omega
    · exact absurd rfl (hpre (some true) (by simp))

theorem or_true_shortcircuit (pre : List Tri) (hpre : ∀ t ∈ pre, t ≠ some true) (post : List Res) :
    ∀ i ne, orLoop i ne ((pre.map fun t => Res.val t.toValue) ++ .val (.bool true) :: post) =
      .val (.bool true) := by
  induction pre with
  | nil => intro i ne; simp [orLoop_true]
  | cons t pre ih =>
    intro i ne
    have ih' := ih (fun u hu => hpre u (List.mem_cons_of_mem _ hu))
    rw [List.map_cons, List.cons_append]
    rcases t with _ | _ | _
    · rw [toValue_none, orLoop_null, ih']
    · rw [toValue_false, orLoop_false, ih']
    · exact absurd rfl (hpre (some true) (by simp))

/-- conversely, an error result of AND comes from an operand that failed (nothing is invented) -/
theorem and_error_origin (rs : List Res) : ∀ i ne e, andLoop i ne rs = .err e →
    ∃ (j : Nat) (e' : Err), rs[j]? = some (Res.err e') ∧ e = e'.wrap (.andArg (i + j)) := by
  induction rs with
  | nil => intro i ne e h; cases ne <;> simp [andLoop] at h
  | cons r rs ih =>
    intro i ne e h
    cases r with
    | val v =>
      simp only [andLoop] at h
      split at h
      · obtain ⟨j, e', hj, he⟩ := ih _ _ _ h
        exact ⟨j + 1, e', by simpa using hj, by rw [he]; congr 2; omega⟩
      · split at h
        · cases h
        · obtain ⟨j, e', hj, he⟩ := ih _ _ _ h
          exact ⟨j + 1, e', by simpa using hj, by rw [he]; congr 2; omega⟩
    | err e' =>
      simp only [andLoop, Res.err.injEq] at h
      exact ⟨0, e', by simp, by simpa using h.symm⟩
    | panic => simp [andLoop] at h

theorem or_error_origin (rs : List Res) : ∀ i ne e, orLoop i ne rs = .err e →
    ∃ (j : Nat) (e' : Err), rs[j]? = some (Res.err e') ∧ e = e'.wrap (.orArg (i + j)) := by
  induction rs with
  | nil => intro i ne e h; cases ne <;> simp [orLoop] at h
  | cons r rs ih =>
    intro i ne e h
    cases r with
    | val v =>
      simp only [orLoop] at h
      split at h
      · cases h
      · obtain ⟨j, e', hj, he⟩ := ih _ _ _ h
        exact ⟨j + 1, e', by simpa using hj, by rw [he]; congr 2; omega⟩
    | err e' =>
      simp only [orLoop, Res.err.injEq] at h
      exact ⟨0, e', by simp, by simpa using h.symm⟩
    | panic => simp [orLoop] at h

/-- function calls are *not* short-circuiting: all arguments are evaluated before the NULL checks, so the first
    failing argument's error is the result even when an earlier argument is NULL -/
theorem call_error_reached (fn : List Value → Res) (ncs : List Nat) (env : List (List Value)) (args : List Expr)
    (pre : List Value) (e : Err) (post : List Res)
    (h : evalList env args = pre.map Res.val ++ .err e :: post) :
    eval env (.call fn ncs args) = .err (e.wrap (.fnArg pre.length)) := by
  simp only [eval]
  rw [evalArgs_eq, h, argLoop_err]
  simp

/-! ## NOT, strict functions and `nullCheckIndices` -/

/-- the generated table: `not` is strict, the six comparisons are strict, `is null` / `is not null` are not -/
theorem not_strict : strictOf nmNot 0 = some true := by decide
theorem comparisons_strict :
    strictOf nmLt 0 = some true ∧ strictOf nmLe 0 = some true ∧ strictOf nmEq 0 = some true ∧
    strictOf nmNe 0 = some true ∧ strictOf nmGe 0 = some true ∧ strictOf nmGt 0 = some true := by decide
theorem is_null_not_strict : strictOf nmIsNull 0 = some false ∧ strictOf nmIsNotNull 0 = some false := by decide

/-- every descriptor of `FunctionMap()` is strict, except those of `is null`, `is not null`, `string`, `panic` -/
theorem table_strict_except_null_handlers :
    ∀ e ∈ Octo.Gen.Strict.table, e.strict = true ∨
      e.name = nmIsNull ∨ e.name = nmIsNotNull ∨ e.name = nmString ∨ e.name = nmPanic := by decide

/-- **Strict call, checked NULL.** For a `Strict` descriptor — whatever its body —, if all arguments evaluate and
    the argument at a position whose static type admits NULL is NULL, the call is NULL. -/
theorem strict_null (env : List (List Value)) (schema : List (List Nat)) (ty : Ty) (d : Desc) (args : List PExpr)
    (vs : List Value) (hstrict : d.strict = true)
    (hvals : evalList env (materializeList schema args) = vs.map Res.val)
    (i : Nat) (a : PExpr) (ha : args[i]? = some a) (hty : nullIs a.ty = true) (hnull : vs[i]? = some .null) :
    eval env (materialize schema (.call ty d args)) = .val .null := by
  rw [eval_call env schema ty d args vs hvals]
  have hlen : vs.length = args.length := by
    have := congrArg List.length hvals
    simpa [evalList_length, materializeList_length] using this.symm
  have hnc : nullCheck vs (nullCheckIndices d args) = some (.val .null) := by
    apply nullCheck_hit
    · intro j hj
      simp only [nullCheckIndices, hstrict, if_true] at hj
      obtain ⟨m, rfl, b, hb, _⟩ := (mem_nullCheckIdx args 0 j).1 hj
      have : m < args.length := by
        rcases Nat.lt_or_ge m args.length with h | h
        · exact h
        · rw [List.getElem?_eq_none h] at hb; cases hb
      omega
    · refine ⟨i, ?_, hnull⟩
      simp only [nullCheckIndices, hstrict, if_true]
      exact (mem_nullCheckIdx args 0 i).2 ⟨i, by omega, a, ha, hty⟩
  simp [applyFn, hnc]

/-- **`nullcheck_complete`.** If an argument value conforms to the argument's static type (spec notion) and is
    NULL, its position is in `nullCheckIndices` of a strict call. -/
theorem nullcheck_complete (d : Desc) (args : List PExpr) (hstrict : d.strict = true)
    (i : Nat) (a : PExpr) (ha : args[i]? = some a) (hconf : conforms a.ty .null = true) :
    i ∈ nullCheckIndices d args := by
  simp only [nullCheckIndices, hstrict, if_true]
  exact (mem_nullCheckIdx args 0 i).2 ⟨i, by omega, a, ha, conforms_null a.ty hconf⟩

/-- and nothing else is checked: a checked position has a static type NULL conforms to -/
theorem nullcheck_exact (d : Desc) (args : List PExpr) (i : Nat) (h : i ∈ nullCheckIndices d args) :
    d.strict = true ∧ ∃ a, args[i]? = some a ∧ conforms a.ty .null = true := by
  simp only [nullCheckIndices] at h
  split at h
  · rename_i hs
    obtain ⟨m, hm, a, ha, hn⟩ := (mem_nullCheckIdx args 0 i).1 h
    have : m = i := by omega
    subst this
    exact ⟨hs, a, ha, null_conforms a.ty hn⟩
  · simp at h

/-- **Strict functions return NULL whenever an argument is NULL** (well-typed calls): every argument value
    conforms to its static type, some argument is NULL ⇒ the call is NULL, for every strict descriptor and body. -/
theorem strict_null_welltyped (env : List (List Value)) (schema : List (List Nat)) (ty : Ty) (d : Desc)
    (args : List PExpr) (vs : List Value) (hstrict : d.strict = true)
    (hvals : evalList env (materializeList schema args) = vs.map Res.val)
    (hconf : ∀ (i : Nat) (a : PExpr) (v : Value), args[i]? = some a → vs[i]? = some v → conforms a.ty v = true)
    (i : Nat) (hnull : vs[i]? = some .null) :
    eval env (materialize schema (.call ty d args)) = .val .null := by
  have hlen : vs.length = args.length := by
    have := congrArg List.length hvals
    simpa [evalList_length, materializeList_length] using this.symm
  have hi : i < args.length := by
    rcases Nat.lt_or_ge i vs.length with h | h
    · omega
    · rw [List.getElem?_eq_none h] at hnull; cases hnull
  have ha : args[i]? = some args[i] := by simp [hi]
  exact strict_null env schema ty d args vs hstrict hvals i args[i] ha
    (conforms_null _ (hconf i args[i] .null ha hnull)) hnull

/-- the same, stated over the generated table: any descriptor that `functions.go` marks `Strict` -/
theorem table_strict_null (env : List (List Value)) (schema : List (List Nat)) (ty : Ty)
    (name : List Nat) (idx : Nat) (body : List Value → Res) (hs : strictOf name idx = some true)
    (args : List PExpr) (vs : List Value)
    (hvals : evalList env (materializeList schema args) = vs.map Res.val)
    (hconf : ∀ (i : Nat) (a : PExpr) (v : Value), args[i]? = some a → vs[i]? = some v → conforms a.ty v = true)
    (i : Nat) (hnull : vs[i]? = some .null) :
    eval env (materialize schema (.call ty (tableDesc name idx body) args)) = .val .null :=
  strict_null_welltyped env schema ty _ args vs (by simp [tableDesc, hs]) hvals hconf i hnull

/-- strict call without NULL arguments: the body's result (an error of the body is wrapped once) -/
theorem strict_nonnull (env : List (List Value)) (schema : List (List Nat)) (ty : Ty) (d : Desc) (args : List PExpr)
    (vs : List Value) (hvals : evalList env (materializeList schema args) = vs.map Res.val)
    (hnn : ∀ v ∈ vs, isNull v = false) :
    eval env (materialize schema (.call ty d args)) = wrapBody (d.fn vs) := by
  rw [eval_call env schema ty d args vs hvals]
  have hlen : vs.length = args.length := by
    have := congrArg List.length hvals
    simpa [evalList_length, materializeList_length] using this.symm
  have hnc : nullCheck vs (nullCheckIndices d args) = none := by
    apply nullCheck_miss _ _ _ hnn
    intro j hj
    simp only [nullCheckIndices] at hj
    split at hj
    · obtain ⟨m, rfl, b, hb, _⟩ := (mem_nullCheckIdx args 0 j).1 hj
      have : m < args.length := by
        rcases Nat.lt_or_ge m args.length with h | h
        · exact h
        · rw [List.getElem?_eq_none h] at hb; cases hb
      omega
    · simp at hj
  simp [applyFn, hnc]

/-- NOT's table on a nullable operand: NULL ↦ NULL, TRUE ↦ FALSE, FALSE ↦ TRUE -/
theorem not_table (env : List (List Value)) (schema : List (List Nat)) (ty aty : Ty) (h : nullIs aty = true) (t : Tri) :
    eval env (materialize schema (.call ty (tableDesc nmNot 0 fnNot) [.const aty t.toValue])) =
      .val (not3 t).toValue := by
  rcases t with _ | b
  · exact strict_null env schema ty _ [.const aty Value.null] [.null] (by simp [tableDesc, not_strict])
      (by simp [materializeList, materialize, evalList, eval]) 0 _ rfl h rfl
  · show eval env (materialize schema (.call ty (tableDesc nmNot 0 fnNot) [.const aty (.bool b)])) = _
    rw [strict_nonnull env schema ty _ [.const aty (.bool b)] [.bool b]
      (by simp [materializeList, materialize, evalList, eval]) (by simp [isNull])]
    simp [tableDesc, fnNot, boolField, not3, Tri.toValue, wrapBody]

/-- the six comparisons (and `=` / `!=`) on a NULL operand of nullable static type are NULL, on either side -/
theorem comparison_null (env : List (List Value)) (schema : List (List Nat)) (ty aty bty : Ty) (name : List Nat)
    (body : List Value → Res)
    (hname : name = nmLt ∨ name = nmLe ∨ name = nmEq ∨ name = nmNe ∨ name = nmGe ∨ name = nmGt)
    (a b : Value) (hca : conforms aty a = true) (hcb : conforms bty b = true)
    (hnull : a = .null ∨ b = .null) :
    eval env (materialize schema (.call ty (tableDesc name 0 body) [.const aty a, .const bty b])) = .val .null := by
  have hs : strictOf name 0 = some true := by
    rcases hname with rfl | rfl | rfl | rfl | rfl | rfl <;> decide
  have hv : evalList env (materializeList schema [.const aty a, .const bty b]) = [a, b].map Res.val := by
    simp [materializeList, materialize, evalList, eval]
  have hconf : ∀ (i : Nat) (x : PExpr) (v : Value), [PExpr.const aty a, .const bty b][i]? = some x → [a, b][i]? = some v →
      conforms x.ty v = true := by
    intro i x v hx hv
    match i with
    | 0 => simp at hx hv; subst hx hv; exact hca
    | 1 => simp at hx hv; subst hx hv; exact hcb
    | n + 2 => simp at hx
  rcases hnull with rfl | rfl
  · exact table_strict_null env schema ty name 0 body hs _ _ hv hconf 0 rfl
  · exact table_strict_null env schema ty name 0 body hs _ _ hv hconf 1 rfl

/-! ## IS NULL / IS NOT NULL never return NULL -/

theorem is_null_never_null (env : List (List Value)) (schema : List (List Nat)) (ty : Ty) (a : PExpr) (v : Value)
    (hv : eval env (materialize schema a) = .val v) :
    eval env (materialize schema (.call ty (tableDesc nmIsNull 0 fnIsNull) [a])) = .val (.bool (isNull v)) ∧
    eval env (materialize schema (.call ty (tableDesc nmIsNotNull 0 fnIsNotNull) [a])) = .val (.bool (!isNull v)) := by
  have hl : evalList env (materializeList schema [a]) = [v].map Res.val := by
    simp [materializeList, evalList, hv]
  constructor
  · rw [eval_call env schema ty _ [a] [v] hl]
    simp only [nullCheckIndices, tableDesc, is_null_not_strict.1, Option.getD_some, applyFn]
    simp only [Bool.false_eq_true, if_false, fnIsNull]
    cases isNull v <;> rfl
  · rw [eval_call env schema ty _ [a] [v] hl]
    simp only [nullCheckIndices, tableDesc, is_null_not_strict.2, Option.getD_some, applyFn]
    simp only [Bool.false_eq_true, if_false, fnIsNotNull]
    cases isNull v <;> rfl

/-! ## Boolean expression trees of any depth: `Materialize` + `Evaluate` = Kleene semantics -/

/-- outcome of the AND loop in terms of the reference result of the remaining operands -/
def andRes (ne : Bool) : Sem → Res
  | .error e => .err e
  | .ok r => .val (if ne then and3 none r else r).toValue
def orRes (ne : Bool) : Sem → Res
  | .error e => .err e
  | .ok r => .val (if ne then or3 none r else r).toValue

mutual
/-- **Tree soundness.** For a typed boolean tree whose variables are bound and whose static types are sound,
    evaluating the materialized expression gives the reference result (value or the error reached first), and a
    NULL result is admitted by the node's static type. -/
theorem den_sound (names : List Nat) (tris : List Tri) (outer : List (List Value)) (souter : List (List Nat))
    (hlen : names.length = tris.length) (t : TTree)
    (hb : t.bound names = true) (hok : t.ok (envOf names tris) = true) :
    eval (tris.map Tri.toValue :: outer) (materialize (names :: souter) t.toP) = (t.den (envOf names tris)).toRes
    ∧ (t.den (envOf names tris) = .ok none → nullIs t.ty = true) := by
  cases t with
  | const ty t =>
    simp only [TTree.ok, Bool.or_eq_true] at hok
    refine ⟨by simp [TTree.toP, materialize, eval, TTree.den, Sem.toRes], ?_⟩
    intro h
    simp only [TTree.den, Except.ok.injEq] at h
    subst h
    simpa [TTree.ty] using hok
  | var ty n =>
    simp only [TTree.ok, Bool.or_eq_true] at hok
    simp only [TTree.bound] at hb
    refine ⟨by simpa [TTree.toP, TTree.den, Sem.toRes] using eval_var names tris outer souter hlen ty n hb, ?_⟩
    intro h
    simp only [TTree.den, Except.ok.injEq] at h
    rw [h] at hok
    simpa [TTree.ty] using hok
  | fail ty tag =>
    refine ⟨?_, by simp [TTree.den]⟩
    have hl : evalList (tris.map Tri.toValue :: outer) (materializeList (names :: souter) [.const .str (.str tag)]) =
        [Value.str tag].map Res.val := by
      simp [materializeList, materialize, evalList, eval]
    simp only [TTree.toP]
    rw [strict_nonnull _ _ ty _ _ [.str tag] hl (by simp [isNull])]
    simp [tableDesc, fnPanic, wrapBody, TTree.den, Sem.toRes, Err.wrap]
  | and ty args =>
    simp only [TTree.ok, Bool.and_eq_true, Bool.or_eq_true, Bool.not_eq_true'] at hok
    simp only [TTree.bound] at hb
    obtain ⟨h1, h2⟩ := denAnd_sound names tris outer souter hlen args hb hok.1 0 false
    refine ⟨?_, ?_⟩
    · simp only [TTree.toP, materialize, eval, TTree.den]
      rw [h1]
      cases TTree.denAnd (envOf names tris) 0 args <;> simp [andRes, Sem.toRes]
    · intro h
      simp only [TTree.den] at h
      have := h2 h
      rcases hok.2 with h3 | h3
      · rw [this] at h3; cases h3
      · simpa [TTree.ty] using h3
  | or ty args =>
    simp only [TTree.ok, Bool.and_eq_true, Bool.or_eq_true, Bool.not_eq_true'] at hok
    simp only [TTree.bound] at hb
    obtain ⟨h1, h2⟩ := denOr_sound names tris outer souter hlen args hb hok.1 0 false
    refine ⟨?_, ?_⟩
    · simp only [TTree.toP, materialize, eval, TTree.den]
      rw [h1]
      cases TTree.denOr (envOf names tris) 0 args <;> simp [orRes, Sem.toRes]
    · intro h
      simp only [TTree.den] at h
      have := h2 h
      rcases hok.2 with h3 | h3
      · rw [this] at h3; cases h3
      · simpa [TTree.ty] using h3
  | not ty a =>
    simp only [TTree.ok, Bool.and_eq_true, Bool.or_eq_true, Bool.not_eq_true'] at hok
    simp only [TTree.bound] at hb
    obtain ⟨h1, h2⟩ := den_sound names tris outer souter hlen a hb hok.1
    cases hd : a.den (envOf names tris) with
    | error e =>
      rw [hd] at h1
      refine ⟨?_, by simp [TTree.den, hd]⟩
      simp only [TTree.toP, materialize, materializeList, eval, evalArgs, h1, Sem.toRes, TTree.den, hd]
    | ok r =>
      rw [hd] at h1 h2
      have hl : evalList (tris.map Tri.toValue :: outer) (materializeList (names :: souter) [a.toP]) =
          [r.toValue].map Res.val := by
        simp [materializeList, evalList, h1, Sem.toRes]
      rcases r with _ | b
      · have hn : nullIs a.ty = true := h2 rfl
        refine ⟨?_, ?_⟩
        · simp only [TTree.toP, TTree.den, hd, Sem.toRes, not3]
          exact strict_null _ _ ty _ [a.toP] [Value.null] (by simp [tableDesc, not_strict]) hl 0 a.toP rfl
            (by rw [toP_ty]; exact hn) rfl
        · intro _
          rcases hok.2 with h3 | h3
          · rw [hn] at h3; cases h3
          · simpa [TTree.ty] using h3
      · refine ⟨?_, by simp [TTree.den, hd, not3]⟩
        simp only [TTree.toP, TTree.den, hd, Sem.toRes, not3]
        rw [strict_nonnull _ _ ty _ [a.toP] [Value.bool b] hl (by simp [isNull])]
        simp [tableDesc, fnNot, boolField, wrapBody, Tri.toValue]
  | isNull ty a =>
    simp only [TTree.ok] at hok
    simp only [TTree.bound] at hb
    obtain ⟨h1, _⟩ := den_sound names tris outer souter hlen a hb hok
    cases hd : a.den (envOf names tris) with
    | error e =>
      rw [hd] at h1
      refine ⟨?_, by simp [TTree.den, hd]⟩
      simp only [TTree.toP, materialize, materializeList, eval, evalArgs, h1, Sem.toRes, TTree.den, hd]
    | ok r =>
      rw [hd] at h1
      refine ⟨?_, by simp [TTree.den, hd]⟩
      simp only [TTree.toP, TTree.den, hd, Sem.toRes]
      rw [(is_null_never_null _ _ ty a.toP r.toValue (by simpa [Sem.toRes] using h1)).1]
      rcases r with _ | _ | _ <;> rfl
  | isNotNull ty a =>
    simp only [TTree.ok] at hok
    simp only [TTree.bound] at hb
    obtain ⟨h1, _⟩ := den_sound names tris outer souter hlen a hb hok
    cases hd : a.den (envOf names tris) with
    | error e =>
      rw [hd] at h1
      refine ⟨?_, by simp [TTree.den, hd]⟩
      simp only [TTree.toP, materialize, materializeList, eval, evalArgs, h1, Sem.toRes, TTree.den, hd]
    | ok r =>
      rw [hd] at h1
      refine ⟨?_, by simp [TTree.den, hd]⟩
      simp only [TTree.toP, TTree.den, hd, Sem.toRes]
      rw [(is_null_never_null _ _ ty a.toP r.toValue (by simpa [Sem.toRes] using h1)).2]
      rcases r with _ | _ | _ <;> rfl
theorem denAnd_sound (names : List Nat) (tris : List Tri) (outer : List (List Value)) (souter : List (List Nat))
    (hlen : names.length = tris.length) (args : List TTree)
    (hb : TTree.boundList names args = true) (hok : TTree.okList (envOf names tris) args = true) :
    ∀ i ne, evalAnd (tris.map Tri.toValue :: outer) i ne (materializeList (names :: souter) (TTree.toPList args)) =
        andRes ne (TTree.denAnd (envOf names tris) i args)
      ∧ (TTree.denAnd (envOf names tris) i args = .ok none → anyNullable args = true) := by
  cases args with
  | nil => intro i ne; cases ne <;> simp [TTree.toPList, materializeList, evalAnd, TTree.denAnd, andRes, Tri.toValue, and3]
  | cons a rest =>
    intro i ne
    simp only [TTree.boundList, Bool.and_eq_true] at hb
    simp only [TTree.okList, Bool.and_eq_true] at hok
    obtain ⟨h1, h2⟩ := den_sound names tris outer souter hlen a hb.1 hok.1
    simp only [TTree.toPList, materializeList, evalAnd, TTree.denAnd, anyNullable, Bool.or_eq_true]
    rw [h1]
    cases hd : a.den (envOf names tris) with
    | error e => simp [Sem.toRes, andRes]
    | ok r =>
      rw [hd] at h2
      rcases r with _ | _ | _
      · obtain ⟨g1, _⟩ := denAnd_sound names tris outer souter hlen rest hb.2 hok.2 (i + 1) true
        simp only [Sem.toRes, toValue_none, isNull, if_true]
        rw [g1]
        refine ⟨?_, fun _ => Or.inl (h2 rfl)⟩
        cases TTree.denAnd (envOf names tris) (i + 1) rest with
        | error e => simp [andRes]
        | ok r => cases ne <;> simp [andRes, and3_none_idem]
      · simp [Sem.toRes, toValue_false, isNull, boolField, andRes, and3]
      · obtain ⟨g1, g2⟩ := denAnd_sound names tris outer souter hlen rest hb.2 hok.2 (i + 1) ne
        simp only [Sem.toRes, toValue_true, isNull, boolField, Bool.not_true, Bool.false_eq_true, if_false]
        rw [g1]
        cases hr : TTree.denAnd (envOf names tris) (i + 1) rest with
        | error e => simp [andRes]
        | ok r =>
          rw [hr] at g2
          simp only [and3_true_left, andRes, true_and, Except.ok.injEq]
          intro h
          exact Or.inr (g2 (by rw [h]))
theorem denOr_sound (names : List Nat) (tris : List Tri) (outer : List (List Value)) (souter : List (List Nat))
    (hlen : names.length = tris.length) (args : List TTree)
    (hb : TTree.boundList names args = true) (hok : TTree.okList (envOf names tris) args = true) :
    ∀ i ne, evalOr (tris.map Tri.toValue :: outer) i ne (materializeList (names :: souter) (TTree.toPList args)) =
        orRes ne (TTree.denOr (envOf names tris) i args)
      ∧ (TTree.denOr (envOf names tris) i args = .ok none → anyNullable args = true) := by
  cases args with
  | nil => intro i ne; cases ne <;> simp [TTree.toPList, materializeList, evalOr, TTree.denOr, orRes, Tri.toValue, or3]
  | cons a rest =>
    intro i ne
    simp only [TTree.boundList, Bool.and_eq_true] at hb
    simp only [TTree.okList, Bool.and_eq_true] at hok
    obtain ⟨h1, h2⟩ := den_sound names tris outer souter hlen a hb.1 hok.1
    simp only [TTree.toPList, materializeList, evalOr, TTree.denOr, anyNullable, Bool.or_eq_true]
    rw [h1]
    cases hd : a.den (envOf names tris) with
    | error e => simp [Sem.toRes, orRes]
    | ok r =>
      rw [hd] at h2
      rcases r with _ | _ | _
      · obtain ⟨g1, _⟩ := denOr_sound names tris outer souter hlen rest hb.2 hok.2 (i + 1) true
        simp only [Sem.toRes, toValue_none, isNull, boolField, Bool.false_eq_true, if_false, Bool.or_true]
        rw [g1]
        refine ⟨?_, fun _ => Or.inl (h2 rfl)⟩
        cases TTree.denOr (envOf names tris) (i + 1) rest with
        | error e => simp [orRes]
        | ok r => cases ne <;> simp [orRes, or3_none_idem]
      · obtain ⟨g1, g2⟩ := denOr_sound names tris outer souter hlen rest hb.2 hok.2 (i + 1) ne
        simp only [Sem.toRes, toValue_false, isNull, boolField, Bool.false_eq_true, if_false, Bool.or_false]
        rw [g1]
        cases hr : TTree.denOr (envOf names tris) (i + 1) rest with
        | error e => simp [orRes]
        | ok r =>
          rw [hr] at g2
          simp only [or3_false_left, orRes, true_and, Except.ok.injEq]
          intro h
          exact Or.inr (g2 (by rw [h]))
      · simp [Sem.toRes, toValue_true, boolField, orRes, or3]
end

mutual
/-- on error-free trees the order-aware reference result is the order-free Kleene value -/
theorem den_errorFree (ρ : Nat → Tri) (t : TTree) (h : t.errorFree = true) : t.den ρ = .ok (t.kleene ρ) := by
  cases t with
  | const ty t => rfl
  | var ty n => rfl
  | fail ty tag => simp [TTree.errorFree] at h
  | and ty args => simp only [TTree.errorFree] at h; simpa [TTree.den, TTree.kleene] using denAnd_errorFree ρ args h 0
  | or ty args => simp only [TTree.errorFree] at h; simpa [TTree.den, TTree.kleene] using denOr_errorFree ρ args h 0
  | not ty a => simp only [TTree.errorFree] at h; simp [TTree.den, TTree.kleene, den_errorFree ρ a h]
  | isNull ty a => simp only [TTree.errorFree] at h; simp [TTree.den, TTree.kleene, den_errorFree ρ a h]
  | isNotNull ty a => simp only [TTree.errorFree] at h; simp [TTree.den, TTree.kleene, den_errorFree ρ a h]
theorem denAnd_errorFree (ρ : Nat → Tri) (args : List TTree) (h : TTree.errorFreeList args = true) :
    ∀ i, TTree.denAnd ρ i args = .ok (TTree.kleeneAnd ρ args) := by
  cases args with
  | nil => intro i; rfl
  | cons a rest =>
    intro i
    simp only [TTree.errorFreeList, Bool.and_eq_true] at h
    simp only [TTree.denAnd, TTree.kleeneAnd, den_errorFree ρ a h.1, denAnd_errorFree ρ rest h.2 (i + 1)]
    rcases a.kleene ρ with _ | _ | _ <;> simp [and3_false_left]
theorem denOr_errorFree (ρ : Nat → Tri) (args : List TTree) (h : TTree.errorFreeList args = true) :
    ∀ i, TTree.denOr ρ i args = .ok (TTree.kleeneOr ρ args) := by
  cases args with
  | nil => intro i; rfl
  | cons a rest =>
    intro i
    simp only [TTree.errorFreeList, Bool.and_eq_true] at h
    simp only [TTree.denOr, TTree.kleeneOr, den_errorFree ρ a h.1, denOr_errorFree ρ rest h.2 (i + 1)]
    rcases a.kleene ρ with _ | _ | _ <;> simp [or3_true_left]
end

/-- **Boolean trees follow Kleene logic**, any depth, any arity: AND / OR / NOT / IS [NOT] NULL over constants and
    columns, built as `physical.Expression` with sound static types, materialized and evaluated on a record. -/
theorem tree_kleene (names : List Nat) (tris : List Tri) (outer : List (List Value)) (souter : List (List Nat))
    (hlen : names.length = tris.length) (t : TTree) (hef : t.errorFree = true)
    (hb : t.bound names = true) (hok : t.ok (envOf names tris) = true) :
    eval (tris.map Tri.toValue :: outer) (materialize (names :: souter) t.toP) =
      .val (t.kleene (envOf names tris)).toValue := by
  rw [(den_sound names tris outer souter hlen t hb hok).1, den_errorFree _ t hef]
  rfl

/-! ## WHERE keeps exactly the rows whose predicate is TRUE -/

/-- the rows Filter must keep: predicate evaluates to the Boolean TRUE; watermarks pass -/
def keepMsg (pred : Expr) (outer : List (List Value)) : Msg → Bool
  | .wm _ => true
  | .data r => isTrueRes (eval (r.vals :: outer) pred)

/-- **filter_spec.** When no predicate evaluation fails, the output is exactly the input with the records whose
    predicate is not TRUE removed: order, retraction flags, event times and watermarks untouched. -/
theorem filter_spec (pred : Expr) (outer : List (List Value)) (msgs : List Msg)
    (hne : ∀ r, Msg.data r ∈ msgs → ∃ v, eval (r.vals :: outer) pred = .val v) :
    filterRun pred outer msgs = (msgs.filter (keepMsg pred outer), .ok) := by
  induction msgs with
  | nil => rfl
  | cons m rest ih =>
    have ih' := ih (fun r hr => hne r (List.mem_cons_of_mem _ hr))
    cases m with
    | wm t => simp [filterRun, ih', List.filter_cons, keepMsg]
    | data r =>
      obtain ⟨v, hv⟩ := hne r (by simp)
      rw [filterRun_val pred outer r rest v hv, ih']
      simp only [List.filter, keepMsg, hv]
      cases isTrueRes (.val v) <;> simp

/-- the first evaluation error that is reached ends the run: what was produced before it is the filtered prefix -/
theorem filter_error (pred : Expr) (outer : List (List Value)) (pre : List Msg) (r : Rec) (post : List Msg) (e : Err)
    (hne : ∀ r, Msg.data r ∈ pre → ∃ v, eval (r.vals :: outer) pred = .val v)
    (he : eval (r.vals :: outer) pred = .err e) :
    filterRun pred outer (pre ++ .data r :: post) = (pre.filter (keepMsg pred outer), .err e) := by
  induction pre with
  | nil => simp [filterRun, he]
  | cons m rest ih =>
    have ih' := ih (fun r hr => hne r (List.mem_cons_of_mem _ hr))
    cases m with
    | wm t => simp [filterRun, ih', List.filter_cons, keepMsg]
    | data q =>
      obtain ⟨v, hv⟩ := hne q (by simp)
      rw [List.cons_append, filterRun_val pred outer q _ v hv, ih']
      simp only [List.filter, keepMsg, hv]
      cases isTrueRes (.val v) <;> simp

/-- the records of the output are the records of the input whose predicate is TRUE; the watermarks are all there -/
theorem filter_recs_wms (pred : Expr) (outer : List (List Value)) (msgs : List Msg)
    (hne : ∀ r, Msg.data r ∈ msgs → ∃ v, eval (r.vals :: outer) pred = .val v) :
    recs (filterRun pred outer msgs).1 = (recs msgs).filter (fun r => isTrueRes (eval (r.vals :: outer) pred)) ∧
    wms (filterRun pred outer msgs).1 = wms msgs := by
  rw [filter_spec pred outer msgs hne]
  clear hne
  induction msgs with
  | nil => exact ⟨rfl, rfl⟩
  | cons m rest ih =>
    cases m with
    | wm t => simp [List.filter, keepMsg, recs, wms, ih.1, ih.2]
    | data r =>
      simp only [List.filter, keepMsg, recs, wms]
      cases isTrueRes (eval (r.vals :: outer) pred) <;> simp [recs, wms, ih.1, ih.2]

/-- **WHERE with a boolean predicate tree**: over records of truth values, with sound static types, the Filter
    node keeps exactly the records on which the predicate's Kleene value is TRUE (NULL and FALSE rows are dropped). -/
theorem filter_kleene (names : List Nat) (souter : List (List Nat)) (outer : List (List Value)) (t : TTree)
    (hef : t.errorFree = true) (hb : t.bound names = true) (msgs : List Msg)
    (hrows : ∀ r, Msg.data r ∈ msgs → ∃ tris : List Tri, r.vals = tris.map Tri.toValue ∧
      names.length = tris.length ∧ t.ok (envOf names tris) = true) :
    filterRun (materialize (names :: souter) t.toP) outer msgs =
      (msgs.filter (fun m => match m with
        | .wm _ => true
        | .data r => t.kleene (envOf names (r.vals.map triOf)) == some true), .ok) := by
  have hev : ∀ r, Msg.data r ∈ msgs → eval (r.vals :: outer) (materialize (names :: souter) t.toP) =
      .val (t.kleene (envOf names (r.vals.map triOf))).toValue := by
    intro r hr
    obtain ⟨tris, hv, hlen, hok⟩ := hrows r hr
    have : r.vals.map triOf = tris := by
      rw [hv, List.map_map]
      have : (triOf ∘ Tri.toValue) = id := funext triOf_toValue
      simp [this]
    rw [this, hv]
    exact tree_kleene names tris outer souter hlen t hef hb hok
  rw [filter_spec _ outer msgs (fun r hr => ⟨_, hev r hr⟩)]
  congr 1
  apply List.filter_congr
  intro m hm
  cases m with
  | wm w => rfl
  | data r =>
    simp only [keepMsg, hev r hm]
    rcases t.kleene (envOf names (r.vals.map triOf)) with _ | _ | _ <;> rfl

/-! ## From the logical expression: the typechecker's types are sound, so no typing hypothesis remains -/

/-- the record conforms to the column types: a NULL only in a column whose type admits NULL -/
def rowConforms (Γ : List BTy) (ρ : Nat → Tri) : Prop :=
  ∀ (n : Nat) (ty : BTy), Γ[n]? = some ty → ρ n = none → ty.nullable = true

/-- **The typechecker's output is well typed** (`typecheckU` mirrors `logical.*.Typecheck` on the boolean fragment):
    the typed tree it produces has the reported type, is error-free, binds its variables in the schema, its static
    types are sound on every conforming record, and it denotes the same Kleene function as the source expression. -/
theorem typecheckU_sound (Γ : List BTy) (u : UTree) : ∀ (t : TTree) (bt : BTy), typecheckU Γ u = some (t, bt) →
    t.ty = bt.toTy ∧ t.errorFree = true ∧ t.bound (List.range Γ.length) = true ∧
    (∀ ρ, rowConforms Γ ρ → t.ok ρ = true) ∧ (∀ ρ, t.kleene ρ = u.kleene ρ) := by
  induction u with
  | const c =>
    intro t bt h
    simp only [typecheckU, Option.some.injEq, Prod.mk.injEq] at h
    obtain ⟨rfl, rfl⟩ := h
    refine ⟨rfl, rfl, rfl, fun ρ _ => ?_, fun ρ => rfl⟩
    rcases c with _ | _ | _ <;> rfl
  | var n =>
    intro t bt h
    simp only [typecheckU] at h
    cases hg : Γ[n]? with
    | none => simp [hg] at h
    | some ty =>
      simp only [hg, Option.some.injEq, Prod.mk.injEq] at h
      obtain ⟨rfl, rfl⟩ := h
      have hn : n < Γ.length := by
        rcases Nat.lt_or_ge n Γ.length with h | h
        · exact h
        · rw [List.getElem?_eq_none h] at hg; cases hg
      refine ⟨rfl, rfl, by simp [TTree.bound, findField_of_range n _ hn], fun ρ hρ => ?_, fun ρ => rfl⟩
      simp only [TTree.ok, Bool.or_eq_true, nullIs_toTy]
      cases hr : ρ n with
      | none => exact Or.inr (hρ n ty hg hr)
      | some _ => exact Or.inl rfl
  | and l r ihl ihr =>
    intro t bt h
    simp only [typecheckU] at h
    cases hl : typecheckU Γ l with
    | none => simp [hl] at h
    | some pl =>
      cases hr : typecheckU Γ r with
      | none => simp [hl, hr] at h
      | some pr =>
        obtain ⟨tl, bl⟩ := pl
        obtain ⟨tr, br⟩ := pr
        simp only [hl, hr, Option.some.injEq, Prod.mk.injEq] at h
        obtain ⟨rfl, rfl⟩ := h
        obtain ⟨l1, l2, l3, l4, l5⟩ := ihl tl bl hl
        obtain ⟨r1, r2, r3, r4, r5⟩ := ihr tr br hr
        refine ⟨rfl, by simp [TTree.errorFree, TTree.errorFreeList, l2, r2],
          by simp [TTree.bound, TTree.boundList, l3, r3], fun ρ hρ => ?_, fun ρ => ?_⟩
        · simp only [TTree.ok, TTree.okList, l4 ρ hρ, r4 ρ hρ, anyNullable, l1, r1, nullIs_toTy]
          cases bl <;> cases br <;> decide
        · simp [TTree.kleene, TTree.kleeneAnd, UTree.kleene, l5, r5, and3_true_right]
  | or l r ihl ihr =>
    intro t bt h
    simp only [typecheckU] at h
    cases hl : typecheckU Γ l with
    | none => simp [hl] at h
    | some pl =>
      cases hr : typecheckU Γ r with
      | none => simp [hl, hr] at h
      | some pr =>
        obtain ⟨tl, bl⟩ := pl
        obtain ⟨tr, br⟩ := pr
        simp only [hl, hr, Option.some.injEq, Prod.mk.injEq] at h
        obtain ⟨rfl, rfl⟩ := h
        obtain ⟨l1, l2, l3, l4, l5⟩ := ihl tl bl hl
        obtain ⟨r1, r2, r3, r4, r5⟩ := ihr tr br hr
        refine ⟨rfl, by simp [TTree.errorFree, TTree.errorFreeList, l2, r2],
          by simp [TTree.bound, TTree.boundList, l3, r3], fun ρ hρ => ?_, fun ρ => ?_⟩
        · simp only [TTree.ok, TTree.okList, l4 ρ hρ, r4 ρ hρ, anyNullable, l1, r1, nullIs_toTy]
          cases bl <;> cases br <;> decide
        · simp [TTree.kleene, TTree.kleeneOr, UTree.kleene, l5, r5, or3_false_right]
  | not a iha =>
    intro t bt h
    simp only [typecheckU] at h
    cases ha : typecheckU Γ a with
    | none => simp [ha] at h
    | some pa =>
      obtain ⟨ta, ba⟩ := pa
      obtain ⟨a1, a2, a3, a4, a5⟩ := iha ta ba ha
      cases ba with
      | n => simp [ha] at h
      | b =>
        simp only [ha, Option.some.injEq, Prod.mk.injEq] at h
        obtain ⟨rfl, rfl⟩ := h
        refine ⟨rfl, by simpa [TTree.errorFree] using a2, by simpa [TTree.bound] using a3, fun ρ hρ => ?_, fun ρ => ?_⟩
        · simp [TTree.ok, a4 ρ hρ, a1, nullIs_toTy, BTy.nullable]
        · simp [TTree.kleene, UTree.kleene, a5]
      | bn =>
        simp only [ha, Option.some.injEq, Prod.mk.injEq] at h
        obtain ⟨rfl, rfl⟩ := h
        refine ⟨rfl, by simpa [TTree.errorFree] using a2, by simpa [TTree.bound] using a3, fun ρ hρ => ?_, fun ρ => ?_⟩
        · simp [TTree.ok, a4 ρ hρ, a1, nullIs_toTy, BTy.nullable]
        · simp [TTree.kleene, UTree.kleene, a5]
  | isNull a iha =>
    intro t bt h
    simp only [typecheckU] at h
    cases ha : typecheckU Γ a with
    | none => simp [ha] at h
    | some pa =>
      obtain ⟨ta, ba⟩ := pa
      obtain ⟨a1, a2, a3, a4, a5⟩ := iha ta ba ha
      simp only [ha, Option.some.injEq, Prod.mk.injEq] at h
      obtain ⟨rfl, rfl⟩ := h
      exact ⟨rfl, by simpa [TTree.errorFree] using a2, by simpa [TTree.bound] using a3,
        fun ρ hρ => by simpa [TTree.ok] using a4 ρ hρ, fun ρ => by simp [TTree.kleene, UTree.kleene, a5]⟩
  | isNotNull a iha =>
    intro t bt h
    simp only [typecheckU] at h
    cases ha : typecheckU Γ a with
    | none => simp [ha] at h
    | some pa =>
      obtain ⟨ta, ba⟩ := pa
      obtain ⟨a1, a2, a3, a4, a5⟩ := iha ta ba ha
      simp only [ha, Option.some.injEq, Prod.mk.injEq] at h
      obtain ⟨rfl, rfl⟩ := h
      exact ⟨rfl, by simpa [TTree.errorFree] using a2, by simpa [TTree.bound] using a3,
        fun ρ hρ => by simpa [TTree.ok] using a4 ρ hρ, fun ρ => by simp [TTree.kleene, UTree.kleene, a5]⟩

/-- **End to end for boolean SQL expressions** (any depth): typecheck → materialize → evaluate on a record that
    conforms to the column types gives the Kleene value of the source expression.  No typing hypothesis. -/
theorem sql_tree_kleene (Γ : List BTy) (u : UTree) (t : TTree) (bt : BTy) (h : typecheckU Γ u = some (t, bt))
    (tris : List Tri) (hlen : tris.length = Γ.length)
    (hrow : ∀ (n : Nat) (ty : BTy), Γ[n]? = some ty → tris[n]? = some none → ty.nullable = true)
    (outer : List (List Value)) (souter : List (List Nat)) :
    eval (tris.map Tri.toValue :: outer) (materialize (List.range Γ.length :: souter) t.toP) =
      .val (u.kleene (fun n => (tris[n]?).getD none)).toValue := by
  obtain ⟨_, h2, h3, h4, h5⟩ := typecheckU_sound Γ u t bt h
  have henv : envOf (List.range Γ.length) tris = fun n => (tris[n]?).getD none := by
    funext n
    simp only [envOf]
    rcases Nat.lt_or_ge n Γ.length with hn | hn
    · rw [findField_of_range n _ hn]
    · have : findField n 0 (List.range Γ.length) = none := by
        cases hf : findField n 0 (List.range Γ.length) with
        | none => rfl
        | some i =>
          -- the field found is `n` itself, which is out of range
          exfalso
          have hmem : ∀ (fs : List Nat) (k i : Nat), findField n k fs = some i → n ∈ fs := by
            intro fs
            induction fs with
            | nil => intro k i h; simp [findField] at h
            | cons f fs ih =>
              intro k i h
              simp only [findField] at h
              split at h
              · rename_i heq; simp at heq; simp [heq]
              · exact List.mem_cons_of_mem _ (ih _ _ h)
          have := hmem _ _ _ hf
          simp at this
          omega
      rw [this, List.getElem?_eq_none (by omega)]
      rfl
  have hconf : rowConforms Γ (envOf (List.range Γ.length) tris) := by
    intro n cty hb hn
    rw [henv] at hn
    simp only at hn
    have hlt : n < tris.length := by
      rcases Nat.lt_or_ge n Γ.length with h | h
      · omega
      · rw [List.getElem?_eq_none h] at hb; cases hb
    have : tris[n]? = some tris[n] := by simp [hlt]
    rw [this] at hn
    simp only [Option.getD_some] at hn
    exact hrow n cty hb (by rw [this, hn])
  rw [tree_kleene (List.range Γ.length) tris outer souter (by simp [hlen]) t h2 h3 (h4 _ hconf), h5, henv]

/-! ## What the typechecker rejects (finding `null-typed-operand-rejected`) -/

/-- the SQL-level reading "every boolean expression over the columns has a value": the typechecker accepts it -/
def StatementSQL : Prop :=
  ∀ (Γ : List BTy) (u : UTree), u.bound Γ.length = true → (typecheckU Γ u).isSome = true

/-- **refuted**: `NOT NULL` is rejected ("unknown function: not(NULL)") -/
theorem C11_sql_refuted : ¬ StatementSQL := by
  intro h
  have := h [] (.not (.const none)) rfl
  exact absurd this (by decide)

/-- **partial**: that is the only rejection — an expression over the columns without a `NOT` over a NULL-typed
    operand typechecks, with the type SQL gives it (and then `sql_tree_kleene` gives its value) -/
theorem C11_sql_partial (Γ : List BTy) (u : UTree) (hb : u.bound Γ.length = true)
    (hn : u.notOverNull Γ = false) : ∃ t, typecheckU Γ u = some (t, u.sqlType Γ) := by
  induction u with
  | const c => exact ⟨_, rfl⟩
  | var n =>
    simp only [UTree.bound, decide_eq_true_eq] at hb
    have : Γ[n]? = some Γ[n] := by simp [hb]
    simp only [typecheckU, UTree.sqlType, this, Option.getD_some]; exact ⟨_, rfl⟩
  | and l r ihl ihr =>
    simp only [UTree.bound, Bool.and_eq_true] at hb
    simp only [UTree.notOverNull, Bool.or_eq_false_iff] at hn
    obtain ⟨tl, hl⟩ := ihl hb.1 hn.1
    obtain ⟨tr, hr⟩ := ihr hb.2 hn.2
    simp only [typecheckU, UTree.sqlType, hl, hr]; exact ⟨_, rfl⟩
  | or l r ihl ihr =>
    simp only [UTree.bound, Bool.and_eq_true] at hb
    simp only [UTree.notOverNull, Bool.or_eq_false_iff] at hn
    obtain ⟨tl, hl⟩ := ihl hb.1 hn.1
    obtain ⟨tr, hr⟩ := ihr hb.2 hn.2
    simp only [typecheckU, UTree.sqlType, hl, hr]; exact ⟨_, rfl⟩
  | not a iha =>
    simp only [UTree.bound] at hb
    simp only [UTree.notOverNull, Bool.or_eq_false_iff, beq_eq_false_iff_ne, ne_eq] at hn
    obtain ⟨ta, ha⟩ := iha hb hn.1
    cases hty : a.sqlType Γ with
    | n => exact absurd hty hn.2
    | b => rw [hty] at ha; simp only [typecheckU, UTree.sqlType, ha, hty]; exact ⟨_, rfl⟩
    | bn => rw [hty] at ha; simp only [typecheckU, UTree.sqlType, ha, hty]; exact ⟨_, rfl⟩
  | isNull a iha =>
    simp only [UTree.bound] at hb
    simp only [UTree.notOverNull] at hn
    obtain ⟨ta, ha⟩ := iha hb hn
    simp only [typecheckU, UTree.sqlType, ha]; exact ⟨_, rfl⟩
  | isNotNull a iha =>
    simp only [UTree.bound] at hb
    simp only [UTree.notOverNull] at hn
    obtain ⟨ta, ha⟩ := iha hb hn
    simp only [typecheckU, UTree.sqlType, ha]; exact ⟨_, rfl⟩

/-- the same rejection for ordering comparisons with a NULL-typed operand; `=` / `!=` accept it -/
theorem cmp_null_operand_rejected :
    typecheckCmp .lt .i .n = none ∧ typecheckCmp .ge .n .ni = none ∧
    typecheckCmp .eq .i .n = some .bn ∧ typecheckCmp .ne .n .ni = some .bn ∧ typecheckCmp .lt .n .n = some .bn := by
  decide

/-! ## Comparisons as the typechecker types them -/

theorem cmpOp_strict (op : CmpOp) : strictOf op.name 0 = some true := by
  cases op <;> decide

/-- **Comparisons return NULL whenever an argument is NULL**, with the static types the real typechecker assigns
    (`typecheckCmp` mirrors `FunctionExpression.Typecheck` for `<`, `<=`, `=`, `!=`, `>=`, `>` on Int / NULL operands):
    the result is NULL and the node's type admits NULL. -/
theorem cmp_typed_null (env : List (List Value)) (schema : List (List Nat)) (op : CmpOp) (l r : ITy) (bt : BTy)
    (h : typecheckCmp op l r = some bt) (pa pb : PExpr) (hta : pa.ty = l.toTy) (htb : pb.ty = r.toTy) (a b : Value)
    (hev : evalList env (materializeList schema [pa, pb]) = [a, b].map Res.val)
    (hca : conforms l.toTy a = true) (hcb : conforms r.toTy b = true) (hnull : a = .null ∨ b = .null) :
    eval env (materialize schema (.call bt.toTy (tableDesc op.name 0 op.fn) [pa, pb])) = .val .null ∧
    bt.nullable = true := by
  have hconf : ∀ (i : Nat) (x : PExpr) (v : Value), [pa, pb][i]? = some x → [a, b][i]? = some v →
      conforms x.ty v = true := by
    intro i x v hx hv
    match i with
    | 0 => simp at hx hv; subst hx hv; rw [hta]; exact hca
    | 1 => simp at hx hv; subst hx hv; rw [htb]; exact hcb
    | n + 2 => simp at hx
  constructor
  · rcases hnull with rfl | rfl
    · exact table_strict_null env schema _ op.name 0 op.fn (cmpOp_strict op) _ _ hev hconf 0 rfl
    · exact table_strict_null env schema _ op.name 0 op.fn (cmpOp_strict op) _ _ hev hconf 1 rfl
  · have hn : l.nullable = true ∨ r.nullable = true := by
      rcases hnull with rfl | rfl
      · exact Or.inl (conforms_null_nullable l hca)
      · exact Or.inr (conforms_null_nullable r hcb)
    exact typecheckCmp_nullable op l r bt h hn

/-- … and on two integers they return what the operator says (no NULL, no error) -/
theorem cmp_typed_value (env : List (List Value)) (schema : List (List Nat)) (op : CmpOp) (ty : Ty)
    (pa pb : PExpr) (x y : Int)
    (hev : evalList env (materializeList schema [pa, pb]) = [Value.int x, Value.int y].map Res.val) :
    eval env (materialize schema (.call ty (tableDesc op.name 0 op.fn) [pa, pb])) = .val (.bool (op.holds x y)) := by
  rw [strict_nonnull env schema ty _ [pa, pb] [.int x, .int y] hev (by simp [isNull])]
  have hc : cmp (.int x) (.int y) = cmpInt x y := rfl
  cases op <;>
    simp only [tableDesc, CmpOp.fn, CmpOp.holds, fnLt, fnLe, fnGe, fnGt, fnEq, fnNe, fnCmp, wrapBody, Value.equal, hc,
      Res.val.injEq, Value.bool.injEq]
  · exact decide_eq_decide.2 (cmpInt_lt x y)
  · exact decide_eq_decide.2 (cmpInt_le x y)
  · rw [show (cmpInt x y == 0) = decide (cmpInt x y = 0) from rfl]; exact decide_eq_decide.2 (cmpInt_eq x y)
  · rw [show (cmpInt x y == 0) = decide (cmpInt x y = 0) from rfl]
    have hiff := cmpInt_eq x y
    by_cases hxy : x = y
    · subst hxy; simp [(cmpInt_eq x x).2 rfl]
    · have : ¬ cmpInt x y = 0 := fun hc0 => hxy (hiff.1 hc0)
      simp [hxy, this]
  · exact decide_eq_decide.2 (cmpInt_ge x y)
  · exact decide_eq_decide.2 (cmpInt_gt x y)

/-! ## The "Maybe" pass: a may-fit argument is wrapped in a `TypeAssertion`; a strict call over it is still NULL on NULL -/

/-- no descriptor of `FunctionMap()` declares a parameter of type NULL (generated table) -/
theorem table_params_nonnull : ∀ e ∈ Octo.Gen.Strict.table, ∀ p ∈ e.params, p ≠ 0 := by decide

/-- the column holding NULL, passed through the Maybe pass's assertion (or bare), evaluates to NULL: the assertion's
    target is `declared | NULL`, so NULL is one of the expected TypeIDs -/
theorem eval_argP_null (p : Nat) (s : FTy) (i : Nat) (hp0 : p ≠ 0) (names : List Nat) (vals : List Value)
    (outer : List (List Value)) (souter : List (List Nat))
    (hv : eval (vals :: outer) (materialize (names :: souter) (.var s.toTy i)) = .val .null) :
    eval (vals :: outer) (materialize (names :: souter) (argP true p s i)) = .val .null := by
  unfold argP
  split
  · rename_i hm
    have hp : p ≠ anyId := by
      intro he; subst he; rw [isF_any] at hm; simp at hm
    simp only [materialize] at hv ⊢
    simp only [eval] at hv ⊢
    rw [hv]
    have hc := expectedIds_target_null p hp hp0
    simp only [List.contains_iff_mem] at hc
    simp [Value.rank, hc]
  · exact hv

/-- **Strict call through the Maybe pass.** For a strict descriptor with declared parameter types `ps`, applied to
    columns of flat static types `ss` (e.g. `NULL | Boolean | String`) — each argument passed bare or wrapped in the
    assertion `FunctionExpression.Typecheck` builds, whose static type is `TypeIntersection(declared | NULL, column type)` —
    if the arguments evaluate (all assertions hold) and a column whose type admits NULL holds NULL, the call is NULL.
    Whatever the body, whichever overload was picked. -/
theorem maybe_pass_strict_null (env : List (List Value)) (schema : List (List Nat)) (ty : Ty) (d : Desc)
    (hstrict : d.strict = true) (ps : List Nat) (ss : List FTy) (vs : List Value)
    (hvals : evalList env (materializeList schema (buildArgs true ps ss 0)) = vs.map Res.val)
    (i : Nat) (p : Nat) (s : FTy) (hp : ps[i]? = some p) (hs : ss[i]? = some s) (hp0 : p ≠ 0) (h0 : 0 ∈ s)
    (hnull : vs[i]? = some .null) :
    eval env (materialize schema (.call ty d (buildArgs true ps ss 0))) = .val .null := by
  have hget := buildArgs_get true ps ss 0 i p s hp hs
  exact strict_null env schema ty d _ vs hstrict hvals i _ hget (argP_nullable p s (0 + i) hp0 h0) hnull

/-- `NOT c0` over a column of static type `NULL | Boolean | String` holding NULL / TRUE / 'x', with the expression the
    typechecker builds (assertion of static type `NULL | Boolean`, target `NULL | Boolean`): NULL, FALSE, the assertion's error -/
example :
    let e := materialize [[0]] (.call .any (tableDesc nmNot 0 fnNot) (buildArgs true [3] [[0, 3, 4]] 0))
    eval [[.null]] e = .val .null ∧ eval [[.bool true]] e = .val (.bool false) ∧
    eval [[.str [120]]] e = .err ⟨[.fnArg 0], invalidTypeTag⟩ := by
  refine ⟨?_, ?_, ?_⟩ <;>
    simp [materialize, materializeList, buildArgs, argP, isF, viewF, nonNullableF, assertTyF, targetF, anyId, FTy.toTy,
      primTy, expectedIds, Ty.id, resolveVar, findField, eval, evalArgs, lookupVar, nullCheckIndices, not_strict, nullCheckIdx,
      PExpr.ty, nullIs, nullRel, nullRelMax, applyFn, nullCheck, isNull, Value.rank, wrapBody, tableDesc, fnNot, boolField,
      Err.wrap]

/-- **what the bare intersection would do** (the assertion typed `TypeIntersection(declared, column type)` = `Boolean`,
    NULL dropped): the NULL check is elided and `NOT NULL` comes out TRUE -/
example : eval [[.null]] (materialize [[0]] (.call .any ⟨true, fnNot⟩
    [.assert (FTy.toTy [3]) (FTy.toTy [0, 3]) (.var (FTy.toTy [0, 3, 4]) 0)])) = .val (.bool true) := by
  simp [materialize, materializeList, FTy.toTy, primTy, expectedIds, Ty.id, resolveVar, findField, eval, evalArgs,
    lookupVar, nullCheckIndices, nullCheckIdx, PExpr.ty, nullIs, nullRel, applyFn, nullCheck, Value.rank, wrapBody, fnNot,
    boolField]

/-- resolution of `not(NULL|Boolean|String)`: descriptor 0, strict, one argument whose static type admits NULL;
    `upper(NULL|Int|String)` likewise; `<` over a mixed union has no overload -/
example : ((typecheckCall nmNot [[0, 3, 4]]).map fun r => (r.1.idx, r.1.strict, r.2.map fun a => nullIs a.ty)) =
    some (0, true, [true]) := by decide
example : (typecheckCall nmLt [[0, 1, 4], [1]]).isNone = true ∧ (typecheckCall nmLt [[0, 1], [1]]).isSome = true := by
  decide

/-! ## The property, full strength -/

/-- **C11**, as stated: (1) AND / OR are the Kleene folds for every operand list; (2) NOT's table; (3) every
    descriptor that `functions.go` marks `Strict` — and that is all of them except the NULL handlers, the six
    comparisons included — returns NULL whenever a (well-typed) argument is NULL; (4) IS [NOT] NULL return a Boolean;
    (5) boolean expression trees of any depth evaluate to their Kleene value; (6) Filter keeps exactly the rows whose
    predicate is TRUE; (7) for logical (SQL-level) boolean expressions the types the typechecker assigns are sound,
    so typecheck → materialize → evaluate is the Kleene value with no typing hypothesis. -/
def Statement : Prop :=
  (∀ (env : List (List Value)) (ts : List Tri),
      eval env (.and (ts.map fun t => .const t.toValue)) = .val (kAnd ts).toValue ∧
      eval env (.or (ts.map fun t => .const t.toValue)) = .val (kOr ts).toValue) ∧
  (∀ (env : List (List Value)) (schema : List (List Nat)) (ty aty : Ty), nullIs aty = true → ∀ t : Tri,
      eval env (materialize schema (.call ty (tableDesc nmNot 0 fnNot) [.const aty t.toValue])) = .val (not3 t).toValue) ∧
  (∀ (env : List (List Value)) (schema : List (List Nat)) (ty : Ty) (name : List Nat) (idx : Nat)
      (body : List Value → Res), strictOf name idx = some true →
      ∀ (args : List PExpr) (vs : List Value),
        evalList env (materializeList schema args) = vs.map Res.val →
        (∀ (i : Nat) (a : PExpr) (v : Value), args[i]? = some a → vs[i]? = some v → conforms a.ty v = true) →
        ∀ i : Nat, vs[i]? = some .null →
          eval env (materialize schema (.call ty (tableDesc name idx body) args)) = .val .null) ∧
  (∀ e ∈ Octo.Gen.Strict.table, e.strict = true ∨
      e.name = nmIsNull ∨ e.name = nmIsNotNull ∨ e.name = nmString ∨ e.name = nmPanic) ∧
  (strictOf nmLt 0 = some true ∧ strictOf nmLe 0 = some true ∧ strictOf nmEq 0 = some true ∧
      strictOf nmNe 0 = some true ∧ strictOf nmGe 0 = some true ∧ strictOf nmGt 0 = some true) ∧
  (∀ (env : List (List Value)) (schema : List (List Nat)) (ty : Ty) (a : PExpr) (v : Value),
      eval env (materialize schema a) = .val v →
      eval env (materialize schema (.call ty (tableDesc nmIsNull 0 fnIsNull) [a])) = .val (.bool (isNull v)) ∧
      eval env (materialize schema (.call ty (tableDesc nmIsNotNull 0 fnIsNotNull) [a])) = .val (.bool (!isNull v))) ∧
  (∀ (names : List Nat) (tris : List Tri) (outer : List (List Value)) (souter : List (List Nat)),
      names.length = tris.length → ∀ t : TTree, t.errorFree = true → t.bound names = true →
      t.ok (envOf names tris) = true →
      eval (tris.map Tri.toValue :: outer) (materialize (names :: souter) t.toP) =
        .val (t.kleene (envOf names tris)).toValue) ∧
  (∀ (pred : Expr) (outer : List (List Value)) (msgs : List Msg),
      (∀ r, Msg.data r ∈ msgs → ∃ v, eval (r.vals :: outer) pred = .val v) →
      filterRun pred outer msgs = (msgs.filter (keepMsg pred outer), .ok)) ∧
  (∀ (Γ : List BTy) (u : UTree) (t : TTree) (bt : BTy), typecheckU Γ u = some (t, bt) →
      ∀ (tris : List Tri), tris.length = Γ.length →
      (∀ (n : Nat) (ty : BTy), Γ[n]? = some ty → tris[n]? = some none → ty.nullable = true) →
      ∀ (outer : List (List Value)) (souter : List (List Nat)),
        eval (tris.map Tri.toValue :: outer) (materialize (List.range Γ.length :: souter) t.toP) =
          .val (u.kleene (fun n => (tris[n]?).getD none)).toValue)

/-- **C11, full strength, on the current tree.** -/
theorem C11_full : Statement :=
  ⟨fun env ts => ⟨and_kleene env ts, or_kleene env ts⟩,
   fun env schema ty aty h t => not_table env schema ty aty h t,
   fun env schema ty name idx body hs args vs hv hc i hn =>
     table_strict_null env schema ty name idx body hs args vs hv hc i hn,
   table_strict_except_null_handlers,
   comparisons_strict,
   fun env schema ty a v hv => is_null_never_null env schema ty a v hv,
   fun names tris outer souter hlen t hef hb hok => tree_kleene names tris outer souter hlen t hef hb hok,
   fun pred outer msgs h => filter_spec pred outer msgs h,
   fun Γ u t bt h tris hlen hrow outer souter => sql_tree_kleene Γ u t bt h tris hlen hrow outer souter⟩

/-! ## Non-vacuity -/

def tBN : Ty := .union [.null, .bool]

/-- TRUE AND NULL AND TRUE = NULL;  FALSE OR NULL OR TRUE = TRUE;  NULL AND FALSE = FALSE (evaluated by the model) -/
example : eval [] (.and [.const (.bool true), .const .null, .const (.bool true)]) = .val .null := by
  simp [eval, evalAnd, isNull, boolField]
example : eval [] (.or [.const (.bool false), .const .null, .const (.bool true)]) = .val (.bool true) := by
  simp [eval, evalOr, boolField]
example : kAnd [some true, none, some true] = none ∧ kOr [some false, none, some true] = some true ∧
    kAnd [none, some false] = some false ∧ kOr [none, some false] = none := by decide

/-- an error behind a FALSE is never reached, an error before it is -/
example : andLoop 0 false [.val (.bool true), .val (.bool false), .err ⟨[], []⟩] = .val (.bool false) := by
  simp [andLoop, isNull, boolField]
example : andLoop 0 false [.val .null, .err ⟨[], [1]⟩, .val (.bool false)] = .err ⟨[.andArg 1], [1]⟩ := by
  simp [andLoop, isNull, Err.wrap]

/-- the hypotheses of `strict_null_welltyped` are met by a call `f(NULL : NULL|Int, 1 : Int)` of a strict `f` -/
example : nullIs (.union [.null, .int]) = true ∧ conforms (.union [.null, .int]) .null = true ∧
    conforms .int (.int 1) = true ∧ nullIs .int = false := by decide
example : eval [] (materialize [] (.call .int ⟨true, fun _ => .val (.int 42)⟩
    [.const (.union [.null, .int]) .null, .const .int (.int 1)])) = .val .null := by
  apply strict_null_welltyped [] [] .int _ _ [.null, .int 1] rfl
  · simp [materializeList, materialize, evalList, eval]
  · intro i a v ha hv
    match i with
    | 0 => simp at ha hv; subst ha hv; decide
    | 1 => simp at ha hv; subst ha hv; decide
    | n + 2 => simp at ha
  · exact (rfl : [Value.null, Value.int 1][0]? = some Value.null)

/-- **why the static types matter** (mirrors the code): the same NULL under a static type that does not admit
    NULL is *not* checked, the body runs on it, and `not` of NULL comes out TRUE.  `TTree.ok` excludes exactly this;
    in the engine it can only arise from an unsound output type upstream (C08, e.g. `int('x')` typed Int). -/
theorem unchecked_null_reaches_body :
    eval [] (materialize [] (.call .bool (tableDesc nmNot 0 fnNot) [.const .bool .null])) = .val (.bool true) := by
  simp [materialize, materializeList, eval, evalArgs, nullCheckIndices, nullCheckIdx, PExpr.ty, applyFn,
    nullCheck, tableDesc, fnNot, boolField, wrapBody]

/-- a non-trivial tree meets the hypotheses of `tree_kleene`: NOT (c0 AND TRUE) over the record (NULL) -/
def exTree : TTree := .not tBN (.and tBN [.var tBN 0, .const .bool (some true)])
example : exTree.errorFree = true ∧ exTree.bound [0] = true ∧ exTree.ok (envOf [0] [none]) = true ∧
    exTree.kleene (envOf [0] [none]) = none ∧ exTree.kleene (envOf [0] [some true]) = some false := by decide

/-- the typechecker accepts NOT (c0 AND TRUE) over a nullable column and types it NULL|Boolean; it rejects NOT NULL -/
example : ((typecheckU [.bn] (.not (.and (.var 0) (.const (some true))))).map (·.2)) = some .bn := by decide
example : (typecheckU [.bn] (.not (.const none))).isNone = true := by decide

/-- `c0 < c1` over (NULL|Int, Int) is typed NULL|Boolean; `c0 < NULL` has no overload, `c0 = NULL` has -/
example : typecheckCmp .lt .ni .i = some .bn ∧ typecheckCmp .lt .i .n = none ∧ typecheckCmp .eq .i .n = some .bn ∧
    conforms ITy.ni.toTy .null = true ∧ conforms ITy.ni.toTy (.int 3) = true := by decide

/-- Filter on a three-row stream with a watermark: only the TRUE row and the watermark remain -/
example : filterRun (.var 0 0) []
    [.data ⟨[.bool true], false, none⟩, .wm 5, .data ⟨[.null], false, none⟩, .data ⟨[.bool false], true, some 3⟩] =
    ([.data ⟨[.bool true], false, none⟩, .wm 5], .ok) := by
  simp [filterRun, eval, lookupVar]

end Octo.C11
