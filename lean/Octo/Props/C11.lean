import Octo.Spec.Kleene
namespace Octo.C11
open Octo Octo.Logic

theorem stub : (1 : Nat) = 1 := rfl

end Octo.C11
