import Octo.Lemmas.SqlTree3
/-!
# C05 — LIMIT and ORDER BY behave identically in every output mode and nesting

Three pieces of code implement LIMIT / ORDER BY: `nodes.Limit`, `nodes.OrderSensitiveTransform`
(`ostOp`) and the table printer (`printerOp`); `cmd/root.go` and `physical/nodes.go` choose among
them (`orderLimitEager`: nested blocks and csv/json/stream_native; `tableSink`: batch_table/live_table).
The theorems: whichever is chosen, `LIMIT n` yields exactly `min n N` rows, and they are the first
`n` rows of a key-sorted rearrangement of the `N` input rows, duplicates counted individually.
-/
namespace Octo.C05
open Octo Octo.Sql

/-- ORDER BY keys evaluate on the rows (see C01) -/
def KeysOk (order : List (SExpr × Bool)) (core : List Row) : Prop :=
  ∀ r ∈ core, (evalAll r (keyExprs order)).isSome

theorem sortedBy_no_keys (l : List Row) : SortedBy [] l := by
  induction l with
  | nil => trivial
  | cons r rs ih =>
    refine ⟨?_, ih⟩
    intro x _ ka kb h1 h2
    simp [keyExprs, evalAll] at h1 h2
    subst h1; subst h2
    simp [mults, keyCmp]

/-- what every implementation must deliver -/
def LimitSpec (order : List (SExpr × Bool)) (limit : Option Nat) (core out : List Row) : Prop :=
  ∃ full, SameBag full core ∧ full.length = core.length ∧ SortedBy order full ∧ out = applyLimit limit full

theorem limitSpec_length (order : List (SExpr × Bool)) (n : Nat) (core out : List Row)
    (h : LimitSpec order (some n) core out) : out.length = min n core.length := by
  obtain ⟨full, _, hl, _, rfl⟩ := h
  simp [applyLimit, hl]

/-- the Limit node: the first n rows, for every n ≥ 0 -/
theorem limit_node (n : Nat) (rows : List Row) : LimitSpec [] (some n) rows (limitOp n rows) :=
  ⟨rows, fun _ => rfl, rfl, sortedBy_no_keys _, rfl⟩

/-- OrderSensitiveTransform -/
theorem ost_spec (order : List (SExpr × Bool)) (limit : Option Nat) (rows out : List Row)
    (hk : KeysOk order rows) (h : ostOp order limit rows = some out) : LimitSpec order limit rows out := by
  simp only [ostOp, mults_eq, keyExprs_eq] at h
  split at h
  · rename_i h0
    obtain ⟨t, ht⟩ := buildTree_full_exists order rows [] hk
    obtain ⟨full, hb, hs, hl, _⟩ := emit_buildTree_spec order none rows t ht
    refine ⟨full, hb, hl, hs, ?_⟩
    simp only [Option.some.injEq] at h
    simp [h0, ← h, applyLimit]
  · cases hbt : buildTree (mults order) limit (keyExprs order) [] rows with
    | none => simp [hbt] at h
    | some t =>
      simp only [hbt, Option.map_some, Option.some.injEq] at h
      obtain ⟨full, hb, hs, hl, he⟩ := emit_buildTree_spec order limit rows t hbt
      exact ⟨full, hb, hl, hs, by rw [← h, he]⟩

/-- the table printer -/
theorem printer_spec (order : List (SExpr × Bool)) (limit : Option Nat) (rows out : List Row)
    (h : printerOp order limit rows = some out) : LimitSpec order limit rows out := by
  simp only [printerOp, mults_eq, keyExprs_eq] at h
  cases hbt : buildTree (mults order) limit (keyExprs order) [] rows with
  | none => simp [hbt] at h
  | some t =>
    simp only [hbt, Option.map_some, Option.some.injEq] at h
    obtain ⟨full, hb, hs, hl, he⟩ := emit_buildTree_spec order limit rows t hbt
    exact ⟨full, hb, hl, hs, by rw [← h, he]⟩

/-- nested blocks and the eager sinks (csv, json, stream_native): the choice of `physical/nodes.go` /
    `cmd/root.go` meets the specification in each of its branches -/
theorem choice_eager (b : Block) (core out : List Row) (hk : KeysOk b.order core)
    (h : orderLimitEager b core = some out) : LimitSpec b.order b.limit core out := by
  simp only [orderLimitEager] at h
  split at h
  · exact ost_spec b.order b.limit core out hk h
  · rename_i he
    have he' : b.order = [] := by simpa using he
    rw [he']
    cases hl : b.limit with
    | none =>
      simp [hl] at h
      exact ⟨core, fun _ => rfl, rfl, sortedBy_no_keys _, by simp [applyLimit, h]⟩
    | some n =>
      simp only [hl] at h
      split at h
      · rename_i hn
        simp only [Option.some.injEq] at h
        exact ⟨core, fun _ => rfl, rfl, sortedBy_no_keys _, by simp [applyLimit, ← h, hn]⟩
      · simp only [Option.some.injEq] at h
        rw [← h]; exact limit_node n core

/-- the table sinks (batch_table, live_table): optional Limit node, then the printer -/
theorem choice_table (b : Block) (core out : List Row) (h : tableSink b core = some out) :
    LimitSpec b.order b.limit core out := by
  simp only [tableSink] at h
  cases hl : b.limit with
  | none => simp only [hl] at h; exact printer_spec b.order none core out h
  | some n =>
    simp only [hl] at h
    by_cases hord : b.order = []
    · simp only [hord, if_true] at h
      have hc' : (if n = 0 then [] else limitOp n core) = core.take n := by
        split
        · rename_i h0; simp [h0]
        · rfl
      rw [hc'] at h
      obtain ⟨full', hb, hlen, _, he⟩ := printer_spec [] (some n) (core.take n) out h
      rw [hord]
      refine ⟨full' ++ core.drop n, ?_, ?_, sortedBy_no_keys _, ?_⟩
      · intro r
        rw [countRow_append, hb r, ← countRow_append, List.take_append_drop]
      · rw [List.length_append, hlen, ← List.length_append, List.take_append_drop]
      · have hl' : full'.length ≤ n := by rw [hlen]; exact List.length_take_le n core
        rw [he]
        simp only [applyLimit]
        rw [List.take_append]
        by_cases hlt : core.length ≤ n
        · simp [List.drop_of_length_le hlt]
        · have : full'.length = n := by rw [hlen, List.length_take]; omega
          simp [this]
    · simp only [hord, if_false] at h
      exact printer_spec b.order (some n) core out h

/-- **C05**: for every n ≥ 0, in every output mode and at every nesting level, LIMIT n returns exactly
    `min n N` rows … -/
theorem C05_count (mode : Mode) (b : Block) (n : Nat) (core out : List Row) (hl : b.limit = some n)
    (hk : KeysOk b.order core)
    (h : (match mode with | .eager => orderLimitEager b core | .table => tableSink b core) = some out) :
    out.length = min n core.length := by
  cases mode with
  | eager => exact limitSpec_length b.order n core out (hl ▸ choice_eager b core out hk h)
  | table => exact limitSpec_length b.order n core out (hl ▸ choice_table b core out h)

/-- … and they are the first n of the sort order, duplicates counted individually. -/
theorem C05_first_n (mode : Mode) (b : Block) (core out : List Row) (hk : KeysOk b.order core)
    (h : (match mode with | .eager => orderLimitEager b core | .table => tableSink b core) = some out) :
    LimitSpec b.order b.limit core out := by
  cases mode with
  | eager => exact choice_eager b core out hk h
  | table => exact choice_table b core out h

/-! ### the code before the two repairs, refuted (kept for the violation search) -/

/-- `nodes.Limit` before `fix: LIMIT 0 …`: `i == limit` is tested after the first increment -/
def limitOpRaw (n : Nat) (rows : List Row) : List Row := if n = 0 then rows else rows.take n

theorem limit_zero_raw_refuted : ¬ (∀ rows, (limitOpRaw 0 rows).length = min 0 rows.length) := by
  intro h
  have := h [[.int 1]]
  simp [limitOpRaw] at this

/-- `produceOrderByItems` before the repair: the limit counted distinct items, each emitted `count` times -/
def emitRaw (limit : Option Nat) (t : List Item) : List Row :=
  match limit with
  | some n => flatten (t.take n)
  | none => flatten t

theorem order_limit_raw_refuted :
    (emitRaw (some 1) [⟨[.int 2], [.int 2], 2⟩, ⟨[.int 1], [.int 1], 1⟩]).length = 2 := by decide

/-! ### non-vacuity -/
example : (ostOp [(.col 0, true)] (some 1) [[.int 2], [.int 2], [.int 1]]).map List.length = some 1 := by decide
example : (tableSink { whr := none, proj := none, distinct := false, order := [], limit := some 0 } [[.int 2], [.int 1]]).map List.length = some 0 := by decide
example : (orderLimitEager { whr := none, proj := none, distinct := false, order := [], limit := some 0 } [[.int 2], [.int 1]]).map List.length = some 0 := by decide

end Octo.C05
