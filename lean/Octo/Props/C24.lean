import Octo.Model.CsvFile
import Octo.Model.JsonFile
import Octo.Lemmas.TyIsLaws
/-!
# C24 — File datasources produce values that match their inferred schema
-/
namespace Octo.C24
open Octo Octo.Files

/-- CSV: whatever the executing datasource produces for a cell matches the column type — for every row, also
    beyond the preview, for every column type and all library oracles. -/
theorem csv_cell_conforms (t : Ty) (c : Cell) (v : Value) (h : cellExec t c = some v) : conforms t v = true := by
  unfold cellExec at h
  split at h
  · split at h
    · next hn => cases h; exact Ty.is_sound hn .null (by simp [conforms])
    · cases h
  · split at h
    · next i hi =>
      cases h
      split at hi
      · next hn => exact Ty.is_sound hn _ (by simp [conforms])
      · cases hi
    · split at h
      · next b hb =>
        cases h
        split at hb
        · next hn => exact Ty.is_sound hn _ (by simp [conforms])
        · cases hb
      · split at h
        · next b hb =>
          cases h
          split at hb
          · next hn => exact Ty.is_sound hn _ (by simp [conforms])
          · cases hb
        · split at h
          · next b hb =>
            cases h
            split at hb
            · next hn => exact Ty.is_sound hn _ (by simp [conforms])
            · cases hb
          · split at h
            · next hn => cases h; exact Ty.is_sound hn _ (by simp [conforms])
            · cases h

end Octo.C24
