import Octo.Lemmas.FilesCsv
import Octo.Lemmas.FilesJson
import Octo.Lemmas.FilesJsonInfer
/-!
# C24 — File datasources produce values that match their inferred schema

Property: for every JSON-lines and CSV file, every value the datasource produces matches the type it reported for
that column: a number column holds numbers, a non-nullable column never holds NULL, a list column holds lists.
A row that cannot be represented in the inferred schema is reported as an error rather than silently converted.

Models: `Octo.Model.CsvFile` (inference cascade and widening rules of `datasources/csv/impl.go`, the executing
cascade of `execution.go`, `strconv.ParseInt` and `fastfloat.ParseInt64` exactly, `ParseBool` exactly; the float
and time parsers are oracles carried by every cell) and `Octo.Model.JsonFile` (`getOctoSQLType`, `TypeSum` over the
rows, `getOctoSQLValue`).  `conforms` is the type model's "value matches type" (`Octo.Model.TyAlgebra`).
All theorems hold for every column type (any nesting), every cell / JSON value and all library oracles.
-/
namespace Octo.C24
open Octo Octo.Files

/-! ## the cell parsers -/

/-- **The two integer parsers.**  `fastfloat.ParseInt64` (execution) and `strconv.ParseInt(·, 10, 64)` (inference)
    agree — value or error — on every string that does not start with a plus sign. -/
theorem int_parsers (s : List UInt8) : fastInt s = strconvInt s ∨ s.head? = some 43 :=
  fastInt_eq_strconvInt s

/-- … and on a plus sign they do differ: `+5` is 5 for inference and an error for the fast parser -/
theorem int_parsers_plus : strconvInt [43, 53] = some 5 ∧ fastInt [43, 53] = none := by decide

example : fastInt [45, 49, 50] = some (-12) ∧ strconvInt [45, 49, 50] = some (-12) := by decide

/-! ## CSV -/

/-- **CSV, every row.**  Whatever the executing datasource produces for a cell matches the column type — for rows
    beyond the preview too, for every column type and all library oracles. -/
theorem csv_cell_conforms (t : Ty) (c : Cell) (v : Value) (h : cellExec t c = some v) : conforms t v = true := by
  have nullc : conforms .null .null = true := by simp [conforms]
  unfold cellExec at h
  split at h
  · split at h
    · next hn => cases h; exact Ty.is_sound hn .null nullc
    · cases h
  · split at h
    · next i hi =>
      cases h
      split at hi
      · next hn => exact Ty.is_sound hn _ (by simp [conforms])
      · cases hi
    · split at h
      · next b hb =>
        cases h
        split at hb
        · next hn => exact Ty.is_sound hn _ (by simp [conforms])
        · cases hb
      · split at h
        · next b hb =>
          cases h
          split at hb
          · next hn => exact Ty.is_sound hn _ (by simp [conforms])
          · cases hb
        · split at h
          · next b hb =>
            cases h
            split at hb
            · next hn => exact Ty.is_sound hn _ (by simp [conforms])
            · cases hb
          · split at h
            · next hn => cases h; exact Ty.is_sound hn _ (by simp [conforms])
            · cases h

/-- **CSV, errors.**  The executing datasource reports an error for a cell exactly when no alternative of the
    column type accepts it (an empty cell in a non-nullable column; a text that no admitted parser reads in a
    column that does not admit String). -/
theorem csv_error_iff_unrepresentable (t : Ty) (c : Cell) : cellExec t c = none ↔ cellFits t c = false :=
  cellExec_none_iff t c

/-- whole file: every record of a successful run matches the reported schema, column by column -/
theorem csv_conforms (f : CsvFile) (names : List Name) (tys : List Ty) (recs : List (List Value))
    (h : csvRun f = .ok names tys recs) : ∀ r ∈ recs, ∀ p ∈ tys.zip r, conforms p.1 p.2 = true := by
  unfold csvRun at h
  split at h
  · cases h
  · cases h
  · next names' tys' hc =>
    split at h
    · cases h
    · split at h
      · next recs' hr =>
        cases h
        clear hc
        have rowOk : ∀ (ts : List Ty) (row : List Cell) (vs : List Value), rowExec cellExec ts row = some vs →
            ∀ p ∈ ts.zip vs, conforms p.1 p.2 = true := by
          intro ts
          induction ts with
          | nil => intro row vs _ p hp; simp at hp
          | cons t ts ih =>
            intro row vs hrow p hp
            cases row with
            | nil => simp [rowExec] at hrow; subst hrow; simp at hp
            | cons c cs =>
              simp only [rowExec] at hrow
              cases hc : cellExec t c with
              | none => simp [hc] at hrow
              | some v =>
                cases hrs : rowExec cellExec ts cs with
                | none => simp [hc, hrs] at hrow
                | some vs' =>
                  simp only [hc, hrs, Option.some.injEq] at hrow
                  subst hrow
                  simp only [List.zip_cons_cons, List.mem_cons] at hp
                  rcases hp with hp | hp
                  · subst hp; exact csv_cell_conforms t c v hc
                  · exact ih cs vs' hrs p hp
        generalize f.rows = rows at hr
        induction rows generalizing recs with
        | nil => simp [rowsExec] at hr; subst hr; simp
        | cons row rows ih =>
          simp only [rowsExec] at hr
          cases h1 : rowExec cellExec tys row with
          | none => simp [h1] at hr
          | some v =>
            cases h2 : rowsExec cellExec tys rows with
            | none => simp [h1, h2] at hr
            | some vs =>
              simp only [h1, h2, Option.some.injEq] at hr
              subst hr
              intro r hr'
              simp only [List.mem_cons] at hr'
              rcases hr' with hr' | hr'
              · subst hr'; exact rowOk tys row r h1
              · exact ih vs h2 r hr'
      · cases h

/-- **CSV, rows within the preview.**  A file with at most 100 (non-ragged) rows is read without an error: the
    inferred column type admits every cell the inference has seen.  Hypothesis on the float oracles: a text that
    `strconv.ParseInt` accepts is accepted by one of the float parsers (true of `strconv.ParseFloat`; needed because
    an Int column is widened to Float, not to Int|Float, by the first float). -/
theorem csv_preview_no_error (f : CsvFile) (hlen : f.rows.length ≤ previewRows)
    (hi : ∀ r ∈ f.rows, ∀ c ∈ r, c.intsAreFloats) (names : List Name) (tys : List Ty) :
    csvRun f ≠ .errRun names tys := by
  have htake : f.rows.take previewRows = f.rows := List.take_of_length_le hlen
  unfold csvRun csvCreate
  simp only [htake]
  by_cases hd : f.dupHeader = true
  · simp [hd]
  by_cases hr : (firstRagged f.ncols 0 f.rows).isSome = true
  · simp [hd, hr]
  · simp only [hd, hr, Bool.false_eq_true, if_false]
    split
    · simp
    · simp
    · next names' tys' hc =>
      split at hc
      · cases hc
      · next sts hs =>
        cases hc
        have hfit := inferRows_ok f.rows _ sts [] hs (by intro st hst t ht; simp at hst; rw [hst.2] at ht; cases ht)
          hi (by simp) (by simp)
        have := rowsExec_ok sts f.rows (fun r hr' => hfit r (Or.inr hr'))
        cases hx : rowsExec cellExec (sts.map finalTy) f.rows with
        | none => exact absurd hx this
        | some recs => simp

/-- the hypothesis of `csv_preview_no_error` is met by real cells, and the theorem's conclusion is not vacuous:
    a column of `1`, `+5`, `2.5`, `` is inferred `Null | Float` and read back as 1.0, 5.0, 2.5, NULL -/
def cInt1 : Cell := ⟨[49], some 0x3FF0000000000000, some 0x3FF0000000000000, none⟩
def cPlus5 : Cell := ⟨[43, 53], some 0x4014000000000000, none, none⟩
def cFloat : Cell := ⟨[50, 46, 53], some 0x4004000000000000, some 0x4004000000000000, none⟩
def cEmpty : Cell := ⟨[], none, none, none⟩
def demo : CsvFile := ⟨some [[97]], [[cInt1], [cPlus5], [cFloat], [cEmpty]]⟩
example : (match csvRun demo with
    | .ok _ tys recs => tys.length == 1 && recs.length == 4
    | _ => false) = true := by decide
example : cInt1.intsAreFloats ∧ cPlus5.intsAreFloats := by
  constructor <;> intro _ <;> simp [cInt1, cPlus5]

/-- the code before the repair: `+5` is inferred Int (strconv) but executed as the String "+5" (fastfloat) — a String
    in an Int column; a late `abc` and a late empty cell likewise -/
theorem csv_raw_refuted :
    conforms .int (cellExecRaw .int cPlus5) = false ∧
    conforms .int (cellExecRaw .int ⟨[97, 98, 99], none, none, none⟩) = false ∧
    conforms .int (cellExecRaw .int cEmpty) = false := by decide
/-- … the repaired code reads `+5` as 5 and reports the other two as errors -/
example : (cellExec .int cPlus5).map (fun v => match v with | .int 5 => true | _ => false) = some true ∧
    (cellExec .int ⟨[97, 98, 99], none, none, none⟩).isSome = false ∧ (cellExec .int cEmpty).isSome = false := by
  decide

/-! ## JSON -/

/-- **JSON, every row.**  A record the worker produces matches the schema field by field; nested lists, objects
    and unions included. -/
theorem json_record_conforms (schema : Fields) (row : J) (vals : List Value) (h : rowValues schema row = some vals) :
    zipAll (fun (f : Name × Ty) v => conforms f.2 v) schema vals = true := by
  unfold rowValues at h
  cases row with
  | obj ks vs =>
    simp only at h
    split at h
    · next hall =>
      cases h
      induction schema with
      | nil => simp [zipAll]
      | cons f fs ih =>
        simp only [List.map_cons, List.all_cons, Bool.and_eq_true] at hall
        simp only [List.map_cons, zipAll, Bool.and_eq_true]
        exact ⟨getValue_conforms f.2 _ hall.1, ih hall.2⟩
    · cases h
  | _ => simp at h

/-- **JSON, a single value**, any type, any JSON value (`none` = the field is missing) -/
theorem json_value_conforms (t : Ty) (oj : Option J) (h : (getValue t oj).2 = true) :
    conforms t (getValue t oj).1 = true := getValue_conforms t oj h

/-- **JSON, errors.**  A line is rejected exactly when some field cannot be represented in its column type;
    `getOctoSQLValue`'s `ok` is exactly "representable". -/
theorem json_error_iff_unrepresentable (schema : Fields) (ks : List Name) (vs : List J) :
    rowValues schema (.obj ks vs) = none ↔ ∃ f ∈ schema, fits f.2 ((J.obj ks vs).get f.1) = false := by
  unfold rowValues
  simp only [List.all_map, Function.comp_def, getValue_ok_iff_fits]
  split
  · next h =>
    simp only [List.all_eq_true] at h
    constructor
    · intro hn; cases hn
    · rintro ⟨f, hf, hfit⟩; rw [h f hf] at hfit; cases hfit
  · next h =>
    rw [Bool.not_eq_true] at h
    rw [List.all_eq_false] at h
    obtain ⟨f, hf, hfit⟩ := h
    exact ⟨fun _ => ⟨f, hf, by simpa using hfit⟩, fun _ => rfl⟩

theorem json_ok_iff_fits (t : Ty) (oj : Option J) : (getValue t oj).2 = fits t oj := getValue_ok_iff_fits t oj

/-- **JSON, `TypeSum`.**  The sum of two JSON-shaped types accepts — and has a place for every key of — every
    document value that either operand accepts.  This covers the merge of two object types with different key sets,
    which is *not* an upper bound with respect to `Is` (C10) but does accept both shapes of object. -/
theorem json_typesum_accepts (a b c : Ty) (ja : jok a = true) (jb : jok b = true) (h : Ty.typeSum a b = some c) :
    jok c = true ∧ (∀ oj, acc a oj = true → acc c oj = true) ∧ (∀ oj, acc b oj = true → acc c oj = true) :=
  acc_typeSum a b c ja jb h

/-- `getOctoSQLType` of a document value is a type that accepts the value -/
theorem json_type_accepts_value (j : J) (t : Ty) (hw : wfJ j = true) (h : j.getType = some t) :
    jok t = true ∧ acc t (some j) = true := getType_acc' j t hw h

/-- **JSON, rows within the preview.**  A file of at most 100 rows (objects with distinct keys) is read without an
    error: the inferred schema accepts every previewed row — nested objects with varying key sets, arrays of mixed
    elements, fields that appear or disappear from row to row included. -/
theorem json_preview_no_error (rows : List J) (hlen : rows.length ≤ jsonPreviewRows)
    (hw : ∀ r ∈ rows, wfJ r = true) (schema : Fields) : jsonRun rows ≠ .errRun schema := by
  unfold jsonRun
  cases hc : jsonCreate rows with
  | error => simp
  | fuel => simp
  | ok schema' =>
    simp only
    have hall := jsonCreate_accepts rows schema' hlen hw hc
    have : ∀ (l : List J), (∀ r ∈ l, (rowValues schema' r).isSome = true) → (allSome (l.map (rowValues schema'))).isSome = true := by
      intro l
      induction l with
      | nil => intro _; rfl
      | cons r rs ih =>
        intro h
        have h1 := h r (by simp)
        have h2 := ih (fun r' hr' => h r' (by simp [hr']))
        simp only [List.map_cons]
        cases hr : rowValues schema' r with
        | none => rw [hr] at h1; cases h1
        | some v =>
          simp only [allSome]
          cases hrs : allSome (rs.map (rowValues schema')) with
          | none => rw [hrs] at h2; cases h2
          | some vs => rfl
    have := this rows hall
    cases hx : allSome (rows.map (rowValues schema')) with
    | none => rw [hx] at this; cases this
    | some recs => simp

def demoRows : List J :=
  [.obj [[99]] [.obj [[120]] [.num 0x3FF0000000000000]],
   .obj [[99]] [.obj [[121]] [.null]],
   .obj [[99], [100]] [.str [115] none, .arr [.num 0, .null]],
   .obj [] []]
/-- non-vacuity: object types with different key sets, a union with a string, a late key, an empty row -/
example : (∀ r ∈ demoRows, wfJ r = true) ∧
    (match jsonRun demoRows with | .ok schema recs => schema.length == 2 && recs.length == 4 | _ => false) = true := by
  decide

/-- the code before the repair ignored `ok`: a String in a Float column silently became NULL -/
theorem json_raw_refuted :
    (rowValuesRaw [([97], .float)] (.obj [[97]] [.str [120] none])).map
      (fun vals => zipAll (fun (f : Name × Ty) v => conforms f.2 v) [([97], Ty.float)] vals) = some false := by decide
/-- … and a non-empty list in a column that had only seen `[]` crashed the process -/
theorem json_raw_emptylist_panics :
    (match getValueRaw .listNil (some (.arr [.num 0])) with | .panic => true | _ => false) = true := by decide
example : (rowValues [([97], .float)] (.obj [[97]] [.str [120] none])).isSome = false := by decide
example : (getValue .listNil (some (.arr [.num 0]))).2 = false := by decide

/-! ## The property -/

/-- the full-strength statement for a cell reader and a row converter -/
def Statement (exec : Ty → Cell → Option Value) (rowv : Fields → J → Option (List Value)) : Prop :=
  (∀ t c v, exec t c = some v → conforms t v = true) ∧
  (∀ t c, exec t c = none → cellFits t c = false) ∧
  (∀ schema row vals, rowv schema row = some vals → zipAll (fun (f : Name × Ty) v => conforms f.2 v) schema vals = true) ∧
  (∀ schema ks vs, rowv schema (.obj ks vs) = none → ∃ f ∈ schema, fits f.2 ((J.obj ks vs).get f.1) = false)

/-- **C24 on the current tree** -/
theorem C24_full : Statement cellExec rowValues :=
  ⟨csv_cell_conforms, fun t c h => (csv_error_iff_unrepresentable t c).mp h, json_record_conforms,
   fun schema ks vs h => (json_error_iff_unrepresentable schema ks vs).mp h⟩

/-- the tree before the repairs violated it -/
theorem C24_shipped_refuted : ¬ Statement (fun t c => some (cellExecRaw t c)) rowValuesRaw := by
  intro ⟨h1, _⟩
  have := h1 .int cPlus5 _ rfl
  rw [csv_raw_refuted.1] at this
  cases this

end Octo.C24
