import Octo.Model.JsonPipe
namespace Octo.C29
open Octo.JsonPipe
theorem placeholder : tokCap ≤ outCap := by decide
end Octo.C29
