import Octo.Lemmas.JsonPipeMeasure
/-!
# C29 — protocol-level part: the JSON datasource pipeline neither deadlocks nor runs for ever

The statements are about the transition system `Octo.JsonPipe` (`Octo/Model/JsonPipe.lean`), which mirrors the
channel operations of `datasources/json/execution.go` and `workers.go`; `Reachable s` quantifies over every number
of workers ≥ 1, every list of concurrently running datasources with arbitrary finite inputs, and EVERY schedule.
Data races (Go memory model) are outside this model — see notes/C29.md.
-/
namespace Octo.C29
open Octo.JsonPipe

theorem busyWith_pos {wk : Nat → Option Job} {n w : Nat} {j : Job} (hw : w < n) (h : wk w = some j) :
    0 < busyWith wk j.pipe n := by
  induction n with
  | zero => omega
  | succ n ih =>
    simp only [busyWith]
    by_cases hn : w = n
    · subst hn; simp [h, jobCnt]
    · have := ih (by omega); omega

/-- **Token invariant.** In every reachable state, for every running datasource: every job between the reader's
token acquisition and the consumer's token release, and every batch waiting in `outChan`, holds a token; there
are never more than `cap(outChanAvailableTokens)` tokens; and as long as the run is not cancelled there are no
other tokens. -/
theorem token_invariant {s : State} (h : Reachable s) {p : Nat} (hp : p < s.np) :
    inflight s p + (s.pipe p).out.length ≤ (s.pipe p).tokens ∧ (s.pipe p).tokens ≤ tokCap ∧
    ((s.pipe p).cancelled = false → (s.pipe p).tokens = inflight s p + (s.pipe p).out.length) :=
  ⟨(reachable_tokInv h).le p hp, (reachable_tokInv h).cap p hp, (reachable_tokInv h).eq p hp⟩

/-- `outChan` never holds more batches than there are tokens, hence never more than its capacity. -/
theorem outChan_bounded {s : State} (h : Reachable s) {p : Nat} (hp : p < s.np) : (s.pipe p).out.length ≤ outCap := by
  have := token_invariant h hp
  have := tokCap_le_outCap
  omega

/-- **A pool worker never blocks**: whenever a worker holds a parsed batch, its send
`job.outChan <- outJobs` is enabled — whatever the consumer of that datasource is doing (slow, suspended inside
`produce`, gone). This is why one datasource cannot wedge the global pool. -/
theorem worker_never_blocks {s : State} (h : Reachable s) {w : Nat} {j : Job} (hw : w < s.nw)
    (hj : s.worker w = some j) : (step s (.wSend w)).isSome = true := by
  have ht := reachable_tokInv h
  have hjp := ht.workersValid w j hj
  have h1 := ht.le j.pipe hjp
  have h2 := ht.cap j.pipe hjp
  have h3 := busyWith_pos hw hj
  have := tokCap_le_outCap
  simp only [inflight] at h1
  have hlen : (s.pipe j.pipe).out.length < outCap := by omega
  simp [step, hj, hw, hlen]

/-- The consumer's `<-outChanAvailableTokens` (outside any `select`) never blocks: after receiving a batch there
is a token to take. -/
theorem consumer_token_available {s : State} (h : Reachable s) {p : Nat} {j : Job} (hp : p < s.np)
    (hc : (s.pipe p).cpc = .tok j) : (step s (.cTok p)).isSome = true := by
  have h1 := (reachable_tokInv h).le p hp
  simp only [inflight, hc, ctokCnt] at h1
  have : 0 < (s.pipe p).tokens := by omega
  simp [step, hc, hp, this]

/-- With a single running datasource the reader's `parserWorkReceiveChannel <- job` (outside any `select`) never
blocks either: the job channel holds at most as many jobs as there are tokens. -/
theorem submit_never_blocks_single {s : State} (h : Reachable s) (h1 : s.np = 1)
    (hr : (s.pipe 0).rpc = .hold) : (step s (.rSub 0)).isSome = true := by
  have ht := reachable_tokInv h
  have hle := ht.le 0 (by omega)
  have hcap := ht.cap 0 (by omega)
  have hall : inJobs s.jobs 0 = s.jobs.length := by
    have : ∀ j, j ∈ s.jobs → j.pipe = 0 := fun j hj => by have := ht.jobsValid j hj; omega
    unfold inJobs
    rw [List.filter_eq_self.mpr]
    intro j hj; simp [this j hj]
  simp only [inflight, hr, holdCnt, if_true] at hle
  have := tokCap_le_jobCap
  have hlen : s.jobs.length < jobCap := by omega
  simp [step, hr, h1, hlen]

/-- **Variant.** Every action strictly decreases `measure`. -/
theorem every_step_decreases {s s' : State} {a : Action} (h : Reachable s) (hs : step s a = some s') :
    measure s' < measure s :=
  step_measure (reachable_tokInv h) (reachable_pinv h) hs

/-- **Termination.** From a reachable state no schedule — whatever the interleaving, with or without
cancellation, LIMIT or errors — is longer than `measure s`. -/
theorem schedules_are_finite {s t : State} {sched : List Action} (h : Reachable s) (hr : run s sched = some t) :
    sched.length + measure t ≤ measure s := by
  induction sched generalizing s with
  | nil => simp only [run, Option.some.injEq] at hr; subst hr; simp
  | cons a as ih =>
    simp only [run] at hr
    cases hsa : step s a with
    | none => simp [hsa] at hr
    | some s' =>
      simp only [hsa] at hr
      have := ih (reachable_step h hsa) hr
      have := every_step_decreases h hsa
      simp only [List.length_cons]; omega

end Octo.C29
