import Octo.Lemmas.JsonPipeProgress
import Octo.Model.JsonPipeSkeleton
import Octo.Lemmas.JoinProto
/-!
# C29 — protocol-level part: the JSON datasource pipeline neither deadlocks nor runs for ever

The statements are about the transition system `Octo.JsonPipe` (`Octo/Model/JsonPipe.lean`), which mirrors the
channel operations of `datasources/json/execution.go` and `workers.go`; `Reachable s` quantifies over every number
of workers ≥ 1, every list of concurrently running datasources with arbitrary finite inputs, and EVERY schedule.
Data races (Go memory model) are outside this model — see notes/C29.md.
-/
namespace Octo.C29
open Octo.JsonPipe

/-- **Tie to the source text (1).** The communication skeleton regenerated from the current
`datasources/json/execution.go` / `workers.go` is the one the model was written for. -/
theorem skeleton_matches :
    Octo.Gen.JsonPipe.runSkeleton = expectedRunSkeleton ∧ Octo.Gen.JsonPipe.workerSkeleton = expectedWorkerSkeleton :=
  ⟨rfl, rfl⟩

/-- the same for the goroutine / channel lines of `StreamJoin.Run` and `OuterJoin.Run` (`stream_join.go`,
`outer_join.go`): the producers send through the `select`-with-`ctx.Done()` helper, the node cancels that context
when it returns -/
theorem join_skeleton_matches :
    Octo.Gen.JsonPipe.streamJoinSkeleton = expectedJoinSkeleton ∧ Octo.Gen.JsonPipe.outerJoinSkeleton = expectedJoinSkeleton :=
  ⟨rfl, rfl⟩

/-- **Tie to the source text (2).** What the proofs need of the capacities found in the sources: there are at most
as many tokens as `outChan` has room (this is what makes `worker_never_blocks` true), the `done` channel has room
for the reader's single send, and the job channel has room for a single datasource's tokens. -/
theorem capacities_ok :
    tokCap ≤ outCap ∧ 0 < tokCap ∧ 0 < jobCap ∧ tokCap ≤ jobCap ∧ 1 ≤ Octo.Gen.JsonPipe.doneCap ∧
    1 ≤ Octo.Gen.JsonPipe.batchSize ∧ 1 ≤ Octo.Gen.JsonPipe.tailBatchSize ∧ 0 < JoinProto.cap := by decide

/-- **Token invariant.** In every reachable state, for every running datasource: every job between the reader's
token acquisition and the consumer's token release, and every batch waiting in `outChan`, holds a token; there
are never more than `cap(outChanAvailableTokens)` tokens; and as long as the run is not cancelled there are no
other tokens. -/
theorem token_invariant {s : State} (h : Reachable s) {p : Nat} (hp : p < s.np) :
    inflight s p + (s.pipe p).out.length ≤ (s.pipe p).tokens ∧ (s.pipe p).tokens ≤ tokCap ∧
    ((s.pipe p).cancelled = false → (s.pipe p).tokens = inflight s p + (s.pipe p).out.length) :=
  ⟨(reachable_tokInv h).le p hp, (reachable_tokInv h).cap p hp, (reachable_tokInv h).eq p hp⟩

/-- `outChan` never holds more batches than there are tokens, hence never more than its capacity. -/
theorem outChan_bounded {s : State} (h : Reachable s) {p : Nat} (hp : p < s.np) : (s.pipe p).out.length ≤ outCap := by
  have := token_invariant h hp
  have := tokCap_le_outCap
  omega

/-- **A pool worker never blocks**: whenever a worker holds a parsed batch, its send
`job.outChan <- outJobs` is enabled — whatever the consumer of that datasource is doing (slow, suspended inside
`produce`, gone). This is why one datasource cannot wedge the global pool. -/
theorem worker_never_blocks {s : State} (h : Reachable s) {w : Nat} {j : Job} (hw : w < s.nw)
    (hj : s.worker w = some j) : (step s (.wSend w)).isSome = true :=
  worker_send_enabled h hw hj

/-- The consumer's `<-outChanAvailableTokens` (outside any `select`) never blocks: after receiving a batch there
is a token to take. -/
theorem consumer_token_available {s : State} (h : Reachable s) {p : Nat} {j : Job} (hp : p < s.np)
    (hc : (s.pipe p).cpc = .tok j) : (step s (.cTok p)).isSome = true := by
  have h1 := (reachable_tokInv h).le p hp
  simp only [inflight, hc, ctokCnt] at h1
  have : 0 < (s.pipe p).tokens := by omega
  simp [step, hc, hp, this]

/-- With a single running datasource the reader's `parserWorkReceiveChannel <- job` (outside any `select`) never
blocks either: the job channel holds at most as many jobs as there are tokens. -/
theorem submit_never_blocks_single {s : State} (h : Reachable s) (h1 : s.np = 1)
    (hr : (s.pipe 0).rpc = .hold) : (step s (.rSub 0)).isSome = true := by
  have ht := reachable_tokInv h
  have hle := ht.le 0 (by omega)
  have hcap := ht.cap 0 (by omega)
  have hall : inJobs s.jobs 0 = s.jobs.length := by
    have : ∀ j, j ∈ s.jobs → j.pipe = 0 := fun j hj => by have := ht.jobsValid j hj; omega
    unfold inJobs
    rw [List.filter_eq_self.mpr]
    intro j hj; simp [this j hj]
  simp only [inflight, hr, holdCnt, if_true] at hle
  have := tokCap_le_jobCap
  have hlen : s.jobs.length < jobCap := by omega
  simp [step, hr, h1, hlen]

/-- **Variant.** Every action strictly decreases `measure`. -/
theorem every_step_decreases {s s' : State} {a : Action} (h : Reachable s) (hs : step s a = some s') :
    measure s' < measure s :=
  step_measure (reachable_tokInv h) (reachable_pinv h) hs

/-- **Termination.** From a reachable state no schedule — whatever the interleaving, with or without
cancellation, LIMIT or errors — is longer than `measure s`. -/
theorem schedules_are_finite {s t : State} {sched : List Action} (h : Reachable s) (hr : run s sched = some t) :
    sched.length + measure t ≤ measure s := by
  induction sched generalizing s with
  | nil => simp only [run, Option.some.injEq] at hr; subst hr; simp
  | cons a as ih =>
    simp only [run] at hr
    cases hsa : step s a with
    | none => simp [hsa] at hr
    | some s' =>
      simp only [hsa] at hr
      have := ih (reachable_step h hsa) hr
      have := every_step_decreases h hsa
      simp only [List.length_cons]; omega

/-- **No deadlock, and the pool cannot be wedged.** In every reachable state, a datasource that is not finished
(its `Run` has not returned, or its reader goroutine has not ended, or one of its jobs is still in the pool) can be
advanced by a pool worker or by its own reader / consumer. No other datasource's consumer is needed (it may be
suspended inside `produce` for ever), and neither is the environment (`pCancel`). -/
theorem pool_never_wedged {s : State} (h : Reachable s) {p : Nat} (hp : p < s.np) (hnf : ¬ s.pipeFinal p) :
    ∃ a, (a.isWorker = true ∨ a.ofPipe p = true) ∧ (step s a).isSome = true :=
  Octo.JsonPipe.pool_never_wedged h hp hnf

/-- **Deadlock freedom.** A reachable state in which no worker / reader / consumer action is enabled is final. -/
theorem deadlock_free {s : State} (h : Reachable s)
    (hstuck : ∀ a, (∃ p, a.isWorker = true ∨ a.ofPipe p = true) → step s a = none) : s.final := by
  intro p hp
  apply Classical.byContradiction
  intro hnf
  obtain ⟨a, ha, hen⟩ := pool_never_wedged h hp hnf
  rw [hstuck a ⟨p, ha⟩] at hen
  simp at hen

/-- **Every run ends, and ends well**: a schedule from a reachable state that cannot be extended by any worker /
reader / consumer action has ended in a final state — and by `schedules_are_finite` every schedule can be extended
only `measure s` times. -/
theorem maximal_run_is_final {s t : State} {sched : List Action} (h : Reachable s) (hr : run s sched = some t)
    (hmax : ∀ a, (∃ p, a.isWorker = true ∨ a.ofPipe p = true) → step t a = none) : t.final :=
  deadlock_free (reachable_run h hr) hmax

/-- the consumer's two reads of the shared variable `linesRead`: the check after a batch (evaluated only when
`fileReaderIsDone`), and the check in the `done` branch (after a nil error was received) -/
def ReadsLinesRead (s : State) (a : Action) (p : Nat) : Prop :=
  (a = .cProc p ∧ (s.pipe p).readerDone = true) ∨ (a = .cDone p ∧ (s.pipe p).done = some false)

/-- **`linesRead` is handed over through `done`.** Whenever the consumer reads `linesRead`, the reader goroutine
has already returned (it wrote `linesRead` for the last time before it sent on `done`), and no later state has the
reader running or a different value of `linesRead`: the variable is never written after, or concurrently with, a
read. -/
theorem linesRead_ordered {s s' : State} {a : Action} {p : Nat} (h : Reachable s) (hp : p < s.np)
    (hs : step s a = some s') (hr : ReadsLinesRead s a p) :
    (s.pipe p).rpc = .exit ∧
    ∀ sched t, run s' sched = some t → (t.pipe p).rpc = .exit ∧ (t.pipe p).linesRead = (s.pipe p).linesRead := by
  have hpi := reachable_pinv h p hp
  have hx : (s.pipe p).rpc = .exit := by
    rcases hr with ⟨_, h1⟩ | ⟨_, h1⟩
    · exact hpi.doneSent (Or.inr (hpi.rdNil h1))
    · exact hpi.doneSent (Or.inl (by simp [h1]))
  refine ⟨hx, fun sched t hrun => ?_⟩
  have : run s (a :: sched) = some t := by simp [run, hs, hrun]
  exact run_exit_stable this hx

/-- the batches in `outChan`, in the job channel and at the workers were all submitted by the reader of their
datasource, and a reader's batches are consecutive line ranges starting at line 0 -/
theorem batches_are_consecutive {s : State} (h : Reachable s) {p : Nat} (hp : p < s.np) :
    Chain 0 (s.pipe p).sub (subEnd (s.pipe p)) ∧ (∀ j, j ∈ (s.pipe p).out → j ∈ (s.pipe p).sub) :=
  ⟨(reachable_qinv h p hp).chain, (reachable_subInv h).out p⟩

/-! ## the protocol-level statement for the JSON pipeline -/

/-- What C29 says about the JSON pipeline, as far as it is a statement about the protocol: for every number of
workers, every set of concurrently running datasources over finite inputs (with malformed lines, scanner errors,
LIMIT / downstream errors, cancellation of the parent context at any moment) and every schedule:
no blocking operation outside a `select` ever blocks, nothing deadlocks, everything terminates, and the shared
variable `linesRead` is read only after its last write. -/
def JsonStatement : Prop :=
  ∀ s, Reachable s →
    (∀ w j, w < s.nw → s.worker w = some j → (step s (.wSend w)).isSome = true) ∧
    (∀ p j, p < s.np → (s.pipe p).cpc = .tok j → (step s (.cTok p)).isSome = true) ∧
    (∀ p, p < s.np → ¬ s.pipeFinal p → ∃ a, (a.isWorker = true ∨ a.ofPipe p = true) ∧ (step s a).isSome = true) ∧
    (∀ sched t, run s sched = some t → sched.length ≤ measure s) ∧
    (∀ a s' p, p < s.np → step s a = some s' → ReadsLinesRead s a p → (s.pipe p).rpc = .exit)

theorem json_pipeline_full : JsonStatement := by
  intro s h
  refine ⟨fun w j hw hj => worker_never_blocks h hw hj, fun p j hp hc => consumer_token_available h hp hc,
    fun p hp hnf => pool_never_wedged h hp hnf, fun sched t hr => ?_, fun a s' p hp hs hr => (linesRead_ordered h hp hs hr).1⟩
  have := schedules_are_finite h hr; omega

/-! ## non-vacuity: concrete reachable runs -/

/-- one datasource with 3 lines in batches of 2, two workers; the second batch overtakes the first -/
def exState : State := State.init 2 [Pipe.init 3 2 false [] none]
def exSched : List Action :=
  [.rTok 0, .rSub 0, .rWrite 0, .wTake 1 0, .rTok 0, .rSub 0, .rWrite 0, .rDone 0, .wTake 0 0,
   .wSend 0, .cRecv 0 0, .cTok 0, .cProc 0, .cDone 0, .wSend 1, .cRecv 0 0, .cTok 0, .cProc 0, .cCancel 0]

example : (run exState exSched).map (fun t => ((t.pipe 0).cpc, (t.pipe 0).rpc, (t.pipe 0).produced, (t.pipe 0).ret))
    = some (.exit, .exit, 3, .ok) := by decide

theorem exState_reachable : Reachable exState :=
  ⟨2, [Pipe.init 3 2 false [] none], [], by decide, fun P hP => by
    simp only [List.mem_singleton] at hP; subst hP; exact ⟨3, 2, false, [], none, by decide, rfl⟩, rfl⟩

/-- the hypotheses of the theorems are satisfiable by a state with a busy worker and a full pipeline stage -/
example : ∃ s, Reachable s ∧ s.worker 1 = some ⟨0, 0, 2⟩ ∧ (s.pipe 0).tokens = 2 ∧ ¬ s.pipeFinal 0 := by
  have hr : (run exState (exSched.take 8)).isSome = true := by decide
  cases hrun : run exState (exSched.take 8) with
  | none => rw [hrun] at hr; contradiction
  | some t =>
    refine ⟨t, reachable_run exState_reachable hrun, ?_, ?_, ?_⟩
    · have : (run exState (exSched.take 8)).map (fun t => t.worker 1) = some (some ⟨0, 0, 2⟩) := by decide
      rw [hrun] at this; simpa using this
    · have : (run exState (exSched.take 8)).map (fun t => (t.pipe 0).tokens) = some 2 := by decide
      rw [hrun] at this; simpa using this
    · have : (run exState (exSched.take 8)).map (fun t => (t.pipe 0).cpc) = some .sel := by decide
      rw [hrun] at this
      intro hf
      have h2 : (t.pipe 0).cpc = .sel := by simpa using this
      rw [hf.1] at h2; contradiction

/-- early stop: LIMIT 1 on the same input — the consumer returns, the reader takes its `ctx.Done` branch, the worker
drops or delivers; everything ends -/
example : (run (State.init 1 [Pipe.init 3 2 false [] (some 1)])
    [.rTok 0, .rSub 0, .rWrite 0, .wTake 0 0, .wSend 0, .cRecv 0 0, .cTok 0, .cProc 0, .cCancel 0, .rStop 0]).map
      (fun t => ((t.pipe 0).ret, (t.pipe 0).produced, decide (t.pipeFinal 0))) = some (.stop, 1, true) := by decide

/-! ## the goroutine protocol of StreamJoin / OuterJoin -/

section Join
open Octo.JoinProto

/-- **The join node never deadlocks**: whatever the two sources still have to send, however full the channels are,
as long as `Run` has not returned some goroutine (a producer or the node's receive loop) can move. -/
theorem join_node_never_deadlocks (s : JoinProto.State) (h : s.cpc ≠ .ret) : ∃ a, (JoinProto.step s a).isSome = true :=
  consumer_progress s h

/-- **Every schedule of a join over finite inputs is finite.** -/
theorem join_schedules_are_finite {s t : JoinProto.State} {sched : List JoinProto.Action}
    (hr : JoinProto.run s sched = some t) : sched.length ≤ JoinProto.measure s := by
  have := run_length hr; omega

/-- **No goroutine of the join is left behind** (current code): until the node has returned and both producer
goroutines have closed their channels, something can move — also after an early return (error, LIMIT), because
the producers' sends then take the `ctx.Done()` branch. -/
theorem join_goroutines_end (s : JoinProto.State) (hf : s.fixed = true) (hn : ¬ s.final) :
    ∃ a, (JoinProto.step s a).isSome = true := by
  by_cases hret : s.cpc = .ret
  · by_cases hl : s.l.closed = true
    · by_cases hr : s.r.closed = true
      · exact absurd ⟨hret, hl, hr⟩ hn
      · exact producer_progress_fixed s hf hret .R (by simpa [JoinProto.State.prod] using hr)
    · exact producer_progress_fixed s hf hret .L (by simpa [JoinProto.State.prod] using hl)
  · exact consumer_progress s hret

/-- the state in which the code before the fix is stuck for ever: the node has returned after `cap` messages of the
left source were queued, one more was sent, and the left source still has a message to send -/
def leakState : JoinProto.State := ⟨false, ⟨1, JoinProto.cap, false, false⟩, ⟨0, 0, true, false⟩, .ret⟩

/-- **The code before the `fix:` commit leaks a goroutine** (`// TODO: Fix goroutine leak.`): with a left source of
`cap + 2` messages and a consumer that returns at its first receive, a reachable state is stuck although the left
producer goroutine has not ended — it is blocked on `leftMessages <- msg` for ever. -/
theorem join_unfixed_leaks :
    JoinProto.Reachable leakState ∧ ¬ leakState.final ∧ ∀ a, JoinProto.step leakState a = none := by
  refine ⟨⟨false, JoinProto.cap + 2, 0,
    List.replicate JoinProto.cap (.pSend .L) ++ [.cRecv .L true, .pSend .L, .pClose .R], ?_⟩, by decide, ?_⟩
  · rw [JoinProto.run_append, run_sends _ JoinProto.cap (by decide) (by decide) rfl rfl]
    decide
  · intro a
    cases a with
    | pSend sd => cases sd <;> decide
    | pAbort sd => cases sd <;> decide
    | pClose sd => cases sd <;> decide
    | cRecv sd stop => cases sd <;> cases stop <;> decide
    | cSeeClosed sd => cases sd <;> decide

/-- what C29 says about a join's goroutines, for the code with (`fixed = true`) or without the fix -/
def JoinStatement (fixed : Bool) : Prop :=
  ∀ s : JoinProto.State, JoinProto.Reachable s → s.fixed = fixed →
    (s.cpc ≠ .ret → ∃ a, (JoinProto.step s a).isSome = true) ∧
    (¬ s.final → ∃ a, (JoinProto.step s a).isSome = true) ∧
    (∀ sched t, JoinProto.run s sched = some t → sched.length ≤ JoinProto.measure s)

theorem join_full : JoinStatement true := fun s _ hf =>
  ⟨join_node_never_deadlocks s, join_goroutines_end s hf, fun _ _ hr => join_schedules_are_finite hr⟩

/-- the statement fails for the code before the fix … -/
theorem join_unfixed_refuted : ¬ JoinStatement false := by
  intro h
  obtain ⟨hr, hnf, hstuck⟩ := join_unfixed_leaks
  obtain ⟨a, ha⟩ := (h leakState hr rfl).2.1 hnf
  rw [hstuck a] at ha
  simp at ha

/-- … while the node itself returned and every schedule was finite there too: the defect was a leak, not a hang of
the query -/
theorem join_unfixed_partial (s : JoinProto.State) :
    (s.cpc ≠ .ret → ∃ a, (JoinProto.step s a).isSome = true) ∧
    (∀ sched t, JoinProto.run s sched = some t → sched.length ≤ JoinProto.measure s) :=
  ⟨join_node_never_deadlocks s, fun _ _ hr => join_schedules_are_finite hr⟩

/-- non-vacuity: an early return with a long left input, then both producers give up and close -/
example : (JoinProto.run (JoinProto.State.init true 5 1)
    [.pSend .L, .pSend .R, .cRecv .L false, .pSend .L, .cRecv .R true, .pAbort .L, .pClose .L, .pClose .R]).map
      (fun t => decide t.final) = some true := by decide

end Join

/-! ## the statement -/

/-- **C29, protocol part.** The part of "query execution is free of data races and deadlocks" that is a statement
about protocols: the JSON pipeline (reader / worker pool / consumer; token, output, job and done channels; early
stops; cancellation) and the join's producer goroutines and receive loop neither deadlock nor run for ever nor leave
a goroutine blocked, under every schedule, and the one shared variable of the pipeline is handed over through a
channel. Data races proper (Go memory model) are NOT a statement about these models and are not claimed. -/
def Statement : Prop := JsonStatement ∧ JoinStatement true

theorem C29_full : Statement := ⟨json_pipeline_full, join_full⟩

end Octo.C29
