import Octo.Props.C19
/-!
# C02 (node level) — join nodes compute the SQL join under every interleaving

Property C02: for every inner JOIN and LEFT/RIGHT/FULL OUTER JOIN and every pair of inputs, the
output is the SQL join of the inputs; an equality condition never matches NULL keys; every unmatched
row of an outer side appears exactly once, padded with NULLs; whichever input finishes first.

This file is the execution-node half: `StreamJoin` / `OuterJoin` (the planner half — `JOIN … ON`
compiled to StreamJoin + Filter, equalities pushed into the join keys — is not modelled here).
The theorems are corollaries of C19's `final`, which holds for every schedule and needs no
assumption on event times; tables are the special case "no event times, no watermarks".
-/
namespace Octo.C02
open Octo Octo.Join Octo.C19

/-- inner join: for every pair of inputs and every interleaving the node's consolidated output is the
    SQL join (`joinRecs`: pairs whose key columns are pointwise equal and contain no NULL) -/
theorem streamJoin_is_sql_join (keysL keysR : List Nat) {ls rs : List Msg} {σ : List Ev} {out : List Msg}
    (hI : Interleave ls rs σ) (hrun : run (cfgInner keysL keysR) σ = .ok out) :
    SameNet (recs out) (joinRecs (cfgInner keysL keysR) (recs ls) (recs rs)) :=
  streamJoin_final keysL keysR hI hrun

/-- LEFT / RIGHT / FULL OUTER join: the consolidated output is the inner join plus every record of an
    outer side that has no partner, NULL-padded, with its own multiplicity (`outerRecs`) -/
theorem outerJoin_is_sql_outer_join (oL oR : Bool) (nL nR : Nat) (keysL keysR : List Nat)
    {ls rs : List Msg} {σ : List Ev} {out : List Msg}
    (hwL : ∀ x ∈ recs ls, x.vals.length = nL) (hwR : ∀ x ∈ recs rs, x.vals.length = nR)
    (hI : Interleave ls rs σ) (hrun : run (cfgOuter oL oR nL nR keysL keysR) σ = .ok out) :
    SameNet (recs out) (outerRecs (cfgOuter oL oR nL nR keysL keysR) (recs ls) (recs rs)) :=
  outerJoin_final oL oR nL nR keysL keysR hwL hwR hI hrun

/-- the specification never pairs a record whose key contains NULL (left side) … -/
theorem null_key_never_matches_left (cfg : Cfg) (l r : Rec) {k : Row} (hk : keyOf cfg.keysL l.vals = some k)
    (hn : hasNull k = true) : sqlMatch cfg l r = false := by
  unfold sqlMatch; rw [hk]; cases keyOf cfg.keysR r.vals <;> simp [hn]

/-- … nor one on the right side -/
theorem null_key_never_matches_right (cfg : Cfg) (l r : Rec) {k : Row} (hk : keyOf cfg.keysR r.vals = some k)
    (hn : hasNull k = true) : sqlMatch cfg l r = false := by
  unfold sqlMatch; rw [hk]
  cases hkl : keyOf cfg.keysL l.vals with
  | none => rfl
  | some kl =>
    simp only
    cases hnl : hasNull kl with
    | true => simp
    | false =>
      cases hre : rowEq kl k with
      | false => simp
      | true => have := hasNull_congr (rowEq_iff.mp hre); rw [hn, hnl] at this; cases this

theorem joinRecs_no_match (cfg : Cfg) (L R : List Rec) (h : ∀ l ∈ L, ∀ r ∈ R, sqlMatch cfg l r = false) :
    joinRecs cfg L R = [] := by
  unfold joinRecs
  induction L with
  | nil => rfl
  | cons l L ih =>
    rw [List.flatMap_cons, ih (fun l' hl' => h l' (by simp [hl']))]
    have : R.filter (fun r => sqlMatch cfg l r) = [] := by
      apply List.filter_eq_nil_iff.mpr
      intro r hr; simp [h l (by simp) r hr]
    rw [this]; rfl

/-- an inner join in which every left key contains a NULL produces nothing (consolidated), under every schedule -/
theorem inner_null_keys_no_rows (keysL keysR : List Nat) {ls rs : List Msg} {σ : List Ev} {out : List Msg}
    (hnull : ∀ l ∈ recs ls, ∃ k, keyOf keysL l.vals = some k ∧ hasNull k = true)
    (hI : Interleave ls rs σ) (hrun : run (cfgInner keysL keysR) σ = .ok out) :
    ∀ row, net (recs out) row = 0 := by
  intro row
  rw [streamJoin_final keysL keysR hI hrun row, joinRecs_no_match]
  · rfl
  · intro l hl r _
    obtain ⟨k, hk, hn⟩ := hnull l hl
    exact null_key_never_matches_left (cfgInner keysL keysR) l r hk hn

/-- a LEFT JOIN against an empty right input: every left record appears exactly once, NULL-padded -/
theorem left_join_empty_right (nL nR : Nat) (keysL keysR : List Nat) {ls : List Msg} {σ : List Ev} {out : List Msg}
    (hwL : ∀ x ∈ recs ls, x.vals.length = nL)
    (hI : Interleave ls [] σ) (hrun : run (cfgOuter true false nL nR keysL keysR) σ = .ok out) :
    SameNet (recs out) ((recs ls).map fun l => { l with vals := l.vals ++ nulls nR }) := by
  intro row
  rw [outerJoin_final true false nL nR keysL keysR hwL (by simp [recs]) hI hrun row]
  have h1 : joinRecs (cfgOuter true false nL nR keysL keysR) (recs ls) (recs []) = [] :=
    joinRecs_no_match _ _ _ (by intro l _ r hr; simp [recs] at hr)
  have h2 : padLeftRecs (cfgOuter true false nL nR keysL keysR) (recs ls) (recs []) =
      (recs ls).map fun l => { l with vals := l.vals ++ nulls nR } := by
    unfold padLeftRecs
    rw [List.filter_eq_self.mpr]
    · rfl
    · intro l _; simp [partnersL, recs]
  unfold outerRecs
  rw [h1, h2]
  simp [cfgOuter]

/-! non-vacuity: a FULL OUTER JOIN run in which a padded row is emitted, retracted on the first match and
    re-emitted after the last retraction -/
def l1 (retr : Bool) : Rec := { vals := [.int 1], retr := retr, et := none }
def r1 : Rec := { vals := [.int 1], retr := false, et := none }
def r2 : Rec := { vals := [.int 2], retr := false, et := none }
example : run (cfgOuter true true 1 1 [0] [0])
    [evL (some (.data (l1 false))), evR (some (.data r1)), evL (some (.data (l1 true))), evR (some (.data r2)), evL none, evR none] =
    .ok [.data { vals := [.int 1, .null], retr := false, et := none },
         .data { vals := [.int 1, .null], retr := true, et := none },
         .data { vals := [.int 1, .int 1], retr := false, et := none },
         .data { vals := [.int 1, .int 1], retr := true, et := none },
         .data { vals := [.null, .int 1], retr := false, et := none },
         .data { vals := [.null, .int 2], retr := false, et := none }] := by rfl

end Octo.C02
