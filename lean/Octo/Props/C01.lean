import Octo.Lemmas.SqlTree3
/-!
# C01 — Single-source SELECT results match relational semantics

`Octo.Sql.denote mode q t` is the model of what the engine does with a (possibly nested) single-source
SELECT on a batch table `t` in output mode `mode` (tied to the real binary by the C01 correspondence:
exact printed row sequence in all five output modes). `Octo.Sql.QueryResult q t out` is the relational
specification ("filter, project, one representative per class of equal rows, a key-sorted
rearrangement, its first n rows").  The theorems say: whatever the engine returns is an allowed result,
for every query of the fragment and every table — any number of rows, any nesting depth.
-/
namespace Octo.C01
open Octo Octo.Sql

/-- the ORDER BY keys evaluate on every row they are applied to (true of well-typed queries: keys are
    columns and total arithmetic); only needed to exhibit the sorted rearrangement when `LIMIT 0` makes the
    engine skip the sort altogether -/
def KeysOk (order : List (SExpr × Bool)) (core : List Row) : Prop :=
  ∀ r ∈ core, (evalAll r (keyExprs order)).isSome

theorem sameBag_refl (a : List Row) : SameBag a a := fun _ => rfl

theorem sortedBy_no_keys (l : List Row) : SortedBy [] l := by
  induction l with
  | nil => trivial
  | cons r rs ih =>
    refine ⟨?_, ih⟩
    intro x _ ka kb h1 h2
    simp [keyExprs, evalAll] at h1 h2
    subst h1; subst h2
    simp [mults, keyCmp]

/-- WHERE / SELECT list / DISTINCT as executed = as specified -/
theorem blockCore_spec (b : Block) (inp core : List Row) (h : blockCore b inp = some core) :
    (if b.distinct then IsDistinctOf core (specMap b.proj (specFilter b.whr inp))
     else core = specMap b.proj (specFilter b.whr inp)) := by
  simp only [blockCore] at h
  cases h1 : whereStep b.whr inp with
  | none => simp [h1] at h
  | some r1 =>
    have e1 : r1 = specFilter b.whr inp := by
      cases hw : b.whr with
      | none => simp [whereStep, hw] at h1; simp [specFilter, h1]
      | some p => simp only [whereStep, hw] at h1; exact filterOp_spec p inp r1 h1
    simp only [h1] at h
    cases h2 : projStep b.proj r1 with
    | none => simp [h2] at h
    | some r2 =>
      have e2 : r2 = specMap b.proj r1 := by
        cases hp : b.proj with
        | none => simp [projStep, hp] at h2; simp [specMap, h2]
        | some es => simp only [projStep, hp] at h2; exact mapOp_spec es r1 r2 h2
      simp only [h2, Option.some.injEq] at h
      subst e1; subst e2
      split
      · rename_i hd; simp only [hd, if_true] at h; subst h; exact distinctOp_isDistinct _
      · rename_i hd; simp only [hd] at h; simpa using h.symm

/-- ORDER BY / LIMIT of nested blocks and of the eager sinks (csv, json, stream_native) -/
theorem orderLimitEager_spec (b : Block) (core out : List Row) (hk : KeysOk b.order core)
    (h : orderLimitEager b core = some out) :
    ∃ full, SameBag full core ∧ SortedBy b.order full ∧
      out = applyLimit b.limit full := by
  simp only [orderLimitEager] at h
  split at h
  · -- OrderSensitiveTransform
    rename_i hne
    simp only [ostOp, mults_eq, keyExprs_eq] at h
    split at h
    · -- LIMIT 0: nothing is read; a sorted rearrangement exists because the keys evaluate
      rename_i h0
      obtain ⟨t, ht⟩ := buildTree_full_exists b.order core [] hk
      obtain ⟨full, hb, hs, _, _⟩ := emit_buildTree_spec b.order none core t ht
      refine ⟨full, hb, hs, ?_⟩
      simp only [Option.some.injEq] at h
      simp [h0, ← h, applyLimit]
    · cases hbt : buildTree (mults b.order) b.limit (keyExprs b.order) [] core with
      | none => simp [hbt] at h
      | some t =>
        simp only [hbt, Option.map_some, Option.some.injEq] at h
        obtain ⟨full, hb, hs, _, he⟩ := emit_buildTree_spec b.order b.limit core t hbt
        exact ⟨full, hb, hs, by rw [← h, he]⟩
  · -- no ORDER BY: the Limit node, or nothing
    rename_i he
    have he' : b.order = [] := by simpa using he
    refine ⟨core, sameBag_refl _, by rw [he']; exact sortedBy_no_keys _, ?_⟩
    cases hl : b.limit with
    | none => simp [hl] at h; simp [h, applyLimit]
    | some n =>
      simp only [hl] at h
      split at h
      · rename_i hn; simp only [Option.some.injEq] at h; simp [← h, hn, applyLimit]
      · simp only [Option.some.injEq, limitOp] at h; simp [← h, applyLimit]

theorem block_eager_sound (b : Block) (inp core out : List Row)
    (hc : blockCore b inp = some core) (hk : KeysOk b.order core)
    (ho : orderLimitEager b core = some out) : BlockResult b inp out := by
  obtain ⟨full, h1, h2, h3⟩ := orderLimitEager_spec b core out hk ho
  exact ⟨core, full, blockCore_spec b inp core hc, h1, h2, h3⟩

/-- the table sinks (batch_table, live_table): optional Limit node, then the sorting and limiting printer -/
theorem block_table_sound (b : Block) (inp core out : List Row)
    (hc : blockCore b inp = some core)
    (ho : tableSink b core = some out) : BlockResult b inp out := by
  refine ⟨core, ?_⟩
  have hcore := blockCore_spec b inp core hc
  simp only [tableSink, printerOp, mults_eq, keyExprs_eq] at ho
  cases hl : b.limit with
  | none =>
    simp only [hl] at ho
    cases hbt : buildTree (mults b.order) none (keyExprs b.order) [] core with
    | none => simp [hbt] at ho
    | some t =>
      simp only [hbt, Option.map_some, Option.some.injEq] at ho
      obtain ⟨full, hb, hs, _, he⟩ := emit_buildTree_spec b.order none core t hbt
      exact ⟨full, hcore, hb, hs, by rw [← ho, he]⟩
  | some n =>
    simp only [hl] at ho
    by_cases hord : b.order = []
    · -- Limit node first, then the printer sorts those rows by value
      simp only [hord, if_true] at ho
      have hc' : (if n = 0 then [] else limitOp n core) = core.take n := by
        split
        · rename_i h0; simp [h0]
        · rfl
      rw [hc'] at ho
      cases hbt : buildTree (mults []) (some n) (keyExprs []) [] (core.take n) with
      | none => simp [hbt] at ho
      | some t =>
        simp only [hbt, Option.map_some, Option.some.injEq] at ho
        obtain ⟨full', hb, _, hlen, he⟩ := emit_buildTree_spec [] (some n) (core.take n) t hbt
        refine ⟨full' ++ core.drop n, hcore, ?_, by rw [hord]; exact sortedBy_no_keys _, ?_⟩
        · intro r
          rw [countRow_append, hb r, ← countRow_append, List.take_append_drop]
        · have hl' : full'.length ≤ n := by rw [hlen]; exact List.length_take_le n core
          rw [← ho, he]
          simp only [applyLimit]
          rw [List.take_append]
          by_cases hlt : core.length ≤ n
          · simp [List.drop_of_length_le hlt]
          · have : full'.length = n := by rw [hlen, List.length_take]; omega
            simp [this]
    · simp only [hord, if_false] at ho
      cases hbt : buildTree (mults b.order) (some n) (keyExprs b.order) [] core with
      | none => simp [hbt] at ho
      | some t =>
        simp only [hbt, Option.map_some, Option.some.injEq] at ho
        obtain ⟨full, hb, hs, _, he⟩ := emit_buildTree_spec b.order (some n) core t hbt
        exact ⟨full, hcore, hb, hs, by rw [← ho, he]⟩

/-- the ORDER BY keys of every block evaluate on the rows they meet -/
def KeysTotal : Query → List Row → Prop
  | .table, _ => True
  | .sel src b, t => KeysTotal src t ∧
      ∀ mid core, denoteNested src t = some mid → blockCore b mid = some core → KeysOk b.order core

/-- nested queries (subqueries in FROM) -/
theorem denoteNested_sound (q : Query) (t out : List Row) (hk : KeysTotal q t)
    (h : denoteNested q t = some out) : QueryResult q t out := by
  induction q generalizing out with
  | table => simp [denoteNested] at h; simp [QueryResult, h]
  | sel src b ih =>
    simp only [denoteNested] at h
    cases h1 : denoteNested src t with
    | none => simp [h1] at h
    | some mid =>
      simp only [h1] at h
      cases h2 : blockCore b mid with
      | none => simp [h2] at h
      | some core =>
        simp only [h2] at h
        exact ⟨mid, ih mid hk.1 h1, block_eager_sound b mid core out h2 (hk.2 mid core h1 h2) h⟩

/-- **C01**: in every output mode, the rows a SELECT query prints are an allowed result of the query:
    they match as a multiset, and in order when ORDER BY is given (`QueryResult`). -/
theorem C01_denote_sound (mode : Mode) (src : Query) (b : Block) (t out : List Row)
    (hk : KeysTotal (.sel src b) t)
    (h : denote mode (.sel src b) t = some out) : QueryResult (.sel src b) t out := by
  simp only [denote] at h
  cases h1 : denoteNested src t with
  | none => simp [h1] at h
  | some mid =>
    simp only [h1] at h
    cases h2 : blockCore b mid with
    | none => simp [h2] at h
    | some core =>
      simp only [h2] at h
      refine ⟨mid, denoteNested_sound src t mid hk.1 h1, ?_⟩
      cases mode with
      | eager => exact block_eager_sound b mid core out h2 (hk.2 mid core h1 h2) h
      | table => exact block_table_sound b mid core out h2 h

/-! ### what `QueryResult` buys: corollaries in plain words -/

/-- without DISTINCT / LIMIT the output is, as a multiset, exactly the filtered and projected input -/
theorem result_bag (b : Block) (inp out : List Row) (hd : b.distinct = false) (hl : b.limit = none)
    (h : BlockResult b inp out) : SameBag out (specMap b.proj (specFilter b.whr inp)) := by
  obtain ⟨core, full, h1, h2, _, h4⟩ := h
  simp only [hd, hl, applyLimit] at h1 h4
  simp at h1
  subst h1; subst h4
  exact h2

/-- with ORDER BY the output is sorted by the keys -/
theorem result_sorted (b : Block) (inp out : List Row) (hl : b.limit = none)
    (h : BlockResult b inp out) : SortedBy b.order out := by
  obtain ⟨core, full, _, _, h3, h4⟩ := h
  simp only [hl, applyLimit] at h4
  subst h4; exact h3

/-! ### non-vacuity: concrete queries, evaluated in the kernel -/

def tbl : List Row := [[.int 2, .str [120]], [.null, .str [121]], [.int 2, .str [120]], [.int 1, .str [122]]]
/-- `SELECT DISTINCT c0 + 1, c1 FROM t WHERE c0 IS NOT NULL ORDER BY 1 DESC LIMIT 1` -/
def q1 : Query := .sel .table
  { whr := some (.isNotNull (.col 0)), proj := some [.bin .add (.col 0) (.lit (.int 1)), .col 1],
    distinct := true, order := [(.col 0, true)], limit := some 1 }

def isSingle (r : Row) : Option (List Row) → Bool
  | some [x] => rowEq x r
  | _ => false

example : isSingle [.int 3, .str [120]] (denote .eager q1 tbl) = true := by decide
example : isSingle [.int 3, .str [120]] (denote .table q1 tbl) = true := by decide

end Octo.C01
