import Octo.Spec.SqlSem
/-!
# C01 — Single-source SELECT results match relational semantics
(theorems are added below as they are proved)
-/
namespace Octo.C01
open Octo Octo.Sql

/-- LIMIT through the Limit node returns exactly `min n N` rows, the first ones -/
theorem limitOp_length (n : Nat) (rows : List Row) : (limitOp n rows).length = min n rows.length := by
  simp [limitOp]

end Octo.C01
