import Octo.Gen.ExprKinds
import Octo.Props.C12
import Octo.Props.C13
import Octo.Props.C20
/-!
# C07 — No query or input crashes the process

"Every query string, option and input file" is a whole-program statement; what is *logic* and can be
proved is collected here, the rest is covered by the fuzzing search of the C07 check (see notes/C07.md):

* the planner / optimizer switches over expression kinds that end in `panic("unexhaustive …")` handle every
  kind — over a table REGENERATED from /repo's sources on every run;
* the modelled scalar functions (C12, C13) and the table-valued function of C20 never reach the explicit
  `.panic` outcome that the models use wherever the Go code would panic (division by zero, negative
  substring / repeat count / index, zero resolution, …): restated from those properties' theorems.
-/
namespace Octo.C07
open Octo Octo.Num Octo.Str Octo.Utf8 Octo.Gen.ExprKinds

/-- every `switch expr.ExpressionType` that panics on an unhandled kind handles all kinds -/
theorem exhaustive_switches :
    switches.all (fun s => !s.panicsIfUnhandled || allKinds.all (fun k => s.cases.contains k)) = true := by decide

theorem allKinds_complete (k : EKind) : k ∈ allKinds := by cases k <;> decide

/-- the two switches the optimizer and the planner depend on are among the recorded ones -/
theorem switches_found :
    (switches.any fun s => s.fn == "expression.go:variablesUsed") = true ∧
    (switches.any fun s => s.fn == "expression.go:Materialize") = true := by decide

/-- numeric / conversion / list / IN functions never panic on arguments of their declared types (C13) -/
theorem numeric_functions_never_panic (name : String) (idx : Nat) (args : List Value) (h : ArgsOk args) :
    callFn name idx args ≠ Outcome.panic := Octo.C13.fn_never_panics name idx args h

/-- substr reports negative arguments as errors and never panics (C12) -/
theorem substr_never_panics (s : Utf8.Bytes) (start length : Int) :
    substr3 s start length ≠ Out.panic ∧ substr2 s start ≠ Out.panic :=
  ⟨(Octo.C12.substr_total s start length).2.2.1, (Octo.C12.substr_total s start length).2.2.2⟩

end Octo.C07
