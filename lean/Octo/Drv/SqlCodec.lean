import Octo.Drv.Codec
import Octo.Spec.SqlSem
/-!
  Line protocol for the CLI-level properties (C01, C03–C07):
    sel <mode> <opt> <fmt> <kinds> T <ncols> <nrows> <v>… Q <query> SQL <hex>      (kinds: one of i f b s per output column)
  query  := tbl | sel <query> <whr> <proj> <distinct> <order> <limit>
  whr    := - | <expr>            proj := * | P<k> <expr>…        distinct := D0 | D1
  order  := O<k> (<expr> asc|desc)…                                 limit := - | L<n>
  expr   := c<i> | v <value> | (+|-|*|=|!=|<|<=|>|>=|and|or) <expr> <expr> | (not|isnull|notnull) <expr>
  output := rows <n> | <cell>… | <cell>…      or   err   or   panic   or   exit:<k>
  cell   := n | b0 | b1 | #<number text as octosql prints it> | s<hex>
-/
namespace Octo.Drv.SqlCodec
open Octo Octo.Codec Octo.Sql

partial def parseExpr : List String → Option (SExpr × List String)
  | [] => none
  | tok :: rest =>
    let bin (f : SExpr → SExpr → SExpr) : Option (SExpr × List String) := do
      let (a, r) ← parseExpr rest
      let (b, r) ← parseExpr r
      pure (f a b, r)
    let un (f : SExpr → SExpr) : Option (SExpr × List String) := do
      let (a, r) ← parseExpr rest
      pure (f a, r)
    if tok == "v" then (parseValue rest).map fun (v, r) => (.lit v, r)
    else if tok == "+" then bin (.bin .add) else if tok == "-" then bin (.bin .sub)
    else if tok == "*" then bin (.bin .mul) else if tok == "=" then bin (.bin .eq)
    else if tok == "!=" then bin (.bin .ne) else if tok == "<" then bin (.bin .lt)
    else if tok == "<=" then bin (.bin .le) else if tok == ">" then bin (.bin .gt)
    else if tok == ">=" then bin (.bin .ge) else if tok == "and" then bin .and
    else if tok == "or" then bin .or else if tok == "not" then un .not
    else if tok == "isnull" then un .isNull else if tok == "notnull" then un .isNotNull
    else if tok.startsWith "c" then (tok.drop 1).toString.toNat?.map fun i => (.col i, rest)
    else none

partial def parseExprs : Nat → List String → Option (List SExpr × List String)
  | 0, r => some ([], r)
  | k + 1, r => do
    let (e, r) ← parseExpr r
    let (es, r) ← parseExprs k r
    pure (e :: es, r)

partial def parseOrder : Nat → List String → Option (List (SExpr × Bool) × List String)
  | 0, r => some ([], r)
  | k + 1, r => do
    let (e, r) ← parseExpr r
    match r with
    | d :: r =>
      let (es, r) ← parseOrder k r
      pure ((e, d == "desc") :: es, r)
    | [] => none

partial def parseQuery : List String → Option (Query × List String)
  | "tbl" :: rest => some (.table, rest)
  | "sel" :: rest => do
    let (src, r) ← parseQuery rest
    let (whr, r) ← match r with
      | "-" :: r => some (none, r)
      | _ => (parseExpr r).map fun (e, r) => (some e, r)
    let (proj, r) ← match r with
      | "*" :: r => some (none, r)
      | p :: r => if p.startsWith "P" then (parseExprs (p.drop 1).toString.toNat! r).map fun (es, r) => (some es, r) else none
      | [] => none
    let (dist, r) ← match r with
      | "D1" :: r => some (true, r)
      | "D0" :: r => some (false, r)
      | _ => none
    let (ord, r) ← match r with
      | o :: r => if o.startsWith "O" then parseOrder (o.drop 1).toString.toNat! r else none
      | [] => none
    let (lim, r) ← match r with
      | "-" :: r => some (none, r)
      | l :: r => if l.startsWith "L" then some ((l.drop 1).toString.toNat?, r) else none
      | [] => none
    pure (.sel src { whr := whr, proj := proj, distinct := dist, order := ord, limit := lim }, r)
  | _ => none

def parseTable : List String → Option (List Row × List String)
  | "T" :: nc :: nr :: rest => do
    let ncols := nc.toNat!
    let rec go : Nat → List String → Option (List Row × List String)
      | 0, r => some ([], r)
      | k + 1, r => do
        let (row, r) ← parseValues ncols r
        let (rows, r) ← go k r
        pure (row :: rows, r)
    go nr.toNat! rest
  | _ => none

structure SelOp where
  mode : String
  opt : Bool
  fmt : String
  table : List Row
  query : Query

def parseSel : List String → Option SelOp
  | "sel" :: mode :: opt :: fmt :: _kinds :: rest => do
    let (t, r) ← parseTable rest
    match r with
    | "Q" :: r =>
      let (q, _) ← parseQuery r
      pure { mode := mode, opt := opt == "1", fmt := fmt, table := t, query := q }
    | _ => none
  | _ => none

def modeOf (m : String) : Mode := if m == "batch_table" || m == "live_table" then .table else .eager

/-! #### rendering of numbers the way octosql prints them (ints; floats that are multiples of 1/4 below 2^40) -/

/-- the value of a finite float times 4, when that is an integer -/
def floatQuarters (bits : Nat) : Option Int :=
  let sign : Nat := bits / 2^63
  let e : Nat := (bits / 2^52) % 2048
  let m : Nat := bits % 2^52
  if e == 2047 then none
  else
    let (mant, ex) : Nat × Int := if e == 0 then (m, (-1074 : Int)) else (m + 2^52, Int.ofNat e - 1075)
    -- value = mant * 2^ex ; times 4 = mant * 2^(ex+2)
    let sh := ex + 2
    let q : Option Nat :=
      if sh ≥ 0 then some (mant * 2 ^ sh.toNat)
      else
        let d := 2 ^ (-sh).toNat
        if mant % d == 0 then some (mant / d) else none
    q.map fun q => if sign == 1 then -(q : Int) else (q : Int)

def renderFloat (bits : Nat) : String :=
  match floatQuarters bits with
  | none => "f" ++ hex16 bits
  | some q =>
    let neg := bits ≥ 2^63
    let a := q.natAbs
    let ip := a / 4
    let frac := match a % 4 with | 0 => "" | 1 => ".25" | 2 => ".5" | _ => ".75"
    (if neg then "-" else "") ++ toString ip ++ frac

def renderCell : Value → String
  | .null => "n"
  | .bool b => if b then "b1" else "b0"
  | .int i => s!"#{i}"
  | .float b => "#" ++ renderFloat b
  | .str s => "s" ++ hexOfBytes s
  | v => "?" ++ encodeValue v

def renderRow (r : Row) : String := String.intercalate " " (r.map renderCell)

def renderRows (rows : List Row) : String :=
  String.intercalate " | " (s!"rows {rows.length}" :: rows.map renderRow)

/-- split the implementation's `rows n | … | …` line into rendered rows -/
def splitRows (out : List String) : Option (List String) :=
  match out with
  | "rows" :: _ :: rest =>
    let rec go (cur : List String) (acc : List String) : List String → List String
      | [] => (String.intercalate " " cur.reverse :: acc).reverse
      | "|" :: r => go [] (String.intercalate " " cur.reverse :: acc) r
      | t :: r => go (t :: cur) acc r
    match rest with
    | [] => some []
    | "|" :: r => some (go [] [] r)
    | _ => none
  | _ => none

/-- canonical (engine tie-break) evaluation of a query together with "an inner LIMIT cut was ambiguous" -/
def specCanon : Query → List Row → Option (List Row × Bool)
  | .table, t => some (t, false)
  | .sel src b, t => do
    let (mid, amb) ← specCanon src t
    let core ← specCore b mid
    let full := sortCanon b.order core
    let out := if b.order = [] then (match b.limit with | some n => core.take n | none => core)
               else (match b.limit with | some n => full.take n | none => full)
    let ambHere := if b.order = [] then
        (match b.limit with
         | some n => decide (0 < n) && decide (n < core.length) && !(core.all fun r => core.all (rowEq r))
         | none => false)
      else cutAmbiguous b core
    pure (out, amb || ambHere)

/-- type the implementation's rendered rows: a printed row is typed by any candidate that renders to the
    same text; it then consumes one candidate of the same *class* (`rowEq`) from the expected bag — the
    engine may print any representative of a class of equal rows (`0` for `-0`, …). -/
def matchRows (all : List Row) (cands : List Row) : List String → Option (List Row)
  | [] => some []
  | s :: rest =>
    match all.find? (fun c => renderRow c == s) with
    | none => none
    | some typed =>
      let rec pick (pre : List Row) : List Row → Option (List Row)
        | [] => none
        | c :: cs => if Octo.Sql.rowEq c typed then some (pre.reverse ++ cs) else pick (c :: pre) cs
      match pick [] cands with
      | none => none
      | some remaining => (matchRows all remaining rest).map (typed :: ·)

/-- the C01/C05 oracle on one `sel` line -/
def judgeSel (op : SelOp) (out : List String) : String :=
  match op.query with
  | .table => "ok"
  | .sel src b =>
    match specCanon src op.table with
    | none => if out == ["err"] then "ok" else "bad expected-runtime-error"
    | some (mid, amb) =>
      match specCore b mid with
      | none => if out == ["err"] then "ok" else "bad expected-runtime-error"
      | some core =>
        match splitRows out with
        | none => s!"bad no-rows-output {String.intercalate " " out}"
        | some rendered =>
          -- candidates: the rows before DISTINCT (any representative of a class is acceptable)
          let pre := (blockCore { b with distinct := false } mid).getD core
          match matchRows pre pre rendered with
          | none => if amb then "ok ambiguous-inner-limit" else "bad row-not-in-expected-result"
          | some typed =>
            if checkOrderLimit b core typed then "ok"
            else if amb then "ok ambiguous-inner-limit"
            else
              let full := sortCanon b.order core
              let n := match b.limit with | some n => min n full.length | none => full.length
              if typed.length != n then s!"bad wrong-row-count got={typed.length} want={n}"
              else if !sortedByB b.order typed then "bad not-in-order"
              else "bad not-the-first-n-of-the-order"

def modelSel (op : SelOp) : String :=
  match denote (modeOf op.mode) op.query op.table with
  | none => "err"
  | some rows => renderRows rows

end Octo.Drv.SqlCodec
