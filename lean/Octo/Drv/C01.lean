import Octo.Drv.SqlCodec
/-! C01 driver: single-source SELECT; model = the engine pipeline (`Sql.denote`), judge = SQL semantics. -/
namespace Octo.Drv.C01
open Octo Octo.Drv.SqlCodec

def model (toks : List String) : String :=
  match parseSel toks with
  | some op => modelSel op
  | none => "bad-op"

def judge (toks : List String) (out : List String) : String :=
  match parseSel toks with
  | some op =>
    if out == ["panic"] then "bad go-panic"
    else judgeSel op out
  | none => "bad unparsable-op"

end Octo.Drv.C01
