import Octo.Drv.OpsCodec
import Octo.Drv.C16
import Octo.Drv.C19
/-! C15 driver: the operator models on one op line, and the property oracle — `valid_out` and
    `net_commutes` against the batch specifications of `Octo.Model.OpSpec` — evaluated on what the
    real nodes emitted. -/
namespace Octo.Drv.C15
open Octo Octo.Codec Octo.Ops Octo.Drv.Ops

def model (toks : List String) : String :=
  match toks with
  | "gb" :: _ => Octo.Drv.C16.model toks      -- the group-by node under COUNTING / WATERMARK triggers (shared with C16)
  | "sgb" :: _ => Octo.Drv.C16.model toks
  | "sj" :: _ => Octo.Drv.C19.model toks     -- stream / outer join under a chosen interleaving (shared with C19)
  | "oj" :: _ => Octo.Drv.C19.model toks
  | _ => Octo.Drv.Ops.model toks

def totalV (e : Expr) (x : Row) : Value :=
  match e.eval [x] with
  | .ok v => v
  | .error _ => .null
def totalR (es : List Expr) (x : Row) : Row := es.map fun e => totalV e x

def dataRows (ms : List Msg) : List Row := (recs ms).map (·.vals)

/-- `∀ y ∈ cands, net out y = spec y` -/
def netAgrees (out : List Rec) (spec : Row → Int) (cands : List Row) : Bool :=
  cands.all fun y => net out y == spec y

def hasRetr (ms : List Msg) : Bool := (recs ms).any (·.retr)

/-- event time is a function of the row (all records of one row carry the same event time) -/
def etByRow (log : List Rec) : Bool :=
  log.all fun a => log.all fun b => !rowEq a.vals b.vals || a.et == b.et

def rowsEq (a b : List Row) : Bool := a.length == b.length && (a.zip b).all fun (x, y) => rowEq x y

def allAdds (log : List Rec) : Bool := log.all fun r => !r.retr && r.et == none

/-- does the node keep every valid changelog valid without further hypotheses? -/
def unconditional : Node → Bool
  | .etbuf => false
  | .lookup .. => false
  | .cgroup .. => false
  | _ => true

def judgeNode (n : Node) (l : Line) (cls : String) (om : List Msg) : String :=
  let inRecs := recs l.msgs
  let outRecs := recs om
  let rows := consolidate inRecs
  let outRows := outRecs.map (·.vals)
  let full := cls == "ok" && !l.fail          -- the whole input was processed without error
  -- does the EventTimeBuffer (alone, or in front of CustomTriggerGroupBy) release a retraction before the
  -- addition it retracts?  (the records of one row carry different event times)
  let etbBreaks : Bool := match n with
    | .etbuf | .cgroup .. => !etByRow inRecs && !validFast (recs (etbOp.run l.msgs false).1)
    | _ => false
  let etbKnown := "known event-time-buffer-reorders-retraction a retraction with an earlier event time overtakes its addition"
  -- valid_out
  let vo : String :=
    if !validFast outRecs then
      match n with
      | .lookup _ jm _ =>
        if hasRetr jm && hasRetr l.msgs then
          "known lookup-join-retracting-joined-side output retracts an absent row"
        else "bad output-retracts-absent-row"
      | .etbuf => if etbBreaks then etbKnown else "bad output-retracts-absent-row"
      | _ => "bad output-retracts-absent-row"
    else "ok"
  if vo != "ok" then vo
  else if !full then "ok"
  else
    match n with
    | .filter e =>
      let exp := filterB (totalV e) rows
      if netAgrees outRecs (cnt exp) (exp ++ outRows) then "ok" else "bad filter-net-differs-from-batch"
    | .map es =>
      let exp := mapB (totalR es) rows
      if netAgrees outRecs (cnt exp) (exp ++ outRows) then "ok" else "bad map-net-differs-from-batch"
    | .distinct =>
      if netAgrees outRecs (distinctSpec rows) (rows ++ outRows) then "ok" else "bad distinct-net-differs-from-batch"
    | .unnest i =>
      let exp := unnestB i rows
      if netAgrees outRecs (cnt exp) (exp ++ outRows) then "ok" else "bad unnest-net-differs-from-batch"
    | .limit k =>
      if k > 0 && rowsEq outRows ((inRecs.take k.toNat).map (·.vals)) then "ok"
      else if k == 0 && outRows.isEmpty then "ok"
      else if k < 0 then "ok"
      else "bad limit-not-a-prefix"
    | .etbuf =>
      if netAgrees outRecs (cnt rows) (rows ++ outRows) then "ok" else "bad buffer-changes-content"
    | .sgroup ks as | .cgroup _ ks as =>
      let exp := groupB (compositeSpec (as.map (·.1))) (totalR ks) (totalR (as.map (·.2))) rows
      if !netAgrees outRecs (cnt exp) (exp ++ outRows) then
        (if etbBreaks then etbKnown else "bad group-net-differs-from-batch")
      else "ok"
    | .lookup p jm _ =>
      let J : Row → List Rec := fun x => recs ((filterOp fun j => p.eval [j, x]).run jm false).1
      let cands := outRows ++ rows.flatMap fun x => (recs jm).map fun j => x ++ j.vals
      if netAgrees outRecs (lookupSpec J rows) cands then "ok" else "bad lookup-net-differs-from-batch"
    | .orderby ks lim _ | .printer ks lim _ =>
      let sorted := sortB (lessRow (ks.map (·.2)) (totalR (ks.map (·.1)))) rows
      let exp := takeOpt lim sorted
      if !allAdds outRecs then "bad order-by-emits-retraction-or-event-time"
      else if rowsEq outRows exp then "ok" else "bad order-by-differs-from-sorted-batch"

def judgeOps (toks : List String) (out : List String) : String :=
  match parseLine toks, parseImplOut out with
  | some l, some (cls, om) =>
    if !validFast (recs l.msgs) then
      -- outside the property's quantifier, except for the printer's executable form of valid_out
      match l.nodes with
      | [.printer _ _ false] => if cls == "panic" then "ok" else "bad printer-accepts-retraction-of-absent-row"
      | _ => "ok"
    else if cls == "panic" then "bad panic-on-valid-changelog"
    else
      match l.nodes with
      | [n] => judgeNode n l cls om
      | ns =>
        if ns.all unconditional && !validFast (recs om) then "bad pipeline-output-retracts-absent-row" else "ok"
  | none, _ => "bad unparsable-op"
  | _, none => "bad unparsable-impl-output"

def judge (toks : List String) (out : List String) : String :=
  match toks with
  | "gb" :: _ => Octo.Drv.C16.judge toks out
  | "sgb" :: _ => Octo.Drv.C16.judge toks out
  | "sj" :: _ => Octo.Drv.C19.judge toks out
  | "oj" :: _ => Octo.Drv.C19.judge toks out
  | _ => judgeOps toks out

end Octo.Drv.C15
