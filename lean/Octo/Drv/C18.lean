import Octo.Drv.OpsCodec
import Octo.Model.OpTime
/-! C18 driver (single-input nodes): the same operator models as C15, and the oracle — monotone
    watermarks, no late records, and for the event-time buffer equality with the naive `bufSpec` —
    evaluated on what the real nodes emitted. -/
namespace Octo.Drv.C18
open Octo Octo.Codec Octo.Ops Octo.Drv.Ops

def model (toks : List String) : String := Octo.Drv.Ops.model toks

def joinedHasWm : Node → Bool
  | .lookup _ jm _ => jm.any isWm
  | _ => false

def keyedByEventTime : Node → Bool
  | .cgroup (some _) _ _ => true
  | _ => false

/-- the late records of an output: those at or below a watermark that precedes them -/
def lateRecs (seen : List Int) : List Msg → List Rec
  | [] => []
  | .wm t :: ms => lateRecs (t :: seen) ms
  | .data r :: ms => if okAfterB seen r then lateRecs seen ms else r :: lateRecs seen ms

/-- are all late records in the final batch (after the last watermark of the output)? -/
def lateOnlyInFinalBatch (om : List Msg) : Bool :=
  let tail := (om.reverse.takeWhile (!isWm ·)).reverse
  (lateRecs [] om).length == (lateRecs (wms om) tail).length

def judge (toks : List String) (out : List String) : String :=
  match parseLine toks, parseImplOut out with
  | some l, some (cls, om) =>
    if cls == "panic" then "bad panic"
    else
      let inMono := monoB (wms l.msgs)
      let inNoLate := noLateFromB [] l.msgs
      let wmBad := inMono && !monoB (wms om)
      let lateBad := inNoLate && !noLateFromB [] om
      if wmBad then
        (if l.nodes.any joinedHasWm then
          "known lookup-join-forwards-joined-watermarks watermarks of the joined side are forwarded once per source record"
         else "bad watermarks-go-backwards")
      else if lateBad then
        (if l.nodes.any joinedHasWm then
          "known lookup-join-forwards-joined-watermarks a source record follows a forwarded joined-side watermark"
         else if l.nodes.any keyedByEventTime && lateOnlyInFinalBatch om then
          "known ctgb-end-of-stream-flush-late the end-of-stream flush stamps rows with their key's event time below forwarded watermarks"
         else "bad late-record-created")
      else
        match l.nodes with
        | [.etbuf] =>
          if cls == "ok" && !l.fail then
            (if om.map encodeMsg == (bufSpec [] l.msgs).map encodeMsg then "ok" else "bad buffer-spec-violated")
          else "ok"
        | _ => "ok"
  | none, _ => "bad unparsable-op"
  | _, none => "bad unparsable-impl-output"

end Octo.Drv.C18
