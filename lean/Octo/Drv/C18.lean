import Octo.Drv.OpsCodec
import Octo.Drv.C19
import Octo.Model.OpTime
import Octo.Drv.C16
/-! C18 driver (single-input nodes): the same operator models as C15, and the oracle — monotone
    watermarks, no late records, and for the event-time buffer equality with the naive `bufSpec` —
    evaluated on what the real nodes emitted. -/
namespace Octo.Drv.C18
open Octo Octo.Codec Octo.Ops Octo.Drv.Ops

def model (toks : List String) : String :=
  match toks with
  | "sj" :: _ => Octo.Drv.C19.model toks     -- the join nodes under a chosen interleaving (shared with C19)
  | "oj" :: _ => Octo.Drv.C19.model toks
  | "gb" :: _ => Octo.Drv.C16.model toks     -- the group-by node under early-firing triggers (shared with C16)
  | _ => Octo.Drv.Ops.model toks

def joinedHasWm : Node → Bool
  | .lookup _ jm _ => jm.any isWm
  | _ => false

def keyedByEventTime : Node → Bool
  | .cgroup (some _) _ _ => true
  | _ => false

/-- the late records of an output: those at or below a watermark that precedes them -/
def lateRecs (seen : List Int) : List Msg → List Rec
  | [] => []
  | .wm t :: ms => lateRecs (t :: seen) ms
  | .data r :: ms => if okAfterB seen r then lateRecs seen ms else r :: lateRecs seen ms

/-- are all late records in the final batch (after the last watermark of the output)? -/
def lateOnlyInFinalBatch (om : List Msg) : Bool :=
  let tail := (om.reverse.takeWhile (!isWm ·)).reverse
  (lateRecs [] om).length == (lateRecs (wms om) tail).length

def judgeOps (toks : List String) (out : List String) : String :=
  match parseLine toks, parseImplOut out with
  | some l, some (cls, om) =>
    if cls == "panic" then "bad panic"
    else
      let inMono := monoB (wms l.msgs)
      let inNoLate := noLateFromB [] l.msgs
      let wmBad := inMono && !monoB (wms om)
      let lateBad := inNoLate && !noLateFromB [] om
      if wmBad then
        (if l.nodes.any joinedHasWm then
          "known lookup-join-forwards-joined-watermarks watermarks of the joined side are forwarded once per source record"
         else "bad watermarks-go-backwards")
      else if lateBad then
        (if l.nodes.any joinedHasWm then
          "known lookup-join-forwards-joined-watermarks a source record follows a forwarded joined-side watermark"
         else if l.nodes.any keyedByEventTime && lateOnlyInFinalBatch om then
          "known ctgb-end-of-stream-flush-late the end-of-stream flush stamps rows with their key's event time below forwarded watermarks"
         else "bad late-record-created")
      else
        match l.nodes with
        | [.etbuf] =>
          if cls == "ok" && !l.fail then
            (if om.map encodeMsg == (bufSpec [] l.msgs).map encodeMsg then "ok" else "bad buffer-spec-violated")
          else "ok"
        | _ => "ok"
  | none, _ => "bad unparsable-op"
  | _, none => "bad unparsable-impl-output"

/-- the join half: given inputs that each have monotone watermarks, no late records and event times on every record,
    the emitted sequence has monotone watermarks and no record at or below a watermark already emitted -/
def judgeJoin (toks : List String) (out : List String) : String :=
  match Octo.Drv.C19.parseOp toks with
  | none => "bad unparsable-op"
  | some op =>
    if !(Octo.Drv.C19.freshB none op.left && Octo.Drv.C19.freshB none op.right &&
         Octo.Drv.C19.allTimed op.left && Octo.Drv.C19.allTimed op.right) then "ok"   -- outside the property's hypothesis
    else
      match out with
      | "ok" :: rest =>
        match Octo.Codec.parseMsgs rest with
        | none => "bad unparsable-output"
        | some ms =>
          if !((Octo.wms ms).zip ((Octo.wms ms).drop 1)).all (fun p => decide (p.1 ≤ p.2)) then "bad join-watermark-went-backwards"
          else if !Octo.Drv.C19.freshB none ms then
            -- an outer join must retract a NULL-padded row when its first match arrives later; that retraction carries
            -- the padded row's event time, which may lie at or below a watermark emitted meanwhile
            -- (likewise the padded row that re-appears when the last match of a record is retracted)
            let isNull (v : Octo.Value) : Bool := match v with | .null => true | _ => false
            let padded (r : Octo.Rec) : Bool := (r.vals.take op.cfg.nL).all isNull || (r.vals.drop op.cfg.nL).all isNull
            let rest := ms.filter fun m => match m with | .data r => !padded r | .wm _ => true
            if op.cfg.outer && Octo.Drv.C19.freshB none rest then "known outer-join-late-retraction padded-row-emitted-or-retracted-at-or-below-emitted-watermark"
            else "bad join-emitted-late-record"
          else "ok"
      | _ => "ok"   -- panics / bad schedules are C19's subject

/-- the group-by node under COUNTING / ON WATERMARK triggers (every key may fire many times, each firing retracts what the
    previous one sent): given a source with monotone watermarks and no late records, the emitted sequence has monotone
    watermarks and nothing at or below a watermark already emitted -/
def judgeGb (toks : List String) (out : List String) : String :=
  match toks with
  | "gb" :: rest =>
    match Octo.Drv.Trig.parseGb rest with
    | none => "bad unparsable-op"
    | some op =>
      if !(monoB (wms op.stream) && noLateFromB [] op.stream) then "ok"   -- outside the property's hypothesis
      else
        match out with
        | "ok" :: ms =>
          match Octo.Codec.parseMsgs ms with
          | none => "bad unparsable-impl-output"
          | some om =>
            if !monoB (wms om) then "bad watermarks-go-backwards"
            else if !noLateFromB [] om then
              (if lateOnlyInFinalBatch om then
                "known ctgb-end-of-stream-flush-late the end-of-stream flush stamps rows with their key's event time below forwarded watermarks"
               else "bad late-record-created")
            else "ok"
        | _ => "ok"
  | _ => "ok"

def judge (toks : List String) (out : List String) : String :=
  match toks with
  | "gb" :: _ => judgeGb toks out
  | "sj" :: _ => judgeJoin toks out
  | "oj" :: _ => judgeJoin toks out
  | _ => judgeOps toks out

end Octo.Drv.C18
