import Octo.Drv.Codec
import Octo.Spec.OutputSpec
/-!
  C25 driver.  Op lines (self-contained):

    json  F<k> (x<namehex> <ty>)^k  N<m> (R<j> <value>^j)^m  LIB <entry>*
    csv   … same …
    ejson / ecsv … same, every row followed by `+` or `-` (the record's retraction flag); the rows go through
                   `eager.OutputPrinter` instead of the formatter alone

  `LIB` entries are what Go's *library* formatting functions return for the numbers, times and durations of the
  op (the `Lib` parameter of the model, computed by the generator with strconv / time):
    g<16hex>=<texthex>   strconv.AppendFloat(f,'g',-1,64)      f<16hex>=<texthex>   strconv.FormatFloat(f,'f',-1,64)
    t<ns>:<loc>=<texthex> Time.Format(RFC3339)                  d<ns>=<texthex>      Duration.String()

  Output line: the bytes written, in hex (`-` for no bytes), or `panic`.
-/
namespace Octo.Drv.C25
open Octo Octo.Codec Octo.OutFmt Octo.Spec

structure Op where
  kind : String
  names : List Name
  tys : List Ty
  rows : List (List Value)
  lib : Lib

def lookupD {α : Type} [BEq α] (k : α) : List (α × (List Nat)) → (List Nat)
  | [] => [63]
  | (k', v) :: r => if k == k' then v else lookupD k r

def hexBytes (s : String) : (List Nat) := (parseHexBytes s).map UInt8.toNat

structure LibTab where
  g : List (Nat × (List Nat)) := []
  f : List (Nat × (List Nat)) := []
  t : List ((Int × Nat) × (List Nat)) := []
  d : List (Int × (List Nat)) := []

def parseLib : List String → LibTab → LibTab
  | [], acc => acc
  | tok :: rest, acc =>
    match tok.splitOn "=" with
    | [k, v] =>
      let body := (k.drop 1).toString
      let txt := hexBytes v
      let acc :=
        match k.front with
        | 'g' => { acc with g := (parseHexNat body, txt) :: acc.g }
        | 'f' => { acc with f := (parseHexNat body, txt) :: acc.f }
        | 't' =>
          match body.splitOn ":" with
          | [a, b] => { acc with t := ((parseInt! a, b.toNat!), txt) :: acc.t }
          | _ => acc
        | 'd' => { acc with d := (parseInt! body, txt) :: acc.d }
        | _ => acc
      parseLib rest acc
    | _ => parseLib rest acc

def libOf (tab : LibTab) : Lib :=
  { fmtFloatG := fun b => lookupD b tab.g
    fmtFloatF := fun b => lookupD b tab.f
    fmtTime := fun ns loc => lookupD (ns, loc) tab.t
    fmtDur := fun ns => lookupD ns tab.d }

/-- rows: `R<j> v…` (and, when `signed`, a `+`/`-` token after the values, which is skipped) -/
def parseRows (signed : Bool) : Nat → List String → Option (List (List Value) × List String)
  | 0, rest => some ([], rest)
  | m + 1, tok :: rest => do
    let (vs, r) ← parseValues (tok.drop 1).toString.toNat! rest
    let r := if signed then r.drop 1 else r
    let (rows, r') ← parseRows signed m r
    pure (vs :: rows, r')
  | _ + 1, [] => none

def parseOp (toks : List String) : Option Op :=
  match toks with
  | kind :: f :: rest => do
    let (names, tys, r) ← parseTy.parseFields (f.drop 1).toString.toNat! rest
    match r with
    | n :: r' =>
      let (rows, r'') ← parseRows (kind.startsWith "e") (n.drop 1).toString.toNat! r'
      let lib := match r'' with
        | _ :: entries => libOf (parseLib entries {})
        | [] => libOf {}
      pure { kind := kind, names := names, tys := tys, rows := rows, lib := lib }
    | [] => none
  | _ => none

def hexOut (b : (List Nat)) : String := if b.isEmpty then "-" else hexOfBytes (b.map UInt8.ofNat)

def isJson (k : String) : Bool := k == "json" || k == "ejson"

/-- ops that validate the *specification's readers* against Go's own parsers (correspondence only):
      jvalid <hex>  RFC 8259 validity            vs encoding/json.Valid
      pf <hex>      number literal ↦ binary64    vs strconv.ParseFloat
      ptime <hex>   RFC 3339 ↦ ns since epoch    vs time.Parse(time.RFC3339Nano)
      pdur <hex>    duration text ↦ ns           vs time.ParseDuration -/
def specOp (toks : List String) : Option String :=
  match toks with
  | ["jvalid", h] => some (if (Json.decode (hexBytes h)).isSome then "1" else "0")
  | ["pf", h] =>
    let lit := hexBytes h
    some (if Json.validNumber lit then hex16 (Num.litToF64 lit) else "invalid")
  | ["ptime", h] => some (match TimeText.parseRfc3339 (hexBytes h) with | some ns => toString ns | none => "none")
  | ["pdur", h] => some (match TimeText.parseDuration (hexBytes h) with | some ns => toString ns | none => "none")
  | _ => none

/-- model side: the same line the Go driver prints -/
def model (toks : List String) : String :=
  match specOp toks with
  | some out => out
  | none =>
  match parseOp toks with
  | none => "bad-op"
  | some op =>
    let out := if isJson op.kind then jsonOutput op.lib op.names op.tys op.rows
               else csvOutput op.lib op.names op.tys op.rows
    match out with
    | none => "panic"
    | some b => hexOut b

mutual
/-- the row with every time floored to a whole second (what `time.RFC3339` without the fraction can express) -/
def truncTime : Value → Value
  | .time ns loc => .time (ns - ns % 1000000000) loc
  | .list xs => .list (truncTimes xs)
  | .struct xs => .struct (truncTimes xs)
  | .tuple xs => .tuple (truncTimes xs)
  | v => v
def truncTimes : List Value → List Value
  | [] => []
  | x :: xs => truncTime x :: truncTimes xs
end

def judgeJsonLines (op : Op) : List (List Value) → List (List Nat) → Nat → String
  | [], [], _ => "ok"
  | row :: rows, line :: lines, i =>
    if !rowFits op.names op.tys row then judgeJsonLines op rows lines (i + 1)   -- nothing is demanded of an ill-typed row
    else
      match Json.decode line with
      | none => s!"bad line-{i}-is-not-valid-json"
      | some j =>
        if !rowMatches op.names op.tys row j then
          if rowMatches op.names op.tys (truncTimes row) j then s!"known time-subsecond-truncated line-{i}"
          else s!"bad line-{i}-decodes-to-different-values"
        else if utf8Values op.lib row && utf8Tys op.tys && op.names.all (fun n => Utf8.valid n) && !Utf8.valid line then
          s!"bad line-{i}-is-not-utf8"
        else judgeJsonLines op rows lines (i + 1)
  | _, _, i => s!"bad line-count-differs-at-{i}"

def judgeCsvRecs (op : Op) : List (List Value) → List (List (List Nat)) → Nat → String
  | [], [], _ => "ok"
  | row :: rows, rec :: recs, i =>
    if !rowFits op.names op.tys row then judgeCsvRecs op rows recs (i + 1)
    else if !(if row.isEmpty then rec == [[]] else csvRowOk row rec) then
      if csvRowOk (truncTimes row) rec then s!"known time-subsecond-truncated record-{i}"
      else s!"bad record-{i}-decodes-to-different-values"
    else judgeCsvRecs op rows recs (i + 1)
  | _, _, i => s!"bad record-count-differs-at-{i}"

/-- property oracle on what the implementation printed -/
def judge (toks : List String) (out : List String) : String :=
  if (specOp toks).isSome then "ok" else
  match parseOp toks with
  | none => "bad unparsable-op"
  | some op =>
    let op := { op with names := withoutQualifiers op.names }   -- what SetSchema prints
    let allFit := op.rows.all (rowFits op.names op.tys)
    match out with
    | ["panic"] => if allFit then "bad panic-on-well-typed-rows" else "ok"
    | [h] =>
      let bytes := if h == "-" then [] else hexBytes h
      if !allFit then "ok"   -- mixed ops are not generated; nothing is demanded when a row is ill-typed
      else if isJson op.kind then judgeJsonLines op op.rows (Json.splitLines bytes []) 0
      else
        match Csv.decode bytes with
        | none => "bad output-is-not-csv"
        | some [] => "bad header-missing"
        | some (hdr :: recs) =>
          if hdr != (if op.names.isEmpty then [[]] else op.names.map nameBytes) then "bad header-differs"
          else judgeCsvRecs op op.rows recs 0
    | _ => "bad unparsable-impl-output"

end Octo.Drv.C25
