import Octo.Drv.SqlCodec
/-! C05 driver: same ops as C01 (`sel …`), generator focused on LIMIT / ORDER BY configurations. -/
namespace Octo.Drv.C05
open Octo Octo.Drv.SqlCodec

/-! `lim2 <mode> <nested 0|1> <order 0|1|2> <n> T 2 <nrows> <k v>…`: LIMIT / ORDER BY over a source that RETRACTS
    (`SELECT c0, COUNT(c1) AS c FROM t GROUP BY c0 TRIGGER COUNTING 1`, as a subquery or at top level). The plan then
    must use OrderSensitiveTransform (never the Limit node): the result is the first n rows of the final, consolidated
    group table in (ORDER BY c, then values) order. -/
structure Lim2 where
  mode : String
  level : Nat          -- 0: ORDER BY/LIMIT at top level on the group-by; 1: on a subquery, at top level; 2: inside a subquery
  nested : Bool
  order : Nat          -- 0 none, 1 ORDER BY c ASC, 2 ORDER BY c DESC
  n : Nat
  table : List Octo.Sql.Row

def parseLim2 : List String → Option Lim2
  | "lim2" :: mode :: nested :: order :: n :: rest => do
    let (t, _) ← parseTable rest
    pure { mode := mode, level := nested.toNat!, nested := nested != "0", order := order.toNat!, n := n.toNat!, table := t }
  | _ => none

open Octo.Sql in
/-- the consolidated group table: one row (key, number of rows of the group) per class of keys, first occurrence order -/
def groupCounts (t : List Row) : List Row :=
  (distinctOp (t.map fun r => r.take 1)).map fun k =>
    k ++ [Value.int ((t.filter fun r => rowEq (r.take 1) k).length)]

open Octo.Sql in
def lim2Expected (op : Lim2) : List Row :=
  let order : List (SExpr × Bool) := match op.order with | 1 => [(.col 1, false)] | 2 => [(.col 1, true)] | _ => []
  let top := (sortCanon order (groupCounts op.table)).take op.n
  -- a subquery's ORDER BY does not order the outer query: the table sinks then sort the rows by value
  if op.level == 2 && (op.mode == "batch_table" || op.mode == "live_table") then sortCanon [] top else top

/-! `lim3 <mode> <variant> <n> <m> <na> <nb>`: an outer LIMIT n over a plan in which another Limit node runs many times:
    0 `range(0,na) a LOOKUP JOIN (SELECT * FROM range(0,nb) r LIMIT m) b LIMIT n`, 1 the same as a subquery,
    2 `SELECT a.i, (SELECT r.i FROM range(0,nb) r LIMIT 1)[0] FROM range(0,na) a LIMIT n`, 3 variant 0 with
    `ORDER BY x DESC, y ASC`. Rows are compared as sorted strings. -/
structure Lim3 where
  variant : Nat
  n : Nat
  m : Nat
  na : Nat
  nb : Nat

def parseLim3 : List String → Option Lim3
  | ["lim3", _, variant, n, m, na, nb] =>
    some { variant := variant.toNat!, n := n.toNat!, m := m.toNat!, na := na.toNat!, nb := nb.toNat! }
  | _ => none

/-- the rows below the outer LIMIT, in the order the plan produces / orders them -/
def lim3All (op : Lim3) : List Octo.Sql.Row :=
  let xs := if op.variant == 3 then (List.range op.na).reverse else List.range op.na
  if op.variant == 2 then xs.map fun (x : Nat) => [Value.int x, Value.int 0]
  else xs.flatMap fun (x : Nat) => (List.range (min op.m op.nb)).map fun (y : Nat) => [Value.int x, Value.int y]

def insertStr (s : String) : List String → List String
  | [] => [s]
  | x :: xs => if s < x then s :: x :: xs else x :: insertStr s xs
def sortStrs (l : List String) : List String := l.foldr insertStr []

def lim3Render (rows : List Octo.Sql.Row) : String :=
  String.intercalate " | " (s!"rows {rows.length}" :: sortStrs (rows.map renderRow))

def model (toks : List String) : String :=
  match toks with
  | "lim2" :: _ => (match parseLim2 toks with | some op => renderRows (lim2Expected op) | none => "bad-op")
  | "lim3" :: _ => (match parseLim3 toks with | some op => lim3Render ((lim3All op).take op.n) | none => "bad-op")
  | _ =>
  match parseSel toks with
  | some op => modelSel op
  | none => "bad-op"

open Octo.Sql in
/-- oracle for `lim2`: exactly min(n, #groups) rows, each a row of the final group table, none twice, and with ORDER BY
    the first n of the order -/
def judgeLim2 (op : Lim2) (out : List String) : String :=
  let groups := groupCounts op.table
  let order : List (SExpr × Bool) := match op.order with | 1 => [(.col 1, false)] | 2 => [(.col 1, true)] | _ => []
  let b : Block := { whr := none, proj := none, distinct := false, order := order, limit := some op.n }
  match splitRows out with
  | none => s!"bad no-rows-output {String.intercalate " " out}"
  | some rendered =>
    match matchRows groups groups rendered with
    | none => "bad row-not-in-final-group-table-or-repeated"
    | some typed0 =>
      -- (for a LIMIT inside a subquery the outer order is free: judge the rows as a set of the right first n)
      let typed := if op.level == 2 then sortCanon order typed0 else typed0
      if checkOrderLimit b groups typed then "ok"
      else if typed.length != min op.n groups.length then s!"bad wrong-row-count got={typed.length} want={min op.n groups.length}"
      else "bad not-the-first-n-of-the-order"

def judgeLim3 (op : Lim3) (out : List String) : String :=
  let all := lim3All op
  match splitRows out with
  | none => s!"bad no-rows-output {String.intercalate " " out}"
  | some rendered =>
    match matchRows all all rendered with
    | none => "bad row-not-in-the-join-or-repeated"
    | some typed =>
      if typed.length != min op.n all.length then s!"bad wrong-row-count got={typed.length} want={min op.n all.length}"
      else if op.variant == 3 || op.n ≥ all.length then
        (if lim3Render typed == lim3Render (all.take op.n) then "ok" else "bad not-the-first-n-of-the-order")
      else "ok ambiguous which-rows-a-limit-without-order-keeps"

def judge (toks : List String) (out : List String) : String :=
  match toks with
  | "lim3" :: _ =>
    (match parseLim3 toks with
     | some op => if out == ["panic"] then "bad go-panic" else judgeLim3 op out
     | none => "bad unparsable-op")
  | "lim2" :: _ =>
    (match parseLim2 toks with
     | some op => if out == ["panic"] then "bad go-panic" else judgeLim2 op out
     | none => "bad unparsable-op")
  | _ =>
  match parseSel toks with
  | some op =>
    if out == ["panic"] then "bad go-panic"
    else judgeSel op out
  | none => "bad unparsable-op"

end Octo.Drv.C05
