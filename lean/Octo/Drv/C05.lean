import Octo.Drv.SqlCodec
/-! C05 driver: same ops as C01 (`sel …`), generator focused on LIMIT / ORDER BY configurations. -/
namespace Octo.Drv.C05
open Octo Octo.Drv.SqlCodec

/-! `lim2 <mode> <nested 0|1> <order 0|1|2> <n> T 2 <nrows> <k v>…`: LIMIT / ORDER BY over a source that RETRACTS
    (`SELECT c0, COUNT(c1) AS c FROM t GROUP BY c0 TRIGGER COUNTING 1`, as a subquery or at top level). The plan then
    must use OrderSensitiveTransform (never the Limit node): the result is the first n rows of the final, consolidated
    group table in (ORDER BY c, then values) order. -/
structure Lim2 where
  mode : String
  level : Nat          -- 0: ORDER BY/LIMIT at top level on the group-by; 1: on a subquery, at top level; 2: inside a subquery
  nested : Bool
  order : Nat          -- 0 none, 1 ORDER BY c ASC, 2 ORDER BY c DESC
  n : Nat
  table : List Octo.Sql.Row

def parseLim2 : List String → Option Lim2
  | "lim2" :: mode :: nested :: order :: n :: rest => do
    let (t, _) ← parseTable rest
    pure { mode := mode, level := nested.toNat!, nested := nested != "0", order := order.toNat!, n := n.toNat!, table := t }
  | _ => none

open Octo.Sql in
/-- the consolidated group table: one row (key, number of rows of the group) per class of keys, first occurrence order -/
def groupCounts (t : List Row) : List Row :=
  (distinctOp (t.map fun r => r.take 1)).map fun k =>
    k ++ [Value.int ((t.filter fun r => rowEq (r.take 1) k).length)]

open Octo.Sql in
def lim2Expected (op : Lim2) : List Row :=
  let order : List (SExpr × Bool) := match op.order with | 1 => [(.col 1, false)] | 2 => [(.col 1, true)] | _ => []
  let top := (sortCanon order (groupCounts op.table)).take op.n
  -- a subquery's ORDER BY does not order the outer query: the table sinks then sort the rows by value
  if op.level == 2 && (op.mode == "batch_table" || op.mode == "live_table") then sortCanon [] top else top

def model (toks : List String) : String :=
  match toks with
  | "lim2" :: _ => (match parseLim2 toks with | some op => renderRows (lim2Expected op) | none => "bad-op")
  | _ =>
  match parseSel toks with
  | some op => modelSel op
  | none => "bad-op"

open Octo.Sql in
/-- oracle for `lim2`: exactly min(n, #groups) rows, each a row of the final group table, none twice, and with ORDER BY
    the first n of the order -/
def judgeLim2 (op : Lim2) (out : List String) : String :=
  let groups := groupCounts op.table
  let order : List (SExpr × Bool) := match op.order with | 1 => [(.col 1, false)] | 2 => [(.col 1, true)] | _ => []
  let b : Block := { whr := none, proj := none, distinct := false, order := order, limit := some op.n }
  match splitRows out with
  | none => s!"bad no-rows-output {String.intercalate " " out}"
  | some rendered =>
    match matchRows groups groups rendered with
    | none => "bad row-not-in-final-group-table-or-repeated"
    | some typed0 =>
      -- (for a LIMIT inside a subquery the outer order is free: judge the rows as a set of the right first n)
      let typed := if op.level == 2 then sortCanon order typed0 else typed0
      if checkOrderLimit b groups typed then "ok"
      else if typed.length != min op.n groups.length then s!"bad wrong-row-count got={typed.length} want={min op.n groups.length}"
      else "bad not-the-first-n-of-the-order"

def judge (toks : List String) (out : List String) : String :=
  match toks with
  | "lim2" :: _ =>
    (match parseLim2 toks with
     | some op => if out == ["panic"] then "bad go-panic" else judgeLim2 op out
     | none => "bad unparsable-op")
  | _ =>
  match parseSel toks with
  | some op =>
    if out == ["panic"] then "bad go-panic"
    else judgeSel op out
  | none => "bad unparsable-op"

end Octo.Drv.C05
