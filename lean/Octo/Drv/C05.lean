import Octo.Drv.SqlCodec
/-! C05 driver: same ops as C01 (`sel …`), generator focused on LIMIT / ORDER BY configurations. -/
namespace Octo.Drv.C05
open Octo Octo.Drv.SqlCodec

def model (toks : List String) : String :=
  match parseSel toks with
  | some op => modelSel op
  | none => "bad-op"

def judge (toks : List String) (out : List String) : String :=
  match parseSel toks with
  | some op =>
    if out == ["panic"] then "bad go-panic"
    else judgeSel op out
  | none => "bad unparsable-op"

end Octo.Drv.C05
