import Octo.Drv.PlanCodec
import Octo.Drv.SqlCodec
/-!
  C04 driver.  Ops (markers start with `@`, which no encoded name does):

    plan @TABLES <n> table* @SQL <hex> @P0 <plan>
        structural tie: `optimizer.Optimize` on the typechecked plan of the query; output: the optimized plan
    raw <plan>
        the same on a directly generated plan (datasources may accept pushed-down predicates)
    optq <mode> <kinds> @TABLES <n> table* @SQL <hex> @TOP <nkeys> expr* <nmults> int* (L expr | -) @P0 <plan>
        behavioural tie + oracle: the real binary with --optimize=false (A) and --optimize=true (B); output
        `A <rows> B <rows>` with the rows of each run sorted; the model computes both from `denote`
    table := <file name> <ncols> <column name>* <nrows> <value>*
-/
namespace Octo.Drv.C04
open Octo Octo.Codec Octo.Plan Octo.Drv.PlanCodec

def fuelBound : Nat := 64

def splitAt (marker : String) (toks : List String) : List String × List String :=
  (toks.takeWhile (· != marker), (toks.dropWhile (· != marker)).drop 1)

def parseTables : Nat → List String → Option (List (String × List Plan.Row) × List String)
  | 0, r => some ([], r)
  | k + 1, fname :: nc :: r => do
    let ncols := nc.toNat!
    let cols := (r.take ncols).map decName
    match r.drop ncols with
    | nr :: r =>
      let rec rows : Nat → List String → Option (List Plan.Row × List String)
        | 0, r => some ([], r)
        | j + 1, r => do
          let (vs, r) ← parseValues ncols r
          let (out, r) ← rows j r
          pure (cols.zip vs :: out, r)
      let (rs, r) ← rows nr.toNat! r
      let (ts, r) ← parseTables k r
      pure ((decName fname, rs) :: ts, r)
    | [] => none
  | _, _ => none

def dbOf (ts : List (String × List Plan.Row)) : Db := fun name => ts.lookup name

structure Top where
  keys : List PExpr
  mults : List Int
  limit : Option PExpr

def parseTop (toks : List String) : Option Top := do
  let (keys, r) ← parseExprList toks
  match r with
  | n :: r =>
    let k := n.toNat!
    let mults := (r.take k).map parseInt!
    match r.drop k with
    | "L" :: r => (parseExpr r).map fun (e, _) => { keys := keys, mults := mults, limit := some e }
    | "-" :: _ => some { keys := keys, mults := mults, limit := none }
    | _ => none
  | [] => none

structure QOp where
  db : Db
  top : Top
  p0 : Plan

def parseQ (toks : List String) : Option QOp := do
  let (_, r) := splitAt "@TABLES" toks
  match r with
  | n :: r =>
    let (ts, r) ← parseTables n.toNat! r
    let (_, r) := splitAt "@TOP" r
    let (topToks, planToks) := splitAt "@P0" r
    let top ← parseTop topToks
    let (p, _) ← parsePlan planToks
    pure { db := dbOf ts, top := top, p0 := p }
  | [] => none

def insertSorted (s : String) : List String → List String
  | [] => [s]
  | x :: xs => if s ≤ x then s :: x :: xs else x :: insertSorted s xs

def sortStrings (l : List String) : List String := l.foldr insertSorted []

/-- `-0` and `0` are one value (`Compare`): which of them a DISTINCT / MIN / MAX keeps depends on arrival order -/
def normCell (c : String) : String := if c == "#-0" then "#0" else c

def renderSorted (rows : List Plan.Row) : String :=
  String.intercalate " | " (s!"rows {rows.length}" ::
    sortStrings (rows.map fun r => String.intercalate " " (r.vals.map fun v => normCell (SqlCodec.renderCell v))))

/-- the plan, then the outermost ORDER BY / LIMIT as the csv / json / stream_native arm of cmd/root.go applies it -/
def runTop (db : Db) (top : Top) (p : Plan) : String :=
  match denote db p [] with
  | none => "err"
  | some rows =>
    if top.keys.isEmpty && top.limit.isNone then renderSorted rows
    else
      match ostRows [] p.fields p.schema.noRetr top.keys top.mults top.limit rows with
      | none => "err"
      | some out => renderSorted out

def model (toks : List String) : String :=
  match toks with
  | "plan" :: rest =>
    match parsePlan (splitAt "@P0" rest).2 with
    | some (p, _) =>
      match optimize fuelBound p with
      | .ok q => renderPlan q
      | .panic => "panic"
      | .fuel => "fuel"
    | none => "bad-op"
  | "raw" :: rest =>
    match parsePlan rest with
    | some (p, _) =>
      match optimize fuelBound p with
      | .ok q => renderPlan q
      | .panic => "panic"
      | .fuel => "fuel"
    | none => "bad-op"
  | "optq" :: rest =>
    match parseQ rest with
    | some q =>
      let a := runTop q.db q.top q.p0
      let b := match optimize fuelBound q.p0 with
        | .ok p1 => runTop q.db q.top p1
        | .panic => "panic"
        | .fuel => "fuel"
      s!"A {a} B {b}"
    | none => "bad-op"
  -- `optx`: queries outside the modelled fragment (table valued functions, event time): purely differential, the
  -- implementation's optimized run against its own unoptimized run
  | "optx" :: _ => "same"
  | _ => "bad-op"

/-! ### the oracle -/

def normRows (out : List String) : Option (List String) :=
  (SqlCodec.splitRows out).map fun rows =>
    sortStrings (rows.map fun r => String.intercalate " " ((r.splitOn " ").map normCell))

/-- is the cut of some ORDER BY … LIMIT inside the plan ambiguous (rows tied on the keys across the cut that are not
    equal rows)?  Then which rows survive depends on the tie-break, which the engine takes from the remaining columns. -/
def cutAmbiguous (ctx : Ctx) (keys : List PExpr) (mults : List Int) (limit : Option PExpr) (rows : List Plan.Row) : Bool :=
  match limit with
  | none => false
  | some e =>
    match eval ctx e, keysOf ctx keys rows with
    | some (.int n), some krs =>
      let tree := krs.foldl (fun t kr => Sql.insertItem mults ⟨kr.1, kr.2.vals, 1⟩ t) []
      let flat : List (List Value × List Value) := tree.flatMap fun it => List.replicate it.count (it.key, it.vals)
      let i := n.toNat
      match flat[i - 1]?, flat[i]? with
      | some x, some y => decide (0 < i) && Sql.keyCmp mults x.1 y.1 == 0 && !(cmpList x.2 y.2 == 0)
      | _, _ => false
    | _, _ => false

def anyAmbiguous (db : Db) : Plan → Ctx → Bool
  | .leaf _ _, _ => false
  | .un _ k src, ctx =>
    anyAmbiguous db src ctx ||
      (match k, denote db src ctx with
       | .ost keys mults limit, some rows => cutAmbiguous ctx keys mults limit rows
       | _, _ => false)
  | .bin _ .ljoin l r, ctx =>
    anyAmbiguous db l ctx ||
      (match denote db l ctx with
       | some ls => ls.any fun row => anyAmbiguous db r (row :: ctx)
       | none => false)
  | .bin _ _ l r, ctx => anyAmbiguous db l ctx || anyAmbiguous db r ctx

/-! is every construct of the plan one `denote` models? (otherwise `none` means "not modelled", not "fails") -/
partial def exprModelled : PExpr → Bool
  | .var _ _ => true
  | .const _ => true
  | .nary k args =>
    (match k with
     | .call fn => ["=", "!=", "<", "<=", ">", ">=", "+", "-", "*", "not", "is null", "is not null"].contains fn
     | _ => true) && args.all exprModelled
  | .unary _ e => exprModelled e

def nodeModelled : Plan → Bool
  | .leaf _ (.tvf _ _) => false
  | .un _ (.tvf name _ _) _ => name == "max_diff_watermark"
  | .un _ (.groupBy aggs _ _ _ trig) _ => trig == "eos" && aggs.all fun a => ["count", "sum", "min", "max"].contains a
  | _ => true

def planModelled : Plan → Bool
  | .leaf s k => nodeModelled (.leaf s k) && (nodeExprs (.leaf s k)).all exprModelled
  | .un s k src => planModelled src && nodeModelled (.un s k src) && (nodeExprs (.un s k src)).all exprModelled
  | .bin s k l r => planModelled l && planModelled r && (nodeExprs (.bin s k l r)).all exprModelled

/-! the syntactic part of the theorems' hypotheses, evaluated on the generated plans (reported as `ok hyp`; what is
    not checked here is semantic: expressions cannot fail, datasources deliver their fields) -/
def scopedB (scope : List String) (es : List PExpr) : Bool := (varsUsedL es).all fun x => scope.contains x

def removableB (f : String) : Plan → Bool
  | .leaf _ (.ds _ _ _ _ _) => true
  | .leaf s _ => !s.fields.contains f
  | .un s k src => removableB f src &&
      (match k with
       | .map _ => true | .filter _ => true | .unnest _ => true | .distinct => true
       | .groupBy _ _ key _ _ =>
         !s.fields.contains f || (!src.fields.contains f && !(s.fields.take key.length).contains f)
       | _ => !s.fields.contains f)
  | .bin s k l r => removableB f l && removableB f r &&
      (match k with
       | .sjoin _ _ => true
       | .ljoin => !l.fields.contains f
       | .ojoin _ _ _ _ => true)

def noMapHasB (f : String) : Plan → Bool
  | .leaf _ _ => true
  | .un s (.map _) src => !s.fields.contains f && noMapHasB f src
  | .un _ _ src => noMapHasB f src
  | .bin _ _ l r => noMapHasB f l && noMapHasB f r

def noGroupByHasB (f : String) : Plan → Bool
  | .leaf _ _ => true
  | .un s (.groupBy _ _ _ _ _) src => !s.fields.contains f && noGroupByHasB f src
  | .un _ _ src => noGroupByHasB f src
  | .bin _ _ l r => noGroupByHasB f l && noGroupByHasB f r

def nodupB : List String → Bool
  | [] => true
  | x :: xs => !xs.contains x && nodupB xs

def goodSynB : List String → Plan → Bool
  | outer, .leaf s (.ds _ _ _ preds _) => nodupB s.fields && scopedB (s.fields ++ outer) preds
  | _, .leaf s _ => nodupB s.fields
  | outer, .un s k src =>
    nodupB s.fields && goodSynB outer src &&
      (match k with
       | .filter e => s == src.schema && scopedB (src.fields ++ outer) [e]
       | .distinct => s.fields == src.fields
       | .map es => scopedB (src.fields ++ outer) es && es.length == s.fields.length
       | .groupBy aggs aggExprs key _ _ => scopedB (src.fields ++ outer) (aggExprs ++ key) &&
           aggs.length == aggExprs.length && s.fields.length == key.length + aggs.length
       | .unnest _ => s.fields == src.fields
       | .ost keys _ lim => s.fields == src.fields && scopedB (src.fields ++ outer) keys &&
           (match lim with | some e => scopedB outer [e] | none => true)
       | .tvf name _ _ => name != "max_diff_watermark" || s.fields == src.fields)
  | outer, .bin s .ljoin l r =>
    nodupB s.fields && goodSynB outer l && goodSynB (l.fields ++ outer) r && s.fields == l.fields ++ r.fields
  | outer, .bin s (.sjoin lk rk) l r =>
    nodupB s.fields && goodSynB outer l && goodSynB outer r && s.fields == l.fields ++ r.fields &&
      scopedB (l.fields ++ outer) lk && scopedB (r.fields ++ outer) rk && lk.length == rk.length
  | outer, .bin s (.ojoin _ _ lk rk) l r =>
    nodupB s.fields && goodSynB outer l && goodSynB outer r && s.fields == l.fields ++ r.fields &&
      scopedB (l.fields ++ outer) lk && scopedB (r.fields ++ outer) rk

def prunableB (p : Plan) : Bool :=
  (collectFields allMapFieldsD p).all (fun f => removableB f p && noGroupByHasB f p) &&
  (collectFields allDsFieldsD p).all (fun f => removableB f p && noMapHasB f p && noGroupByHasB f p) &&
  (collectFields allGbFieldsD p).all (fun f => removableB f p && noMapHasB f p)
where
  allGbFieldsD : Plan → List String
    | .un s (.groupBy _ _ key _ _) _ => s.fields.drop key.length
    | _ => []
  allMapFieldsD : Plan → List String
    | .un s (.map _) _ => s.fields
    | _ => []
  allDsFieldsD : Plan → List String
    | .leaf s (.ds _ _ _ _ _) => s.fields
    | _ => []

/-- `ok` verdict annotated with which hypotheses of the theorems the plan satisfies syntactically -/
def okWith (p0 : Plan) : String :=
  if goodSynB [] p0 then (if prunableB p0 then "ok hyp=wellformed+prunable" else "ok hyp=wellformed") else "ok hyp=none"

/-- `plan` ops: the plan the REAL optimizer printed, read by the Lean semantics on the op's tables, must compute the
    same bag as the input plan (a semantic oracle on `optimizer.Optimize` itself, without running the binary) -/
def judgePlan (rest out : List String) : String :=
  if out == ["panic"] then "bad optimizer-panics"
  else
    let (_, r) := splitAt "@TABLES" rest
    match r with
    | n :: r =>
      match parseTables n.toNat! r with
      | some (ts, r) =>
        match parsePlan (splitAt "@P0" r).2, parsePlan out with
        | some (p0, _), some (p1, _) =>
          let db := dbOf ts
          if !planModelled p0 then "ok unmodelled" else
          match denote db p0 [], denote db p1 [] with
          | some ra, some rb =>
            if renderSorted ra == renderSorted rb then okWith p0
            else
              -- known only when the difference is exactly the one the modelled tie-break predicts
              let predicted := match optimize fuelBound p0 with
                | .ok q => (denote db q []).map renderSorted
                | _ => none
              if anyAmbiguous db p0 [] && predicted == some (renderSorted rb) then
                "known orderby-limit-tiebreak-pruning rows differ only through the tie-break of an ambiguous ORDER BY … LIMIT cut"
              else "bad optimized-plan-computes-different-rows"
          | some _, none => "bad optimized-plan-fails"
          | none, _ => "ok unmodelled"
        | _, _ => "ok unparsed"
      | none => "bad unparsable-op"
    | [] => "bad unparsable-op"

def judge (toks : List String) (out : List String) : String :=
  match toks with
  | "plan" :: rest => judgePlan rest out
  | "raw" :: _ => if out == ["panic"] then "bad optimizer-panics" else "ok"
  | "optx" :: _ =>
    if out == ["same"] then "ok"
    else s!"bad optimized-run-differs-from-unoptimized-run {String.intercalate " " (out.take 40)}"
  | "optq" :: rest =>
    let (a, b) := splitAt "B" (out.drop 1)
    if out.head? != some "A" then "bad unparsable-impl-output"
    else if a == ["panic"] || b == ["panic"] then
      if a == b then "ok both-panic" else "bad go-panic-on-one-side"
    else if a == ["timeout"] || b == ["timeout"] then "bad timeout"
    else if a == ["err"] && b == ["err"] then "ok"
    else if a == ["err"] then "ok error-only-without-optimization"
    else if b == ["err"] then "bad optimized-run-fails"
    else
      match normRows a, normRows b with
      | some ra, some rb =>
        if ra == rb then "ok"
        else
          match parseQ rest with
          | some q =>
            -- known only when an ORDER BY … LIMIT cut inside the plan is ambiguous AND both runs print exactly what the
            -- model of the engine's tie-break predicts for them
            let ma := runTop q.db q.top q.p0
            let mb := match optimize fuelBound q.p0 with
              | .ok p1 => runTop q.db q.top p1
              | _ => "?"
            let sameAs (m : String) (rows : List String) : Bool :=
              match normRows (tokens m) with
              | some mr => mr == rows
              | none => false
            if anyAmbiguous q.db q.p0 [] && sameAs ma ra && sameAs mb rb then
              "known orderby-limit-tiebreak-pruning rows differ only through the tie-break of an ambiguous ORDER BY … LIMIT cut"
            else "bad optimized-result-differs"
          | none => "bad unparsable-op"
      | _, _ => "bad unparsable-impl-output"
  | _ => "ok"

end Octo.Drv.C04
