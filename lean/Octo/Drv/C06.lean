import Octo.Drv.Codec
import Octo.Model.ErrFlow
/-!
  C06 driver.   errq <mode> <sink> PLAN <plan> SQL <hex> FILES …
  plan := src <kind> <0|1> | un <kind> <0|1> <plan> | bin <kind> <0|1> <plan> <plan> | sub <kind> <0|1> <qkind> <plan> <plan>
  output: ok | err | panic
-/
namespace Octo.Drv.C06
open Octo.ErrFlow Octo.Gen.ErrorFlow

def kindName (k : Kind) : String := ((reprStr k).splitOn ".").getLast!

def kindOf (s : String) : Option Kind := allKinds.find? fun k => kindName k == s

partial def parsePlan : List String → Option (Plan × List String)
  | "src" :: k :: f :: rest => (kindOf k).map fun k => (.source k (f == "1"), rest)
  | "un" :: k :: f :: rest => do
    let k ← kindOf k
    let (c, r) ← parsePlan rest
    pure (.unary k (f == "1") c, r)
  | "bin" :: k :: f :: rest => do
    let k ← kindOf k
    let (l, r) ← parsePlan rest
    let (rr, r) ← parsePlan r
    pure (.binary k (f == "1") l rr, r)
  | "sub" :: k :: f :: qk :: rest => do
    let k ← kindOf k
    let qk ← kindOf qk
    let (c, r) ← parsePlan rest
    let (s, r) ← parsePlan r
    pure (.withSub k (f == "1") qk c s, r)
  | _ => none

def parseOp : List String → Option (Kind × Plan)
  | "errq" :: _mode :: sink :: "PLAN" :: rest => do
    let s ← kindOf sink
    let (p, _) ← parsePlan rest
    pure (s, p)
  | _ => none

/-- what the code does according to the error-flow table generated from its sources -/
def model (toks : List String) : String :=
  match parseOp toks with
  | some (s, p) => match runQuery propagates s p with | .ok => "ok" | .err => "err"
  | none => "bad-op"

/-- the property: a failure anywhere ⇒ non-zero exit with a message; no failure ⇒ success; never a crash -/
def judge (toks : List String) (out : List String) : String :=
  match parseOp toks with
  | some (_, p) =>
    if out == ["panic"] then "bad go-panic"
    else if hasFailure p then (if out == ["err"] then "ok" else s!"bad error-swallowed got={String.intercalate " " out}")
    else (if out == ["ok"] then "ok" else s!"bad spurious-failure got={String.intercalate " " out}")
  | none => "bad unparsable-op"

end Octo.Drv.C06
