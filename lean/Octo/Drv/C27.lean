import Octo.Drv.PluginsCodec
import Octo.Gen.InstallSteps
/-!
  C27 driver.

    crash install VT… CT… FS… CFG… JOB… AT <step> <tear|->
    crash addrepo VT… CT… FS… CFG… REPO <slughex> <urlhex> AT <step> <tear|->
    start VT… CT… FS… CFG…

  `crash`: the real Install / AddRepository is stopped just before filesystem step <step> (numbered over the crash
  points of the Go source, `Octo.Gen.InstallSteps`); with a tear, that step — a write — lets only <tear> bytes through
  and the stop happens before the next step. Output (model and implementation alike):

    T <n> <entry>…  S <start-up result>  R <runnable bits|->  P <ok|err:repositories>

  the tree after the crash, what the next start-up does (which version every database resolves to), whether the
  resolved versions have a complete binary, and whether the repositories directory is still readable.

  `judge`: the start-up must succeed, every database must resolve to the version it resolved to before the operation
  or to the one it resolves to after the complete operation, with a complete binary, and the repositories must load —
  provided the initial tree was healthy in the same sense.
-/
namespace Octo.Drv.C27
open Octo Octo.Fs Octo.Plugins Octo.Drv.Plugins

/-- number of model primitives behind one Go-level step, and whether its last primitive is a tearable write -/
def stepShape (nEntries : Nat) (call : String) : Nat × Bool :=
  match call with
  | "io.Copy" => (1, true)
  | "os.WriteFile" => (2, true)
  | "Unarchive" => (3 * nEntries, false)
  | _ => (1, false)

/-- Go-level (step, tear) → model-level (k, t) -/
def locate (shapes : List (Nat × Bool)) (step : Nat) (tear : Option Nat) : Nat × Nat :=
  let before := ((shapes.take step).map (·.1)).foldl (· + ·) 0
  match shapes[step]?, tear with
  | some (n, true), some t => (before + (n - 1), t)
  | _, _ => (before, 0)

def sentinel : Bytes := [35, 69, 78, 68]   -- "#END"

def endsWith (c s : Bytes) : Bool := (c.drop (c.length - s.length)) == s

def runBit (S : Sem Ver Con) (fs : Fs) (p : Db Con × Ver) : Char :=
  match get fs (binaryPath p.1.type (S.toStr p.2)) with
  | some (.file c) => if endsWith c sentinel then '1' else 't'
  | _ => '0'

def observe (S : Sem Ver Con) (fs : Fs) (cfg : List (Db Con)) : String :=
  let st := startup S fs cfg
  let bits := match st with
    | .ok res => if res.isEmpty then "-" else String.ofList (res.map (runBit S fs))
    | .error _ => "-"
  let repos := match loadRepositories S fs with
    | .ok _ => "ok"
    | .error _ => "err:repositories"
  s!"S {encStartup st} R {bits} P {repos}"

structure Op where
  S : Sem Ver Con
  fs : Fs
  cfg : List (Db Con)
  prims : List Prim
  shapes : List (Nat × Bool)
  reinstall : Bool
  at_ : Nat × Option Nat

def installOp (vt : List VRow) (ct : List Con) (fs : Fs) (cfg : List (Db Con)) (job : Job) (at_ : Nat × Option Nat) : Op :=
  let S := sem vt ct
  match installPick S job.constraint (job.manifest.filterMap S.parse) with
  | none => { S := S, fs := fs, cfg := cfg, prims := [], shapes := [], reinstall := false, at_ := at_ }
  | some v =>
    let vn := S.toStr v
    let handlers := Json.registerExtensions fs job.ref.name job.exts
    let ij : InstallJob := { ref := job.ref, v := vn, staging := downloadPrims job.ref vn job.archive job.entries, newHandlers := handlers }
    let steps := Gen.InstallSteps.install ++ (match handlers with | some _ => Gen.InstallSteps.saveFileExtensionHandlers | none => [])
    { S := S, fs := fs, cfg := cfg, prims := installPrims ij,
      shapes := steps.map (fun s => stepShape job.entries.length s.2.1),
      reinstall := (get fs (versionDir job.ref vn)).isSome, at_ := at_ }

def parseOp (toks : List String) : Option Op :=
  match toks with
  | "crash" :: "install" :: rest => do
    let (vt, rest) ← section_ "VT" parseVRow rest
    let (ct, rest) ← section_ "CT" (parseCon vt) rest
    let (es, rest) ← section_ "FS" parseEntry rest
    let (cfg, rest) ← section_ "CFG" (parseDb ct) rest
    let (job, rest) ← parseJob vt ct rest
    let at_ ← parseAt rest
    pure (installOp vt ct (fsOfEntries es) cfg job at_)
  | "crash" :: "addrepo" :: rest => do
    let (vt, rest) ← section_ "VT" parseVRow rest
    let (ct, rest) ← section_ "CT" (parseCon vt) rest
    let (es, rest) ← section_ "FS" parseEntry rest
    let (cfg, rest) ← section_ "CFG" (parseDb ct) rest
    match rest with
    | "REPO" :: slug :: url :: rest =>
      let at_ ← parseAt rest
      pure { S := sem vt ct, fs := fsOfEntries es, cfg := cfg,
             prims := addRepoPrims (nameOfHex slug) (Json.encodeRepoEntry (nameOfHex url)),
             shapes := Gen.InstallSteps.addRepository.map (fun s => stepShape 0 s.2.1),
             reinstall := false, at_ := at_ }
    | _ => none
  | "start" :: rest => do
    let (vt, rest) ← section_ "VT" parseVRow rest
    let (ct, rest) ← section_ "CT" (parseCon vt) rest
    let (es, rest) ← section_ "FS" parseEntry rest
    let (cfg, _) ← section_ "CFG" (parseDb ct) rest
    pure { S := sem vt ct, fs := fsOfEntries es, cfg := cfg, prims := [], shapes := [], reinstall := false, at_ := (0, none) }
  | _ => none

def Op.crashed (op : Op) : Fs :=
  let (k, t) := locate op.shapes op.at_.1 op.at_.2
  crash k t op.prims op.fs

def model (toks : List String) : String :=
  match parseOp toks with
  | none => "bad-op"
  | some op =>
    let fs := op.crashed
    match toks with
    | "start" :: _ => observe op.S fs op.cfg
    | _ => encTree fs ++ " " ++ observe op.S fs op.cfg

/-! ### the oracle -/

/-- the part of the implementation's output after the tree -/
def afterTree : List String → List String
  | "S" :: rest => "S" :: rest
  | _ :: rest => afterTree rest
  | [] => []

def healthy (op : Op) : Bool :=
  match startup op.S op.fs op.cfg with
  | .error _ => false
  | .ok res => res.all (fun p => runBit op.S op.fs p == '1') &&
               (match loadRepositories op.S op.fs with | .ok _ => true | .error _ => false)

def resolvedOf (st : Except Err (List (Db Con × Ver))) : List (FName × FName) :=
  match st with
  | .ok res => res.map (fun p => (p.1.name, p.2.orig))
  | .error _ => []

/-- the index of the Go-level step `install:move-into-place`: a crash just before it is the swap window -/
def windowStep : Nat := (Gen.InstallSteps.install.takeWhile (fun s => s.1 != "install:move-into-place")).length

def judge (toks : List String) (out : List String) : String :=
  if out == ["panic"] then "bad panic" else
  match toks, parseOp toks with
  | "crash" :: _, some op =>
    if !healthy op then "ok unhealthy-initial-state" else
    let before := resolvedOf (startup op.S op.fs op.cfg)
    let after := resolvedOf (startup op.S (run op.prims op.fs) op.cfg)
    let verdict : String :=
      match afterTree out with
      | "S" :: "ok" :: rest =>
        let n := op.cfg.length
        let dbs := rest.take n
        match rest.drop n with
        | ["R", bits, "P", repos] =>
          let wrong := dbs.any (fun t =>
            match t.splitOn "=" with
            | [d, v] => !(before.contains (nameOfHex d, nameOfHex v) || after.contains (nameOfHex d, nameOfHex v))
            | _ => true)
          if dbs.length != n then "bad start-up-output-incomplete"
          else if wrong then "bad database-resolves-to-neither-the-previous-nor-the-new-version"
          else if n > 0 && bits.toList.any (· != '1') then "bad resolved-version-has-no-complete-binary"
          else if repos != "ok" then "bad repositories-directory-unreadable-after-crash"
          else "ok"
        | _ => "bad unparsable-impl-output"
      | "S" :: e :: _ => "bad start-up-fails-after-crash:" ++ e
      | _ => "bad unparsable-impl-output"
    if verdict == "ok" then "ok"
    else if op.reinstall && op.at_.1 == windowStep then
      "known reinstall-swap-window " ++ verdict
    else verdict
  | _, _ => "ok"

end Octo.Drv.C27
