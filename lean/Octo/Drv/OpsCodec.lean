import Octo.Drv.Codec
import Octo.Model.OpSpec
/-!
  Line protocol of the operator checks (C15, C18), shared by both drivers.

    <kind> <config…> | <N|F> <stream>            one node over a scripted source
    pipe <k> <kind> <config…> … | <N|F> <stream>   k nodes, the first one next to the source

  N = the source ends normally, F = it returns an (injected) error after its last message.
  Expressions (prefix):  V<level>.<index> | K <value> | EQ e e | LT e e | ADD e e | AND e e | OR e e | AI e
  Node configs:
    filter <e> | map <n> <e>… | distinct | unnest <idx> | limit <n> | etbuf
    sgroup <nk> <e>… <na> (<count|sum|max> <e>)…  | cgroup <etIdx|-1> <nk> <e>… <na> (<agg> <e>)…
    lookup <e> <N|F> <joined stream> ]     (joined side = Filter(<e>) over a scripted source; level 1 = source record)
    orderby <nk> (<e> <dir>)… <limit|none> <0|1 noRetractionsPossible> | printer … (same)
  Output:  <ok|err:injected|err:runtime|panic> [ | <stream> ]
-/
namespace Octo.Drv.Ops
open Octo Octo.Codec Octo.Ops

inductive Node where
  | filter (e : Expr)
  | map (es : List Expr)
  | distinct
  | unnest (idx : Nat)
  | limit (n : Int)
  | etbuf
  | sgroup (keys : List Expr) (aggs : List (AggKind × Expr))
  | cgroup (etIdx : Option Nat) (keys : List Expr) (aggs : List (AggKind × Expr))
  | lookup (pred : Expr) (jmsgs : List Msg) (jfail : Bool)
  | orderby (keys : List (Expr × Int)) (limit : Option Int) (noRetr : Bool)
  | printer (keys : List (Expr × Int)) (limit : Option Int) (noRetr : Bool)
  deriving Inhabited

def Node.kind : Node → String
  | .filter _ => "filter" | .map _ => "map" | .distinct => "distinct" | .unnest _ => "unnest"
  | .limit _ => "limit" | .etbuf => "etbuf" | .sgroup .. => "sgroup" | .cgroup .. => "cgroup"
  | .lookup .. => "lookup" | .orderby .. => "orderby" | .printer .. => "printer"

partial def parseExpr : List String → Option (Expr × List String)
  | [] => none
  | tok :: rest =>
    let bin (f : Expr → Expr → Expr) : Option (Expr × List String) := do
      let (a, r) ← parseExpr rest
      let (b, r) ← parseExpr r
      pure (f a b, r)
    if tok == "K" then (parseValue rest).map fun (v, r) => (.const v, r)
    else if tok == "EQ" then bin .eq
    else if tok == "LT" then bin .lt
    else if tok == "ADD" then bin .add
    else if tok == "AND" then bin .and
    else if tok == "OR" then bin .or
    else if tok == "AI" then (parseExpr rest).map fun (e, r) => (.assertInt e, r)
    else if tok.startsWith "V" then
      match ((tok.drop 1).toString).splitOn "." with
      | [l, i] => some (.var l.toNat! i.toNat!, rest)
      | _ => none
    else none

def parseExprs : Nat → List String → Option (List Expr × List String)
  | 0, r => some ([], r)
  | k + 1, r => do
    let (e, r) ← parseExpr r
    let (es, r) ← parseExprs k r
    pure (e :: es, r)

def parseAggKind (s : String) : Option AggKind :=
  if s == "count" then some .count else if s == "sum" then some .sum else if s == "max" then some .max else none

def parseAggs : Nat → List String → Option (List (AggKind × Expr) × List String)
  | 0, r => some ([], r)
  | k + 1, a :: r => do
    let kind ← parseAggKind a
    let (e, r) ← parseExpr r
    let (as, r) ← parseAggs k r
    pure ((kind, e) :: as, r)
  | _, [] => none

def parseOrdKeys : Nat → List String → Option (List (Expr × Int) × List String)
  | 0, r => some ([], r)
  | k + 1, r => do
    let (e, r) ← parseExpr r
    match r with
    | d :: r =>
      let (ks, r) ← parseOrdKeys k r
      pure ((e, parseInt! d) :: ks, r)
    | [] => none

def splitAt (sep : String) (toks : List String) : List String × List String :=
  (toks.takeWhile (· != sep), (toks.dropWhile (· != sep)).drop 1)

def parseSrc : List String → Option (List Msg × Bool)
  | f :: rest => (parseMsgs rest).map fun ms => (ms, f == "F")
  | [] => none

def parseGroup (r : List String) : Option (List Expr × List (AggKind × Expr) × List String) :=
  match r with
  | nk :: r => do
    let (ks, r) ← parseExprs nk.toNat! r
    match r with
    | na :: r =>
      let (as, r) ← parseAggs na.toNat! r
      pure (ks, as, r)
    | [] => none
  | [] => none

def parseOrd (r : List String) : Option (List (Expr × Int) × Option Int × Bool × List String) :=
  match r with
  | nk :: r => do
    let (ks, r) ← parseOrdKeys nk.toNat! r
    match r with
    | lim :: nr :: r => pure (ks, if lim == "none" then none else some (parseInt! lim), nr == "1", r)
    | _ => none
  | [] => none

def parseNode : List String → Option (Node × List String)
  | [] => none
  | kind :: r =>
    if kind == "filter" then (parseExpr r).map fun (e, r) => (.filter e, r)
    else if kind == "map" then
      match r with
      | n :: r => (parseExprs n.toNat! r).map fun (es, r) => (.map es, r)
      | [] => none
    else if kind == "distinct" then some (.distinct, r)
    else if kind == "unnest" then
      match r with
      | i :: r => some (.unnest i.toNat!, r)
      | [] => none
    else if kind == "limit" then
      match r with
      | n :: r => some (.limit (parseInt! n), r)
      | [] => none
    else if kind == "etbuf" then some (.etbuf, r)
    else if kind == "sgroup" then (parseGroup r).map fun (ks, as, r) => (.sgroup ks as, r)
    else if kind == "cgroup" then
      match r with
      | i :: r => (parseGroup r).map fun (ks, as, r) =>
          (.cgroup (if i == "-1" then none else some i.toNat!) ks as, r)
      | [] => none
    else if kind == "lookup" then do
      let (e, r) ← parseExpr r
      let (js, r) := splitAt "]" r
      let (jm, jf) ← parseSrc js
      pure (.lookup e jm jf, r)
    else if kind == "orderby" then (parseOrd r).map fun (ks, lim, nr, r) => (.orderby ks lim nr, r)
    else if kind == "printer" then (parseOrd r).map fun (ks, lim, nr, r) => (.printer ks lim nr, r)
    else none

def parseNodes : Nat → List String → Option (List Node × List String)
  | 0, r => some ([], r)
  | k + 1, r => do
    let (n, r) ← parseNode r
    let (ns, r) ← parseNodes k r
    pure (n :: ns, r)

structure Line where
  nodes : List Node
  msgs : List Msg
  fail : Bool

def parseLine (toks : List String) : Option Line := do
  let (cfg, src) := splitAt "|" toks
  let (ms, f) ← parseSrc src
  match cfg with
  | "pipe" :: k :: r =>
    let (ns, _) ← parseNodes k.toNat! r
    pure { nodes := ns, msgs := ms, fail := f }
  | _ =>
    let (n, _) ← parseNode cfg
    pure { nodes := [n], msgs := ms, fail := f }

/-! ### running the model -/
def evalRow (ctx : List Row) (es : List Expr) (x : Row) : Except Err Row := evalAll (x :: ctx) es

def aggOf (aggs : List (AggKind × Expr)) : GAgg (List AggCell) := composite (aggs.map (·.1))

def runNode (ctx : List Row) (n : Node) (ms : List Msg) (fail : Bool) : Out :=
  match n with
  | .filter e => (filterOp fun x => e.eval (x :: ctx)).run ms fail
  | .map es => (mapOp (evalRow ctx es)).run ms fail
  | .distinct => distinctOp.run ms fail
  | .unnest i => (unnestOp i).run ms fail
  | .limit k => limitNode k ms fail
  | .etbuf => etbOp.run ms fail
  | .sgroup ks as => (simpleGroupOp (aggOf as) (evalRow ctx ks) (evalRow ctx (as.map (·.2)))).run ms fail
  | .cgroup i ks as => ctgbNode (aggOf as) (evalRow ctx ks) (evalRow ctx (as.map (·.2))) i ms fail
  | .lookup p jm jf => (lookupOp fun x => (filterOp fun j => p.eval (j :: x :: ctx)).run jm jf).run ms fail
  | .orderby ks lim nr => orderNode (ks.map (·.2)) (evalRow ctx (ks.map (·.1))) lim nr ms fail
  | .printer ks lim nr => (printerOp (ks.map (·.2)) (evalRow ctx (ks.map (·.1))) lim nr).run ms fail

def runNodes : List Node → Out → Out
  | [], up => up
  | n :: ns, up => runNodes ns (feed up (runNode [] n))

def runLine (l : Line) : Out := runNodes l.nodes (l.msgs, if l.fail then some .injected else none)

def errClass : Option Err → String
  | none => "ok"
  | some .injected => "err:injected"
  | some .runtime => "err:runtime"
  | some .limit => "err:runtime"
  | some .panic => "panic"

def isWm : Msg → Bool
  | .wm _ => true
  | _ => false

def strLe (a b : String) : Bool := !decide (b < a)

/-- hash-map iteration order is canonicalised: the records of the final flush of SimpleGroupBy are
    printed sorted by their encoding (its watermarks all precede them) -/
def canonMsgs (nodes : List Node) (ms : List Msg) : List String :=
  match nodes.getLast? with
  | some (.sgroup ..) =>
    ((ms.filter isWm).map encodeMsg) ++ (((ms.filter (!isWm ·)).map encodeMsg).mergeSort strLe)
  | _ => ms.map encodeMsg

def encodeOut (nodes : List Node) (o : Out) : String :=
  if o.2 == some .panic then "panic"
  else if o.1.isEmpty then errClass o.2
  else errClass o.2 ++ " | " ++ String.intercalate " ; " (canonMsgs nodes o.1)

def model (toks : List String) : String :=
  match parseLine toks with
  | some l => encodeOut l.nodes (runLine l)
  | none => "bad-op"

/-- what the implementation printed: class and messages -/
def parseImplOut (out : List String) : Option (String × List Msg) :=
  match out with
  | [] => none
  | cls :: rest =>
    match rest with
    | [] => some (cls, [])
    | "|" :: ms => (parseMsgs ms).map fun m => (cls, m)
    | _ => none

/-- incremental validity check of a changelog: no prefix retracts an absent row -/
def validFast (log : List Rec) : Bool :=
  let rec go : List Rec → List (Row × Int) → Bool
    | [], _ => true
    | r :: rs, c =>
      let n : Int := match aget c r.vals with
        | some p => p.2
        | none => 0
      if r.retr then (if n ≤ 0 then false else go rs (aput c r.vals (n - 1)))
      else go rs (aput c r.vals (n + 1))
  go log []

end Octo.Drv.Ops
