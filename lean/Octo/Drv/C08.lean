import Octo.Drv.Codec
import Octo.Model.TypingBodies
import Octo.Model.TypingCovers
/-! C08 driver: what the typing model prints for an op line, and the property oracle (judge).
    Op and output formats: see `harness/c08.go`. -/
namespace Octo.Drv.C08
open Octo Octo.Codec Octo.Tc

def nameOfTok (tok : String) : Name := parseName (tok.drop 1).toString
def tokOfName (n : Name) : String := "x" ++ encodeName n

/-- logical tree -/
partial def parseU : List String → Option (LExpr × List String)
  | "c" :: rest => (parseValue rest).map fun (v, r) => (.const v, r)
  | "v" :: n :: rest => some (.var n.toNat!, rest)
  | "f" :: nmTok :: k :: rest => (parseUs k.toNat! rest).map fun (as, r) => (.call (nameOfTok nmTok) as, r)
  | "q" :: k :: rest => (parseUs k.toNat! rest).map fun (as, r) => (.coalesce as, r)
  | "t" :: k :: rest => (parseUs k.toNat! rest).map fun (as, r) => (.tuple as, r)
  | "a" :: rest => do
    let (l, r) ← parseU rest
    let (rr, r') ← parseU r
    pure (.and l rr, r')
  | "o" :: rest => do
    let (l, r) ← parseU rest
    let (rr, r') ← parseU r
    pure (.or l rr, r')
  | "k" :: tid :: rest => (parseU rest).map fun (e, r) => (.cast tid.toNat! e, r)
  | "g" :: f :: rest => (parseU rest).map fun (e, r) => (.field (nameOfTok f) e, r)
  | _ => none
where
  parseUs : Nat → List String → Option (List LExpr × List String)
    | 0, rest => some ([], rest)
    | k + 1, rest => do
      let (e, r) ← parseU rest
      let (es, r') ← parseUs k r
      pure (e :: es, r')

/-- typed tree (what the implementation printed) -/
partial def parseP : List String → Option (PExpr × List String)
  | "C" :: rest => do
    let (t, r) ← parseTy rest
    let (v, r') ← parseValue r
    pure (.const t v, r')
  | "V" :: rest => do
    let (t, r) ← parseTy rest
    match r with
    | n :: r' => pure (.var t n.toNat!, r')
    | [] => none
  | "F" :: rest => do
    let (t, r) ← parseTy rest
    match r with
    | nmTok :: idx :: k :: r' =>
      let (as, r'') ← parsePs k.toNat! r'
      pure (.call t (nameOfTok nmTok) idx.toNat! false as, r'')
    | _ => none
  | "A" :: rest => nary rest PExpr.and
  | "O" :: rest => nary rest PExpr.or
  | "Q" :: rest => nary rest PExpr.coalesce
  | "T" :: rest => nary rest PExpr.tuple
  | "S" :: rest => do
    let (t, r) ← parseTy rest
    let (target, r') ← parseTy r
    let (e, r'') ← parseP r'
    pure (.assert t target e, r'')
  | "K" :: rest => do
    let (t, r) ← parseTy rest
    match r with
    | tid :: r' =>
      let (e, r'') ← parseP r'
      pure (.cast t tid.toNat! e, r'')
    | [] => none
  | "G" :: rest => do
    let (t, r) ← parseTy rest
    match r with
    | f :: r' =>
      let (e, r'') ← parseP r'
      pure (.field t (nameOfTok f) e, r'')
    | [] => none
  | _ => none
where
  parsePs : Nat → List String → Option (List PExpr × List String)
    | 0, rest => some ([], rest)
    | k + 1, rest => do
      let (e, r) ← parseP rest
      let (es, r') ← parsePs k r
      pure (e :: es, r')
  nary (rest : List String) (mk : Ty → List PExpr → PExpr) : Option (PExpr × List String) := do
    let (t, r) ← parseTy rest
    match r with
    | k :: r' =>
      let (as, r'') ← parsePs k.toNat! r'
      pure (mk t as, r'')
    | [] => none

partial def encodeP : PExpr → String
  | .const t v => s!"C {encodeTy t} {encodeValue v}"
  | .var t n => s!"V {encodeTy t} {n}"
  | .call t name idx _ as => String.intercalate " " (s!"F {encodeTy t} {tokOfName name} {idx} {as.length}" :: as.map encodeP)
  | .and t as => String.intercalate " " (s!"A {encodeTy t} {as.length}" :: as.map encodeP)
  | .or t as => String.intercalate " " (s!"O {encodeTy t} {as.length}" :: as.map encodeP)
  | .coalesce t as => String.intercalate " " (s!"Q {encodeTy t} {as.length}" :: as.map encodeP)
  | .tuple t as => String.intercalate " " (s!"T {encodeTy t} {as.length}" :: as.map encodeP)
  | .assert t target e => s!"S {encodeTy t} {encodeTy target} {encodeP e}"
  | .cast t tid e => s!"K {encodeTy t} {tid} {encodeP e}"
  | .field t f e => s!"G {encodeTy t} {tokOfName f} {encodeP e}"

partial def preorder : PExpr → List PExpr
  | p@(.call _ _ _ _ as) | p@(.and _ as) | p@(.or _ as) | p@(.coalesce _ as) | p@(.tuple _ as) => p :: as.flatMap preorder
  | p@(.assert _ _ e) | p@(.cast _ _ e) | p@(.field _ _ e) => p :: preorder e
  | p => [p]

/-- `<L> ctx… <m> row…` -/
structure Env where
  ctx : Ctx
  rows : List (List (List Value))

def parseCtx : Nat → List String → Option (List (Nat × Ty) × List String)
  | 0, rest => some ([], rest)
  | k + 1, n :: rest => do
    let (t, r) ← parseTy rest
    let (fs, r') ← parseCtx k r
    pure ((n.toNat!, t) :: fs, r')
  | _, [] => none

def parseCtxs : Nat → List String → Option (Ctx × List String)
  | 0, rest => some ([], rest)
  | l + 1, k :: rest => do
    let (c, r) ← parseCtx k.toNat! rest
    let (cs, r') ← parseCtxs l r
    pure (c :: cs, r')
  | _, [] => none

def parseRow : Ctx → List String → Option (List (List Value) × List String)
  | [], rest => some ([], rest)
  | c :: cs, rest => do
    let (vs, r) ← parseValues c.length rest
    let (vss, r') ← parseRow cs r
    pure (vs :: vss, r')

def parseRows (Γ : Ctx) : Nat → List String → Option (List (List (List Value)) × List String)
  | 0, rest => some ([], rest)
  | m + 1, rest => do
    let (row, r) ← parseRow Γ rest
    let (rows, r') ← parseRows Γ m r
    pure (row :: rows, r')

def parseEnv : List String → Option (Env × List String)
  | l :: rest => do
    let (Γ, r) ← parseCtxs l.toNat! rest
    match r with
    | m :: r' =>
      let (rows, r'') ← parseRows Γ m.toNat! r'
      pure ({ ctx := Γ, rows := rows }, r'')
    | [] => none
  | [] => none

def encodeRes : Res → String
  | .val v => encodeValue v
  | .err => "err"
  | .panic => "panic"
  | .unmodelled => "?"

def encodeTcErr : TcErr → String
  | .reject => "tc-reject"
  | .crash => "tc-crash"
  | .fuel => "fuel"

/-- the function environment of the driver: the generated table with the modelled bodies -/
def theSig : Sig := sigOf bodyOf

def modelEv (toks : List String) : Option String := do
  let (env, r) ← parseEnv toks
  let (u, _) ← parseU r
  match typecheck theSig env.ctx u with
  | .error e => pure (encodeTcErr e)
  | .ok p =>
    let nodes := preorder p
    let rows := env.rows.map fun ρ => String.intercalate " " (nodes.map fun n => encodeRes (run theSig env.ctx ρ n))
    pure (encodeP p ++ " | " ++ String.intercalate " ; " rows)

def modelAgg (toks : List String) : Option String := do
  match toks with
  | nmTok :: rest =>
    let name := nameOfTok nmTok
    let (t, r) ← parseTy rest
    match r with
    | m :: r' =>
      let (vals, _) ← parseValues m.toNat! r'
      let Γ : Ctx := [[(0, t)]]
      match aggTypecheck (aggDescrsOf name) (.var t 0) with
      | .error e => pure (encodeTcErr e)
      | .ok (i, p, o) =>
        let inputs := vals.map fun v => run theSig Γ [[v]] p
        -- no record, no group: the node produces nothing
        let res := if vals.isEmpty then "none" else encodeRes (aggRun (aggBodyOf name i) inputs [])
        pure s!"{i} {encodeTy p.ty} {encodeTy o} | {res}"
    | [] => none
  | [] => none

def model (toks : List String) : String :=
  match toks with
  | "ev" :: rest => (modelEv rest).getD "bad-op"
  | "agg" :: rest => (modelAgg rest).getD "bad-op"
  | "qry" :: _ => "?"          -- whole queries through the CLI are oracle-only
  | _ => "bad-op"

/-! ### the oracle: every value the implementation printed matches the static type the implementation reported -/

def splitOn (sep : String) (toks : List String) : List (List String) :=
  let (cur, acc) := toks.foldl (fun (st : List String × List (List String)) t =>
    if t == sep then ([], st.1.reverse :: st.2) else (t :: st.1, st.2)) ([], [])
  (cur.reverse :: acc).reverse

/-- values of one row, one per node (`none` = `err` / `panic`) -/
partial def parseRowVals : List String → Option (List (Option Value))
  | [] => some []
  | "err" :: rest => (parseRowVals rest).map (none :: ·)
  | "panic" :: rest => (parseRowVals rest).map (none :: ·)
  | toks => do
    let (v, r) ← parseValue toks
    let vs ← parseRowVals r
    pure (some v :: vs)

def checkRow (tys : List Ty) (vals : List (Option Value)) (row : Nat) : Option String :=
  let rec go (i : Nat) : List Ty → List (Option Value) → Option String
    | t :: ts, some v :: vs =>
      if conforms t v then go (i + 1) ts vs
      else some s!"bad row {row} node {i}: value {encodeValue v} does not match the reported type {encodeTy t}"
    | _ :: ts, none :: vs => go (i + 1) ts vs
    | [], [] => none
    | _, _ => some s!"bad row {row}: number of values differs from the number of nodes"
  go 0 tys vals

/-- does the typed tree contain a constant whose own `Value.Type()` computation merges differently shaped structs / tuples
    (C10 finding `typeof-list-shape-mismatch`)?  Such a constant does not match the type reported for it; SQL text cannot
    denote one. -/
partial def hasMisTypedConst (p : PExpr) : Bool :=
  (preorder p).any fun n => match n with
    | .const _ v => !v.typeOfShapeOk
    | _ => false

/-! ### the tie of the extracted result kinds (`Octo.Gen.FuncTable`) to what the real function bodies return -/

open Octo.Gen.FuncTable in
/-- can a `return` of this kind have produced `v` on the argument values `args`? -/
def producesB : Kind → List Value → Value → Bool
  | .ctor tid, _, v => v.rank == tid
  | .null, _, v => v.rank == 0
  | .arg i, args, v => match args[i]? with
    | some a => encodeValue a == encodeValue v
    | none => false
  | .elem i, args, v => match args[i]? with
    | some (.list xs) => xs.any fun x => encodeValue x == encodeValue v
    | _ => false
  | .err, _, _ => false

/-- walks the typed tree along the preorder list of node values; returns (own value, first complaint, remaining values) -/
partial def kindWalk : PExpr → List (Option Value) → Option Value × Option String × List (Option Value)
  | p, [] => (none, some s!"too few values for {encodeP p}", [])
  | p, own :: rest =>
    let kids : List PExpr := match p with
      | .call _ _ _ _ as | .and _ as | .or _ as | .coalesce _ as | .tuple _ as => as
      | .assert _ _ e | .cast _ _ e | .field _ _ e => [e]
      | _ => []
    let (kidVals, complaint, rest') := kids.foldl (fun (acc : List (Option Value) × Option String × List (Option Value)) k =>
      let (v, c, r) := kindWalk k acc.2.2
      (acc.1 ++ [v], (acc.2.1 <|> c), r)) ([], none, rest)
    let mine : Option String := match p, own with
      | .call _ name idx _ _, some v =>
        (match kidVals.mapM id with
         | none => none                                  -- an argument failed: the body was not reached
         | some args =>
           match Octo.Gen.FuncTable.table.find? (fun e => e.name == name && e.idx == idx) with
           | none => some s!"no table entry for {tokOfName name}/{idx}"
           | some e =>
             if e.strict && v.rank == 0 && args.any (fun a => a.rank == 0) then none   -- the strict NULL check, not the body
             else if e.kinds.any (fun k => producesB k args v) then none
             else some s!"function {tokOfName name}/{idx} returned {encodeValue v}, which none of the result kinds extracted from its body accounts for")
      | _, _ => none
    (own, (complaint <|> mine), rest')

def judgeEv (out : List String) : String :=
  match out with
  | ["tc-reject"] => "ok"
  | ["tc-crash"] => "ok"
  | _ =>
    match splitOn "|" out with
    | [tree, rows] =>
      match parseP tree with
      | some (p, []) =>
        let tys := (preorder p).map PExpr.ty
        -- `ok` is annotated when the line lies outside the hypotheses of `Octo.C08.typing_sound` (it is judged all the same)
        let okMsg := if !coalesceOk p then "ok outside-theorem:coalesce-not-covered"
          else if hasMisTypedConst p then "ok outside-theorem:mistyped-constant" else "ok"
        let rec go (i : Nat) : List (List String) → String
          | [] => okMsg
          | r :: rs =>
            match parseRowVals r with
            | none => "bad unparsable-row"
            | some vals =>
              match checkRow tys vals i with
              | some msg =>
                if hasMisTypedConst p then
                  "known const-typeof-shape-mismatch " ++ (msg.drop 4).toString
                else msg
              | none =>
                -- the translator's result kinds must account for what every function body returned
                match (kindWalk p vals).2.1 with
                | some c => s!"bad row {i}: result-kind extraction broken: {c}"
                | none => go (i + 1) rs
        go 0 (splitOn ";" rows)
      | _ => "bad unparsable-typed-tree"
    | _ => "bad unparsable-impl-output"

def judgeAgg (out : List String) : String :=
  match out with
  | ["tc-reject"] => "ok"
  | ["tc-crash"] => "ok"
  | _ =>
    match splitOn "|" out with
    | [head, res] =>
      match head with
      | _ :: tys =>
        (match parseTy tys with
         | some (_, r) =>
           (match parseTy r with
            | some (o, []) =>
              (match res with
               | ["err"] => "ok"
               | ["panic"] => "ok"
               | ["none"] => "ok"
               | _ =>
                 match parseValue res with
                 | some (v, []) =>
                   if conforms o v then "ok"
                   else s!"bad aggregate value {encodeValue v} does not match the reported column type {encodeTy o}"
                 | _ => "bad unparsable-aggregate-value")
            | _ => "bad unparsable-aggregate-head")
         | none => "bad unparsable-aggregate-head")
      | [] => "bad unparsable-aggregate-head"
    | _ => "bad unparsable-impl-output"

/-! ### whole queries: the cells of `-o json` against the column types of `--describe` -/

/-- a JSON cell -/
inductive JV where
  | null | int | float | bool | str
  | arr (xs : List JV)
  /-- an object (not judged) -/
  | obj
  deriving Repr, Inhabited

partial def parseJV : List String → Option (JV × List String)
  | [] => none
  | tok :: rest =>
    if tok == "n" then some (.null, rest)
    else if tok == "J" then some (.obj, rest)
    else match tok.front with
      | 'i' => some (.int, rest)
      | 'f' => some (.float, rest)
      | 'b' => some (.bool, rest)
      | 's' => some (.str, rest)
      | 'L' => (many (tok.drop 1).toString.toNat! rest).map fun (xs, r) => (.arr xs, r)
      | _ => none
where
  many : Nat → List String → Option (List JV × List String)
    | 0, rest => some ([], rest)
    | k + 1, rest => do
      let (v, r) ← parseJV rest
      let (vs, r') ← many k r
      pure (v :: vs, r')

mutual
/-- can the JSON text be the rendering of a value of this type?  A number without a fraction may be an Int, a whole Float or
    (never printed so, but harmless) nothing else; a string may be a String, a Time or a Duration; objects are not judged. -/
partial def jsonConforms : Ty → JV → Bool
  | .any, _ => true
  | _, .obj => true
  | .union alts, v => alts.any fun a => jsonConforms a v
  | .null, .null => true
  | .int, .int => true
  | .float, .int => true
  | .float, .float => true
  | .bool, .bool => true
  | .str, .str => true
  | .time, .str => true
  | .dur, .str => true
  | .listNil, .arr xs => xs.isEmpty
  | .list e, .arr xs => xs.all fun x => jsonConforms e x
  | .tuple ts, .arr xs => ts.length == xs.length && (ts.zip xs).all fun p => jsonConforms p.1 p.2
  | _, _ => false
end

def parseSchema : Nat → List String → Option (List (String × Ty) × List String)
  | 0, rest => some ([], rest)
  | k + 1, nmTok :: rest => do
    let (t, r) ← parseTy rest
    let (cs, r') ← parseSchema k r
    pure ((nmTok, t) :: cs, r')
  | _, [] => none

partial def judgeCells (cols : List (String × Ty)) (row : Nat) : List (String × Ty) → List String → String
  | [], [] => "ok"
  | [], _ => s!"bad row {row}: more cells than columns"
  | (nmTok, t) :: cs, toks =>
    match toks with
    | "missing" :: _ => s!"bad row {row}: column {nmTok} is missing from the output record"
    | _ =>
      match parseJV toks with
      | none => s!"bad row {row}: unparsable cell"
      | some (v, r) =>
        if jsonConforms t v then judgeCells cols row cs r
        else s!"bad row {row}: cell {String.intercalate " " (toks.take (toks.length - r.length))} of column {nmTok} does not match the described type {encodeTy t}"

def judgeQry (out : List String) : String :=
  match out with
  | ["err"] => "ok"
  | ["panic"] => "ok"
  | k :: rest =>
    match parseSchema k.toNat! rest with
    | some (cols, "|" :: body) =>
      (match body with
       | ["err"] => "ok"
       | ["panic"] => "ok"
       | ["none"] => "ok"
       | ["err:row-json"] => "ok"       -- the JSON printer emitted a bare NaN / Inf (C25's subject), nothing to judge
       | _ =>
         let rec go (i : Nat) : List (List String) → String
           | [] => "ok"
           | r :: rs =>
             let v := judgeCells cols i cols r
             if v == "ok" then go (i + 1) rs else v
         go 0 (splitOn ";" body))
    | _ => "bad unparsable-describe-output"
  | [] => "bad empty-output"

def judge (toks : List String) (out : List String) : String :=
  match toks with
  | "ev" :: _ => judgeEv out
  | "agg" :: _ => judgeAgg out
  | "qry" :: _ => judgeQry out
  | _ => "ok"

end Octo.Drv.C08
