import Octo.Drv.Codec
import Octo.Model.TvfSpec
/-!
  C21 driver: what the Lean model prints for one op line (`model`) and the property oracle applied to what the
  real code printed (`judge`).  Op lines and the output format are described in `harness/c21.go`.
-/
namespace Octo.Drv.C21
open Octo Octo.Codec Octo.Tvf

/-- the abstract clock the harness maps the wall-clock readings to: round `k` reads `clockBase + k` -/
def clockBase : Int := 1000000000000000
def clock (k : Nat) : Int := clockBase + k

def splitBar (toks : List String) : List (List String) :=
  let rec go (cur : List String) : List String → List (List String)
    | [] => [cur.reverse]
    | t :: ts => if t == "|" then cur.reverse :: go [] ts else go (t :: cur) ts
  go [] toks

def optNat (s : String) : Option Nat :=
  match s.toInt? with
  | some i => if i < 0 then none else some i.toNat
  | none => none

def statusStr : Status → String
  | .ok => "ok" | .errBudget => "err:budget" | .errSource => "err:source" | .panic => "panic"

def render (r : Result) : String :=
  if r.1.isEmpty then statusStr r.2 else statusStr r.2 ++ " " ++ encodeMsgs r.1

structure TumbleOp where
  cfg : TumbleCfg
  src : List Msg × Bool
  budget : Option Nat

def parseTumble (head : List String) (stream : List String) : Option TumbleOp :=
  match head with
  | [mode, idx, nfields, len, off, failAt, budget] => do
    let msgs ← parseMsgs stream
    let i ← idx.toInt?
    let l ← len.toInt?
    let o ← if off == "-" then some 0 else off.toInt?
    pure { cfg := { idx := materializeIdx (mode == "tf") i nfields.toNat!, len := l, off := o }
           src := script msgs (optNat failAt), budget := optNat budget }
  | _ => none

def parseRounds : List (List String) → Option (List (List Msg × Bool))
  | [] => some []
  | sec :: rest =>
    match sec with
    | failAt :: stream => do
      let msgs ← parseMsgs stream
      let rs ← parseRounds rest
      pure (script msgs (optNat failAt) :: rs)
    | [] => none

def parseFTys (s : String) : List FTy :=
  if s == "-" then [] else s.toList.map fun c => if c == 'T' then .time else if c == 'I' then .int else if c == 'U' then .union else .other

def srcSchema (timeField noRetr tys : String) : Schema :=
  { fields := (parseFTys tys).zipIdx.map fun (t, i) => (s!"f{i}", t), timeField := timeField.toInt?.getD 0, noRetr := noRetr == "1" }

def renderSchema : Option Schema → String
  | none => "err:schema"
  | some sc =>
    String.intercalate " " (["ok", toString sc.timeField, if sc.noRetr then "1" else "0"] ++
      sc.fields.map fun (n, t) => n ++ ":" ++ (match t with | .time => "T" | .int => "I" | .union => "U" | .other => "?"))

/-- model side: the same line the Go driver prints -/
def model (toks : List String) : String :=
  match splitBar toks with
  | ("tumble" :: head) :: stream :: [] =>
    match parseTumble head stream with
    | some op => render (tumbleRun op.cfg op.src op.budget)
    | none => "bad-op"
  | [ "range" :: rest ] =>
    (do let (s, r) ← parseValue rest
        let (e, r) ← parseValue r
        match r with
        | [b] => pure (render (rangeRun s e (optNat b)))
        | _ => none).getD "bad-op"
  -- the same materialised range node run a second time under another variable context (bounds = variables of the
  -- enclosing record, as in a correlated subquery): the second run is the range of the second bounds
  | [ "range2" :: rest ] =>
    (do let (_, r) ← parseValue rest
        let (_, r) ← parseValue r
        let (s, r) ← parseValue r
        let (e, _) ← parseValue r
        pure (render (rangeRun s e none))).getD "bad-op"
  | ["poll", budget] :: secs =>
    match parseRounds secs with
    | some rounds => render (pollRun clock rounds (optNat budget))
    | none => "bad-op"
  -- `Materialize` reads `args["poll_interval"].Expression.Expression` although the matcher declares a descriptor:
  -- with a descriptor argument `.Expression` is nil and the dereference panics
  | [["pollinterval", _]] => "panic"
  | [["schema", "tumble", mode, idx, tf, nr, tys]] =>
    renderSchema (tumbleSchema (if mode == "tf" then some ("f" ++ idx) else none) (srcSchema tf nr tys))
  | [["schema", "poll", tf, nr, tys]] => renderSchema (some (pollSchema (srcSchema tf nr tys)))
  | [["schema", "range"]] => renderSchema (some rangeSchema)
  | _ => "bad-op"

/-! ## the oracle -/

def encVals (vs : List Value) : String := String.intercalate " " (vs.map encodeValue)
def encRow (vs : List Value) (retr : Bool) : String := (if retr then "- " else "+ ") ++ encVals vs
def sortStrs (xs : List String) : List String := xs.mergeSort (fun a b => decide (a ≤ b))

/-- status bookkeeping shared by the three functions: `consumedAll` = the whole expected stream is present -/
def statusOk (status : String) (outLen : Nat) (budget : Option Nat) (consumedAll : Bool) (natural : String) : Option String :=
  if status == "err:budget" then
    match budget with
    | some b =>
      if outLen != b then some "budget-error-at-wrong-position"
      else if consumedAll then some "a-message-beyond-the-documented-stream-was-offered"
      else none
    | none => some "budget-error-without-budget"
  else if status == natural then
    if consumedAll then none else some "stream-ends-early"
  else some s!"unexpected-status-{status}"

/-- one tumble output message against its source message; `none` = fine -/
def tumbleMsgBad (idx : Int) (len off : Int) : Msg → Msg → Option String
  | .wm w, .wm w' => if w == w' then none else some "watermark-changed"
  | .data r, .data r' =>
    if r'.retr != r.retr then some "retraction-flag-changed"
    else if r'.et != r.et then some "event-time-changed"
    else if r'.vals.length != r.vals.length + 2 then some "not-exactly-two-fields-appended"
    else if encVals (r'.vals.take r.vals.length) != encVals r.vals then some "other-fields-changed"
    else
      match (if idx < 0 then none else r.vals[idx.toNat]?), r'.vals.drop r.vals.length with
      | some (.time t _), [.time ws _, .time we _] =>
        if ¬ ws ≤ t then some "window_start-after-time"
        else if ¬ t < we then some "time-not-before-window_end"
        else if we - ws ≠ len then some "window-length-wrong"
        else if (ws - off - zeroUnix) % len ≠ 0 then some "window_start-minus-offset-not-a-multiple"
        else none
      | some (.time _ _), _ => some "window-fields-are-not-times"
      | _, _ => none        -- the time field is not a time value: outside the statement
  | _, _ => some "message-kind-changed"

def firstBad (idx : Int) (len off : Int) : List Msg → List Msg → Option String
  | _, [] => none
  | [], _ :: _ => some "more-output-than-input"
  | m :: ms, m' :: ms' =>
    match tumbleMsgBad idx len off m m' with
    | some e => some e
    | none => firstBad idx len off ms ms'

def judgeTumble (op : TumbleOp) (status : String) (out : List Msg) : String :=
  let c := op.cfg
  if c.len ≤ 0 then "ok"     -- the statement is about positive window lengths
  else
    -- records on which the code must panic (no value at the index) are outside the statement
    let panics := (recs op.src.1).any fun r => c.idx < 0 || (r.vals[c.idx.toNat]?).isNone
    if panics then "ok" else
    if status == "panic" then "bad panic" else
    match firstBad c.idx c.len c.off op.src.1 out with
    | some e =>
      -- known finding: `-1 * offset` wraps for offset = MinInt64, the window lands 2^64 ns early
      if c.off == minI64 && (e == "time-not-before-window_end" || e == "window_start-after-time") then
        s!"known tumble-offset-minint64 {e}"
      else s!"bad {e}"
    | none =>
      match statusOk status out.length op.budget (out.length == op.src.1.length)
              (if op.src.2 then "err:source" else "ok") with
      | some e => s!"bad {e}"
      | none => "ok"

def judgeRange (s e : Value) (budget : Option Nat) (status : String) (out : List Msg) : String :=
  match s, e with
  | .int a, .int b =>
    let want := TvfSpec.rangeSpec a b
    let got := out.map fun
      | .data { vals := [.int i], retr := false, et := none } => some i
      | _ => none
    if got.any Option.isNone then "bad not-a-plain-int-record"
    else if got != (want.take out.length).map some then "bad wrong-integers"
    else
      match statusOk status out.length budget (out.length == want.length) "ok" with
      | some e => s!"bad {e}"
      | none => "ok"
  | _, _ => "ok"

structure PJ where
  rest : List Msg                 -- output not yet consumed
  prev : List Rec := []           -- the body records of the previous round, as emitted
  acc : List Rec := []            -- every record emitted so far
  lastWm : Option Int := none     -- poll's own last watermark
  cut : Bool := false             -- the output ended inside this round (only legal with a budget error)

def recOf : Msg → Option Rec
  | .data r => some r
  | .wm _ => none

/-- the undo segment: every previously reported record once with the inverted flag, any order, not late -/
def judgeUndo (st : PJ) : Except String PJ := do
  let n := st.prev.length
  let seg := st.rest.take n
  let rs := seg.filterMap recOf
  if rs.length != seg.length then throw "watermark-inside-retractions"
  for r in rs do
    match st.lastWm, r.et with
    | some w, some e => if e ≤ w then throw "late-retraction(C18)"
    | some _, none => throw "retraction-without-event-time"
    | none, _ => pure ()
  let want := sortStrs (st.prev.map fun r => encRow r.vals (!r.retr))
  let got := sortStrs (rs.map fun r => encRow r.vals r.retr)
  if seg.length < n then
    if got.all (want.contains ·) then pure { st with rest := [], cut := true, acc := st.acc ++ rs }
    else throw "retraction-of-something-not-reported"
  else if got != want then throw "previous-snapshot-not-retracted-exactly"
  else pure { st with rest := st.rest.drop n, acc := st.acc ++ rs }

/-- the body segment against the snapshot, position by position; returns the round's reading if a record shows it -/
def judgeBody (snap : List Msg) (st : PJ) : Except String (PJ × Option Int × List Rec) := do
  let seg := st.rest.take snap.length
  let mut now : Option Int := none
  let mut body : List Rec := []
  for (m, m') in snap.zip seg do
    match m, m' with
    | .wm w, .wm w' => if w != w' then throw "source-watermark-changed"
    | .data r, .data r' =>
      match r'.vals with
      | .time t _ :: vs =>
        if encVals vs != encVals r.vals then throw "snapshot-record-changed"
        if r'.retr != r.retr then throw "snapshot-retraction-flag-changed"
        match now with
        | some t0 => if t0 != t then throw "two-readings-in-one-round"
        | none => now := some t
        match st.lastWm, r'.et with
        | some w, some e => if e ≤ w then throw "late-record(C18)"
        | _, _ => pure ()
        body := body ++ [r']
      | _ => throw "no-time-in-front"
    | _, _ => throw "message-kind-changed"
  let st' := { st with rest := st.rest.drop snap.length, acc := st.acc ++ body, cut := seg.length < snap.length }
  pure (st', now, body)

/-- consolidated output so far = the snapshot just reported -/
def consolidatedOk (acc body : List Rec) : Bool :=
  acc.all fun r => net acc r.vals == net body r.vals

def judgeRounds : List (List Msg × Bool) → PJ → Except String PJ
  | [], st => do
    -- the source fails: only the undo of the last snapshot may follow
    let st ← judgeUndo st
    if !st.rest.isEmpty then throw "output-after-the-source-failed"
    pure st
  | (snap, failed) :: more, st => do
    let st ← judgeUndo st
    if st.cut then return st
    let (st, now, body) ← judgeBody snap st
    if st.cut then return st
    if failed then
      if !st.rest.isEmpty then throw "output-after-the-source-failed"
      return st
    match st.rest with
    | [] => pure { st with cut := true }
    | .wm w :: rest =>
      match now with
      | some t => if t != w then throw "watermark-differs-from-the-round's-time"
      | none => pure ()
      if !consolidatedOk st.acc body then throw "consolidated-output-is-not-the-snapshot"
      judgeRounds more { st with rest := rest, prev := body, lastWm := some w }
    | .data _ :: _ => throw "no-watermark-after-the-snapshot"

def judgePoll (rounds : List (List Msg × Bool)) (budget : Option Nat) (status : String) (out : List Msg) : String :=
  match judgeRounds rounds { rest := out } with
  | .error e => s!"bad {e}"
  | .ok st =>
    match statusOk status out.length budget (!st.cut) "err:source" with
    | some e => s!"bad {e}"
    | none =>
      -- a valid changelog whenever every snapshot is one (what undoing newest-first buys; C15's notion)
      if rounds.all (fun r => validLogB (recs r.1)) && !validLogB (recs out) then "bad invalid-changelog(C15)"
      else "ok"

/-- property oracle on what the implementation printed -/
def judge (toks : List String) (out : List String) : String :=
  match toks, out with
  | "schema" :: _, _ => "ok"            -- declared schemas: correspondence only
  | "pollinterval" :: _, _ => "ok"      -- a crash at Materialize, not a stream: outside C21's statement (C07)
  | _, [] => "bad empty-impl-output"
  | _, status :: stream =>
    match parseMsgs stream with
    | none => "bad unparsable-impl-output"
    | some outMsgs =>
      match splitBar toks with
      | ("tumble" :: head) :: stream :: [] =>
        match parseTumble head stream with
        | some op => judgeTumble op status outMsgs
        | none => "bad unparsable-op"
      | [ "range" :: rest ] =>
        (do let (s, r) ← parseValue rest
            let (e, r) ← parseValue r
            match r with
            | [b] => pure (judgeRange s e (optNat b) status outMsgs)
            | _ => none).getD "bad unparsable-op"
      | [ "range2" :: rest ] =>
        (do let (_, r) ← parseValue rest
            let (_, r) ← parseValue r
            let (s, r) ← parseValue r
            let (e, _) ← parseValue r
            pure (judgeRange s e none status outMsgs)).getD "bad unparsable-op"
      | ["poll", budget] :: secs =>
        match parseRounds secs with
        | some rounds => judgePoll rounds (optNat budget) status outMsgs
        | none => "bad unparsable-op"
      | _ => "bad unknown-op"

end Octo.Drv.C21
