import Octo.Drv.TrigCodec
/-!
  C17 driver: model outputs and the property oracle for the line protocol (see `Octo.Drv.Trig`).

  The oracle does not run the trigger model.  It keeps, per primitive trigger, the *set of groups* the
  property speaks about (records of a group since it last fired / groups received since they last fired) and
  demands of every `Poll` the implementation printed that each group occurs in it exactly as often as the
  property says.
-/
namespace Octo.Drv.C17
open Octo Octo.Codec Octo.Trig Octo.Drv.Trig

def model (toks : List String) : String := Octo.Drv.Trig.model toks

/-! ### trigger-level oracle (`trig` lines in node shape: `Poll` after every event, then `E ; P`) -/

/-- reference state of one primitive trigger: groups with the number of records since the group last fired
    (COUNTING), or the groups received since they last fired (ON WATERMARK / ON END OF STREAM) -/
inductive RLeaf where
  | counting (n : Nat) (cnt : List (Key × Nat))
  | watermark (idx : Nat) (pending : List Key) (wm : Int)
  | eos (seen : List Key)

partial def flatten : TCfg → List RLeaf
  | .counting n => [.counting n []]
  | .watermark i => [.watermark i [] zeroNs]
  | .eos => [.eos []]
  | .multi ts => ts.flatMap flatten

def addGroup (k : Key) (gs : List Key) : List Key := if gs.any (keq k) then gs else gs ++ [k]

def bump (k : Key) : List (Key × Nat) → List (Key × Nat)
  | [] => [(k, 1)]
  | e :: es => if keq k e.1 then (e.1, e.2 + 1) :: es else e :: bump k es

/-- what one primitive trigger must return on the `Poll` after an event, and its next state -/
def rstep (l : RLeaf) (ev : Ev) : List Key × RLeaf :=
  match l, ev with
  | .counting n cnt, .key k =>
    let cnt := bump k cnt
    -- after every n-th record of the group: fire it and start counting again
    let fired := cnt.filter fun e => keq k e.1 && e.2 == n
    (fired.map (·.1), .counting n (cnt.filter fun e => !(keq k e.1 && e.2 == n)))
  | .counting n cnt, _ => ([], .counting n cnt)
  | .watermark i p wm, .key k =>
    let p := addGroup k p
    (p.filter fun g => decide ((timeAt i g).ns ≤ wm), .watermark i (p.filter fun g => !decide ((timeAt i g).ns ≤ wm)) wm)
  | .watermark i p _, .wm w =>
    (p.filter fun g => decide ((timeAt i g).ns ≤ w), .watermark i (p.filter fun g => !decide ((timeAt i g).ns ≤ w)) w)
  | .watermark i p wm, _ => ([], .watermark i p wm)
  | .eos seen, .key k => ([], .eos (addGroup k seen))
  | .eos seen, _ => ([], .eos seen)

/-- at end of stream: every remaining group once -/
def rfinal : RLeaf → List Key
  | .counting _ cnt => cnt.map (·.1)
  | .watermark _ p _ => p
  | .eos seen => seen

def multiplicity (k : Key) (ks : List Key) : Nat := ks.countP (keq k)

/-- same groups with the same multiplicities -/
def sameGroups (a b : List Key) : Bool :=
  (a ++ b).all fun k => multiplicity k a == multiplicity k b

/-- split a node-shaped script into its events; `none` when the script is not node-shaped -/
def nodeShaped : List Ev → Option (List Ev)
  | [.eos, .poll] => some []
  | .key k :: .poll :: rest => (nodeShaped rest).map (Ev.key k :: ·)
  | .wm w :: .poll :: rest => (nodeShaped rest).map (Ev.wm w :: ·)
  | _ => none

def nonDecreasing : List Int → Bool
  | a :: b :: rest => decide (a ≤ b) && nonDecreasing (b :: rest)
  | _ => true

def judgeTrigGo : List RLeaf → List Ev → List (List Key) → Nat → String
  | ls, [], [p], _ =>
    if sameGroups p (ls.flatMap rfinal) then "ok" else "bad end-of-stream-poll-wrong"
  | ls, ev :: evs, p :: ps, i =>
    let rs := ls.map fun l => rstep l ev
    if sameGroups p (rs.flatMap (·.1)) then judgeTrigGo (rs.map (·.2)) evs ps (i + 1)
    else s!"bad poll-{i}-fired-wrong-keys"
  | _, _, _, _ => "bad wrong-number-of-polls"

def judgeTrig (toks : List String) (out : List String) : String :=
  match parseTrig toks with
  | none => "bad unparsable-op"
  | some (cfg, evs) =>
    match nodeShaped evs with
    | none => "ok"                                     -- not the node's calling pattern: no claim
    | some es =>
      if !(es.all fun e => match e with
            | .key k => cfg.init.idxOk k.length
            | _ => true) then "ok"               -- the Go code panics by construction
      else if !nonDecreasing (es.filterMap fun e => match e with
            | .wm w => some w
            | _ => none) then "ok"               -- watermarks that go backwards: not a valid watermarked input
      else match parsePolls out with
        | none => "bad impl-" ++ String.intercalate "_" (out.take 3)
        | some polls => judgeTrigGo (flatten cfg) es polls 0

/-! ### node-level oracle (`gb` lines) -/

/-- positions: the emitted list up to and including its `i`-th watermark, for every `i` -/
def prefixesAtWm : List Msg → List (List Msg × Int)
  | ms => go [] ms
where
  go (acc : List Msg) : List Msg → List (List Msg × Int)
    | [] => []
    | .wm w :: rest => (acc ++ [.wm w], w) :: go (acc ++ [.wm w]) rest
    | m :: rest => go (acc ++ [m]) rest

/-- the records delivered to the node before its `i`-th watermark, for every `i` -/
def inputsAtWm (B : List Msg) : List (List Rec) := (prefixesAtWm B).map fun p => recs p.1

partial def dedupRows : List Row → List Row
  | [] => []
  | r :: rs => r :: dedupRows (rs.filter fun x => !rowEq r x)

def candidateRows (C : GBConf) (rs : List Rec) (out : List Msg) : List Row :=
  let keys := dedupRows (rs.map fun r => C.keyOf r.vals)
  dedupRows ((recs out).map (·.vals) ++ keys.map fun k => k ++ specResults C.aggs (ofKey C k rs))

/-- when `wm W` is forwarded the output holds the current result of every key at or below `W` -/
def checkComplete (op : GbOp) (idx : Nat) (out : List Msg) : Option String :=
  let B := buffer op.stream
  let pairs := (prefixesAtWm out).zip (inputsAtWm B)
  pairs.findSome? fun (po, rs) =>
    let w := po.2
    (candidateRows op.conf rs po.1).findSome? fun row =>
      if decide ((timeAt idx (row.take op.nk)).ns ≤ w) && net (recs po.1) row != groupSpec op.conf op.nk rs row then
        some s!"bad watermark-{w}-forwarded-but-result-missing row={String.intercalate "," (row.map encodeValue)} out={net (recs po.1) row} spec={groupSpec op.conf op.nk rs row}"
      else none

/-- ON WATERMARK alone: a record emitted before a watermark is forwarded is at or below the highest
    watermark up to that one -/
def checkNoEarly (op : GbOp) (idx : Nat) (out : List Msg) : Option String :=
  let rec go (hi : Int) (pending : List Rec) : List Msg → Option String
    | [] => none                                        -- what follows the last watermark may be the end of stream
    | .data r :: rest => go hi (pending ++ [r]) rest
    | .wm w :: rest =>
      let hi := max hi w
      match pending.find? fun r => decide ((timeAt idx (r.vals.take op.nk)).ns > hi) with
      | some r => some s!"bad emitted-before-watermark-{w} row={String.intercalate "," (r.vals.map encodeValue)}"
      | none => go hi [] rest
  go zeroNs [] out

partial def firstWm : TCfg → Option Nat
  | .watermark i => some i
  | .multi ts => ts.findSome? firstWm
  | _ => none

def judgeGb (toks : List String) (out : List String) : String :=
  match parseGb toks with
  | none => "bad unparsable-op"
  | some op =>
    if !(recs op.stream).all (fun r => stepOk op.conf r.vals) then "ok"
    else if !(validFast (recs op.stream) && validFast (recs (buffer op.stream))) then "ok"
    else if !nonDecreasing (wms op.stream) then "ok"
    else match out with
      | "ok" :: ms =>
        match parseMsgs ms with
        | none => "bad unparsable-impl-output"
        | some o =>
          -- every input watermark is forwarded, in order
          if wms o != wms op.stream then "bad watermarks-not-forwarded-in-order"
          else match firstWm op.conf.cfg with
            | none => "ok"
            | some idx =>
              match checkComplete op idx o with
              | some v => v
              | none =>
                if op.conf.cfg.onlyWm idx then (checkNoEarly op idx o).getD "ok" else "ok"
      | _ => "bad impl-" ++ String.intercalate "_" (out.take 3)

def judge (toks : List String) (out : List String) : String :=
  match toks with
  | "trig" :: rest => judgeTrig rest out
  | "gb" :: rest => judgeGb rest out
  | _ => "ok"

end Octo.Drv.C17
