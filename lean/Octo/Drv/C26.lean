import Octo.Drv.Codec
import Octo.Model.Wire
import Octo.Model.WireJson
import Octo.Model.Repopulate
/-! C26 driver: model outputs and the property oracle (judge) for the line protocol (see harness/c26.go). -/
namespace Octo.Drv.C26
open Octo Octo.Codec Octo.Wire

def b01 (b : Bool) : String := if b then "1" else "0"
def bytesOfName (n : Name) : List UInt8 := n.map UInt8.ofNat

def dumpTs : Option Ts → String
  | none => "-"
  | some t => s!"{t.seconds}/{t.nanos}"

partial def dumpPV : PV → String
  | .mk tid i f b s t d l st tu =>
    String.intercalate " "
      (s!"P{tid}:{i}:{hex16 f}:{b01 b}:s{hexOfBytes s}:{dumpTs t}:{dumpTs d}:{l.length}:{st.length}:{tu.length}"
        :: (l ++ st ++ tu).map dumpPV)

partial def dumpGV : GV → String
  | .mk tid i f b s t d l st tu =>
    String.intercalate " "
      (s!"G{tid}:{i}:{hex16 f}:{b01 b}:s{hexOfBytes s}:{t.1}@{t.2}:{d}:{l.length}:{st.length}:{tu.length}"
        :: (l ++ st ++ tu).map dumpGV)

partial def dumpRT : RT → String
  | .mk tid l ns fs tu un =>
    String.intercalate " "
      ((s!"Q{tid}:{b01 l.isSome}:{fs.length}:{tu.length}:{un.length}" :: (match l with | some e => [dumpRT e] | none => []))
        ++ ((ns.zip fs).map fun (n, t) => "x" ++ encodeName n ++ " " ++ dumpRT t)
        ++ (tu ++ un).map dumpRT)

def dumpPVs (ps : List PV) : String := String.intercalate " " (toString ps.length :: ps.map dumpPV)

def showG (g : GV) : String := match toValue g with | some v => encodeValue v | none => "?"
def showGs (gs : List GV) : String := String.intercalate " " (toString gs.length :: gs.map showG)
def showT (g : RT) : String := match toTy g with | some t => encodeTy t | none => "?"

def dumpFieldsP (f : Fields RT) : String :=
  String.intercalate " " (toString f.tys.length :: (f.names.zip f.tys).map fun (n, t) => "x" ++ encodeName n ++ " " ++ dumpRT t)
def showFields (f : Fields RT) : String :=
  String.intercalate " " (toString f.tys.length :: (f.names.zip f.tys).map fun (n, t) => "x" ++ encodeName n ++ " " ++ showT t)

def utf8Bytes (s : List UInt8) : Bool := Utf8.validUtf8 s
def utf8Name (n : Name) : Bool := Utf8.validUtf8 (bytesOfName n)
def wireOf (ok : Bool) : String := if ok then "same" else "err:utf8"

/-- `<k> (x<name> <ty>)…` -/
def parseFields (toks : List String) : Option (Fields Ty × List String) :=
  match toks with
  | k :: rest => (parseTy.parseFields k.toNat! rest).map fun (ns, ts, r) => (⟨ns, ts⟩, r)
  | [] => none

def fieldsToRT (f : Fields Ty) : Fields RT := ⟨f.names, ofTys f.tys⟩
def fieldsUtf8 (f : Fields Ty) : Bool := f.names.all utf8Name && allNamesL utf8Name f.tys

partial def parseFrames (n : Nat) (toks : List String) : Option (List (Fields Ty) × List String) :=
  match n with
  | 0 => some ([], toks)
  | n + 1 => do
    let (f, r) ← parseFields toks
    let (fs, r') ← parseFrames n r
    pure (f :: fs, r')

partial def parseValueFrames (n : Nat) (toks : List String) : Option (List (List Value) × List String) :=
  match n with
  | 0 => some ([], toks)
  | n + 1 =>
    match toks with
    | k :: rest => do
      let (vs, r) ← parseValues k.toNat! rest
      let (fs, r') ← parseValueFrames n r
      pure (vs :: fs, r')
    | [] => none

/-- parse a `<PV dump>` -/
partial def parsePV : List String → Option (PV × List String)
  | [] => none
  | tok :: rest =>
    match ((tok.drop 1).toString.splitOn ":") with
    | [tid, i, f, b, s, t, d, nl, ns, nt] =>
      let ts (x : String) : Option Ts :=
        if x == "-" then none
        else match x.splitOn "/" with
          | [a, c] => some ⟨parseInt! a, parseInt! c⟩
          | _ => none
      do
        let (l, r1) ← many nl.toNat! rest
        let (st, r2) ← many ns.toNat! r1
        let (tu, r3) ← many nt.toNat! r2
        pure (.mk (parseInt! tid) (parseInt! i) (parseHexNat f) (b == "1") (parseHexBytes (s.drop 1).toString) (ts t) (ts d) l st tu, r3)
    | _ => none
where
  many : Nat → List String → Option (List PV × List String)
    | 0, rest => some ([], rest)
    | k + 1, rest => do
      let (v, r) ← parsePV rest
      let (vs, r') ← many k r
      pure (v :: vs, r')

def pickStr : Pick → String
  | .found i => toString i
  | .notFound => "none"
  | .panic => "panic"

def jsonErrStr : JsonErr → String
  | .nonfinite => "err:nonfinite"
  | .year => "err:year"

def modelOpt (o : Option String) : String := o.getD "bad-op"

/-- `T := L <ty> | N <kind> <ty> <k> T… | F <ty> <namehex> <idx|-> <k> T…` -/
partial def parseTree : List String → Option (PExpr × List String)
  | "L" :: rest => (parseTy rest).map fun (t, r) => (.leaf t, r)
  | "N" :: _ :: rest => do
    let (t, r) ← parseTy rest
    match r with
    | k :: r' =>
      let (as, r'') ← many k.toNat! r'
      pure (.node t as, r'')
    | [] => none
  | "F" :: rest => do
    let (t, r) ← parseTy rest
    match r with
    | name :: idx :: k :: r' =>
      let (as, r'') ← many k.toNat! r'
      let nm := parseName name
      let ds := (lookupFn Gen.WireFunctions.table nm).getD []
      let (sig, fn) : Sig × Option Nat :=
        if idx == "-" then (⟨[], .null, false⟩, none)
        else match ds[idx.toNat!]? with
          | some d => (d.sig, some idx.toNat!)
          | none => (⟨[], .null, false⟩, none)
      pure (.call t nm sig fn as, r'')
    | _ => none
  | _ => none
where
  many : Nat → List String → Option (List PExpr × List String)
    | 0, rest => some ([], rest)
    | k + 1, rest => do
      let (e, r) ← parseTree rest
      let (es, r') ← many k r
      pure (e :: es, r')

def showFns (fs : List (Option Nat)) : String :=
  String.intercalate " " (fs.map fun f => match f with | some i => toString i | none => "none")

mutual
/-- every call carries the descriptor of the typechecker's exact pass (executable form of `exactTyped`) -/
partial def exactTypedB : PExpr → Bool
  | .leaf _ => true
  | .node _ args => args.all exactTypedB
  | .call _ name _ fn args =>
    args.all exactTypedB &&
    (match lookupFn Gen.WireFunctions.table name, fn with
     | some ds, some i => exactPassFrom (tysOf args) 0 ds none == .found i
     | _, _ => false)
end

/-- model side: the same line the Go driver prints -/
def model (toks : List String) : String :=
  match toks with
  | "val" :: rest => modelOpt do
      let (v, _) ← parseValue rest
      match encodeV (ofValue v) with
      | none => pure "panic"
      | some p =>
        match decodeV p with
        | none => pure "panic"
        | some g => pure s!"{dumpPV p} | {showG g} | {wireOf (allStr utf8Bytes v)}"
  | "ty" :: rest => modelOpt do
      let (t, _) ← parseTy rest
      match encodeT (ofTy t) with
      | none => pure "panic"
      | some p =>
        match decodeT p with
        | none => pure "panic"
        | some g => pure s!"{dumpRT p} | {showT g} | {wireOf (allNames utf8Name t)}"
  | "schema" :: tf :: nr :: rest => modelOpt do
      let (f, _) ← parseFields rest
      match encodeSchema ⟨fieldsToRT f, parseInt! tf, nr == "1"⟩ with
      | none => pure "panic"
      | some p =>
        match decodeSchema p with
        | none => pure "panic"
        | some d =>
          pure s!"{p.timeField} {b01 p.noRetractions} {dumpFieldsP p.fields} | {d.timeField} {b01 d.noRetractions} {showFields d.fields} | {wireOf (fieldsUtf8 f)}"
  | "rec" :: k :: rest => modelOpt do
      let (vs, r) ← parseValues k.toNat! rest
      match r with
      | sign :: et :: _ =>
        match encodeRecord ⟨ofValues vs, sign == "-", (parseInt! et, 0)⟩ with
        | none => pure "panic"
        | some p =>
          match decodeRecord p with
          | none => pure "panic"
          | some d =>
            let sg (b : Bool) := if b then "-" else "+"
            pure s!"{dumpPVs p.values} {sg p.retraction} {dumpTs p.eventTime} | {showGs d.values} {sg d.retraction} {d.eventTime.1} | {wireOf (allStrs utf8Bytes vs)}"
      | _ => none
  | ["meta", ty, wm] =>
      match encodeMeta ⟨parseInt! ty, (parseInt! wm, 0)⟩ with
      | none => "panic"
      | some p =>
        let d := decodeMeta p
        s!"{p.msgType} {dumpTs p.watermark} | {d.msgType} {d.watermark.1} | same"
  | "pctx" :: n :: rest => modelOpt do
      let (fs, _) ← parseFrames n.toNat! rest
      match encodePhysCtx (fs.map fieldsToRT) with
      | none => pure "panic"
      | some p =>
        match decodePhysCtx p with
        | none => pure "panic"
        | some d =>
          let a := String.intercalate " " (toString p.length :: p.map dumpFieldsP)
          let b := String.intercalate " " (toString d.length :: d.map showFields)
          pure s!"{a} | {b} | {wireOf (fs.all fieldsUtf8)}"
  | "ectx" :: n :: rest => modelOpt do
      let (fs, _) ← parseValueFrames n.toNat! rest
      match encodeExecCtx (fs.map ofValues) with
      | none => pure "panic"
      | some p =>
        match decodeExecCtx p with
        | none => pure "panic"
        | some d =>
          let a := String.intercalate " " (toString p.length :: p.map dumpPVs)
          let b := String.intercalate " " (toString d.length :: d.map showGs)
          pure s!"{a} | {b} | {wireOf (fs.all (allStrs utf8Bytes))}"
  | "rawval" :: rest => modelOpt do
      let (p, _) ← parsePV rest
      match decodeV p with
      | none => pure "panic"
      | some g => pure (dumpGV g)
  | "repop" :: name :: k :: rest => modelOpt do
      let (ts, _) ← parseTy.parseTys k.toNat! rest
      let ds := (lookupFn Gen.WireFunctions.table (parseName name)).getD []
      match typecheckPick ds ts with
      | .found i =>
        match transportPick ds ts i with
        | .found j => pure s!"tc={i} rp={j} ok=1"
        | .notFound => pure s!"tc={i} rp=none ok=0"
        | .panic => pure "panic"
      | _ => pure "tc=panic"
  | "json" :: rest => modelOpt do
      let (v, _) ← parseValue rest
      match jsonValue v with
      | .ok w => pure (encodeValue w)
      | .error e => pure (jsonErrStr e)
  | "jsonty" :: rest => modelOpt do
      let (t, _) ← parseTy rest
      pure (encodeTy (jsonTy t))
  | "tree" :: rest => modelOpt do
      let (e, _) ← parseTree rest
      match repopTree Gen.WireFunctions.table (stripFns e) with
      | some (e', ok) => pure (String.intercalate " " (("fns" :: (fnsOf e').map fun f => match f with | some i => toString i | none => "none") ++ [s!"ok={b01 ok}"]))
      | none => pure "panic"
  | "pred" :: _ => "nomodel"
  | "e2e" :: _ => "nomodel"
  | _ => "bad-op"

/-- split the implementation's output at the `|` tokens -/
def segments (out : List String) : List (List String) :=
  out.foldr (fun t acc => if t == "|" then [] :: acc else match acc with | s :: ss => (t :: s) :: ss | [] => [[t]]) [[]]

def inI32 (x : Int) : Bool := decide (-2147483648 ≤ x) && decide (x ≤ 2147483647)

def wireVerdict (wire : List String) (utf8ok : Bool) : String :=
  match wire with
  | ["same"] => "ok"
  | ["err:utf8"] =>
    if utf8ok then "bad marshal-rejected-valid-utf8"
    else "known proto-invalid-utf8 a string that is not valid UTF-8 cannot be marshalled (proto3 string field)"
  | _ => "bad wire-" ++ String.intercalate "_" wire

/-- property oracle, evaluated on what the *implementation* printed: what comes out equals what went in
    (times up to their location), and a transported function call keeps the descriptor the typechecker chose. -/
def judge (toks : List String) (out : List String) : String :=
  if out == ["panic"] then
    (match toks with
     | "rawval" :: _ => "ok"      -- no round-trip claim for arbitrary messages (correspondence only)
     | _ => "bad panic")
  else
  match toks, segments out with
  | "val" :: rest, [_, dec, wire] =>
    (match parseValue rest with
     | some (v, _) =>
       if String.intercalate " " dec != encodeValue (normLoc v) then "bad value-changed"
       else wireVerdict wire (allStr utf8Bytes v)
     | none => "bad unparsable-op")
  | "ty" :: rest, [_, dec, wire] =>
    (match parseTy rest with
     | some (t, _) =>
       if String.intercalate " " dec != encodeTy t then "bad type-changed"
       else wireVerdict wire (allNames utf8Name t)
     | none => "bad unparsable-op")
  | "schema" :: tf :: rest, [_, dec, wire] =>
    if !inI32 (parseInt! tf) then "ok"       -- a TimeField is -1 or a field index
    else if dec != tf :: rest then "bad schema-changed"
    else (match rest with
      | _ :: fr => (match parseFields fr with
        | some (f, _) => wireVerdict wire (fieldsUtf8 f)
        | none => "bad unparsable-op")
      | [] => "bad unparsable-op")
  | "rec" :: k :: rest, [_, dec, wire] =>
    (match parseValues k.toNat! rest with
     | some (vs, r) =>
       let want := (k :: (normLocs vs).map encodeValue) ++ r.take 2
       if String.intercalate " " dec != String.intercalate " " want then "bad record-changed"
       else wireVerdict wire (allStrs utf8Bytes vs)
     | none => "bad unparsable-op")
  | ["meta", ty, wm], [_, dec, wire] =>
    if !inI32 (parseInt! ty) then "ok"
    else if dec != [ty, wm] then "bad metadata-changed"
    else wireVerdict wire true
  | "pctx" :: rest, [_, dec, wire] =>
    if dec != rest then "bad context-changed"
    else (match rest with
      | n :: fr => (match parseFrames n.toNat! fr with
        | some (fs, _) => wireVerdict wire (fs.all fieldsUtf8)
        | none => "bad unparsable-op")
      | [] => "bad unparsable-op")
  | "ectx" :: n :: rest, [_, dec, wire] =>
    (match parseValueFrames n.toNat! rest with
     | some (fs, _) =>
       let want := n :: fs.flatMap fun vs => toString vs.length :: (normLocs vs).map encodeValue
       if String.intercalate " " dec != String.intercalate " " want then "bad context-changed"
       else wireVerdict wire (fs.all (allStrs utf8Bytes))
     | none => "bad unparsable-op")
  | "rawval" :: _, _ => "ok"
  | "repop" :: _, [[tc]] => if tc == "tc=panic" then "ok" else "bad unparsable-impl-output"
  | "repop" :: name :: k :: rest, [[tc, rp, ok]] =>
    if ok == "ok=1" then
      -- the plugin will evaluate descriptor `rp`: it must be the one the typechecker attached
      (if (tc.drop 3).toString == (rp.drop 3).toString then "ok"
       else s!"bad transported-call-got-another-function {tc} {rp}")
    else
      -- rejected: the predicate stays on the octosql side, which changes no result; but a call the typechecker
      -- resolved in its first (exact) pass must be recognised
      (match parseTy.parseTys k.toNat! rest with
       | some (ts, _) =>
         (match exactPassFrom ts 0 ((lookupFn Gen.WireFunctions.table (parseName name)).getD []) none with
          | .found _ => s!"bad well-typed-call-rejected {tc} {rp} {ok}"
          | _ => "ok")
       | none => "bad unparsable-op")
  | "json" :: rest, [dec] =>
    (match parseValue rest with
     | some (v, _) =>
       if String.intercalate " " dec == encodeValue (normLoc v) then "ok"
       else if dec == ["err:nonfinite"] || dec == ["err:year"] then
         (if jsonSafe v then "bad json-rejected-a-safe-constant"
          else "known json-constant-rejected a NaN/Inf float or a time outside years 0..9999 in a pushed-down predicate cannot be marshalled")
       else if !allStr utf8Bytes v then
         "known json-invalid-utf8 a string constant that is not valid UTF-8 reaches the plugin with U+FFFD in place of the offending bytes"
       else "bad constant-changed"
     | none => "bad unparsable-op")
  | "jsonty" :: rest, [dec] =>
    if dec == rest then "ok"
    else (match parseTy rest with
      | some (t, _) =>
        if !allNames utf8Name t then
          "known json-invalid-utf8 a struct field name that is not valid UTF-8 reaches the plugin with U+FFFD in place of the offending bytes"
        else "bad type-changed-by-json"
      | none => "bad unparsable-op")
  | "tree" :: rest, [out1] =>
    (match parseTree rest, out1.getLast? with
     | some (e, _), some okTok =>
       let fns := (out1.drop 1).dropLast
       if okTok == "ok=1" then
         -- accepted: the plugin evaluates these functions; they must be the ones that were attached
         (if String.intercalate " " fns == showFns (fnsOf e) then "ok" else "bad predicate-accepted-with-other-functions")
       else if exactTypedB e then "bad well-typed-predicate-rejected"
       else "ok"
     | _, _ => "bad unparsable-op")
  | "e2e" :: _, [res :: _] =>
    -- the same query on the same data, natively and through the plugin process
    if res == "same" || res == "err-both" || res == "unavailable" then "ok" else "bad plugin-table-differs-from-native"
  | "pred" :: _, [[res]] => if res == "same" then "ok" else "bad predicate-" ++ res
  | "pred" :: _, [res :: detail] => if res == "same" then "ok" else "bad predicate-" ++ res ++ " " ++ String.intercalate " " detail
  | _, _ => "bad unparsable-impl-output"

end Octo.Drv.C26
