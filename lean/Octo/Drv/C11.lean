import Octo.Drv.Codec
import Octo.Spec.Kleene
import Octo.Model.LogicTypecheck
import Octo.Model.LogicMaybe
/-! C11 driver: model outputs and the property oracle (judge) for the line protocol (see harness/c11.go). -/
namespace Octo.Drv.C11
open Octo Octo.Codec Octo.Logic

def unmodelled : List Value → Res := fun _ => .err { path := [], tag := "unmodelled".toUTF8.toList }

/-- body models by function name; every other function of the table is opaque to the model -/
def bodyOf (name : List Nat) : List Value → Res :=
  if name == nmNot then fnNot else if name == nmIsNull then fnIsNull else if name == nmIsNotNull then fnIsNotNull
  else if name == nmLt then fnLt else if name == nmLe then fnLe else if name == nmEq then fnEq
  else if name == nmNe then fnNe else if name == nmGe then fnGe else if name == nmGt then fnGt
  else if name == nmPanic then fnPanic else unmodelled

/-- tokens → `physical.Expression` -/
partial def parseTree : List String → Option (PExpr × List String)
  | "C" :: rest => do
    let (ty, r) ← parseTy rest
    let (v, r) ← parseValue r
    pure (.const ty v, r)
  | "V" :: rest => do
    let (ty, r) ← parseTy rest
    match r with
    | n :: r => pure (.var ty n.toNat!, r)
    | [] => none
  | "A" :: rest => do
    let (ty, r) ← parseTy rest
    match r with
    | k :: r => let (args, r) ← parseMany k.toNat! r; pure (.and ty args, r)
    | [] => none
  | "O" :: rest => do
    let (ty, r) ← parseTy rest
    match r with
    | k :: r => let (args, r) ← parseMany k.toNat! r; pure (.or ty args, r)
    | [] => none
  | "F" :: rest => do
    let (ty, r) ← parseTy rest
    match r with
    | nm :: idx :: k :: r =>
      let name := parseName nm
      let (args, r) ← parseMany k.toNat! r
      pure (.call ty (tableDesc name idx.toNat! (bodyOf name)) args, r)
    | _ => none
  | _ => none
where
  parseMany : Nat → List String → Option (List PExpr × List String)
    | 0, r => some ([], r)
    | k + 1, r => do
      let (a, r) ← parseTree r
      let (as, r) ← parseMany k r
      pure (a :: as, r)

def triOfTok (s : String) : Option Tri :=
  if s == "b1" then some (some true) else if s == "b0" then some (some false) else if s == "n" then some none else none

/-- tokens → the typed boolean fragment (none when the tree uses anything else) -/
partial def parseTTree : List String → Option (TTree × List String)
  | "C" :: rest => do
    let (ty, r) ← parseTy rest
    match r with
    | v :: r => let t ← triOfTok v; pure (.const ty t, r)
    | [] => none
  | "V" :: rest => do
    let (ty, r) ← parseTy rest
    match r with
    | n :: r => pure (.var ty n.toNat!, r)
    | [] => none
  | "A" :: rest => do
    let (ty, r) ← parseTy rest
    match r with
    | k :: r => let (args, r) ← parseManyT k.toNat! r; pure (.and ty args, r)
    | [] => none
  | "O" :: rest => do
    let (ty, r) ← parseTy rest
    match r with
    | k :: r => let (args, r) ← parseManyT k.toNat! r; pure (.or ty args, r)
    | [] => none
  | "F" :: rest => do
    let (ty, r) ← parseTy rest
    match r with
    | nm :: idx :: k :: r =>
      let name := parseName nm
      if idx != "0" || k != "1" then none
      else if name == nmPanic then
        match r with
        | "C" :: "Str" :: s :: r => if s.startsWith "s" then pure (.fail ty (parseHexBytes (s.drop 1).toString), r) else none
        | _ => none
      else do
        let (a, r) ← parseTTree r
        if name == nmNot then pure (.not ty a, r)
        else if name == nmIsNull then pure (.isNull ty a, r)
        else if name == nmIsNotNull then pure (.isNotNull ty a, r)
        else none
    | _ => none
  | _ => none
where
  parseManyT : Nat → List String → Option (List TTree × List String)
    | 0, r => some ([], r)
    | k + 1, r => do
      let (a, r) ← parseTTree r
      let (as, r) ← parseManyT k r
      pure (a :: as, r)

def frameStr : Frame → String
  | .andArg i => s!"A{i}"
  | .orArg i => s!"O{i}"
  | .fnArg i => s!"F{i}"
  | .fnBody => "B"

def errStr (e : Err) : String :=
  let p := if e.path.isEmpty then "-" else String.intercalate "." (e.path.map frameStr)
  s!"err:{p}:{hexOfBytes e.tag}"

def resStr : Res → String
  | .val v => encodeValue v
  | .err e => errStr e
  | .panic => "panic"

def semStr (s : Sem) : String := resStr s.toRes

/-- all assignments in {TRUE,FALSE,NULL}^k, first variable slowest, TRUE < FALSE < NULL (the Go driver's order) -/
def assignments : Nat → List (List Tri)
  | 0 => [[]]
  | k + 1 => [some true, some false, none].flatMap fun t => (assignments k).map (t :: ·)

/-- leaf of the `and` / `or` sugar → tree tokens (harness: c11LeafTokens) -/
def leafTokens (l : String) : List String :=
  if l.startsWith "E" then ["F", "Any", "70616e6963", "0", "1", "C", "Str", "s" ++ (l.drop 1).toString]
  else
    let ty := match l.front with
      | 'n' => "Null" | 'b' => "Bool" | 'i' => "Int" | 's' => "Str" | 'f' => "Float" | 'd' => "Dur" | _ => "Any"
    ["C", ty, l]

def sugarTree (op : String) (leaves : List String) : List String :=
  let ty := if leaves.any (fun l => l == "n" || l.startsWith "E") then ["Union2", "Null", "Bool"] else ["Bool"]
  [if op == "or" then "O" else "A"] ++ ty ++ [toString leaves.length] ++ leaves.flatMap leafTokens

/-- `strict <namehex> <idx> <k> (<ty> <value>)*k` → tree tokens -/
partial def strictTree (toks : List String) : Option (List String) :=
  match toks with
  | nm :: idx :: k :: rest =>
    let rec go : Nat → List String → Option (List String)
      | 0, _ => some []
      | n + 1, r => do
        let (_, r2) ← parseTy r
        let (_, r3) ← parseValue r2
        let used := r.take (r.length - r3.length)
        let more ← go n r3
        pure ("C" :: used ++ more)
    (go k.toNat! rest).map fun args => ["F", "Any", nm, idx, k] ++ args
  | _ => none

structure Op where
  names : List Nat
  vals : List Value
  tree : List String

/-- the ops that evaluate one tree in one environment -/
def parseOp (toks : List String) : Option Op :=
  match toks with
  | "tree" :: nf :: rest =>
    let nf := nf.toNat!
    let names := (rest.take nf).map String.toNat!
    match rest.drop nf with
    | nv :: r => do
      let (vals, r) ← parseValues nv.toNat! r
      pure { names := names, vals := vals, tree := r }
    | [] => none
  | "and" :: k :: rest => some { names := [], vals := [], tree := sugarTree "and" (rest.take k.toNat!) }
  | "or" :: k :: rest => some { names := [], vals := [], tree := sugarTree "or" (rest.take k.toNat!) }
  | "strict" :: rest => (strictTree rest).map fun t => { names := [], vals := [], tree := t }
  | _ => none

def evalTree (names : List Nat) (vals : List Value) (tree : List String) : String :=
  match parseTree tree with
  | some (p, _) => resStr (eval [vals] (materialize [names] p))
  | none => "bad-op"

def statusStr : RunStatus → String
  | .ok => "ok"
  | .err e => errStr e
  | .panic => "panic"

def filterLine (out : List Msg) (st : String) : String :=
  if out.isEmpty then "| " ++ st else encodeMsgs out ++ " | " ++ st

/-- the source fails instead of delivering message number `failAt` -/
def cutStream (failAt : Int) (msgs : List Msg) : List Msg × Bool :=
  if failAt < 0 then (msgs, false) else (msgs.take failAt.toNat, true)

/-! ### logical layer (`ltreeall`) -/

partial def parseUTree : List String → Option (UTree × List String)
  | "c" :: v :: r => (triOfTok v).map fun t => (.const t, r)
  | "v" :: n :: r => some (.var n.toNat!, r)
  | "a" :: r => do let (l, r) ← parseUTree r; let (x, r) ← parseUTree r; pure (.and l x, r)
  | "o" :: r => do let (l, r) ← parseUTree r; let (x, r) ← parseUTree r; pure (.or l x, r)
  | "!" :: r => do let (a, r) ← parseUTree r; pure (.not a, r)
  | "z" :: r => do let (a, r) ← parseUTree r; pure (.isNull a, r)
  | "Z" :: r => do let (a, r) ← parseUTree r; pure (.isNotNull a, r)
  | _ => none

def parseBTy (s : String) : Option BTy :=
  if s == "B" then some .b else if s == "N" then some .n else if s == "BN" then some .bn else none

/-- a typed tree in the wire encoding (what the Go driver prints for the typechecker's output) -/
partial def encodeTTree : TTree → List String
  | .const ty t => ["C", encodeTy ty, encodeValue t.toValue]
  | .var ty n => ["V", encodeTy ty, toString n]
  | .fail ty tag => ["F", encodeTy ty, encodeName nmPanic, "0", "1", "C", "Str", "s" ++ hexOfBytes tag]
  | .and ty args => ["A", encodeTy ty, toString args.length] ++ args.flatMap encodeTTree
  | .or ty args => ["O", encodeTy ty, toString args.length] ++ args.flatMap encodeTTree
  | .not ty a => ["F", encodeTy ty, encodeName nmNot, "0", "1"] ++ encodeTTree a
  | .isNull ty a => ["F", encodeTy ty, encodeName nmIsNull, "0", "1"] ++ encodeTTree a
  | .isNotNull ty a => ["F", encodeTy ty, encodeName nmIsNotNull, "0", "1"] ++ encodeTTree a

def colDomain : BTy → List Tri
  | .b => [some true, some false]
  | .n => [none]
  | .bn => [some true, some false, none]

/-- every record that conforms to the column types, first column slowest -/
def recordsOf : List BTy → List (List Tri)
  | [] => [[]]
  | c :: cs => (colDomain c).flatMap fun t => (recordsOf cs).map (t :: ·)

structure LOp where
  cols : List BTy
  u : UTree

def parseLOp (toks : List String) : Option LOp :=
  match toks with
  | k :: rest => do
    let k := k.toNat!
    let cols ← (rest.take k).mapM parseBTy
    let (u, _) ← parseUTree (rest.drop k)
    pure { cols := cols, u := u }
  | [] => none

def modelLogical (toks : List String) : String :=
  match parseLOp toks with
  | none => "bad-op"
  | some op =>
    match typecheckU op.cols op.u with
    | none => "typecheck-panic"
    | some (t, _) =>
      let x := materialize [List.range op.cols.length] t.toP
      let outs := (recordsOf op.cols).map fun a => resStr (eval [a.map Tri.toValue] x)
      String.intercalate " " (encodeTTree t) ++ " | " ++ String.intercalate " " outs

/-- oracle: the Kleene value of the *untyped* expression on every conforming record — no typing hypothesis at all -/
def judgeLogical (toks : List String) (out : List String) : String :=
  match parseLOp toks with
  | none => "ok"
  | some op =>
    if out == ["typecheck-panic"] then
      -- the expression is a boolean expression over the declared columns: SQL gives it a value on every record.
      -- The one rejection the code is known for: NOT over an operand whose static type is exactly NULL.
      if !(op.u.bound op.cols.length) then "ok"
      else if op.u.notOverNull op.cols then
        "known null-typed-operand-rejected NOT over an operand of static type NULL is rejected by the typechecker"
      else "bad typechecker-rejects-boolean-expression"
    else
      let results := (out.dropWhile (· != "|")).drop 1
      let exps := (recordsOf op.cols).map fun a =>
        encodeValue (op.u.kleene (fun n => (a[n]?).getD none)).toValue
      if results.length != exps.length then "bad wrong-number-of-results"
      else
        match (exps.zip results).find? (fun (e, o) => e != o) with
        | some (e, o) => s!"bad not-kleene expected={e} got={o}"
        | none => "ok"

/-! ### comparisons through the typechecker (`lcmp`) -/

def parseITy (s : String) : Option ITy :=
  if s == "I" then some .i else if s == "N" then some .n else if s == "NI" then some .ni else none

def parseCmpOp (hex : String) : Option CmpOp :=
  let n := parseName hex
  if n == nmLt then some .lt else if n == nmLe then some .le else if n == nmEq then some .eq
  else if n == nmNe then some .ne else if n == nmGe then some .ge else if n == nmGt then some .gt else none

/-- operand: its static type, its `physical.Expression`, its wire form, and its value under the record -/
def operand (t0 t1 : ITy) (v0 v1 : Value) (s : String) : Option (ITy × PExpr × List String × Value) :=
  if s == "c0" then some (t0, .var t0.toTy 0, ["V", encodeTy t0.toTy, "0"], v0)
  else if s == "c1" then some (t1, .var t1.toTy 1, ["V", encodeTy t1.toTy, "1"], v1)
  else if s == "kn" then some (.n, .const .null .null, ["C", "Null", "n"], .null)
  else if s.startsWith "k" then
    let v := Value.int (parseInt! (s.drop 1).toString)
    some (.i, .const .int v, ["C", "Int", encodeValue v], v)
  else none

structure CmpLine where
  op : CmpOp
  lt : ITy
  rt : ITy
  call : BTy → PExpr
  wire : BTy → List String
  lv : Value
  rv : Value
  vals : List Value

def parseCmpLine (toks : List String) : Option CmpLine :=
  match toks with
  | oph :: t0 :: t1 :: a :: b :: rest => do
    let op ← parseCmpOp oph
    let t0 ← parseITy t0
    let t1 ← parseITy t1
    let (vals, _) ← parseValues 2 rest
    match vals with
    | [v0, v1] =>
      let (lt, lp, lw, lv) ← operand t0 t1 v0 v1 a
      let (rt, rp, rw, rv) ← operand t0 t1 v0 v1 b
      pure { op := op, lt := lt, rt := rt, lv := lv, rv := rv, vals := vals
             call := fun bt => .call bt.toTy (tableDesc op.name 0 op.fn) [lp, rp]
             wire := fun bt => ["F", encodeTy bt.toTy, oph, "0", "2"] ++ lw ++ rw }
    | _ => none
  | _ => none

def modelCmp (toks : List String) : String :=
  match parseCmpLine toks with
  | none => "bad-op"
  | some c =>
    match typecheckCmp c.op c.lt c.rt with
    | none => "typecheck-panic"
    | some bt =>
      String.intercalate " " (c.wire bt) ++ " | " ++ resStr (eval [c.vals] (materialize [[0, 1]] (c.call bt)))

/-- oracle: NULL when an operand is NULL, otherwise the comparison of the two integers -/
def judgeCmp (toks : List String) (out : List String) : String :=
  match parseCmpLine toks with
  | none => "ok"
  | some c =>
    if out == ["typecheck-panic"] then
      if (typecheckCmp c.op c.lt c.rt).isNone then
        "known null-typed-operand-rejected ordering comparison with an operand of static type NULL is rejected by the typechecker"
      else "bad typechecker-rejects-comparison"
    else
      let result := String.intercalate " " ((out.dropWhile (· != "|")).drop 1)
      let want := match c.lv, c.rv with
        | .int a, .int b => if c.op.holds a b then "b1" else "b0"
        | _, _ => "n"
      if result == want then "ok" else s!"bad comparison expected={want} got={result}"

/-- the functions that handle NULL themselves (everything else is expected to be strict) -/
def exemptFromStrict (name : List Nat) : Bool :=
  name == nmIsNull || name == nmIsNotNull || name == nmString || name == nmPanic

/-! ### the Maybe pass (`lcall`) -/

def parseFTy (s : String) : FTy := (s.splitOn ",").map String.toNat!

/-- a body the model does not have: the outcome is the token `body` -/
def bodyToken : List Value → Res := fun _ => .err { path := [], tag := "body".toUTF8.toList }

def bodyOrToken (name : List Nat) : List Value → Res :=
  if name == nmNot || name == nmIsNull || name == nmIsNotNull || name == nmLt || name == nmLe || name == nmEq ||
     name == nmNe || name == nmGe || name == nmGt || name == nmPanic then bodyOf name else bodyToken

partial def encodeArg : PExpr → String
  | .var ty i => s!"V {encodeTy ty} {i}"
  | .assert ty target e => s!"T {encodeTy ty} {encodeTy target} {encodeArg e}"
  | _ => "?"

structure CallLine where
  name : List Nat
  tys : List FTy
  vals : List Value

partial def parseCallLine (toks : List String) : Option CallLine :=
  match toks with
  | nm :: k :: rest =>
    let rec go : Nat → List String → Option (List FTy × List Value)
      | 0, _ => some ([], [])
      | n + 1, ids :: r => do
        let (v, r) ← parseValue r
        let (ts, vs) ← go n r
        pure (parseFTy ids :: ts, v :: vs)
      | _, [] => none
    (go k.toNat! rest).map fun (ts, vs) => { name := parseName nm, tys := ts, vals := vs }
  | _ => none

def modelCall (toks : List String) : String :=
  match parseCallLine toks with
  | none => "bad-op"
  | some c =>
    match typecheckCall c.name c.tys with
    | none => "typecheck-panic"
    | some (d, args) =>
      let desc : Desc := { strict := d.strict, fn := bodyOrToken c.name }
      let r := eval [c.vals] (materialize [List.range c.tys.length] (.call .any desc args))
      let out := match r with
        | .err e => if e.tag == "body".toUTF8.toList && e.path == [.fnBody] then "body" else errStr e
        | r => resStr r
      String.intercalate " " (s!"D{d.idx}" :: args.map encodeArg) ++ " | " ++ out

/-- oracle: a function that is not one of the NULL handlers, applied to columns one of which holds NULL, is NULL —
    whatever else the column's static type admits; never an error -/
def judgeCall (toks : List String) (out : List String) : String :=
  match parseCallLine toks with
  | none => "ok"
  | some c =>
    if out == ["typecheck-panic"] then "ok"
    else
      let result := String.intercalate " " ((out.dropWhile (· != "|")).drop 1)
      let wellTyped := (c.tys.zip c.vals).all fun (s, v) => s.contains v.rank
      if wellTyped && !exemptFromStrict c.name && c.vals.any isNull then
        if result == "n" then "ok" else s!"bad null-propagation-through-maybe-pass expected=n got={result}"
      else "ok"

def model (toks : List String) : String :=
  match toks with
  | "ltreeall" :: rest => modelLogical rest
  | "lcmp" :: rest => modelCmp rest
  | "lcall" :: rest => modelCall rest
  | "treeall" :: k :: tree =>
    let k := k.toNat!
    match parseTree tree with
    | some (p, _) =>
      let x := materialize [List.range k] p
      String.intercalate " " ((assignments k).map fun a => resStr (eval [a.map Tri.toValue] x))
    | none => "bad-op"
  | "filter" :: failAt :: nf :: rest =>
    let nf := nf.toNat!
    let names := (rest.take nf).map String.toNat!
    match parseTree (rest.drop nf) with
    | some (p, r) =>
      match parseMsgs r with
      | some msgs =>
        let (msgs, injected) := cutStream (parseInt! failAt) msgs
        let (out, st) := filterRun (materialize [names] p) [] msgs
        match st with
        | .panic => "panic"
        | .ok => filterLine out (if injected then "err:injected" else "ok")
        | .err e => filterLine out (errStr e)
      | none => "bad-op"
    | none => "bad-op"
  | _ =>
    match parseOp toks with
    | some op => evalTree op.names op.vals op.tree
    | none => "bad-op"

/-! ### The oracle -/

def valTri : Value → Option Tri
  | .null => some none
  | .bool b => some (some b)
  | _ => none

def allTri (vals : List Value) : Option (List Tri) := vals.mapM valTri

/-- reference result of a tree in the fragment, under a record; `none` = the property does not speak about this case
    (a construct outside the fragment, unsound static types, an unbound variable, a non-boolean column) -/
def expected (names : List Nat) (vals : List Value) (tree : List String) : Option String := do
  let (t, _) ← parseTTree tree
  let tris ← allTri vals
  if names.length != tris.length then none
  let ρ := envOf names tris
  if !(t.bound names && t.ok ρ) then none
  pure (semStr (t.den ρ))


/-- spec of a `strict` line: `some s` = the output must be `s` -/
partial def strictExpected (toks : List String) : Option String :=
  match toks with
  | nm :: _idx :: k :: rest =>
    let name := parseName nm
    let rec args : Nat → List String → Option (List (Ty × Value))
      | 0, _ => some []
      | n + 1, r => do
        let (ty, r2) ← parseTy r
        let (v, r3) ← parseValue r2
        let more ← args n r3
        pure ((ty, v) :: more)
    match args k.toNat! rest with
    | none => none
    | some as =>
      let wellTyped := as.all fun (ty, v) => conforms ty v
      if !wellTyped then none
      else if name == nmIsNull then
        match as with
        | [(_, v)] => some (if isNull v then "b1" else "b0")
        | _ => none
      else if name == nmIsNotNull then
        match as with
        | [(_, v)] => some (if isNull v then "b0" else "b1")
        | _ => none
      else if exemptFromStrict name then none
      else if as.any (fun (_, v) => isNull v) then some "n"
      else none
  | _ => none

/-- reference behaviour of Filter on a stream: keep exactly the records whose predicate is TRUE, forward
    watermarks, stop at the first error that evaluation reaches -/
def filterSpec (t : TTree) (names : List Nat) : List Msg → Option (List Msg × String)
  | [] => some ([], "ok")
  | .wm w :: rest => (filterSpec t names rest).map fun (o, s) => (.wm w :: o, s)
  | .data r :: rest => do
    let tris ← allTri r.vals
    if names.length != tris.length then none
    let ρ := envOf names tris
    if !(t.bound names && t.ok ρ) then none
    match t.den ρ with
    | .error e => pure ([], errStr e)
    | .ok (some true) => (filterSpec t names rest).map fun (o, s) => (.data r :: o, s)
    | .ok _ => filterSpec t names rest

def judge (toks : List String) (out : List String) : String :=
  let outS := String.intercalate " " out
  match toks with
  | "ltreeall" :: rest => judgeLogical rest out
  | "lcmp" :: rest => judgeCmp rest out
  | "lcall" :: rest => judgeCall rest out
  | "treeall" :: k :: tree =>
    let k := k.toNat!
    let names := List.range k
    let exps := (assignments k).map fun a => expected names (a.map Tri.toValue) tree
    if out.length != exps.length then "bad wrong-number-of-results"
    else
      match (exps.zip out).find? (fun (e, o) => match e with | some s => s != o | none => false) with
      | some (e, o) => s!"bad not-kleene expected={e.getD ""} got={o}"
      | none => "ok"
  | "filter" :: failAt :: nf :: rest =>
    let nf := nf.toNat!
    let names := (rest.take nf).map String.toNat!
    match parseTTree (rest.drop nf) with
    | some (t, r) =>
      match parseMsgs r with
      | some msgs =>
        let (msgs, injected) := cutStream (parseInt! failAt) msgs
        match filterSpec t names msgs with
        | some (o, st) =>
          let st := if st == "ok" && injected then "err:injected" else st
          let want := filterLine o st
          if want == outS then "ok" else s!"bad filter-not-exactly-the-true-rows expected=[{want}]"
        | none => "ok"
      | none => "ok"
    | none => "ok"
  | "strict" :: rest =>
    match strictExpected rest with
    | some s => if outS == s then "ok" else s!"bad null-propagation expected={s} got={outS}"
    | none => "ok"
  | _ =>
    match parseOp toks with
    | some op =>
      match expected op.names op.vals op.tree with
      | some s => if outS == s then "ok" else s!"bad not-kleene expected={s} got={outS}"
      | none => "ok"
    | none => "ok"

end Octo.Drv.C11
