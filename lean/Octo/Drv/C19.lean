import Octo.Drv.Codec
import Octo.Model.JoinSpec
/-!
  C19 (and node-level C02) driver.

  op line:  (sj|oj) <outerL 0|1> <outerR 0|1> <nL> <nR> <keysL> <keysR> <sched> | <left stream> | <right stream>
    keys: comma separated column indices or `-`;  sched: a string over {L,R}: which input's next event
    (message, or the close after its last message) the node takes next.
  output:   ok <emitted messages>  |  panic <messages emitted before the panic>  |  bad-schedule
-/
namespace Octo.Drv.C19
open Octo Octo.Codec Octo.Join

structure Op where
  cfg : Cfg
  sched : List Bool
  left : List Msg
  right : List Msg

def parseIdx (s : String) : List Nat :=
  if s == "-" then [] else (s.splitOn ",").map String.toNat!

def splitBar (toks : List String) : List (List String) :=
  let rec go (acc : List String) : List String → List (List String)
    | [] => [acc.reverse]
    | t :: ts => if t == "|" then acc.reverse :: go [] ts else go (t :: acc) ts
  go [] toks

def parseOp (toks : List String) : Option Op :=
  match toks with
  | kind :: ol :: or :: nl :: nr :: kl :: kr :: sched :: rest =>
    match splitBar rest with
    | [_, l, r] => do
      let left ← parseMsgs l
      let right ← parseMsgs r
      let cfg : Cfg := { outer := kind == "oj", outerL := ol == "1", outerR := or == "1", nL := nl.toNat!, nR := nr.toNat!,
                         keysL := parseIdx kl, keysR := parseIdx kr, switchOsr := false, nullMatch := false }
      pure { cfg := cfg, sched := sched.toList.map (· == 'L'), left := left, right := right }
    | _ => none
  | _ => none

def showOut (status : String) (out : List Msg) : String :=
  if out.isEmpty then status else status ++ " " ++ encodeMsgs out

/-- model side: the same line the Go driver prints -/
def model (toks : List String) : String :=
  match parseOp toks with
  | none => "bad-op"
  | some op =>
    match schedOf op.sched (evsOf true op.left) (evsOf false op.right) with
    | none => "bad-schedule"
    | some σ =>
      match run op.cfg σ with
      | .ok out => showOut "ok" out
      | .panic out => showOut "panic" out
      | .badSchedule => "bad-schedule"

/-! ### the oracle: the two spec predicates evaluated on what the implementation printed -/

/-- `∀ row, net a row = net b row`, checked on the rows that occur -/
def sameNet (a b : List Rec) : Bool :=
  (a ++ b).all fun r => net a r.vals == net b r.vals

/-- monotone watermarks and no late records: every record after a watermark `w` of its own input has a
    later event time (records without event time are exempt) -/
def freshB : Option Int → List Msg → Bool
  | _, [] => true
  | cur, .data r :: ms =>
    (match r.et, cur with
     | some t, some w => decide (w < t)
     | _, _ => true) && freshB cur ms
  | cur, .wm w :: ms =>
    (match cur with
     | some c => decide (c ≤ w)
     | none => true) && freshB (some w) ms

def allTimed (ms : List Msg) : Bool := (recs ms).all fun r => r.et.isSome
def allUntimed (ms : List Msg) : Bool := (recs ms).all fun r => r.et.isNone
def noRetractions (ms : List Msg) : Bool := (recs ms).all fun r => !r.retr

/-- stable insertion sort by event time (the order in which the buffer hands records on) -/
def insertEt (r : Rec) : List Rec → List Rec
  | [] => [r]
  | x :: xs =>
    if (match r.et, x.et with
        | some a, some b => decide (a < b)
        | none, some _ => true
        | _, _ => false) then r :: x :: xs else x :: insertEt r xs
def sortEt (rs : List Rec) : List Rec := rs.foldl (fun acc r => insertEt r acc) []

def keysInRange (cfg : Cfg) (left right : List Msg) : Bool :=
  ((recs left).all fun r => (keyOf cfg.keysL r.vals).isSome) && ((recs right).all fun r => (keyOf cfg.keysR r.vals).isSome)

def widthsOK (cfg : Cfg) (left right : List Msg) : Bool :=
  !cfg.outer || (((recs left).all fun r => r.vals.length == cfg.nL) && ((recs right).all fun r => r.vals.length == cfg.nR))

/-- inputs on which a panic of the node is a violation: keys in range, and each input read in the
    order in which the node processes it is a valid changelog -/
def mustNotPanic (op : Op) : Bool :=
  keysInRange op.cfg op.left op.right &&
  ((noRetractions op.left && noRetractions op.right) ||
   (allUntimed op.left && allUntimed op.right && validLogB (recs op.left) && validLogB (recs op.right)) ||
   (allTimed op.left && allTimed op.right && freshB none op.left && freshB none op.right
      && validLogB (sortEt (recs op.left)) && validLogB (sortEt (recs op.right))))

/-- every emitted watermark `W`: consolidated output so far = join of the inputs up to `W` -/
def wmConsistent (op : Op) : List Msg → List Msg → Option Int
  | _, [] => none
  | pre, .data r :: rest => wmConsistent op (pre ++ [.data r]) rest
  | pre, .wm w :: rest =>
    if sameNet (recs pre) (specRecs op.cfg (upTo w (recs op.left)) (upTo w (recs op.right)))
    then wmConsistent op (pre ++ [.wm w]) rest else some w

def judge (toks : List String) (out : List String) : String :=
  match parseOp toks with
  | none => "ok"
  | some op =>
    match out with
    | "ok" :: rest =>
      match parseMsgs rest with
      | none => "bad unparsable-impl-output"
      | some o =>
        if !widthsOK op.cfg op.left op.right then "ok"
        else if !sameNet (recs o) (specRecs op.cfg (recs op.left) (recs op.right)) then "bad final-result-is-not-the-join"
        else if allTimed op.left && allTimed op.right && freshB none op.left && freshB none op.right then
          match wmConsistent op [] o with
          | some w => s!"bad output-at-watermark-{w}-is-not-the-join-up-to-it"
          | none => "ok"
        else "ok"
    | "panic" :: _ => if mustNotPanic op then "bad panic-on-valid-input" else "ok"
    | _ => "bad " ++ String.intercalate "_" out

end Octo.Drv.C19
