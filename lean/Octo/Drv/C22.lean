import Octo.Drv.Codec
import Octo.Model.ConsistentOutput
/-! C22 driver: `run <stream>` / `fail <k> <stream>`; model output and the property oracle. -/
namespace Octo.Drv.C22
open Octo Octo.Codec

def render (tag : String) : Except ICW.Fail (List Msg) → String
  | .ok [] => tag
  | .ok out => tag ++ " " ++ encodeMsgs out
  | .error .panic => "panic"

/-- model side: the current code (after the `fix:` commit) -/
def modelWith (v : ICW.Version) (toks : List String) : String :=
  match toks with
  | "run" :: rest =>
    match parseMsgs rest with
    | some inp => render "ok" (ICW.run v inp)
    | none => "bad-op"
  | "fail" :: k :: rest =>
    match parseMsgs rest, k.toNat? with
    | some inp, some k => render "err:injected" (ICW.runFail v (inp.take k))
    | _, _ => "bad-op"
  | _ => "bad-op"

def model (toks : List String) : String := modelWith ICW.fixed toks
def modelShipped (toks : List String) : String := modelWith ICW.shipped toks

/-! ### the oracle -/

def monoB : List Int → Bool
  | a :: b :: rest => decide (a ≤ b) && monoB (b :: rest)
  | _ => true

def sameArityB (rs : List Rec) : Bool :=
  match rs with
  | [] => true
  | r :: rest => rest.all fun x => x.vals.length == r.vals.length

/-- `∀ row` over the rows that occur: consolidated views agree -/
def netEqB (a b : List Rec) : Bool :=
  (a ++ b).all fun r => net a r.vals == net b r.vals

/-- the messages before the `k`-th watermark (0-based), and that watermark -/
def uptoWm : Nat → List Msg → Option (List Msg × Int)
  | _, [] => none
  | 0, .wm t :: _ => some ([], t)
  | k + 1, .wm t :: ms => (uptoWm k ms).map fun (p, w) => (.wm t :: p, w)
  | k, .data r :: ms => (uptoWm k ms).map fun (p, w) => (.data r :: p, w)

def etLe (W : Int) (r : Rec) : Bool := !ICW.after W r

/-- at the k-th forwarded watermark W: consolidated emitted records = consolidated input records (delivered
    before that watermark) with event time ≤ W -/
def atWmB (inp out : List Msg) : Bool :=
  (List.range (wms inp).length).all fun k =>
    match uptoWm k inp, uptoWm k out with
    | some (ip, W), some (op, _) => netEqB (recs op) ((recs ip).filter (etLe W))
    | _, _ => false

/-- every emitted record is one of the input records, not more often than it was received -/
def noInventionB (inp out : List Rec) : Bool :=
  let ei := inp.map encodeRec
  let eo := out.map encodeRec
  eo.all fun e => decide (eo.count e ≤ ei.count e)

/-- property oracle on what the implementation printed for `run <stream>`.
    Premise: non-decreasing watermarks and one arity for all records (a stream has one schema).
    Demanded: every watermark forwarded, in order; `atWmB`; `noInventionB`; at end of stream the consolidated
    output equals the consolidated input. -/
def judge (toks : List String) (out : List String) : String :=
  match toks with
  | "run" :: rest =>
    match parseMsgs rest with
    | none => "ok"
    | some inp =>
      if !(monoB (wms inp) && sameArityB (recs inp)) then "ok"
      else match out with
        | "ok" :: o =>
          match parseMsgs o with
          | none => "bad unparsable-impl-output"
          | some got =>
            if wms got != wms inp then "bad watermarks-not-forwarded-as-received"
            else if !noInventionB (recs inp) (recs got) then "bad emitted-record-not-in-input"
            else if !atWmB inp got then "bad at-watermark-emitted-differs-from-input-up-to-watermark"
            else if !netEqB (recs got) (recs inp) then "bad end-of-stream-output-incomplete"
            else "ok"
        | ["panic"] => "bad panic"
        | _ => "bad unexpected-output"
  | "fail" :: k :: rest =>
    -- the source failed after k messages: no final flush, but what was emitted must still be consistent
    match parseMsgs rest, k.toNat? with
    | some inp0, some k =>
      let inp := inp0.take k
      if !(monoB (wms inp) && sameArityB (recs inp)) then "ok"
      else match out with
        | "err:injected" :: o =>
          match parseMsgs o with
          | none => "bad unparsable-impl-output"
          | some got =>
            if wms got != wms inp then "bad watermarks-not-forwarded-as-received"
            else if !noInventionB (recs inp) (recs got) then "bad emitted-record-not-in-input"
            else if !atWmB inp got then "bad at-watermark-emitted-differs-from-input-up-to-watermark"
            else "ok"
        | ["panic"] => "bad panic"
        | _ => "bad source-error-not-returned"
    | _, _ => "ok"
  | _ => "ok"

end Octo.Drv.C22
