import Octo.Drv.Codec
import Octo.Model.MaxDiffWatermark
import Octo.Spec.MaxDiffWatermark
/-! C20 driver: `run <maxDiff> <res|-> <idx> <stream>`; model output and the property oracle. -/
namespace Octo.Drv.C20
open Octo Octo.Codec

structure Op where
  md : Int
  res : Int
  idx : Nat
  inp : List Msg

def parseOp (toks : List String) : Option Op :=
  match toks with
  | "run" :: md :: res :: idx :: rest => do
    let md ← md.toInt?
    let res ← if res == "-" then some 1000000000 else res.toInt?   -- default resolution: one second
    let idx ← idx.toNat?
    let inp ← parseMsgs rest
    pure { md, res, idx, inp }
  | _ => none

def render (tag : String := "ok") : Except MaxDiff.Fail (List Msg) → String
  | .ok [] => tag
  | .ok out => tag ++ " " ++ encodeMsgs out
  | .error .err => "err:runtime"
  | .error .panic => "panic"
  | .error .illTyped => "ill-typed"

/-- `schema <want> <noRetr> <k> (<name> <ty>)*k` -/
structure SchemaOp where
  want : String
  noRetr : String
  fields : List (String × Bool)

def parseFields : Nat → List String → Option (List (String × Bool))
  | 0, _ => some []
  | k + 1, name :: ty :: rest => (parseFields k rest).map ((name, ty == "T") :: ·)
  | _ + 1, _ => none

def parseSchemaOp (toks : List String) : Option SchemaOp :=
  match toks with
  | "schema" :: want :: nr :: k :: rest => do
    let k ← k.toNat?
    let fields ← parseFields k rest
    pure { want, noRetr := nr, fields }
  | _ => none

def modelWith (v : MaxDiff.Version) (toks : List String) : String :=
  match toks with
  | "fail" :: k :: rest =>
    match parseOp ("run" :: rest), k.toNat? with
    | some op, some k =>
      match MaxDiff.runFail v op.md op.res op.idx (op.inp.take k) with
      | .error .err => "err:runtime"
      | r => render "err:injected" r
    | _, _ => "bad-op"
  | "schema" :: _ =>
    match parseSchemaOp toks with
    | some op =>
      match MaxDiff.schemaTimeField op.want op.fields 0 with
      | .error _ => "err:typecheck"
      | .ok tf =>
        match MaxDiff.materializeIndex op.want op.fields 0 with
        | some used => s!"ok {tf} {used} {op.fields.length} {op.noRetr}"
        | none => "panic"
    | none => "bad-op"
  | _ =>
    match parseOp toks with
    | some op => render "ok" (MaxDiff.run v op.md op.res op.idx op.inp)
    | none => "bad-op"

/-- model side: the current code (after the `fix:` commit) -/
def model (toks : List String) : String := modelWith .fixed toks

/-- the same op through the model of the code as shipped (not used by the check; for experiments) -/
def modelShipped (toks : List String) : String := modelWith .shipped toks

def encRecs (ms : List Msg) : List String := (recs ms).map encodeRec

/-- property oracle on what the implementation printed.
    In the domain (Time values in the Int64 range in the time field):
      * resolution ≤ 0 must be rejected with an error (no panic, no output);
      * otherwise the emitted stream must be exactly the prescribed one (`MaxDiffSpec.spec`): the records that are
        not at or below the current watermark, unchanged, event time = time field; after each record the
        watermark floor(max so far) − max_diff iff it increased; nothing for upstream watermarks. -/
def judgeRun (toks : List String) (out : List String) : String :=
  match parseOp toks with
  | none => "ok"
  | some op =>
    if !MaxDiffSpec.inDomainB op.idx op.inp then "ok"
    else if op.res ≤ 0 then
      (if out == ["err:runtime"] then "ok"
       else if out == ["panic"] then "bad panic-on-nonpositive-resolution"
       else "bad nonpositive-resolution-not-rejected")
    else
      match out with
      | "ok" :: rest =>
        match parseMsgs rest with
        | none => "bad unparsable-impl-output"
        | some got =>
          let want := MaxDiffSpec.spec op.res op.md op.idx op.inp
          if encodeMsgs got == encodeMsgs want then "ok"
          else if encRecs got != encRecs want then
            (if (encRecs got).length < (encRecs want).length then "bad record-above-watermark-dropped-or-altered"
             else "bad forwarded-records-differ")
          else if wms got != wms want then "bad watermarks-differ"
          else "bad order-of-records-and-watermarks-differs"
      | ["panic"] => "bad panic"
      | _ => "bad unexpected-error"

/-- the first field called `want` -/
def firstNamed (want : String) : List (String × Bool) → Nat → Option (Nat × Bool)
  | [], _ => none
  | (n, t) :: rest, i => if n = want then some (i, t) else firstNamed want rest (i + 1)

def judge (toks : List String) (out : List String) : String :=
  match toks with
  | "schema" :: _ =>
    -- the declared time field of the output schema is the column named by time_field, it has type Time, and it is
    -- the column the running node stamps event times from; a missing / non-Time column is a typecheck error
    match parseSchemaOp toks with
    | none => "ok"
    | some op =>
      match firstNamed op.want op.fields 0, out with
      | some (i, true), ["ok", tf, used, n, nr] =>
        if tf.toNat? != some i then "bad schema-time-field-is-not-the-named-column"
        else if used.toInt? != some (i : Int) then "bad running-node-uses-another-column-than-the-schema-time-field"
        else if n.toNat? != some op.fields.length then "bad schema-fields-changed"
        else if nr != op.noRetr then "bad schema-noretractions-changed"
        else "ok"
      | some (_, true), _ => "bad valid-time-field-rejected"
      | _, ["err:typecheck"] => "ok"
      | _, _ => "bad missing-or-non-time-field-accepted"
  | "fail" :: k :: rest =>
    -- the source failed after k messages: the error is returned, what was emitted is the prescribed output of that prefix
    match parseOp ("run" :: rest), k.toNat? with
    | some op, some k =>
      if op.res ≤ 0 then judgeRun ("run" :: rest) out
      else match out with
        | "err:injected" :: o =>
          judgeRun (["run", toString op.md, toString op.res, toString op.idx] ++ tokens (encodeMsgs (op.inp.take k))) ("ok" :: o)
        | ["panic"] => "bad panic"
        | _ => "bad source-error-not-returned"
    | _, _ => "ok"
  | _ => judgeRun toks out

end Octo.Drv.C20
