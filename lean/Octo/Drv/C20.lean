import Octo.Drv.Codec
import Octo.Model.MaxDiffWatermark
import Octo.Spec.MaxDiffWatermark
/-! C20 driver: `run <maxDiff> <res|-> <idx> <stream>`; model output and the property oracle. -/
namespace Octo.Drv.C20
open Octo Octo.Codec

structure Op where
  md : Int
  res : Int
  idx : Nat
  inp : List Msg

def parseOp (toks : List String) : Option Op :=
  match toks with
  | "run" :: md :: res :: idx :: rest => do
    let md ← md.toInt?
    let res ← if res == "-" then some 1000000000 else res.toInt?   -- default resolution: one second
    let idx ← idx.toNat?
    let inp ← parseMsgs rest
    pure { md, res, idx, inp }
  | _ => none

def render : Except MaxDiff.Fail (List Msg) → String
  | .ok [] => "ok"
  | .ok out => "ok " ++ encodeMsgs out
  | .error .err => "err:runtime"
  | .error .panic => "panic"
  | .error .illTyped => "ill-typed"

/-- model side: the current code (after the `fix:` commit) -/
def model (toks : List String) : String :=
  match parseOp toks with
  | some op => render (MaxDiff.run .fixed op.md op.res op.idx op.inp)
  | none => "bad-op"

/-- the same op through the model of the code as shipped (not used by the check; for `octodrv` experiments) -/
def modelShipped (toks : List String) : String :=
  match parseOp toks with
  | some op => render (MaxDiff.run .shipped op.md op.res op.idx op.inp)
  | none => "bad-op"

def encRecs (ms : List Msg) : List String := (recs ms).map encodeRec

/-- property oracle on what the implementation printed.
    In the domain (Time values in the Int64 range in the time field):
      * resolution ≤ 0 must be rejected with an error (no panic, no output);
      * otherwise the emitted stream must be exactly the prescribed one (`MaxDiffSpec.spec`): the records that are
        not at or below the current watermark, unchanged, event time = time field; after each record the
        watermark floor(max so far) − max_diff iff it increased; nothing for upstream watermarks. -/
def judge (toks : List String) (out : List String) : String :=
  match parseOp toks with
  | none => "ok"
  | some op =>
    if !MaxDiffSpec.inDomainB op.idx op.inp then "ok"
    else if op.res ≤ 0 then
      (if out == ["err:runtime"] then "ok"
       else if out == ["panic"] then "bad panic-on-nonpositive-resolution"
       else "bad nonpositive-resolution-not-rejected")
    else
      match out with
      | "ok" :: rest =>
        match parseMsgs rest with
        | none => "bad unparsable-impl-output"
        | some got =>
          let want := MaxDiffSpec.spec op.res op.md op.idx op.inp
          if encodeMsgs got == encodeMsgs want then "ok"
          else if encRecs got != encRecs want then
            (if (encRecs got).length < (encRecs want).length then "bad record-above-watermark-dropped-or-altered"
             else "bad forwarded-records-differ")
          else if wms got != wms want then "bad watermarks-differ"
          else "bad order-of-records-and-watermarks-differs"
      | ["panic"] => "bad panic"
      | _ => "bad unexpected-error"

end Octo.Drv.C20
