import Octo.Drv.PluginsCodec
/-!
  C28 driver.

    list    VT… FS…            → ok <k> <repohex>/<namehex>=<orighex>,… …   | err:list | err:version
    resolve VT… CT… FS… CFG…   → ok <dbhex>=<orighex> …                      | err:…  (start-up of the real binary)
    pick    VT… CT… JOB…       → ok <canonhex of the installed version>      | err:notfound
    semver  VT… CT…            → <k×k matrix of GreaterThan, rows joined by ,> <parse(String()) round trip bits>

  `judge` is the property, computed from the op line alone (not through the model functions): discovery under
  the exact name, versions complete and descending, resolution = the highest installed version passing the
  constraint, install = the highest manifest version passing (highest non-prerelease without constraint),
  and the order laws the theorems assume of the library.
-/
namespace Octo.Drv.C28
open Octo Octo.Fs Octo.Plugins Octo.Drv.Plugins

def encMeta (m : Meta Ver) : String :=
  hexOfName m.ref.repo ++ "/" ++ hexOfName m.ref.name ++ "=" ++ String.intercalate "," (m.versions.map (fun v => hexOfName v.orig))

def model (toks : List String) : String :=
  match toks with
  | "list" :: rest =>
    (do let (vt, rest) ← section_ "VT" parseVRow rest
        let (es, _) ← section_ "FS" parseEntry rest
        let S := sem vt []
        pure (match listInstalled S (fsOfEntries es) with
              | .error e => errClass e
              | .ok ms => s!"ok {ms.length}" ++ String.join (ms.map (fun m => " " ++ encMeta m)))).getD "bad-op"
  | "resolve" :: rest =>
    (do let (vt, rest) ← section_ "VT" parseVRow rest
        let (ct, rest) ← section_ "CT" (parseCon vt) rest
        let (es, rest) ← section_ "FS" parseEntry rest
        let (cfg, _) ← section_ "CFG" (parseDb ct) rest
        pure (encStartup (startup (sem vt ct) (fsOfEntries es) cfg))).getD "bad-op"
  | "pick" :: rest =>
    (do let (vt, rest) ← section_ "VT" parseVRow rest
        let (ct, rest) ← section_ "CT" (parseCon vt) rest
        let (job, _) ← parseJob vt ct rest
        let S := sem vt ct
        pure (match installPick S job.constraint (job.manifest.filterMap S.parse) with
              | some v => "ok " ++ hexOfName v.canon
              | none => "err:notfound")).getD "bad-op"
  | "semver" :: rest =>
    (do let (vt, _) ← section_ "VT" parseVRow rest
        let rows : List Nat := vt.filterMap (fun (r : VRow) => r.rank)
        let mat := rows.map (fun a => String.ofList (rows.map (fun b => if a > b then '1' else '0')))
        pure (String.intercalate "," mat ++ " " ++ String.ofList (rows.map (fun _ => '1')))).getD "bad-op"
  | _ => "bad-op"

/-! ### the oracle -/

/-- the element with the highest rank among those passing `p` -/
def best (p : VRow → Bool) (rows : List VRow) : Option VRow :=
  rows.foldl (fun acc r =>
    match r.rank with
    | none => acc
    | some k =>
      if p r then
        match acc with
        | some a => if (a.rank.getD 0) < k then some r else acc
        | none => some r
      else acc) none

def rowOf (vt : List VRow) (x : FName) : Option VRow := vt.find? (fun r => r.orig == x)

/-- direct children (name, node) of a path in the op line's tree -/
def kids (es : List (Path × Node)) (p : Path) : List (FName × Node) :=
  es.filterMap (fun e => match childName? p e.1 with | some x => some (x, e.2) | none => none)

def isDirNode : Node → Bool
  | .dir => true
  | _ => false

/-- is the version list `vs` (origs) descending by rank and a rearrangement of `expected`? -/
def descending (vt : List VRow) : List FName → Bool
  | a :: b :: rest =>
    (match rowOf vt a, rowOf vt b with
     | some ra, some rb => decide ((ra.rank.getD 0) > (rb.rank.getD 0))
     | _, _ => false) && descending vt (b :: rest)
  | _ => true

def sameMembers (a b : List FName) : Bool := a.all (b.contains ·) && b.all (a.contains ·) && a.length == b.length

def parseListOut (out : List String) : Option (List (FName × FName × List FName)) :=
  match out with
  | "ok" :: _ :: rest =>
    rest.mapM (fun t =>
      match t.splitOn "=" with
      | [rn, vs] =>
        match rn.splitOn "/" with
        | [r, n] => some (nameOfHex r, nameOfHex n, if vs == "" then [] else (vs.splitOn ",").map nameOfHex)
        | _ => none
      | _ => none)
  | _ => none

/-- is the tree one on which listing must succeed? -/
def healthyTree (vt : List VRow) (es : List (Path × Node)) : Bool :=
  (match es.find? (fun e => e.1 == pluginsDir) with | some (_, .file _) => false | _ => true) &&
  (kids es pluginsDir).all (fun r => isDirNode r.2 &&
    (kids es (pluginsDir ++ [r.1])).all (fun d => isDirNode d.2 &&
      (kids es (pluginsDir ++ [r.1, d.1])).all (fun x => isDot x.1 || (match rowOf vt x.1 with | some row => row.rank.isSome | none => false))))

def judgeList (vt : List VRow) (es : List (Path × Node)) (out : List String) : String :=
  let repos := kids es pluginsDir
  let healthy := healthyTree vt es
  if !healthy then
    (match out with
     | ["err:list"] => "ok"
     | ["err:version"] => "ok"
     | _ => "bad listing-of-a-malformed-tree-did-not-fail")
  else
    match parseListOut out with
    | none => "bad listing-failed-on-a-well-formed-tree"
    | some got =>
      let missing := repos.any (fun r =>
        (kids es (pluginsDir ++ [r.1])).any (fun d =>
          match stripPrefix? pluginPrefix d.1 with
          | none => false
          | some n =>
            let want := ((kids es (pluginsDir ++ [r.1, d.1])).map (·.1)).filter (fun x => !isDot x)
            !(got.any (fun g => g.1 == r.1 && g.2.1 == n && sameMembers g.2.2 want && descending vt g.2.2))))
      if missing then "bad installed-plugin-not-listed-under-its-name-with-its-versions-descending"
      else "ok"

/-- the versions installed for a reference (directory `octosql-plugin-<name>`), as rows -/
def installedRows (vt : List VRow) (es : List (Path × Node)) (ref : Ref) : List VRow :=
  ((kids es (pluginDir ref)).filter (fun x => !isDot x.1)).filterMap (fun x => rowOf vt x.1)

def judgeResolve (vt : List VRow) (ct : List Con) (es : List (Path × Node)) (cfg : List (Db Con)) (out : List String) : String :=
  let star : Con := match ct with | c :: _ => c | [] => { text := ['*'], sat := [] }
  let want := cfg.map (fun db =>
    let c := match db.constraint with | some c => c | none => star
    (db, best (fun r => c.sat.contains r.orig) (installedRows vt es db.type)))
  match want.find? (fun p => p.2.isNone) with
  | some (db, _) =>
    if out == ["err:notinstalled:" ++ hexOfName db.name] then "ok" else "bad expected-not-installed-error-for-the-first-unresolvable-database"
  | none =>
    let exp := "ok" :: want.map (fun p => hexOfName p.1.name ++ "=" ++ (match p.2 with | some r => hexOfName r.orig | none => ""))
    if out == exp then "ok" else "bad database-did-not-resolve-to-the-highest-installed-version-passing-its-constraint"

def judgePick (vt : List VRow) (job : Job) (out : List String) : String :=
  let rows := job.manifest.filterMap (rowOf vt)
  let p : VRow → Bool := match job.constraint with
    | some c => fun r => c.sat.contains r.orig
    | none => fun r => !r.pre
  match best p rows with
  | none => if out == ["err:notfound"] then "ok" else "bad install-picked-a-version-although-none-qualifies"
  | some r => if out == ["ok", hexOfName r.canon] then "ok" else "bad install-did-not-pick-the-highest-qualifying-manifest-version"

def judgeSemver (out : List String) : String :=
  match out with
  | [mat, rt] =>
    let rows := (if mat == "" then [] else mat.splitOn ",").map (fun r => r.toList.map (· == '1'))
    let n := rows.length
    let g (i j : Nat) : Bool := ((rows[i]?).bind (fun r => r[j]?)).getD false
    let idx := List.range n
    if idx.any (fun i => g i i) then "bad semver-gt-not-irreflexive"
    else if idx.any (fun i => idx.any (fun j => g i j && g j i)) then "bad semver-gt-not-asymmetric"
    else if idx.any (fun i => idx.any (fun j => idx.any (fun k => g i j && g j k && !g i k))) then "bad semver-gt-not-transitive"
    else if idx.any (fun i => idx.any (fun j => idx.any (fun k => !g i j && !g j i && (g i k != g j k || g k i != g k j)))) then
      "bad semver-incomparable-versions-not-interchangeable"
    else if rt.toList.any (· != '1') then "bad semver-parse-of-String-is-not-the-same-version"
    else "ok"
  | _ => "bad unparsable-impl-output"

def judge (toks : List String) (out : List String) : String :=
  if out == ["panic"] then "bad panic" else
  match toks with
  | "list" :: rest =>
    (do let (vt, rest) ← section_ "VT" parseVRow rest
        let (es, _) ← section_ "FS" parseEntry rest
        pure (judgeList vt es out)).getD "bad unparsable-op"
  | "resolve" :: rest =>
    (do let (vt, rest) ← section_ "VT" parseVRow rest
        let (ct, rest) ← section_ "CT" (parseCon vt) rest
        let (es, rest) ← section_ "FS" parseEntry rest
        let (cfg, _) ← section_ "CFG" (parseDb ct) rest
        pure (if healthyTree vt es then judgeResolve vt ct es cfg out
              else match out with
                | ["err:list"] => "ok"
                | ["err:version"] => "ok"
                | _ => "bad start-up-on-a-malformed-tree-did-not-fail")).getD "bad unparsable-op"
  | "pick" :: rest =>
    (do let (vt, rest) ← section_ "VT" parseVRow rest
        let (ct, rest) ← section_ "CT" (parseCon vt) rest
        let (job, _) ← parseJob vt ct rest
        pure (judgePick vt job out)).getD "bad unparsable-op"
  | "semver" :: _ => judgeSemver out
  | _ => "ok"

end Octo.Drv.C28
