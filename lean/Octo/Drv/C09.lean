import Octo.Drv.Codec
/-! C09 driver: model outputs and the property oracle (judge) for the line protocol. -/
namespace Octo.Drv.C09
open Octo Octo.Codec

/-- the comparison operators of SQL as the function table defines them: strict in NULL; `=`/`!=` accept any two
    values (`Value.Equal`), the ordering operators only values of one type; all decided by `Compare` -/
def sqlOp (op : String) (a b : Value) : String :=
  let ordering := !(op == "eq" || op == "ne")
  match a, b with
  -- an operand of static type exactly NULL has no overload of the ordering operators (C11's known finding); `=` takes Any
  | .null, .null => "n"      -- NULL < NULL: equal (non-nullable) types, strict ⇒ NULL
  | .null, _ => if ordering then "untyped" else "n"
  | _, .null => if ordering then "untyped" else "n"
  | _, _ =>
    let c := cmp a b
    let bool (x : Bool) : String := if x then "b1" else "b0"
    if op == "eq" then bool (c == 0) else if op == "ne" then bool (c != 0)
    else if a.rank != b.rank then "untyped"
    else if op == "lt" then bool (c < 0) else if op == "le" then bool (c ≤ 0)
    else if op == "gt" then bool (c > 0) else bool (c ≥ 0)

/-- model side: the same line the Go driver prints -/
def model (toks : List String) : String :=
  match toks with
  | "cmp" :: rest =>
    (do let (a, r) ← parseValue rest; let (b, _) ← parseValue r
        pure s!"{cmp a b}").getD "bad-op"
  | "equal" :: rest =>
    (do let (a, r) ← parseValue rest; let (b, _) ← parseValue r
        pure (if a.equal b then "1" else "0")).getD "bad-op"
  | "hash" :: rest =>
    (do let (a, _) ← parseValue rest; pure s!"{a.hash.toNat}").getD "bad-op"
  | "hashmany" :: k :: rest =>
    (do let (vs, _) ← parseValues k.toNat! rest; pure s!"{(hashMany vs).toNat}").getD "bad-op"
  | "laws" :: rest =>
    (do let (a, r) ← parseValue rest; let (b, r) ← parseValue r; let (c, _) ← parseValue r
        pure s!"{cmp a a} {cmp a b} {cmp b a} {cmp b c} {cmp a c} {a.hash.toNat} {b.hash.toNat}").getD "bad-op"
  | "opsql" :: op :: rest =>
    (do let (a, r) ← parseValue rest; let (b, _) ← parseValue r; pure (sqlOp op a b)).getD "bad-op"
  | "less" :: k :: rest =>
    -- execution.CompareValueSlices (GroupKey.Less): the btrees' strict order on rows
    (do let n := k.toNat!
        let (a, r) ← parseValues n rest
        let (b, _) ← parseValues n r
        pure (if lessRows a b then "1" else "0")).getD "bad-op"
  | _ => "bad-op"

/-- property oracle, evaluated on what the *implementation* printed for a `laws a b c` line:
    reflexive, antisymmetric, transitive, equal ⇒ equal hash. -/
def judgeLaws (toks : List String) (out : List String) : String :=
  match toks, out.map String.toInt? with
  | "laws" :: _, [some aa, some ab, some ba, some bc, some ac, some ha, some hb] =>
    if aa ≠ 0 then "bad not-reflexive"
    else if ab ≠ -ba then "bad not-antisymmetric"
    else if ab ≤ 0 ∧ bc ≤ 0 ∧ ¬ ac ≤ 0 then "bad not-transitive"
    else if ab = 0 ∧ bc = 0 ∧ ac ≠ 0 then "bad equality-not-transitive"
    else if ab = 0 ∧ ha ≠ hb then "bad equal-but-hash-differs"
    else "ok"
  | "laws" :: _, _ => "bad unparsable-impl-output"
  | _, _ => "ok"

def judge (toks : List String) (out : List String) : String :=
  match toks, out with
  | "less" :: k :: rest, [o] =>
    -- ORDER BY / GROUP BY / MIN / MAX order rows through this function: it must be the strict part of the row order
    match (do let n := k.toNat!
              let (a, r) ← parseValues n rest
              let (b, _) ← parseValues n r
              pure (decide (cmpList a b < 0))) with
    | some want => if (o == "1") == want then "ok" else "bad less-disagrees-with-compare"
    | none => "bad unparsable-op"
  | "opsql" :: op :: rest, [o] =>
    -- `=` and the ordering operators agree with Compare on which values are equal and how they order
    (match (do let (a, r) ← parseValue rest; let (b, _) ← parseValue r; pure (sqlOp op a b)) with
     | some want => if want == "untyped" || o == want then "ok" else s!"bad sql-operator-{op}-disagrees-with-compare got={o} want={want}"
     | none => "bad unparsable-op")
  | "cmp" :: _, [o] =>
    -- every caller tests the result against -1 / 0 / 1
    if o == "-1" || o == "0" || o == "1" then "ok" else "bad compare-result-outside-minus-one-zero-one"
  | _, _ => judgeLaws toks out

end Octo.Drv.C09
