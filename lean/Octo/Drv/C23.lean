import Octo.Drv.FilesCommon
/-!
  C23 driver: model outputs and the property oracle for the file-datasource ops.

  ops (harness/c23.go):
    json <renderseed> <n> row…            a JSON-lines file of n objects
    csv <renderseed> <c|t> <h|n> <ncols> name… <nrows> cell…
    lines <s<sephex>|-> c<contenthex>
    stdin <chunkseed> <previews> <one of the above>      the same file piped on stdin in seeded chunks
    jsonq <delayseed> <n>                 n-line JSON file through the real reorder queue with seeded worker delays;
                                          the implementation prints the observed schedule (A<first>:<count> arrival,
                                          P<line> produce, D reader-done seen, E Run returned nil)
  oracle: exactly one record per input row, in file order, carrying the values the row contains.
-/
namespace Octo.Drv.C23
open Octo Octo.Codec Octo.Files Octo.Drv.Files

/-! `pq <mask> <nrows> (6 values)×nrows`: a parquet file written by the harness with the repository's parquet-go and read back
    through the real datasource, with the columns selected by `mask`. `reconstruct.go` is not modelled: the expected
    records are the rows of the op line themselves (a differential test against what was written). -/
def pqRows : Nat → List String → Option (List (List Value))
  | 0, _ => some []
  | n + 1, toks => do
    let (vs, r) ← parseValues 6 toks
    let rest ← pqRows n r
    pure (vs :: rest)

def pqExpected (toks : List String) : Option String :=
  match toks with
  | "pq" :: mask :: n :: rest => do
    let rows ← pqRows (← n.toNat?) rest
    let keep := mask.toList.map (· == '1')
    let recs : List Msg := rows.map fun r =>
      Msg.data { vals := ((r.zip keep).filter (·.2)).map (·.1), retr := false, et := none }
    pure (if recs.isEmpty then "ok" else "ok " ++ encodeMsgs recs)
  | _ => none

def model (toks : List String) : String :=
  match toks with
  | "pq" :: _ => (pqExpected toks).getD "bad-op"
  | "jsonq" :: _ => "sched"
  | _ => (modelFiles toks).getD "bad-op"

def judgeLines (sepTok contentTok : String) (out : List String) : String :=
  let o := parseImpl out
  let content := parseHexBytes (contentTok.drop 1).toString
  if sepTok == "s" then (if o.status == "err:create" then "ok" else "bad empty-separator-accepted")
  else if !o.wellFormed then s!"bad unparsable-impl-output {o.status}"
  else
    let sep := if sepTok == "-" then [10] else parseHexBytes (sepTok.drop 1).toString
    -- a piece that (with its separator) does not fit the scanner's 64 KiB buffer must be reported as an error
    if !fitsTok maxScanTokenSize sep content then
      (if o.status == "err:run" then "ok" else "bad oversized-line-not-reported")
    else if o.status != "ok" then s!"bad {o.status}"
    else
      let expected := if sepTok == "-" then (specLines sep content).map dropCR else specLines sep content
      if encodeRecs o.recs == encodeRecs (numberFrom 0 expected) then "ok"
      else if o.recs.length != expected.length then s!"bad record-count {o.recs.length} expected {expected.length}"
      else "bad wrong-line-text"

/-! #### the reorder queue replayed on the observed schedule -/

inductive LogEv where
  | arrive (first count : Nat) | produce (line : Nat) | done | fin | other (s : String)

def parseLog (toks : List String) : List LogEv :=
  toks.map fun t =>
    if t.startsWith "A" then
      match ((t.drop 1).toString.splitOn ":").map String.toNat! with
      | [a, b] => .arrive a b
      | _ => .other t
    else if t.startsWith "P" then .produce (t.drop 1).toString.toNat!
    else if t == "D" then .done else if t == "E" then .fin else .other t

/-- the produce tokens that directly follow -/
def takeProduced : List LogEv → List Nat × List LogEv
  | .produce l :: rest => let (ps, r) := takeProduced rest; (l :: ps, r)
  | rest => ([], rest)

/-- replay: after every arrival the model must flush exactly the lines the implementation produced before the
    next event; the loop must stop exactly where the implementation returned. -/
partial def replay (n : Nat) (st : QState Nat) (readerDone : Bool) (log : List LogEv) : String :=
  match log with
  | [] => "bad log-ends-without-E"
  | .arrive first count :: rest =>
    let items := (List.range count).map fun i => (first + i, some (first + i))
    match placeAll st items with
    | .ok st' =>
      let (ps, rest') := takeProduced rest
      let flushed := st'.out.drop st.out.length
      if ps != flushed then s!"bad queue-flush-differs-from-model after A{first}: impl {ps} model {flushed}"
      else if readerDone && st'.start == n then
        (match rest' with
         | [.fin] => if st'.out == List.range n then "ok" else "bad output-not-in-line-order"
         | _ => "bad model-stops-but-implementation-continues")
      else replay n st' readerDone rest'
    | _ => "bad model-queue-panics-or-errors-on-this-schedule"
  | .done :: rest =>
    if st.start == n then
      (match rest with
       | [.fin] => if st.out == List.range n then "ok" else "bad output-not-in-line-order"
       | _ => "bad model-stops-but-implementation-continues")
    else replay n st true rest
  | .fin :: _ => "bad implementation-returned-before-all-lines-were-produced"
  | .produce l :: _ => s!"bad produce-without-arrival P{l}"
  | .other s :: _ => s!"bad {s}"

/-- the arrivals are exactly the reader's batches of 64 -/
def batchesOk (n : Nat) (log : List LogEv) : Bool :=
  let arr := log.filterMap fun e => match e with | .arrive a c => some (a, c) | _ => none
  let expected := (mkBatches 64 (List.range n)).map fun b => ((b.head?.map (·.1)).getD 0, b.length)
  let sorted := arr.mergeSort (fun a b => a.1 ≤ b.1)
  sorted == expected

def judgeQueue (n : Nat) (out : List String) : String :=
  let log := parseLog out
  if !batchesOk n log then "bad arrivals-are-not-the-64-line-batches-of-the-file"
  else replay n QState.init false log

def judge (toks : List String) (out : List String) : String :=
  if out == ["panic"] || out == ["driver-died"] then "bad panic"
  else
  let inner := match toks with
    | "stdin" :: _ :: _ :: inner => inner
    | _ => toks
  match inner with
  | "pq" :: _ =>
    (match pqExpected inner with
     | some want => if String.intercalate " " out == want then "ok"
                    else s!"bad parquet-records-differ-from-the-rows-written"
     | none => "bad unparsable-op")
  | "json" :: _seed :: n :: rest =>
    (match parseRows n.toNat! rest with
     | some (rows, _) => judgeJson false rows out
     | none => "bad unparsable-op")
  | "proj" :: _mask :: "json" :: _seed :: n :: rest =>
    (match parseRows n.toNat! rest with
     | some (rows, _) => judgeJson false rows out true
     | none => "bad unparsable-op")
  | "proj" :: mask :: "csv" :: rest =>
    (match parseCsvOp rest with
     | some f => judgeCsv false f out (parseMask mask)
     | none => "bad unparsable-op")
  | "csv" :: rest =>
    (match parseCsvOp rest with
     | some f => judgeCsv false f out
     | none => "bad unparsable-op")
  | "lines" :: sep :: content :: _ => judgeLines sep content out
  | "jsonq" :: _seed :: n :: _ => judgeQueue n.toNat! out
  | _ => "ok"

end Octo.Drv.C23
