import Octo.Model.Value
/-!
  Canonical token encoding shared by the Go harness and the Lean driver (DESIGN §2.2b).
  One operation per line, space separated tokens.  Values are prefix-encoded:
    n | i<dec> | f<16 hex> | b0 | b1 | s<hex bytes> | t<unixnano>:<loc> | d<ns> | L<k> v… | S<k> v… | T<k> v…
  Nothing here is used by any theorem; parsing is `partial`.
-/
namespace Octo.Codec
open Octo

def hexVal (c : Char) : Nat :=
  if '0' ≤ c ∧ c ≤ '9' then c.toNat - '0'.toNat
  else if 'a' ≤ c ∧ c ≤ 'f' then c.toNat - 'a'.toNat + 10
  else if 'A' ≤ c ∧ c ≤ 'F' then c.toNat - 'A'.toNat + 10 else 0

def parseHexNat (s : String) : Nat := s.foldl (fun acc c => acc * 16 + hexVal c) 0

def parseHexBytes (s : String) : List UInt8 :=
  let rec go : List Char → List UInt8
    | a :: b :: rest => UInt8.ofNat (hexVal a * 16 + hexVal b) :: go rest
    | _ => []
  go s.toList

def hexDigit (n : Nat) : Char := if n < 10 then Char.ofNat (48 + n) else Char.ofNat (87 + n)

def hexOfBytes (bs : List UInt8) : String :=
  String.ofList (bs.flatMap fun b => [hexDigit (b.toNat / 16), hexDigit (b.toNat % 16)])

def hex16 (n : Nat) : String :=
  String.ofList ((List.range 16).map fun i => hexDigit ((n >>> (4 * (15 - i))) % 16))

def parseInt! (s : String) : Int := s.toInt?.getD 0

/-- parse one value from a token list -/
partial def parseValue : List String → Option (Value × List String)
  | [] => none
  | tok :: rest =>
    let body := (tok.drop 1).toString
    match tok.front with
    | 'n' => some (.null, rest)
    | 'i' => some (.int (parseInt! body), rest)
    | 'f' => some (.float (parseHexNat body), rest)
    | 'b' => some (.bool (body == "1"), rest)
    | 's' => some (.str (parseHexBytes body), rest)
    | 't' =>
      match body.splitOn ":" with
      | [a, b] => some (.time (parseInt! a) b.toNat!, rest)
      | _ => none
    | 'd' => some (.dur (parseInt! body), rest)
    | 'L' => (parseMany body.toNat! rest).map fun (xs, r) => (.list xs, r)
    | 'S' => (parseMany body.toNat! rest).map fun (xs, r) => (.struct xs, r)
    | 'T' => (parseMany body.toNat! rest).map fun (xs, r) => (.tuple xs, r)
    | _ => none
where
  parseMany : Nat → List String → Option (List Value × List String)
    | 0, rest => some ([], rest)
    | k + 1, rest => do
      let (v, r) ← parseValue rest
      let (vs, r') ← parseMany k r
      pure (v :: vs, r')

partial def encodeValue : Value → String
  | .null => "n"
  | .int i => s!"i{i}"
  | .float b => "f" ++ hex16 b
  | .bool b => if b then "b1" else "b0"
  | .str s => "s" ++ hexOfBytes s
  | .time ns loc => s!"t{ns}:{loc}"
  | .dur ns => s!"d{ns}"
  | .list xs => String.intercalate " " (s!"L{xs.length}" :: xs.map encodeValue)
  | .struct xs => String.intercalate " " (s!"S{xs.length}" :: xs.map encodeValue)
  | .tuple xs => String.intercalate " " (s!"T{xs.length}" :: xs.map encodeValue)

def parseValues (k : Nat) (toks : List String) : Option (List Value × List String) :=
  parseValue.parseMany k toks

def tokens (line : String) : List String :=
  (line.trimAscii.toString.splitOn " ").filter (· ≠ "")

end Octo.Codec
