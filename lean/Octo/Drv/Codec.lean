import Octo.Model.Value
import Octo.Model.Ty
import Octo.Model.Changelog
/-!
  Canonical token encoding shared by the Go harness and the Lean driver (DESIGN §2.2b).
  One operation per line, space separated tokens.  Values are prefix-encoded:
    n | i<dec> | f<16 hex> | b0 | b1 | s<hex bytes> | t<unixnano>:<loc> | d<ns> | L<k> v… | S<k> v… | T<k> v…
  Nothing here is used by any theorem; parsing is `partial`.
-/
namespace Octo.Codec
open Octo

def hexVal (c : Char) : Nat :=
  if '0' ≤ c ∧ c ≤ '9' then c.toNat - '0'.toNat
  else if 'a' ≤ c ∧ c ≤ 'f' then c.toNat - 'a'.toNat + 10
  else if 'A' ≤ c ∧ c ≤ 'F' then c.toNat - 'A'.toNat + 10 else 0

def parseHexNat (s : String) : Nat := s.foldl (fun acc c => acc * 16 + hexVal c) 0

def parseHexBytes (s : String) : List UInt8 :=
  let rec go : List Char → List UInt8
    | a :: b :: rest => UInt8.ofNat (hexVal a * 16 + hexVal b) :: go rest
    | _ => []
  go s.toList

def hexDigit (n : Nat) : Char := if n < 10 then Char.ofNat (48 + n) else Char.ofNat (87 + n)

def hexOfBytes (bs : List UInt8) : String :=
  String.ofList (bs.flatMap fun b => [hexDigit (b.toNat / 16), hexDigit (b.toNat % 16)])

def hex16 (n : Nat) : String :=
  String.ofList ((List.range 16).map fun i => hexDigit ((n >>> (4 * (15 - i))) % 16))

def parseInt! (s : String) : Int := s.toInt?.getD 0

/-- parse one value from a token list -/
partial def parseValue : List String → Option (Value × List String)
  | [] => none
  | tok :: rest =>
    let body := (tok.drop 1).toString
    match tok.front with
    | 'n' => some (.null, rest)
    | 'i' => some (.int (parseInt! body), rest)
    | 'f' => some (.float (parseHexNat body), rest)
    | 'b' => some (.bool (body == "1"), rest)
    | 's' => some (.str (parseHexBytes body), rest)
    | 't' =>
      match body.splitOn ":" with
      | [a, b] => some (.time (parseInt! a) b.toNat!, rest)
      | _ => none
    | 'd' => some (.dur (parseInt! body), rest)
    | 'L' => (parseMany body.toNat! rest).map fun (xs, r) => (.list xs, r)
    | 'S' => (parseMany body.toNat! rest).map fun (xs, r) => (.struct xs, r)
    | 'T' => (parseMany body.toNat! rest).map fun (xs, r) => (.tuple xs, r)
    | _ => none
where
  parseMany : Nat → List String → Option (List Value × List String)
    | 0, rest => some ([], rest)
    | k + 1, rest => do
      let (v, r) ← parseValue rest
      let (vs, r') ← parseMany k r
      pure (v :: vs, r')

partial def encodeValue : Value → String
  | .null => "n"
  | .int i => s!"i{i}"
  | .float b => "f" ++ hex16 b
  | .bool b => if b then "b1" else "b0"
  | .str s => "s" ++ hexOfBytes s
  | .time ns loc => s!"t{ns}:{loc}"
  | .dur ns => s!"d{ns}"
  | .list xs => String.intercalate " " (s!"L{xs.length}" :: xs.map encodeValue)
  | .struct xs => String.intercalate " " (s!"S{xs.length}" :: xs.map encodeValue)
  | .tuple xs => String.intercalate " " (s!"T{xs.length}" :: xs.map encodeValue)

def parseValues (k : Nat) (toks : List String) : Option (List Value × List String) :=
  parseValue.parseMany k toks

/-! Types:  Null Int Float Bool Str Time Dur Any ListNil | List <ty> | Struct<k> (<name hex> <ty>)… | Tuple<k> <ty>… | Union<k> <ty>… -/
def parseName (hex : String) : Name := (parseHexBytes hex).map (·.toNat)
def encodeName (n : Name) : String := hexOfBytes (n.map UInt8.ofNat)

partial def parseTy : List String → Option (Ty × List String)
  | [] => none
  | tok :: rest =>
    if tok == "Null" then some (.null, rest) else if tok == "Int" then some (.int, rest)
    else if tok == "Float" then some (.float, rest) else if tok == "Bool" then some (.bool, rest)
    else if tok == "Str" then some (.str, rest) else if tok == "Time" then some (.time, rest)
    else if tok == "Dur" then some (.dur, rest) else if tok == "Any" then some (.any, rest)
    else if tok == "ListNil" then some (.listNil, rest)
    else if tok == "List" then (parseTy rest).map fun (t, r) => (.list t, r)
    else if tok.startsWith "Struct" then
      (parseFields (tok.drop 6).toString.toNat! rest).map fun (ns, ts, r) => (.struct ns ts, r)
    else if tok.startsWith "Tuple" then
      (parseTys (tok.drop 5).toString.toNat! rest).map fun (ts, r) => (.tuple ts, r)
    else if tok.startsWith "Union" then
      (parseTys (tok.drop 5).toString.toNat! rest).map fun (ts, r) => (.union ts, r)
    else none
where
  parseTys : Nat → List String → Option (List Ty × List String)
    | 0, rest => some ([], rest)
    | k + 1, rest => do
      let (t, r) ← parseTy rest
      let (ts, r') ← parseTys k r
      pure (t :: ts, r')
  parseFields : Nat → List String → Option (List Name × List Ty × List String)
    | 0, rest => some ([], [], rest)
    | _ + 1, [] => none
    | k + 1, nm :: rest => do
      let (t, r) ← parseTy rest
      let (ns, ts, r') ← parseFields k r
      pure (parseName (nm.drop 1).toString :: ns, t :: ts, r')

partial def encodeTy : Ty → String
  | .null => "Null" | .int => "Int" | .float => "Float" | .bool => "Bool" | .str => "Str"
  | .time => "Time" | .dur => "Dur" | .any => "Any" | .listNil => "ListNil"
  | .list e => "List " ++ encodeTy e
  | .struct ns ts =>
    String.intercalate " " (s!"Struct{ts.length}" :: (ns.zip ts).map fun (n, t) => "x" ++ encodeName n ++ " " ++ encodeTy t)
  | .tuple ts => String.intercalate " " (s!"Tuple{ts.length}" :: ts.map encodeTy)
  | .union ts => String.intercalate " " (s!"Union{ts.length}" :: ts.map encodeTy)

/-! Records and messages:  `R<k> v1 … vk +|- <et>`  with `<et>` = `z` (zero time) or ns;  `W<ns>` a watermark. -/
def parseEt (s : String) : Option Int := if s == "z" then none else s.toInt?
def encodeEt : Option Int → String
  | none => "z"
  | some t => toString t

def parseRec : List String → Option (Rec × List String)
  | tok :: rest =>
    if tok.startsWith "R" then do
      let (vs, r) ← parseValues (tok.drop 1).toString.toNat! rest
      match r with
      | sign :: et :: r' => pure ({ vals := vs, retr := sign == "-", et := parseEt et }, r')
      | _ => none
    else none
  | [] => none

def encodeRec (r : Rec) : String :=
  String.intercalate " " ((s!"R{r.vals.length}" :: r.vals.map encodeValue) ++ [if r.retr then "-" else "+", encodeEt r.et])

def parseMsg : List String → Option (Msg × List String)
  | tok :: rest =>
    if tok.startsWith "W" then (tok.drop 1).toString.toInt?.map fun t => (.wm t, rest)
    else (parseRec (tok :: rest)).map fun (r, rest) => (.data r, rest)
  | [] => none

def encodeMsg : Msg → String
  | .data r => encodeRec r
  | .wm t => s!"W{t}"

/-- a whole stream on one line: messages separated by `;` tokens -/
partial def parseMsgs (toks : List String) : Option (List Msg) :=
  match toks with
  | [] => some []
  | ";" :: rest => parseMsgs rest
  | _ => do
    let (m, r) ← parseMsg toks
    let ms ← parseMsgs r
    pure (m :: ms)

def encodeMsgs (ms : List Msg) : String := String.intercalate " ; " (ms.map encodeMsg)

def tokens (line : String) : List String :=
  (line.trimAscii.toString.splitOn " ").filter (· ≠ "")

end Octo.Codec
