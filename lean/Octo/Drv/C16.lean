import Octo.Drv.TrigCodec
/-! C16 driver: model outputs and the property oracle for the line protocol (see `Octo.Drv.Trig`). -/
namespace Octo.Drv.C16
open Octo Octo.Codec Octo.Trig Octo.Drv.Trig

def model (toks : List String) : String := Octo.Drv.Trig.model toks

/-- the rows on which the final result has to be compared: every row the implementation emitted and every
    row of the batch grouping of the input -/
def candidateRows (op : GbOp) (out : List Msg) : List Row :=
  (recs out).map (·.vals) ++
    (recs op.stream).map fun r =>
      let k := op.conf.keyOf r.vals
      k ++ specResults op.conf.aggs (ofKey op.conf k (recs op.stream))

/-- property oracle on what the *implementation* printed for a `gb` line: the consolidated output equals
    the batch grouping of the input (for valid inputs; nothing is demanded of inputs the property does not
    speak about: invalid changelogs and configurations on which the Go code panics by construction). -/
def judge (toks : List String) (out : List String) : String :=
  match toks with
  | "gb" :: rest =>
    match parseGb rest with
    | none => "bad unparsable-op"
    | some op =>
      if !(recs op.stream).all (fun r => stepOk op.conf r.vals) then "ok"
      else if !op.conf.cfg.live then "ok"            -- an empty MultiTrigger: not constructible from SQL, never fires
      else if !(validFast (recs op.stream) && validFast (recs (buffer op.stream))) then "ok"
      else match out with
        | "ok" :: ms =>
          match parseMsgs ms with
          | none => "bad unparsable-impl-output"
          | some o =>
            match (candidateRows op o).find? fun row => net (recs o) row != groupSpec op.conf op.nk (recs op.stream) row with
            | some row => s!"bad final-result-differs row={String.intercalate "," (row.map encodeValue)} out={net (recs o) row} spec={groupSpec op.conf op.nk (recs op.stream) row}"
            | none => "ok"
        | _ => "bad impl-" ++ String.intercalate "_" out
  | "sgb" :: rest =>
    match parseSgb rest with
    | none => "bad unparsable-op"
    | some op =>
      if !(recs op.stream).all (fun r => op.conf.recOk r.vals) then "ok"
      else if !validFast (recs op.stream) then "ok"
      else match out with
        | "ok" :: ms =>
          match parseMsgs ms with
          | none => "bad unparsable-impl-output"
          | some o =>
            match (candidateRows op o).find? fun row => net (recs o) row != groupSpec op.conf op.nk (recs op.stream) row with
            | some row => s!"bad simple-group-by-differs row={String.intercalate "," (row.map encodeValue)} out={net (recs o) row} spec={groupSpec op.conf op.nk (recs op.stream) row}"
            | none => "ok"
        | _ => "bad impl-" ++ String.intercalate "_" out
  | _ => "ok"

end Octo.Drv.C16
