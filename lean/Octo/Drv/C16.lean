import Octo.Drv.TrigCodec
import Octo.Drv.SqlCodec
/-! C16 driver: model outputs and the property oracle for the line protocol (see `Octo.Drv.Trig`). -/
namespace Octo.Drv.C16
open Octo Octo.Codec Octo.Trig Octo.Drv.Trig

/-! `trq <mode> <combo> <L> <maxdiff> <n> (<sec> <k> <v>)×n`: a whole query with a TRIGGER clause through the real binary
    (harness/c16_cli.go): the rows of every tumbling window of length `L` and key `k`, grouped under trigger
    combination `<combo>`; the printed result must be the batch grouping whatever the combination. -/
structure Trq where
  L : Nat
  rows : List (Nat × Int × Int)     -- (sec, k, v)

def parseTriples : Nat → List String → Option (List (Nat × Int × Int))
  | 0, _ => some []
  | n + 1, s :: k :: v :: rest => do
    let s ← s.toNat?
    let k ← k.toInt?
    let v ← v.toInt?
    let t ← parseTriples n rest
    pure ((s, k, v) :: t)
  | _, _ => none

def parseTrq : List String → Option Trq
  | "trq" :: _ :: _ :: l :: _ :: n :: rest => do
    let rows ← parseTriples (← n.toNat?) rest
    let L ← l.toNat?
    if L == 0 then none else pure { L := L, rows := rows }
  | _ => none

/-- the batch grouping: one row (k, count, sum) per (window, key) -/
def trqExpected (op : Trq) : List String :=
  let groups := (op.rows.map fun r => (r.1 / op.L, r.2.1)).eraseDups
  groups.map fun g =>
    let members := op.rows.filter fun r => r.1 / op.L == g.1 && r.2.1 == g.2
    let sum := members.foldl (fun acc r => acc + r.2.2) (0 : Int)
    s!"#{g.2} #{members.length} #{sum}"

def insertStr (s : String) : List String → List String
  | [] => [s]
  | x :: xs => if s < x then s :: x :: xs else x :: insertStr s xs
def sortStrs (l : List String) : List String := l.foldr insertStr []

def trqRender (rows : List String) : String :=
  String.intercalate " | " (s!"rows {rows.length}" :: sortStrs rows)

def model (toks : List String) : String :=
  match toks with
  | "trq" :: _ => (match parseTrq toks with | some op => trqRender (trqExpected op) | none => "bad-op")
  | _ => Octo.Drv.Trig.model toks

/-- the rows on which the final result has to be compared: every row the implementation emitted and every
    row of the batch grouping of the input -/
def candidateRows (op : GbOp) (out : List Msg) : List Row :=
  (recs out).map (·.vals) ++
    (recs op.stream).map fun r =>
      let k := op.conf.keyOf r.vals
      k ++ specResults op.conf.aggs (ofKey op.conf k (recs op.stream))

/-- property oracle on what the *implementation* printed for a `gb` line: the consolidated output equals
    the batch grouping of the input (for valid inputs; nothing is demanded of inputs the property does not
    speak about: invalid changelogs and configurations on which the Go code panics by construction). -/
def judge (toks : List String) (out : List String) : String :=
  match toks with
  | "gb" :: rest =>
    match parseGb rest with
    | none => "bad unparsable-op"
    | some op =>
      if !(recs op.stream).all (fun r => stepOk op.conf r.vals) then "ok"
      else if !op.conf.cfg.live then "ok"            -- an empty MultiTrigger: not constructible from SQL, never fires
      else if !(validFast (recs op.stream) && validFast (recs (buffer op.stream))) then "ok"
      else match out with
        | "ok" :: ms =>
          match parseMsgs ms with
          | none => "bad unparsable-impl-output"
          | some o =>
            match (candidateRows op o).find? fun row => net (recs o) row != groupSpec op.conf op.nk (recs op.stream) row with
            | some row => s!"bad final-result-differs row={String.intercalate "," (row.map encodeValue)} out={net (recs o) row} spec={groupSpec op.conf op.nk (recs op.stream) row}"
            | none => "ok"
        | _ => "bad impl-" ++ String.intercalate "_" out
  | "sgb" :: rest =>
    match parseSgb rest with
    | none => "bad unparsable-op"
    | some op =>
      if !(recs op.stream).all (fun r => op.conf.recOk r.vals) then "ok"
      else if !validFast (recs op.stream) then "ok"
      else match out with
        | "ok" :: ms =>
          match parseMsgs ms with
          | none => "bad unparsable-impl-output"
          | some o =>
            match (candidateRows op o).find? fun row => net (recs o) row != groupSpec op.conf op.nk (recs op.stream) row with
            | some row => s!"bad simple-group-by-differs row={String.intercalate "," (row.map encodeValue)} out={net (recs o) row} spec={groupSpec op.conf op.nk (recs op.stream) row}"
            | none => "ok"
        | _ => "bad impl-" ++ String.intercalate "_" out
  | "trq" :: _ =>
    match parseTrq toks with
    | none => "bad unparsable-op"
    | some op =>
      if out == ["panic"] then "bad go-panic"
      else match Octo.Drv.SqlCodec.splitRows out with
        | none => s!"bad no-rows-output {String.intercalate " " out}"
        | some rendered =>
          if trqRender rendered == trqRender (trqExpected op) then "ok"
          else s!"bad triggered-query-result-differs-from-batch-grouping got={rendered.length} want={(trqExpected op).length}"
  | _ => "ok"

end Octo.Drv.C16
