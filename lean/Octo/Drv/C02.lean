import Octo.Drv.SqlCodec
import Octo.Spec.JoinSem
import Octo.Drv.C19
/-!
  C02 driver — JOIN queries through the real binary.
    jn <mode> <opt> <fmt> <kinds> DB <n> (T <ncols> <nrows> <v>…)×n Q <from> <whr> <proj> SQL <hex>
  from := t<i> | sub <from> <expr> | proj <k> <from> <expr>×k | j (inner|lookup|left|right|full) <from> <from> <expr>
  whr  := - | <expr>        proj := * | P<k> <expr>…        (expressions as in SqlCodec; c<i> is positional)
  output := rows <n> | <row> | …  (rows sorted as text: the order of a join's output depends on the schedule)  or  err
  model = the engine pipeline `runQueryMode` (plan, optimizer, node machines under a fixed scheduler, the sink of the
          output mode);
  judge = the SQL join semantics `joinSem` applied to what the implementation printed.
-/
namespace Octo.Drv.C02
open Octo Octo.Codec Octo.Sql Octo.SqlJoin Octo.Drv.SqlCodec

partial def parseFrom : List String → Option (From × List String)
  | "sub" :: rest => do
    let (s, r) ← parseFrom rest
    let (w, r) ← parseExpr r
    pure (.sub s w, r)
  | "proj" :: n :: rest => do
    let (s, r) ← parseFrom rest
    let (es, r) ← parseExprs n.toNat! r
    pure (.proj s es, r)
  | "j" :: k :: rest => do
    let kind ← match k with
      | "inner" => some JKind.inner | "lookup" => some JKind.lookup | "left" => some JKind.left
      | "right" => some JKind.right | "full" => some JKind.full | _ => none
    let (l, r) ← parseFrom rest
    let (rr, r) ← parseFrom r
    let (on, r) ← parseExpr r
    pure (.join kind l rr on, r)
  | tok :: rest =>
    if tok.startsWith "t" then (tok.drop 1).toString.toNat?.map fun i => (.tbl i, rest) else none
  | [] => none

partial def parseTables : Nat → List String → Option (Db × List String)
  | 0, r => some ([], r)
  | k + 1, r =>
    match r with
    | "T" :: nc :: _ => do
      let (rows, r') ← parseTable r
      let (rest, r'') ← parseTables k r'
      pure ({ width := nc.toNat!, rows := rows } :: rest, r'')
    | _ => none

structure JoinOp where
  mode : String
  opt : Bool
  db : Db
  query : JQuery

def parseJoinOp : List String → Option JoinOp
  | kindTok :: mode :: opt :: _fmt :: _kinds :: "DB" :: n :: rest => do
    if kindTok != "jn" && kindTok != "jf" then none
    let (db, r) ← parseTables n.toNat! rest
    match r with
    | "Q" :: r =>
      let (f, r) ← parseFrom r
      let (whr, r) ← match r with
        | "-" :: r => some (none, r)
        | _ => (parseExpr r).map fun (e, r) => (some e, r)
      let proj ← match r with
        | "*" :: _ => some none
        | p :: r => if p.startsWith "P" then (parseExprs (p.drop 1).toString.toNat! r).map fun (es, _) => some es else none
        | [] => none
      pure { mode := mode, opt := opt == "1", db := db, query := { frm := f, whr := whr, proj := proj } }
    | _ => none
  | _ => none

def insertStr (s : String) : List String → List String
  | [] => [s]
  | x :: xs => if s ≤ x then s :: x :: xs else x :: insertStr s xs

def sortStrs (l : List String) : List String := l.foldr insertStr []

def renderSorted (rows : List Row) : String :=
  String.intercalate " | " (s!"rows {rows.length}" :: sortStrs (rows.map renderRow))

def sinkOf (mode : String) : SinkMode :=
  if mode == "json" || mode == "csv" then .eager else if mode == "stream_native" then .native else .table

def bit (b : Bool) : String := if b then "1" else "0"

/-- `jf`: the NoRetractions flag of the root and of every join node of the plan that is run -/
def modelFlags (op : JoinOp) : String :=
  match planQ op.db op.query with
  | none => "err"
  | some p =>
    let p' := if op.opt then optimize op.db p else p
    String.intercalate " " ("flags" :: bit p'.noRetr :: p'.joinFlags.map fun f => String.singleton f.1 ++ bit f.2)

def kindChar : JKind → Char
  | .inner => 's' | .lookup => 'l' | _ => 'o'

/-- `jf` oracle: a plan node whose result can contain retractions must not be flagged NoRetractions (the csv/json
    sinks print the records of a flagged plan as they arrive, retractions included) -/
def judgeFlags (op : JoinOp) (out : List String) : String :=
  match out with
  | "flags" :: root :: nodes =>
    let want := op.query.frm.joins
    if root == "1" && op.query.frm.mayRetract then "bad root-claims-NoRetractions-but-the-plan-retracts"
    else if nodes.length != want.length then "ok plan-shape-not-comparable"
    else
      let bad := (List.zip nodes want).any fun p =>
        p.1 == String.singleton (kindChar p.2.1) ++ "1" && p.2.2
      if bad then "bad join-node-claims-NoRetractions-but-can-retract" else "ok"
  | _ => s!"bad no-flags-output {String.intercalate " " out}"

def model (toks : List String) : String :=
  -- the join nodes under a chosen interleaving (shared with C19)
  if toks.head? == some "sj" || toks.head? == some "oj" then Octo.Drv.C19.model toks else
  match parseJoinOp toks with
  | none => "bad-op"
  | some op =>
    if toks.head? == some "jf" then modelFlags op else
    match runQueryMode (sinkOf op.mode) alternate op.opt op.query op.db with
    | none => "err"
    | some rows => renderSorted rows

/-- the query is outside what the planner accepts: an outer join whose ON is not a conjunction of
    left-column-expression = right-column-expression -/
def rejected (op : JoinOp) : Bool := (planQ op.db op.query).isNone

def judge (toks : List String) (out : List String) : String :=
  if toks.head? == some "sj" || toks.head? == some "oj" then Octo.Drv.C19.judge toks out else
  match parseJoinOp toks with
  | none => "bad unparsable-op"
  | some op =>
    if out == ["panic"] then "bad go-panic"
    else if out == ["timeout"] then "bad timeout"
    else if out == ["err"] then
      if rejected op then "ok rejected-outer-join-predicate" else "bad unexpected-error"
    else if toks.head? == some "jf" then judgeFlags op out
    else
      match splitRows out with
      | none => s!"bad no-rows-output {String.intercalate " " out}"
      | some rendered =>
        let want := joinSem op.query op.db
        match matchRows want want rendered with
        | none =>
          if rendered.length > want.length then s!"bad extra-rows got={rendered.length} want={want.length}"
          else "bad row-not-in-the-sql-join"
        | some typed =>
          if typed.length == want.length then "ok"
          else s!"bad missing-rows got={typed.length} want={want.length}"

end Octo.Drv.C02
