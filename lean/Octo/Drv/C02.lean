import Octo.Drv.SqlCodec
import Octo.Spec.JoinSem
/-!
  C02 driver — JOIN queries through the real binary.
    jn <mode> <opt> <fmt> <kinds> DB <n> (T <ncols> <nrows> <v>…)×n Q <from> <whr> <proj> SQL <hex>
  from := t<i> | sub <from> <expr> | proj <k> <from> <expr>×k | j (inner|lookup|left|right|full) <from> <from> <expr>
  whr  := - | <expr>        proj := * | P<k> <expr>…        (expressions as in SqlCodec; c<i> is positional)
  output := rows <n> | <row> | …  (rows sorted as text: the order of a join's output depends on the schedule)  or  err
  model = the engine pipeline `runQueryMode` (plan, optimizer, node machines under a fixed scheduler, the sink of the
          output mode);
  judge = the SQL join semantics `joinSem` applied to what the implementation printed.
-/
namespace Octo.Drv.C02
open Octo Octo.Codec Octo.Sql Octo.SqlJoin Octo.Drv.SqlCodec

partial def parseFrom : List String → Option (From × List String)
  | "sub" :: rest => do
    let (s, r) ← parseFrom rest
    let (w, r) ← parseExpr r
    pure (.sub s w, r)
  | "proj" :: n :: rest => do
    let (s, r) ← parseFrom rest
    let (es, r) ← parseExprs n.toNat! r
    pure (.proj s es, r)
  | "j" :: k :: rest => do
    let kind ← match k with
      | "inner" => some JKind.inner | "lookup" => some JKind.lookup | "left" => some JKind.left
      | "right" => some JKind.right | "full" => some JKind.full | _ => none
    let (l, r) ← parseFrom rest
    let (rr, r) ← parseFrom r
    let (on, r) ← parseExpr r
    pure (.join kind l rr on, r)
  | tok :: rest =>
    if tok.startsWith "t" then (tok.drop 1).toString.toNat?.map fun i => (.tbl i, rest) else none
  | [] => none

partial def parseTables : Nat → List String → Option (Db × List String)
  | 0, r => some ([], r)
  | k + 1, r =>
    match r with
    | "T" :: nc :: _ => do
      let (rows, r') ← parseTable r
      let (rest, r'') ← parseTables k r'
      pure ({ width := nc.toNat!, rows := rows } :: rest, r'')
    | _ => none

structure JoinOp where
  mode : String
  opt : Bool
  db : Db
  query : JQuery

def parseJoinOp : List String → Option JoinOp
  | "jn" :: mode :: opt :: _fmt :: _kinds :: "DB" :: n :: rest => do
    let (db, r) ← parseTables n.toNat! rest
    match r with
    | "Q" :: r =>
      let (f, r) ← parseFrom r
      let (whr, r) ← match r with
        | "-" :: r => some (none, r)
        | _ => (parseExpr r).map fun (e, r) => (some e, r)
      let proj ← match r with
        | "*" :: _ => some none
        | p :: r => if p.startsWith "P" then (parseExprs (p.drop 1).toString.toNat! r).map fun (es, _) => some es else none
        | [] => none
      pure { mode := mode, opt := opt == "1", db := db, query := { frm := f, whr := whr, proj := proj } }
    | _ => none
  | _ => none

def insertStr (s : String) : List String → List String
  | [] => [s]
  | x :: xs => if s ≤ x then s :: x :: xs else x :: insertStr s xs

def sortStrs (l : List String) : List String := l.foldr insertStr []

def renderSorted (rows : List Row) : String :=
  String.intercalate " | " (s!"rows {rows.length}" :: sortStrs (rows.map renderRow))

def sinkOf (mode : String) : SinkMode :=
  if mode == "json" || mode == "csv" then .eager else if mode == "stream_native" then .native else .table

def model (toks : List String) : String :=
  match parseJoinOp toks with
  | none => "bad-op"
  | some op =>
    match runQueryMode (sinkOf op.mode) alternate op.opt op.query op.db with
    | none => "err"
    | some rows => renderSorted rows

/-- the query is outside what the planner accepts: an outer join whose ON is not a conjunction of
    left-column-expression = right-column-expression -/
def rejected (op : JoinOp) : Bool := (planQ op.db op.query).isNone

def judge (toks : List String) (out : List String) : String :=
  match parseJoinOp toks with
  | none => "bad unparsable-op"
  | some op =>
    if out == ["panic"] then "bad go-panic"
    else if out == ["timeout"] then "bad timeout"
    else if out == ["err"] then
      if rejected op then "ok rejected-outer-join-predicate" else "bad unexpected-error"
    else
      match splitRows out with
      | none => s!"bad no-rows-output {String.intercalate " " out}"
      | some rendered =>
        let want := joinSem op.query op.db
        match matchRows want want rendered with
        | none =>
          if rendered.length > want.length then s!"bad extra-rows got={rendered.length} want={want.length}"
          else "bad row-not-in-the-sql-join"
        | some typed =>
          if typed.length == want.length then "ok"
          else s!"bad missing-rows got={typed.length} want={want.length}"

end Octo.Drv.C02
