import Octo.Drv.Codec
import Octo.Model.FileQueue
import Octo.Model.LineSplit
import Octo.Model.StdinPreview
import Octo.Model.CsvFile
import Octo.Model.JsonFile
/-!
  Shared by the C23 and C24 drivers: the op-line codec of JSON documents and CSV cells (see harness/util_files.go),
  the model's answer for the datasource ops, and the pieces of the property oracles.
  Nothing here is used by a theorem.
-/
namespace Octo.Drv.Files
open Octo Octo.Codec Octo.Files

def bytesToName (b : List UInt8) : Name := b.map (·.toNat)

def splitColon (s : String) : String × String :=
  match s.splitOn ":" with
  | [a, b] => (a, b)
  | _ => (s, "")

/-- one JSON value from the tokens (`jn jt jf jd<bits>:<text> js<hex> jT<ns>:<hex> ja<k> … jo<k> x<key> v …`) -/
partial def parseJ : List String → Option (J × List String)
  | [] => none
  | tok :: rest =>
    let body := (tok.drop 2).toString
    match (tok.drop 1).toString.front with
    | 'n' => some (.null, rest)
    | 't' => some (.bool true, rest)
    | 'f' => some (.bool false, rest)
    | 'd' => some (.num (parseHexNat (splitColon body).1), rest)
    | 's' => some (.str (parseHexBytes body) none, rest)
    | 'T' => let p := splitColon body; some (.str (parseHexBytes p.2) (some (parseInt! p.1)), rest)
    | 'a' => (parseJs body.toNat! rest).map fun (xs, r) => (.arr xs, r)
    | 'o' => (parseKVs body.toNat! rest).map fun (ks, vs, r) => (.obj ks vs, r)
    | _ => none
where
  parseJs : Nat → List String → Option (List J × List String)
    | 0, rest => some ([], rest)
    | k + 1, rest => do
      let (v, r) ← parseJ rest
      let (vs, r') ← parseJs k r
      pure (v :: vs, r')
  parseKVs : Nat → List String → Option (List Name × List J × List String)
    | 0, rest => some ([], [], rest)
    | _ + 1, [] => none
    | k + 1, key :: rest => do
      let (v, r) ← parseJ rest
      let (ks, vs, r') ← parseKVs k r
      pure (parseName (key.drop 1).toString :: ks, v :: vs, r')

def parseRows (n : Nat) (toks : List String) : Option (List J × List String) := parseJ.parseJs n toks

def optHex (s : String) : Option Nat := if s == "-" then none else some (parseHexNat s)
def optInt (s : String) : Option Int := if s == "-" then none else s.toInt?

/-- a cell token `c<hex>/<pf>/<ff>/<tm>` -/
def parseCell (tok : String) : Option Cell :=
  match (tok.drop 1).toString.splitOn "/" with
  | [h, pf, ff, tm] => some { s := parseHexBytes h, pf := optHex pf, ff := optHex ff, tm := optInt tm }
  | _ => none

def encodeSchema (names : List Name) (tys : List Ty) : String :=
  String.intercalate " " (s!"F{tys.length}" :: (names.zip tys).map fun (n, t) => "x" ++ encodeName n ++ " " ++ encodeTy t)

def encodeRecs (recs : List (List Value)) : String :=
  String.join (recs.map fun r => " ;" ++ String.join (r.map fun v => " " ++ encodeValue v))

/-- `csv <seed> <c|t> <h|n> <ncols> <name>… <nrows> (r<k>)? cell…` → the file; a row is `ncols` cells unless it is
    preceded by a token `r<k>` giving its own length -/
partial def parseCsvOp (toks : List String) : Option CsvFile :=
  match toks with
  | _seed :: _sep :: hdr :: ncols :: rest => do
    let n := ncols.toNat!
    let names := (rest.take n).map fun t => parseName (t.drop 1).toString
    let rest := rest.drop n
    match rest with
    | nrows :: rest =>
      let rec rows : Nat → List String → Option (List (List Cell))
        | 0, _ => some []
        | k + 1, toks =>
          let (len, toks) := match toks with
            | t :: r => if t.startsWith "r" then ((t.drop 1).toString.toNat!, r) else (n, toks)
            | [] => (n, [])
          match (toks.take len).mapM parseCell with
          | some cells => (rows k (toks.drop len)).map (cells :: ·)
          | none => none
      let rs ← rows nrows.toNat! rest
      pure { header := if hdr == "h" then some names else none, rows := rs }
    | [] => none
  | _ => none

def parseMask (s : String) : List Bool := s.toList.map (· == '1')

def csvModel (f : CsvFile) (keep : List Bool := []) : String :=
  match csvRunKeep keep f with
  | .errCreate => "err:create"
  | .fuel => "fuel"
  | .errRun names tys => "err:run " ++ encodeSchema names tys
  | .ok names tys recs => "ok " ++ encodeSchema names tys ++ encodeRecs recs

def jsonModel (rows : List J) (keep : List Bool := []) : String :=
  match jsonRunKeep keep rows with
  | .errCreate => "err:create"
  | .fuel => "fuel"
  | .errRun schema => "err:run " ++ encodeSchema (schema.map (·.1)) (schema.map (·.2))
  | .ok schema recs => "ok " ++ encodeSchema (schema.map (·.1)) (schema.map (·.2)) ++ encodeRecs recs

def linesSchema : String := "F2 x6e756d626572 Int x74657874 Str"

/-- `lines <s<sephex>|-> c<contenthex>`; the model scans with reads of 4096 bytes (any window-growth schedule
    gives the same tokens: `Octo.C23.lines_split`; one byte per read is quadratic on big files).
    `none` = the scan failed (`ErrTooLong`: a piece does not fit the 64 KiB buffer) -/
def linesTokens (sepTok contentTok : String) : Option (List Bytes) :=
  let content := parseHexBytes (contentTok.drop 1).toString
  let sched := List.replicate (content.length / 4096 + 1) 4095
  let res :=
    if sepTok == "-" then scanAll scanLines maxScanTokenSize content sched
    else scanAll (splitFixed (parseHexBytes (sepTok.drop 1).toString)) maxScanTokenSize content sched
  match res with
  | .tokens ts => some ts
  | _ => none

def numberFrom : Nat → List Bytes → List (List Value)
  | _, [] => []
  | i, t :: ts => [.int i, .str t] :: numberFrom (i + 1) ts

def linesModel (sepTok contentTok : String) : String :=
  if sepTok == "s" then "err:create"      -- an empty separator is rejected
  else match linesTokens sepTok contentTok with
    | some ts => "ok " ++ linesSchema ++ encodeRecs (numberFrom 0 ts)
    | none => "err:run " ++ linesSchema

/-- model output for the datasource ops shared by C23 and C24 -/
def modelFiles (toks : List String) : Option String :=
  match toks with
  | "json" :: _seed :: n :: rest => (parseRows n.toNat! rest).map fun (rows, _) => jsonModel rows
  | "csv" :: rest => (parseCsvOp rest).map fun f => csvModel f
  | "lines" :: sep :: content :: _ => some (linesModel sep content)
  -- the executing datasource gets a pruned schema (cyclic 0/1 mask over the inferred fields)
  | "proj" :: mask :: "json" :: _seed :: n :: rest => (parseRows n.toNat! rest).map fun (rows, _) => jsonModel rows (parseMask mask)
  | "proj" :: mask :: "csv" :: rest => (parseCsvOp rest).map fun f => csvModel f (parseMask mask)
  -- data piped on stdin (chunked, with preview opens): transparent (`Octo.C23.stdin_replay`)
  | "stdin" :: _chunkseed :: _previews :: inner =>
    match inner with
    | "json" :: _seed :: n :: rest => (parseRows n.toNat! rest).map fun (rows, _) => jsonModel rows
    | "csv" :: rest => (parseCsvOp rest).map fun f => csvModel f
    | "lines" :: sep :: content :: _ => some (linesModel sep content)
    | _ => none
  | _ => none

/-! ### parsing what the implementation printed -/

structure ImplOut where
  status : String                  -- "ok" | "err:create" | "err:run" | other
  names : List Name := []
  tys : List Ty := []
  recs : List (List Value) := []
  wellFormed : Bool := true

partial def parseFields : Nat → List String → Option (List Name × List Ty × List String)
  | 0, rest => some ([], [], rest)
  | _ + 1, [] => none
  | k + 1, nm :: rest => do
    let (t, r) ← parseTy rest
    let (ns, ts, r') ← parseFields k r
    pure (parseName (nm.drop 1).toString :: ns, t :: ts, r')

partial def parseRecs (k : Nat) : List String → Option (List (List Value))
  | [] => some []
  | ";" :: rest => do
    let (vs, r) ← parseValues k rest
    let more ← parseRecs k r
    pure (vs :: more)
  | _ => none

def parseImpl (out : List String) : ImplOut :=
  match out with
  | ["err:create"] => { status := "err:create" }
  | st :: f :: rest =>
    if (st == "ok" || st == "err:run") && f.startsWith "F" then
      match parseFields (f.drop 1).toString.toNat! rest with
      | some (ns, ts, r) =>
        if st == "err:run" then { status := st, names := ns, tys := ts, wellFormed := r.isEmpty }
        else match parseRecs ts.length r with
          | some recs => { status := st, names := ns, tys := ts, recs := recs }
          | none => { status := st, wellFormed := false }
      | none => { status := st, wellFormed := false }
    else { status := st, wellFormed := false }
  | [st] => { status := st, wellFormed := false }
  | [] => { status := "", wellFormed := false }

def all2 {α β} (f : α → β → Bool) : List α → List β → Bool
  | [], [] => true
  | a :: as, b :: bs => f a b && all2 f as bs
  | _, _ => false

/-- index of the first element that fails `p` -/
def firstFail {α} (p : α → Bool) (l : List α) : Option Nat :=
  let rec go : Nat → List α → Option Nat
    | _, [] => none
    | i, x :: xs => if p x then go (i + 1) xs else some i
  go 0 l

/-! ### oracle -/

/-- JSON: every record carries its row, field by field (through the schema the implementation reported) -/
def jsonRowOk (names : List Name) (tys : List Ty) (row : J) (vals : List Value) : Bool :=
  vals.length == tys.length &&
  all2 (fun (nt : Name × Ty) v => represents nt.2 v (row.get nt.1)) (names.zip tys) vals

def jsonRowFits (names : List Name) (tys : List Ty) (row : J) : Bool :=
  match row with
  | .obj _ _ => (names.zip tys).all fun nt => fits nt.2 (row.get nt.1)
  | _ => false

def jsonRowCovered (names : List Name) (tys : List Ty) (row : J) : Bool :=
  match row with
  | .obj ks _ => ks.all (fun k => names.contains k) &&
      (names.zip tys).all fun nt => match row.get nt.1 with
        | some x => coversKeys nt.2 x
        | none => true
  | _ => false

def judgeJson (conf : Bool) (rows : List J) (out : List String) (projected : Bool := false) : String :=
  let o := parseImpl out
  if !o.wellFormed then s!"bad unparsable-impl-output {o.status}"
  else if o.status == "ok" then
    if o.recs.length != rows.length then s!"bad record-count {o.recs.length} for {rows.length} rows"
    else match (if conf then firstFail (fun (r : List Value) => all2 (fun t v => conforms t v) o.tys r) o.recs else none) with
      | some i => s!"bad row {i} holds-a-value-that-does-not-match-the-reported-column-type"
      | none =>
      match firstFail (fun (p : J × List Value) => jsonRowOk o.names o.tys p.1 p.2) (rows.zip o.recs) with
      | some i => s!"bad row {i} does-not-carry-the-values-of-line {i}"
      | none =>
        match (if projected then none else firstFail (jsonRowCovered o.names o.tys) rows) with
        | some i => s!"known json-key-beyond-preview-dropped row {i} has a key the inferred schema has no place for"
        | none => "ok"
  else if o.status == "err:run" then
    -- an error is right (C24) when a row BEYOND the preview cannot be represented in the reported schema;
    -- the schema inferred from the previewed rows must accept those rows
    match firstFail (jsonRowFits o.names o.tys) (rows.take jsonPreviewRows) with
    | some i => s!"bad error-on-previewed-row {i} which-the-inferred-schema-does-not-accept"
    | none =>
      match firstFail (jsonRowFits o.names o.tys) rows with
      | some _ => "ok"
      | none => "bad error-on-a-file-whose-rows-all-fit-the-schema"
  else if o.status == "err:create" then
    if (rows.take jsonPreviewRows).all (fun r => match r with | .obj _ _ => true | _ => false) then "bad schema-inference-failed"
    else "ok"
  else s!"bad {o.status}"

def expectedCsvNames (f : CsvFile) : List Name :=
  match f.header with
  | some h => h
  | none => if f.rows.isEmpty then [] else (List.range f.ncols).map columnName

def judgeCsv (conf : Bool) (f : CsvFile) (out : List String) (keep : List Bool := []) : String :=
  let o := parseImpl out
  let ragged := firstRagged f.ncols 0 f.rows
  if !o.wellFormed then s!"bad unparsable-impl-output {o.status}"
  else if o.status == "ok" then
    if ragged.isSome then "bad ragged-file-accepted"
    else if o.names != keepCols keep (expectedCsvNames f) then "bad column-names"
    else if o.recs.length != f.rows.length then s!"bad record-count {o.recs.length} for {f.rows.length} rows"
    else match (if conf then firstFail (fun (r : List Value) => all2 (fun t v => conforms t v) o.tys r) o.recs else none) with
      | some i => s!"bad row {i} holds-a-value-that-does-not-match-the-reported-column-type"
      | none =>
      match firstFail (fun (p : List Cell × List Value) => all2 (fun c v => cellRepresents v c) (keepCols keep p.1) p.2) (f.rows.zip o.recs) with
      | some i => s!"bad row {i} does-not-carry-the-values-of-line {i}"
      | none => "ok"
  else if o.status == "err:run" then
    if ragged.isSome then "ok"
    else match firstFail (fun (r : List Cell) => all2 (fun t c => cellFits t c) o.tys (keepCols keep r)) (f.rows.take previewRows) with
      | some i => s!"bad error-on-previewed-row {i} which-the-inferred-schema-does-not-accept"
      | none =>
        match firstFail (fun (r : List Cell) => all2 (fun t c => cellFits t c) o.tys (keepCols keep r)) f.rows with
        | some _ => "ok"
        | none => "bad error-on-a-file-whose-rows-all-fit-the-schema"
  else if o.status == "err:create" then
    if (firstRagged f.ncols 0 (f.rows.take previewRows)).isSome || f.dupHeader then "ok" else "bad schema-inference-failed"
  else s!"bad {o.status}"

end Octo.Drv.Files
