import Octo.Drv.Codec
import Octo.Model.TyAlgebra
/-! C10 driver: model outputs and the property oracle (judge) for the line protocol. -/
namespace Octo.Drv.C10
open Octo Octo.Codec Octo.Ty

def relStr (r : Rel) : String := toString r.toNat
def boolStr (b : Bool) : String := if b then "1" else "0"
/-- `fuel` would mean the default fuel of the model was too small (never observed) -/
def tyStr : Option Ty → String
  | some t => encodeTy t
  | none => "fuel"
def optTyStr : Option (Option Ty) → String
  | some (some t) => encodeTy t
  | some none => "nil"
  | none => "fuel"

def parse2 (toks : List String) : Option (Ty × Ty × List String) := do
  let (a, r) ← parseTy toks
  let (b, r) ← parseTy r
  pure (a, b, r)

/-- `Equals` of two sums (either may have run out of fuel) -/
def eqOpt : Option Ty → Option Ty → String
  | some s, some s2 => boolStr (s.equals s2)
  | _, _ => "fuel"

def lawsLine (a b : Ty) : String :=
  let s := typeSum a b
  let s2 := typeSum b a
  let aa := typeSum a a
  let inter := typeInter a b
  let (ia, ib) := match inter with
    | some (some i) => (relStr (i.is a), relStr (i.is b))
    | _ => ("-", "-")
  let nn := nonNullable a
  let isTo (x : Ty) (s : Option Ty) : String := match s with
    | some s => relStr (x.is s)
    | none => "fuel"
  String.intercalate " " [relStr (a.is a), relStr (b.is b), isTo a s, isTo b s, eqOpt s s2,
    (match aa with | some aa => boolStr (aa.equals a) | none => "fuel"), ia, ib, relStr (nn.is a), relStr (a.is b),
    ";", tyStr s, ";", tyStr s2, ";", tyStr aa, ";", optTyStr inter, ";", encodeTy nn]

/-- model side: the same line the Go driver prints -/
def model (toks : List String) : String :=
  match toks with
  | "is" :: rest => (do let (a, b, _) ← parse2 rest; pure (relStr (a.is b))).getD "bad-op"
  | "equals" :: rest => (do let (a, b, _) ← parse2 rest; pure (boolStr (a.equals b))).getD "bad-op"
  | "sum" :: rest => (do let (a, b, _) ← parse2 rest; pure (tyStr (typeSum a b))).getD "bad-op"
  | "inter" :: rest => (do let (a, b, _) ← parse2 rest; pure (optTyStr (typeInter a b))).getD "bad-op"
  | "nonnull" :: rest =>
    (do let (a, _) ← parseTy rest
        let n := nonNullable a
        pure (relStr (n.is a) ++ " " ++ encodeTy n)).getD "bad-op"
  | "typeof" :: rest => (do let (v, _) ← parseValue rest; pure (tyStr v.typeOf)).getD "bad-op"
  | "sound" :: rest =>
    (do let (a, b, _) ← parse2 rest
        pure (relStr (a.is b) ++ " " ++ tyStr (typeSum a b) ++ " ; " ++ tyStr (typeSum b a))).getD "bad-op"
  | "trans" :: rest =>
    (do let (a, b, r) ← parse2 rest
        let (c, _) ← parseTy r
        pure (relStr (a.is b) ++ " " ++ relStr (b.is c) ++ " " ++ relStr (a.is c))).getD "bad-op"
  | "lub" :: rest =>
    (do let (a, b, r) ← parse2 rest
        let (t, _) ← parseTy r
        pure (relStr (a.is t) ++ " " ++ relStr (b.is t) ++ " " ++
          (match typeSum a b with | some s => relStr (s.is t) | none => "fuel"))).getD "bad-op"
  | "laws" :: rest => (do let (a, b, _) ← parse2 rest; pure (lawsLine a b)).getD "bad-op"
  | _ => "bad-op"

/-! The oracle demands reflexivity, idempotence, `NonNullable ⊆`, soundness of `Is` and transitivity on **all**
types, and the union/intersection laws on well-formed ones (`Ty.wf`: plain union alternatives with distinct
`TypeID`s, strictly sorted struct field names — the shape `TypeSum` produces). -/
mutual
/-- structural equality of types (`Ty` is a nested inductive, `deriving BEq` is not available) -/
def tyEq : Ty → Ty → Bool
  | .null, .null | .int, .int | .float, .float | .bool, .bool | .str, .str | .time, .time | .dur, .dur
  | .listNil, .listNil | .any, .any => true
  | .list a, .list b => tyEq a b
  | .struct ns ts, .struct ns' ts' => ns == ns' && tyEqList ts ts'
  | .tuple ts, .tuple ts' => tyEqList ts ts'
  | .union ts, .union ts' => tyEqList ts ts'
  | _, _ => false
def tyEqList : List Ty → List Ty → Bool
  | [], [] => true
  | a :: as, b :: bs => tyEq a b && tyEqList as bs
  | _, _ => false
end
instance : BEq Ty := ⟨tyEq⟩

/-- parse `; ty ; ty ; …` sections -/
def splitSections (toks : List String) : List (List String) :=
  let rec go (cur : List String) (acc : List (List String)) : List String → List (List String)
    | [] => (cur.reverse :: acc).reverse
    | ";" :: rest => go [] (cur.reverse :: acc) rest
    | t :: rest => go (t :: cur) acc rest
  go [] [] toks

def parseTyAll (toks : List String) : Option Ty :=
  match parseTy toks with
  | some (t, []) => some t
  | _ => none

/-- property oracle, evaluated on what the *implementation* printed. -/
def judge (toks : List String) (out : List String) : String :=
  match toks with
  | "laws" :: rest =>
    match parse2 rest, splitSections out with
    | some (a, b, _), [[raa, rbb, raS, rbS, eqSS, eqAA, ia, ib, rNa, _rab], sS, _sS2, _sAA, sI, sN] =>
      let good := wf a && wf b
      if raa ≠ "2" ∨ rbb ≠ "2" then "bad is-not-reflexive"
      else if eqAA ≠ "1" then "bad sum-not-idempotent"
      else if rNa ≠ "2" then "bad nonnullable-not-contained"
      else match parseTyAll sN with
      | none => "bad unparsable-impl-output"
      | some n =>
        -- NonNullable removes exactly the NULL alternative (stated on well-formed types)
        if good && (match a with
            | .union alts => n != (match alts.filter (fun x => x.id ≠ 0) with | [x] => x | o => .union o)
            | _ => false) then "bad nonnullable-wrong-alternatives"
        -- upper bound: demanded for ALL types (theorem `sum_upper_partial` needs no well-formedness)
        else if raS ≠ "2" ∨ rbS ≠ "2" then
          if !shapeOk a b then "known typesum-shape-mismatch sum-not-upper-bound"
          else "bad sum-not-upper-bound"
        else if good && eqSS ≠ "1" then
          if !shapeOk a b || !shapeOk b a then "known typesum-shape-mismatch sum-not-commutative"
          else "bad sum-not-commutative"
        else if good && (ia == "0" ∨ ia == "1" ∨ ib == "0" ∨ ib == "1") then "bad intersection-not-contained"
        else if good && (match parseTyAll sS with | some s => !wf s | none => true) then "bad sum-not-well-formed"
        else if sI.isEmpty then "bad unparsable-impl-output"
        else "ok"
    | _, _ => "bad unparsable-impl-output"
  | "nonnull" :: rest =>
    match parseTy rest, out with
    | some (_, _), r :: _ => if r ≠ "2" then "bad nonnullable-not-contained" else "ok"
    | _, _ => "bad unparsable-impl-output"
  | "typeof" :: rest =>
    match parseValue rest, parseTyAll out with
    | some (v, _), some t =>
      if conforms t v then "ok"
      -- the element TypeSum chain of some list inside `v` hit a struct/tuple shape mismatch
      else if !v.typeOfShapeOk then "known typeof-list-shape-mismatch value-does-not-match-its-type"
      else "bad value-does-not-match-its-type"
    | _, _ => "bad unparsable-impl-output"
  | "sound" :: rest =>
    match parse2 rest, splitSections out with
    | some (a, b, vt), [r :: sS, sS2] =>
      match parseValue vt, parseTyAll sS, parseTyAll sS2 with
      | some (v, _), some s, some s2 =>
        if !conforms a v then "ok"     -- generator slip: not an inhabitant, nothing to check
        else if r == "2" && !conforms b v then "bad is-unsound"
        else if !conforms s v || !conforms s2 v then
          if !shapeOk a b || !shapeOk b a then "known typesum-shape-mismatch sum-loses-a-value"
          else "bad sum-loses-a-value"
        else "ok"
      | _, _, _ => "bad unparsable-impl-output"
    | _, _ => "bad unparsable-impl-output"
  | "lub" :: rest =>
    match (do let (_, _, r) ← parse2 rest; let (t, _) ← parseTy r; pure t), out with
    | some t, [at_, bt, st] =>
      if wf t && at_ == "2" && bt == "2" && st ≠ "2" then "bad sum-not-least-upper-bound" else "ok"
    | _, _ => "bad unparsable-impl-output"
  | "trans" :: _ =>
    match out with
    | [ab, bc, ac] => if ab == "2" && bc == "2" && ac ≠ "2" then "bad is-not-transitive" else "ok"
    | _ => "bad unparsable-impl-output"
  | _ => "ok"

end Octo.Drv.C10
