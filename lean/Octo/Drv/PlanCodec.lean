import Octo.Drv.Codec
import Octo.Model.Optimizer
/-!
  Token encoding of physical plans, the same grammar `harness/c04_plan.go` dumps:

    plan   := ds <schema> <name> <alias> <policy> <npreds> expr* <nmap> (<unique> <col>)*
            | distinct <schema> plan | filter <schema> expr plan
            | groupby <schema> <naggs> name* <nexprs> expr* <nkey> expr* <keyEventTimeIndex> <trigger> plan
            | sjoin <schema> <nl> expr* <nr> expr* plan plan | ljoin <schema> plan plan
            | map <schema> <n> expr* plan | unnest <schema> <field> plan | mem <schema> <nrecords>
            | tvf <schema> <name> <nargs> (<argname> (e expr | t plan | d <descriptor>))*     (sorted by argname)
            | ojoin <schema> <isLeft> <isRight> <nl> expr* <nr> expr* plan plan
            | ost <schema> <nkeys> expr* <nmults> int* (L expr | -) plan
    schema := S<k> name*k <timeField> <noRetractions 0|1>
    expr   := var <name> <isLevel0 0|1> | const <value> | call <fn> <k> expr* | and <k> expr* | or <k> expr*
            | coalesce <k> expr* | tuple <k> expr* | assert <k> typeid*k expr | cast <typeid> expr
            | field <name> <index> expr
    name   := the text itself, or h:<hex> (empty / unusual characters)
  Nothing here is used by a theorem; parsing is `partial`.
-/
namespace Octo.Drv.PlanCodec
open Octo Octo.Codec Octo.Plan

def decName (s : String) : String :=
  if s.startsWith "h:" then
    (String.fromUTF8? (ByteArray.mk (parseHexBytes (s.drop 2).toString).toArray)).getD ""
  else s

def safeChar (c : Char) : Bool :=
  c.isAlphanum || "_.=<>!+*/%-".toList.contains c

def encName (s : String) : String :=
  if s != "" && !s.startsWith "h:" && s.toList.all safeChar then s
  else "h:" ++ hexOfBytes s.toUTF8.toList

def parseNames : Nat → List String → Option (List String × List String)
  | 0, r => some ([], r)
  | _ + 1, [] => none
  | k + 1, t :: r => (parseNames k r).map fun (ns, r') => (decName t :: ns, r')

def parseSchema : List String → Option (Schema × List String)
  | t :: r =>
    if t.startsWith "S" then do
      let (fs, r) ← parseNames (t.drop 1).toString.toNat! r
      match r with
      | tf :: nr :: r => pure ({ fields := fs, timeField := parseInt! tf, noRetr := nr == "1" }, r)
      | _ => none
    else none
  | [] => none

partial def parseExpr : List String → Option (PExpr × List String)
  | [] => none
  | tok :: rest =>
    let nary (k : NK) (r : List String) : Option (PExpr × List String) :=
      match r with
      | n :: r => (parseExprs n.toNat! r).map fun (es, r') => (.nary k es, r')
      | [] => none
    if tok == "var" then
      match rest with
      | x :: l :: r => some (.var (decName x) (l == "1"), r)
      | _ => none
    else if tok == "const" then (parseValue rest).map fun (v, r) => (.const v, r)
    else if tok == "call" then
      match rest with
      | fn :: r => nary (.call (decName fn)) r
      | [] => none
    else if tok == "and" then nary .and rest
    else if tok == "or" then nary .or rest
    else if tok == "coalesce" then nary .coalesce rest
    else if tok == "tuple" then nary .tuple rest
    else if tok == "assert" then
      match rest with
      | n :: r =>
        let k := n.toNat!
        let ids := (r.take k).map String.toNat!
        (parseExpr (r.drop k)).map fun (e, r') => (.unary (.assert ids) e, r')
      | [] => none
    else if tok == "cast" then
      match rest with
      | id :: r => (parseExpr r).map fun (e, r') => (.unary (.cast id.toNat!) e, r')
      | [] => none
    else if tok == "field" then
      match rest with
      | nm :: idx :: r => (parseExpr r).map fun (e, r') => (.unary (.field (decName nm) idx.toNat!) e, r')
      | _ => none
    else none
where
  parseExprs : Nat → List String → Option (List PExpr × List String)
    | 0, r => some ([], r)
    | k + 1, r => do
      let (e, r) ← parseExpr r
      let (es, r) ← parseExprs k r
      pure (e :: es, r)

def parseExprList : List String → Option (List PExpr × List String)
  | n :: r => parseExpr.parseExprs n.toNat! r
  | [] => none

inductive RawArg where
  | e (x : PExpr) | d (s : String) | t (p : Plan)

partial def parsePlan : List String → Option (Plan × List String)
  | [] => none
  | tok :: rest => do
    let (s, r) ← parseSchema rest
    if tok == "ds" then
      match r with
      | name :: alias :: pol :: r =>
        let (preds, r) ← parseExprList r
        match r with
        | n :: r =>
          let rec pairs : Nat → List String → Option (List (String × String) × List String)
            | 0, r => some ([], r)
            | k + 1, u :: c :: r => (pairs k r).map fun (ps, r') => ((decName u, decName c) :: ps, r')
            | _, _ => none
          let (m, r) ← pairs n.toNat! r
          pure (.leaf s (.ds (decName name) (decName alias) pol preds m), r)
        | [] => none
      | _ => none
    else if tok == "distinct" then
      let (src, r) ← parsePlan r
      pure (.un s .distinct src, r)
    else if tok == "filter" then
      let (e, r) ← parseExpr r
      let (src, r) ← parsePlan r
      pure (.un s (.filter e) src, r)
    else if tok == "groupby" then
      match r with
      | n :: r =>
        let (aggs, r) ← parseNames n.toNat! r
        let (aggExprs, r) ← parseExprList r
        let (key, r) ← parseExprList r
        match r with
        | kti :: trig :: r =>
          let (src, r) ← parsePlan r
          pure (.un s (.groupBy aggs aggExprs key (parseInt! kti) trig) src, r)
        | _ => none
      | [] => none
    else if tok == "sjoin" then
      let (lk, r) ← parseExprList r
      let (rk, r) ← parseExprList r
      let (l, r) ← parsePlan r
      let (rr, r) ← parsePlan r
      pure (.bin s (.sjoin lk rk) l rr, r)
    else if tok == "ljoin" then
      let (l, r) ← parsePlan r
      let (rr, r) ← parsePlan r
      pure (.bin s .ljoin l rr, r)
    else if tok == "map" then
      let (es, r) ← parseExprList r
      let (src, r) ← parsePlan r
      pure (.un s (.map es) src, r)
    else if tok == "unnest" then
      match r with
      | f :: r =>
        let (src, r) ← parsePlan r
        pure (.un s (.unnest (decName f)) src, r)
      | [] => none
    else if tok == "mem" then
      match r with
      | n :: r => pure (.leaf s (.mem n.toNat!), r)
      | [] => none
    else if tok == "tvf" then
      match r with
      | name :: n :: r =>
        let rec args : Nat → List String → Option (List (String × RawArg) × List String)
          | 0, r => some ([], r)
          | k + 1, an :: kind :: r => do
            let (a, r) ←
              if kind == "e" then (parseExpr r).map fun (e, r') => (RawArg.e e, r')
              else if kind == "t" then (parsePlan r).map fun (p, r') => (RawArg.t p, r')
              else if kind == "d" then
                match r with
                | d :: r' => some (RawArg.d (decName d), r')
                | [] => none
              else none
            let (as, r) ← args k r
            pure ((decName an, a) :: as, r)
          | _, _ => none
        let (as, r) ← args n.toNat! r
        let plain : List (String × TArg) := as.filterMap fun (n, a) =>
          match a with | .e x => some (n, TArg.e x) | .d d => some (n, TArg.d d) | .t _ => none
        let tables : List (String × Plan) := as.filterMap fun (n, a) =>
          match a with | .t p => some (n, p) | _ => none
        match tables with
        | [] => pure (.leaf s (.tvf (decName name) plain), r)
        | [(tn, p)] => pure (.un s (.tvf (decName name) plain tn) p, r)
        | _ => none
      | _ => none
    else if tok == "ojoin" then
      match r with
      | il :: ir :: r =>
        let (lk, r) ← parseExprList r
        let (rk, r) ← parseExprList r
        let (l, r) ← parsePlan r
        let (rr, r) ← parsePlan r
        pure (.bin s (.ojoin (il == "1") (ir == "1") lk rk) l rr, r)
      | _ => none
    else if tok == "ost" then
      let (keys, r) ← parseExprList r
      match r with
      | n :: r =>
        let k := n.toNat!
        let mults := (r.take k).map parseInt!
        let r := r.drop k
        let (lim, r) ← match r with
          | "L" :: r => (parseExpr r).map fun (e, r') => (some e, r')
          | "-" :: r => some (none, r)
          | _ => none
        let (src, r) ← parsePlan r
        pure (.un s (.ost keys mults lim) src, r)
      | [] => none
    else none

/-! printing -/

def printSchema (s : Schema) : List String :=
  (s!"S{s.fields.length}" :: s.fields.map encName) ++ [toString s.timeField, if s.noRetr then "1" else "0"]

partial def printExpr : PExpr → List String
  | .var x l => ["var", encName x, if l then "1" else "0"]
  | .const v => ["const", encodeValue v]
  | .nary k args =>
    let head := match k with
      | .call fn => ["call", encName fn] | .and => ["and"] | .or => ["or"]
      | .coalesce => ["coalesce"] | .tuple => ["tuple"]
    head ++ [toString args.length] ++ args.flatMap printExpr
  | .unary k e =>
    (match k with
     | .assert ids => ["assert", toString ids.length] ++ ids.map toString
     | .cast id => ["cast", toString id]
     | .field nm idx => ["field", encName nm, toString idx]) ++ printExpr e

def printExprs (es : List PExpr) : List String := toString es.length :: es.flatMap printExpr

def printTArgs (args : List (String × TArg)) (table : Option (String × List String)) : List String :=
  let plain : List (String × List String) := args.map fun (n, a) =>
    (n, match a with | .e x => "e" :: printExpr x | .d d => ["d", encName d])
  let all := match table with
    | none => plain
    | some (tn, toks) =>
      let before := plain.takeWhile fun (p : String × List String) => p.1 < tn
      let after := plain.dropWhile fun (p : String × List String) => p.1 < tn
      before ++ [(tn, "t" :: toks)] ++ after
  toString all.length :: all.flatMap fun (p : String × List String) => encName p.1 :: p.2

partial def printPlan : Plan → List String
  | .leaf s (.ds name alias pol preds m) =>
    "ds" :: printSchema s ++ [encName name, encName alias, pol] ++ printExprs preds ++
      (toString m.length :: m.flatMap fun (u, c) => [encName u, encName c])
  | .leaf s (.mem n) => "mem" :: printSchema s ++ [toString n]
  | .leaf s (.tvf name args) => "tvf" :: printSchema s ++ [encName name] ++ printTArgs args none
  | .un s .distinct src => "distinct" :: printSchema s ++ printPlan src
  | .un s (.filter e) src => "filter" :: printSchema s ++ printExpr e ++ printPlan src
  | .un s (.groupBy aggs aggExprs key kti trig) src =>
    "groupby" :: printSchema s ++ (toString aggs.length :: aggs.map encName) ++ printExprs aggExprs ++ printExprs key ++
      [toString kti, trig] ++ printPlan src
  | .un s (.map es) src => "map" :: printSchema s ++ printExprs es ++ printPlan src
  | .un s (.unnest f) src => "unnest" :: printSchema s ++ [encName f] ++ printPlan src
  | .un s (.ost keys mults lim) src =>
    "ost" :: printSchema s ++ printExprs keys ++ (toString mults.length :: mults.map toString) ++
      (match lim with | some e => "L" :: printExpr e | none => ["-"]) ++ printPlan src
  | .un s (.tvf name args tn) src =>
    "tvf" :: printSchema s ++ [encName name] ++ printTArgs args (some (tn, printPlan src))
  | .bin s (.sjoin lk rk) l r => "sjoin" :: printSchema s ++ printExprs lk ++ printExprs rk ++ printPlan l ++ printPlan r
  | .bin s .ljoin l r => "ljoin" :: printSchema s ++ printPlan l ++ printPlan r
  | .bin s (.ojoin il ir lk rk) l r =>
    "ojoin" :: printSchema s ++ [if il then "1" else "0", if ir then "1" else "0"] ++ printExprs lk ++ printExprs rk ++
      printPlan l ++ printPlan r

def renderPlan (p : Plan) : String := String.intercalate " " (printPlan p)

end Octo.Drv.PlanCodec
