import Octo.Model.JsonPipe
import Octo.Model.JoinProto
/-!
C29 driver.

op line      `json <nw> <np> <pipe>… [knobs the model ignores]`
  pipe       `<rows>:<batch>:<scanErr 0|1>:<bad lines a.b.c or ->:<stopAt k or ->[:harness-only…]`
impl output  `<summary>… | <event>…`   summary = one `<ret>:<produced>` per pipe
  event      `<kind>,<pipe>,<worker>,<n>`  in the order the hooks logged them

`model` prints the summary of the canonical schedule (it is schedule-independent when no line is bad, the scanner
does not fail and the parent context is not cancelled; `corr_skip` in the fragment compares only then).
`judge` replays the logged events as actions of the transition system: every event must be an enabled action
whose effect agrees with the value the real code reported (startIndex, linesRead, batch boundaries, …), and the
state after the last event must be final (Run returned, reader ended, pool drained).
-/
namespace Octo.Drv.C29
open Octo.JsonPipe

def parseNatList (s : String) : Option (List Nat) :=
  if s = "-" then some [] else (s.splitOn ".").mapM String.toNat?

def parseOptNat (s : String) : Option (Option Nat) :=
  if s = "-" then some none else s.toNat?.map some

def parsePipe (s : String) : Option Pipe :=
  match s.splitOn ":" with
  | rows :: batch :: se :: bad :: stop :: _ => do
    let rows ← rows.toNat?
    let batch ← (if batch = "b" then some Octo.Gen.JsonPipe.batchSize else batch.toNat?)
    let bad ← parseNatList bad
    let stop ← parseOptNat stop
    pure (Pipe.init rows batch (se = "1") bad stop)
  | _ => none

def parseOp (toks : List String) : Option State :=
  match toks with
  | "json" :: nw :: np :: rest => do
    let nw ← nw.toNat?
    let np ← np.toNat?
    let pipes ← (rest.take np).mapM parsePipe
    if pipes.length = np then pure (State.init nw pipes) else none
  | _ => none

/-- re-tabulate the two function fields so that lookups stay O(1) over long traces -/
def norm (s : State) : State :=
  let ps := ((List.range s.np).map s.pipe).toArray
  let ws := ((List.range s.nw).map s.worker).toArray
  { s with pipe := fun p => ps.getD p default, worker := fun w => if h : w < ws.size then ws[w] else none }

def retName : Ret → String
  | .none => "none" | .ok => "ok" | .stop => "stop" | .err => "err" | .scanErr => "scanerr" | .ctx => "ctx" | .panic => "panic"

def summary (s : State) : String :=
  " ".intercalate ((List.range s.np).map (fun p => s!"{retName (s.pipe p).ret}:{(s.pipe p).produced}"))

def finalB (s : State) : Bool := (List.range s.np).all (fun p => decide (s.pipeFinal p))

def fuelOf (s : State) : Nat :=
  (List.range s.np).foldl (fun acc p => acc + 12 * (s.pipe p).unread + 40) 0

def runCanon : Nat → State → State
  | 0, s => s
  | fuel + 1, s => match pick s (candidates s) with
    | some (_, s') => runCanon fuel (norm s')
    | none => s

def modelJson (toks : List String) : String :=
  match parseOp toks with
  | some s =>
    let t := runCanon (fuelOf s) s
    if finalB t then summary t else "model-stuck " ++ summary t
  | none => "bad-op"

/-! ### trace replay -/

structure Ev where
  kind : String
  pipe : Nat
  wid : Nat
  n : Nat

def parseEv (t : String) : Option Ev :=
  match t.splitOn "," with
  | [k, p, w, n] => do pure ⟨k, ← p.toNat?, ← w.toNat?, ← n.toNat?⟩
  | _ => none

def indexOfJob (js : List Job) (p first : Nat) : Option Nat :=
  let rec go : List Job → Nat → Option Nat
    | [], _ => none
    | j :: r, i => if j.pipe = p ∧ j.first = first then some i else go r (i + 1)
  go js 0

/-- After `Run` returned, its deferred `f.Close()` makes the reader's scanner fail early: the reader submits a shorter
last batch (or none) and sends on `done`. The log does not contain the close; the truncation is inferred from the
size the reader reports next (`rwrite n` with n smaller than the model's batch, or `rdone` while lines are unread)
and is accepted only as the model's `rTrunc` action (enabled only once the local context is cancelled). -/
def inferTrunc (s : State) (e : Ev) (rest : List Ev) : State :=
  let P := s.pipe e.pipe
  if P.localCancelled = true ∧ P.rpc = .sel then
    match e.kind with
    | "rtok" =>
      match (rest.find? (fun x => x.kind = "rwrite" ∧ x.pipe = e.pipe)).map (·.n) with
      | some n => if n < P.cur then (step s (.rTrunc e.pipe n)).getD s else s
      | none => s
    | "rdone" => (step s (.rTrunc e.pipe 0)).getD s
    | _ => s
  else s

/-- one logged event → (checked) model action; `sent` = the (worker, pipe, first) triples whose select took the send branch -/
def applyEv (sent : List (Nat × Nat × Nat)) (s0 : State) (e : Ev) (rest : List Ev) : Except String State :=
  let s := inferTrunc s0 e rest
  let P := s.pipe e.pipe
  let w := e.wid - 1
  let act (a : Action) : Except String State :=
    match step s a with
    | some s' => .ok (norm s')
    | none => .error "not-enabled"
  let holds (first : Nat) : Bool :=
    match s.worker w with
    | some j => j.pipe = e.pipe && j.first = first
    | none => false
  match e.kind with
  | "start" => .ok s
  | "pcancel" => act (.pCancel e.pipe)
  | "rtok" => act (.rTok e.pipe)
  | "rsub" => if P.nextLine = e.n then act (.rSub e.pipe) else .error "batch-first-line-differs"
  | "rwrite" => if P.cur = e.n then act (.rWrite e.pipe) else .error "batch-size-differs"
  | "rstop" => act (.rStop e.pipe)
  | "rdone" => act (.rDone e.pipe)
  | "wtake" =>
    if e.wid = 0 then .error "worker-id-0" else
    match indexOfJob s.jobs e.pipe e.n with
    | some k => act (.wTake w k)
    | none => .error "job-not-in-queue"
  | "wsel" =>
    if !holds e.n then .error "worker-does-not-hold-job"
    else if sent.contains (e.wid, e.pipe, e.n) then act (.wSend w) else .ok s
  | "wsent" => if sent.contains (e.wid, e.pipe, e.n) then .ok s else .error "wsent-unmatched"
  | "wdrop" => if holds e.n then act (.wDrop w) else .error "worker-does-not-hold-job"
  | "crecv" =>
    match indexOfJob P.out e.pipe e.n with
    | some k => act (.cRecv e.pipe k)
    | none => .error "batch-not-in-outchan"
  | "ctok" => act (.cTok e.pipe)
  | "cproc" => do
    let s' ← act (.cProc e.pipe)
    let P' := s'.pipe e.pipe
    if P'.startIndex ≠ e.n then .error s!"startIndex-differs model={P'.startIndex}"
    else if P'.ret ≠ .none ∧ P'.ret ≠ .ok then .error s!"model-returns {retName P'.ret}"
    else .ok s'
  | "cerr" => do
    let s' ← act (.cProc e.pipe)
    if (s'.pipe e.pipe).ret = .err then .ok s' else .error s!"model-does-not-fail: {retName (s'.pipe e.pipe).ret}"
  | "cstop" => do
    let s' ← act (.cProc e.pipe)
    let P' := s'.pipe e.pipe
    if P'.ret ≠ .stop then .error s!"model-does-not-stop: {retName P'.ret}"
    else if P'.startIndex ≠ e.n then .error s!"startIndex-differs model={P'.startIndex}"
    else .ok s'
  | "cbreak" =>
    if P.cpc = .ret ∧ P.ret = .ok ∧ P.linesRead = e.n ∧ P.rpc = .exit then .ok s
    else .error s!"break-not-justified linesRead={P.linesRead}"
  | "cdone" => do
    let s' ← act (.cDone e.pipe)
    let P' := s'.pipe e.pipe
    if (e.n = 1) = (P'.ret = .scanErr) then .ok s' else .error "done-value-differs"
  | "cctx" => act (.cCtx e.pipe)
  | "ccancel" => act (.cCancel e.pipe)
  | _ => .error "unknown-event"

def replay (sent : List (Nat × Nat × Nat)) : State → List Ev → Nat → Except String State
  | s, [], _ => .ok s
  | s, e :: es, i =>
    match applyEv sent s e es with
    | .ok s' => replay sent s' es (i + 1)
    | .error why => .error s!"{why} at-event {i} {e.kind},{e.pipe},{e.wid},{e.n}"

def splitBar : List String → List String × List String
  | [] => ([], [])
  | "|" :: r => ([], r)
  | x :: r => let (a, b) := splitBar r; (x :: a, b)

/-! ### join ops

op   `join <nw> <sj|oj> <nL> <nR> <m> <stop k|-> <errL e|-> <errR e|-> d<seed>`
impl `<ret> sent=<l>,<r> recv=<l>,<r> ended=<l>,<r> aborted=<l>,<r>`
-/

structure JoinOp where
  outer : Bool
  nL : Nat
  nR : Nat
  m : Nat
  stop : Option Nat
  errL : Option Nat
  errR : Option Nat

def parseJoinOp (toks : List String) : Option JoinOp :=
  match toks with
  | "join" :: _ :: kind :: nL :: nR :: m :: stop :: eL :: eR :: _ => do
    pure ⟨kind = "oj", ← nL.toNat?, ← nR.toNat?, ← m.toNat?, ← parseOptNat stop, ← parseOptNat eL, ← parseOptNat eR⟩
  | _ => none

/-- outcome of the node's Run: a failing source wins, else the k-th output (there are `min m nL nR` matching pairs) -/
def joinRet (o : JoinOp) : String :=
  if o.errL.isSome ∨ o.errR.isSome then "err"
  else match o.stop with
    | some k => if 0 < k ∧ k ≤ min o.m (min o.nL o.nR) then "stop" else "ok"
    | none => "ok"

/-- messages a source sends: its records up to the failure, plus the error message -/
def joinMsgs (n : Nat) (err : Option Nat) : Nat :=
  match err with
  | some e => min e n + 1
  | none => n

open Octo.JoinProto in
/-- canonical schedule of the protocol model: the consumer returns at its first receive when the run ends early -/
def joinCanon (early : Bool) : Nat → JoinProto.State → JoinProto.State
  | 0, s => s
  | fuel + 1, s =>
    let cands : List JoinProto.Action :=
      [.cRecv .L early, .cRecv .R early, .cSeeClosed .L, .cSeeClosed .R, .pSend .L, .pSend .R,
       .pAbort .L, .pAbort .R, .pClose .L, .pClose .R]
    match cands.findSome? (fun a => JoinProto.step s a) with
    | some s' => joinCanon early fuel s'
    | none => s

def b01 (b : Bool) : String := if b then "1" else "0"

def modelJoin (toks : List String) : String :=
  match parseJoinOp toks with
  | none => "bad-op"
  | some o =>
    let s0 := JoinProto.State.init true (joinMsgs o.nL o.errL) (joinMsgs o.nR o.errR)
    let t := joinCanon (joinRet o != "ok") (JoinProto.measure s0 + 1) s0
    s!"{joinRet o} ended={b01 t.l.closed},{b01 t.r.closed}"

def parsePair (t : String) (key : String) : Option (Nat × Nat) :=
  match t.splitOn "=" with
  | [k, v] =>
    if k = key then
      match v.splitOn "," with
      | [a, b] => do pure (← a.toNat?, ← b.toNat?)
      | _ => none
    else none
  | _ => none

def judgeJoin (toks : List String) (out : List String) : String :=
  match parseJoinOp toks, out with
  | none, _ => "bad unparsable-op"
  | _, "timeout" :: _ => "bad non-termination (the join's Run did not return)"
  | some o, [ret, sent, recv, ended, aborted] =>
    match parsePair sent "sent", parsePair recv "recv", parsePair ended "ended", parsePair aborted "aborted" with
    | some (sl, sr), some (rl, rr), some (el, er), some (al, ar) =>
      if el ≠ 1 ∨ er ≠ 1 then "bad a-producer-goroutine-of-the-join-is-blocked-for-ever (leak)"
      -- (a LEFT OUTER join also emits unmatched left records, so it may reach the k-th output where the inner join does not)
      else if ret ≠ joinRet o ∧ ¬ (o.outer ∧ o.stop.isSome ∧ ret = "stop") then "bad unexpected-outcome model=" ++ joinRet o
      else if rl > sl + 1 ∨ rr > sr + 1 then "bad more-received-than-sent"
      else if sl > rl + JoinProto.cap ∨ sr > rr + JoinProto.cap then "bad more-in-flight-than-the-channel-holds"
      else if ret = "ok" ∧ (rl ≠ o.nL ∨ rr ≠ o.nR ∨ al ≠ 0 ∨ ar ≠ 0) then "bad complete-run-lost-messages"
      else "ok"
    | _, _, _, _ => "bad unparsable-impl-output"
  | _, _ => "bad unparsable-impl-output"

/-! ### cli ops: whole-engine traces written by the real binary (`VERIF_JSON_TRACE`)

op   `cli <GOMAXPROCS> <query> <rows> d<seed> x<expected exit code>`
impl `exit=<code> | <event>…` — run ids of the process as pipe numbers.
The inputs of the pipes are not in the op (the engine decides which files are read, with which LIMITs): they are
inferred from the log — lines = what the reader reported in its `rwrite`s (+1 if it was seen at a further select),
the failing produce call from `cstop`, malformed lines from `cerr`, the scanner error from `cdone 1`. The process exits
when the query is answered, so the log must be a path but need not end in a final state; cancellations of the parent
context (by a join that returned) are not logged and are inserted where a `ctx.Done` branch was taken. -/

def sumWrites (evs : List Ev) (p : Nat) : Nat :=
  evs.foldl (fun acc e => if e.kind = "rwrite" ∧ e.pipe = p then acc + e.n else acc) 0

/-- did the reader of `p` reach a select again after its last `rwrite`? -/
def pendingBatch (evs : List Ev) (p : Nat) : Bool :=
  let r := evs.foldl (fun (st : Bool) e =>
    if e.pipe = p then
      if e.kind = "rwrite" then false
      else if e.kind = "rtok" ∨ e.kind = "rstop" then true
      else st
    else st) false
  r

def inferPipe (evs : List Ev) (p : Nat) : Pipe :=
  let lines := sumWrites evs p + (if pendingBatch evs p then 1 else 0)
  let stop := (evs.find? (fun e => e.kind = "cstop" ∧ e.pipe = p)).map (fun e => e.n + 1)
  let bad := (evs.filter (fun e => e.kind = "cerr" ∧ e.pipe = p)).map (·.n)
  let se := evs.any (fun e => e.kind = "cdone" ∧ e.pipe = p ∧ e.n = 1)
  Pipe.init lines Octo.Gen.JsonPipe.batchSize se bad stop

def needsCancel (k : String) : Bool := k = "cctx" || k = "rstop" || k = "wdrop"

def replayCli (sent : List (Nat × Nat × Nat)) : State → List Ev → Nat → Except String State
  | s, [], _ => .ok s
  | s, e :: es, i =>
    let s1 :=
      if needsCancel e.kind ∧ (s.pipe e.pipe).cancelled = false then (step s (.pCancel e.pipe)).getD s else s
    match applyEv sent s1 e es with
    | .ok s' => replayCli sent s' es (i + 1)
    | .error why => .error s!"{why} at-event {i} {e.kind},{e.pipe},{e.wid},{e.n}"

/-- The hooks log an event AFTER the operation it names, and the goroutines share one log: a goroutine that is descheduled
    between its operation and its log line is overtaken in the log by the goroutines that already saw the operation's
    effect. The reader's `rwrite` (its own next step after `rsub`, blocked by nobody) is the event this was observed for
    under load; moving it back to directly after the `rsub` of its pipe only restores an order that really happened. -/
def pullReaderWrites (evs : List Ev) : List Ev :=
  evs.foldl (fun acc e =>
    if e.kind = "rwrite" then
      let (afterRev, beforeRev) := acc.reverse.span (fun x => !(x.kind = "rsub" ∧ x.pipe = e.pipe))
      match beforeRev with
      | [] => acc ++ [e]
      | _ => beforeRev.reverse ++ [e] ++ afterRev.reverse
    else acc ++ [e]) []

/-- …and a process that exits (the query is finished: LIMIT reached, everything cancelled) cuts the log lines other
    goroutines had not written yet: a reader's `rwrite` that is missing altogether although the consumer logged the
    processing of that batch is restored from the `cproc` event (which carries the batch's size). -/
def fillMissingWrites : List Ev → List Ev
  | [] => []
  | e :: rest =>
    if e.kind = "rsub" then
      let seg := rest.takeWhile (fun x => !(x.kind = "rsub" ∧ x.pipe = e.pipe))
      if seg.any (fun x => x.kind = "rwrite" ∧ x.pipe = e.pipe) then e :: fillMissingWrites rest
      else match seg.find? (fun x => x.kind = "cproc" ∧ x.pipe = e.pipe) with
        | some c => e :: ⟨"rwrite", e.pipe, 0, c.n⟩ :: fillMissingWrites rest
        | none => e :: fillMissingWrites rest
    else e :: fillMissingWrites rest

def normaliseLog (evs : List Ev) : List Ev := fillMissingWrites (pullReaderWrites evs)

def cliExpected (toks : List String) : String :=
  match toks with
  | "cli" :: _ :: _ :: _ :: _ :: x :: _ => "exit=" ++ (x.drop 1).toString
  | _ => "bad-op"

def judgeCli (toks : List String) (out : List String) : String :=
  match toks with
  | "cli" :: gmp :: _ =>
    let (summ, evToks) := splitBar out
    match summ with
    | "timeout" :: _ => "bad non-termination (the query did not end)"
    | "crash" :: _ => "bad crash"
    | [ex] =>
      if ex ≠ cliExpected toks then "bad unexpected-exit-code expected " ++ cliExpected toks
      else match evToks.mapM parseEv, gmp.toNat? with
        | some evs0, some nw =>
          let tryReplay (evs : List Ev) : Except String State :=
            let np := evs.foldl (fun acc e => max acc (e.pipe + 1)) 0
            let s0 := State.init nw ((List.range np).map (inferPipe evs))
            -- the select took the send branch: `wsent` was logged — or the process exited before the worker could log it,
            -- but the consumer logged the receipt of that batch
            let sent := evs.filterMap (fun e =>
              if e.kind = "wsent" then some (e.wid, e.pipe, e.n)
              else if e.kind = "wsel" ∧ !(evs.any (fun x => (x.kind = "wsent" ∨ x.kind = "wdrop") ∧ x.wid = e.wid ∧ x.pipe = e.pipe ∧ x.n = e.n))
                      ∧ evs.any (fun x => x.kind = "crecv" ∧ x.pipe = e.pipe ∧ x.n = e.n) then some (e.wid, e.pipe, e.n)
              else none)
            replayCli sent s0 evs 0
          match tryReplay evs0 with
          | .error why =>
            (match tryReplay (normaliseLog evs0) with
             | .ok _ => "ok log-order-normalised"
             | .error _ => "bad trace-is-not-a-path " ++ why)
          | .ok _ => "ok"
        | _, _ => "bad unparsable-trace"
    | _ => "bad unparsable-impl-output"
  | _ => "bad unparsable-op"

/-! ### race ops (violation search only): `race <GOMAXPROCS> <query> <rows> d<seed> x<expected exit code>` -/

def raceExpected (toks : List String) : String :=
  match toks with
  | "race" :: _ :: _ :: _ :: _ :: x :: _ => "norace exit=" ++ (x.drop 1).toString
  | _ => "bad-op"

def judgeRace (toks : List String) (out : List String) : String :=
  match out with
  | "race" :: rest => "bad data-race-reported-by-the-race-detector " ++ " ".intercalate (rest.take 6)
  | "timeout" :: _ => "bad non-termination (the query did not end)"
  | "crash" :: _ => "bad crash"
  | "race-build-failed" :: _ => "bad the-race-detector-binary-could-not-be-built"
  | _ => if " ".intercalate out = raceExpected toks then "ok" else "bad unexpected-exit-code expected " ++ raceExpected toks

def judge (toks : List String) (out : List String) : String :=
  match toks with
  | "race" :: _ => judgeRace toks out
  | "cli" :: _ => judgeCli toks out
  | "join" :: _ => judgeJoin toks out
  | "json" :: _ =>
    match parseOp toks with
    | none => "bad unparsable-op"
    | some s0 =>
      let (summ, evToks) := splitBar out
      match summ with
      | "timeout" :: _ => "bad non-termination (Run, the reader goroutine or the pool did not finish before the deadline)"
      | "panic" :: _ => "bad panic"
      | _ =>
      match evToks.mapM parseEv with
      | none => "bad unparsable-trace"
      | some evs =>
        let sent := evs.filterMap (fun e => if e.kind = "wsent" then some (e.wid, e.pipe, e.n) else none)
        let verdict (r : Except String State) : String :=
          match r with
          | .error why => "bad trace-is-not-a-path " ++ why
          | .ok s =>
            if !finalB s then "bad trace-ends-in-a-non-final-state"
            else if summary s ≠ " ".intercalate summ then "bad summary-differs model=" ++ summary s
            else "ok"
        let v := verdict (replay sent s0 evs 0)
        if v == "ok" then v
        else if verdict (replay sent s0 (pullReaderWrites evs) 0) == "ok" then "ok log-order-normalised" else v
  | _ => "ok"

def model (toks : List String) : String :=
  match toks with
  | "join" :: _ => modelJoin toks
  | "race" :: _ => raceExpected toks
  | "cli" :: _ => cliExpected toks
  | _ => modelJson toks

end Octo.Drv.C29
