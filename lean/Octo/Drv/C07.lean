import Octo.Drv.Codec
/-! C07 driver: the process must end normally (output or a reported error), never with a Go runtime panic or a hang. -/
namespace Octo.Drv.C07

def model (toks : List String) : String :=
  match toks with
  | "fuzz" :: _ => "nopanic"
  | _ => "bad-op"

def judge (toks : List String) (out : List String) : String :=
  match toks, out with
  | "fuzz" :: _, ["nopanic"] => "ok"
  | "fuzz" :: _, ["panic"] => "bad go-runtime-panic"
  | "fuzz" :: _, ["timeout"] => "bad did-not-terminate"
  | _, _ => "bad unparsable"

end Octo.Drv.C07
