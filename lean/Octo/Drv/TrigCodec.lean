import Octo.Drv.Codec
import Octo.Model.TriggerGroupBy
/-!
  Line protocol shared by C16 and C17.

  trigger configuration (prefix code):  `TC<n>` | `TW<idx>` | `TE` | `TM<k>` cfg₁ … cfg_k

  `gb <cfg> K<nk> A<letters|-> E<idx|-> :: <stream>`   the real CustomTriggerGroupBy over a scripted source;
       records carry `nk` key columns followed by one argument column per aggregate letter
       (`c` = count, `s` = sum of ints); output `ok <emitted messages>` or `panic`
  `sgb K<nk> A<letters|-> :: <stream>`   the real SimpleGroupBy (what the planner builds without a TRIGGER clause)
  `trig <cfg> :: ev ; ev ; …`   the real trigger object driven directly; events `K<k> v…` (KeyReceived),
       `W<ns>` (WatermarkReceived), `E` (EndOfStreamReached), `P` (Poll); output: one `P<m> K<k> v… …`
       group per poll, separated by ` ; `, or `panic`
-/
namespace Octo.Drv.Trig
open Octo Octo.Codec Octo.Trig

partial def parseCfg : List String → Option (TCfg × List String)
  | [] => none
  | tok :: rest =>
    let body := (tok.drop 2).toString
    if tok.startsWith "TC" then body.toNat?.map fun n => (.counting n, rest)
    else if tok.startsWith "TW" then body.toNat?.map fun n => (.watermark n, rest)
    else if tok == "TE" then some (.eos, rest)
    else if tok.startsWith "TM" then do
      let k ← body.toNat?
      let (ts, r) ← many k rest
      pure (.multi ts, r)
    else none
where
  many : Nat → List String → Option (List TCfg × List String)
    | 0, rest => some ([], rest)
    | k + 1, rest => do
      let (t, r) ← parseCfg rest
      let (ts, r') ← many k r
      pure (t :: ts, r')

partial def encodeCfg : TCfg → String
  | .counting n => s!"TC{n}"
  | .watermark i => s!"TW{i}"
  | .eos => "TE"
  | .multi ts => String.intercalate " " (s!"TM{ts.length}" :: ts.map encodeCfg)

/-- the aggregates the harness can instantiate -/
def aggOfLetter (c : Char) : Agg := if c == 's' then aggSumInt else aggCount

def mkConf (cfg : TCfg) (nk : Nat) (letters : List Char) (ket : Option Nat) : GBConf where
  keyOf := fun vals => (List.range nk).map fun i => vals.getD i .null      -- key[i] = keyExprs[i].Evaluate = Values[i]
  aggs := (List.range letters.length).zipWith (fun i c => ⟨aggOfLetter c, fun vals => vals.getD (nk + i) .null⟩) letters
  ket := ket
  cfg := cfg
  recOk := fun vals => decide (nk + letters.length ≤ vals.length)     -- `Variable.Evaluate` indexes the record

structure GbOp where
  conf : GBConf
  nk : Nat
  stream : List Msg

def parseGb (toks : List String) : Option GbOp := do
  let (cfg, r) ← parseCfg toks
  match r with
  | k :: a :: e :: "::" :: rest =>
    let nk ← (k.drop 1).toString.toNat?
    let letters := if a == "A-" then [] else (a.drop 1).toString.toList
    let ket := (e.drop 1).toString.toNat?
    let s ← parseMsgs rest
    pure ⟨mkConf cfg nk letters ket, nk, s⟩
  | _ => none

inductive Ev where
  | key (k : Key)
  | wm (w : Int)
  | eos
  | poll

partial def parseEvs (toks : List String) : Option (List Ev) :=
  match toks with
  | [] => some []
  | ";" :: rest => parseEvs rest
  | "E" :: rest => (parseEvs rest).map (Ev.eos :: ·)
  | "P" :: rest => (parseEvs rest).map (Ev.poll :: ·)
  | tok :: rest =>
    if tok.startsWith "W" then do
      let w ← (tok.drop 1).toString.toInt?
      let es ← parseEvs rest
      pure (.wm w :: es)
    else if tok.startsWith "K" then do
      let n ← (tok.drop 1).toString.toNat?
      let (vs, r) ← parseValues n rest
      let es ← parseEvs r
      pure (.key vs :: es)
    else none

def parseTrig (toks : List String) : Option (TCfg × List Ev) := do
  let (cfg, r) ← parseCfg toks
  match r with
  | "::" :: rest => do
    let es ← parseEvs rest
    pure (cfg, es)
  | _ => none

def encodeKey (k : Key) : String :=
  String.intercalate " " (s!"K{k.length}" :: k.map encodeValue)

def encodePoll (ks : List Key) : String :=
  String.intercalate " " (s!"P{ks.length}" :: ks.map encodeKey)

/-- parse the polls an implementation printed -/
partial def parsePolls (toks : List String) : Option (List (List Key)) :=
  match toks with
  | [] => some []
  | ";" :: rest => parsePolls rest
  | tok :: rest =>
    if tok.startsWith "P" then do
      let m ← (tok.drop 1).toString.toNat?
      let (ks, r) ← keysN m rest
      let ps ← parsePolls r
      pure (ks :: ps)
    else none
where
  keysN : Nat → List String → Option (List Key × List String)
    | 0, rest => some ([], rest)
    | m + 1, tok :: rest => do
      let n ← (tok.drop 1).toString.toNat?
      let (vs, r) ← parseValues n rest
      let (ks, r') ← keysN m r
      pure (vs :: ks, r')
    | _ + 1, [] => none

/-- run a trigger script on the model; `none` = the Go code panics (key index out of range) -/
def runTrig (wl : WKey → WKey → Bool) : TState → List Ev → Option (List (List Key))
  | _, [] => some []
  | t, .key k :: es => if t.idxOk k.length then runTrig wl (t.keyReceived wl k) es else none
  | t, .wm w :: es => runTrig wl (t.watermarkReceived w) es
  | t, .eos :: es => runTrig wl t.endOfStream es
  | t, .poll :: es => (runTrig wl (t.poll wl).2 es).map ((t.poll wl).1 :: ·)

/-- `validLogB` in one pass (running multiplicity per row class); used by the oracles only to decide whether the
    property speaks about a generated input -/
def validFast (log : List Rec) : Bool :=
  let rec go (seen : List (Row × Int)) : List Rec → Bool
    | [] => true
    | r :: rs =>
      let d : Int := if r.retr then -1 else 1
      match seen.find? fun e => rowEq e.1 r.vals with
      | some e => if e.2 + d < 0 then false else go (seen.map fun x => if rowEq x.1 r.vals then (x.1, x.2 + d) else x) rs
      | none => if d < 0 then false else go ((r.vals, d) :: seen) rs
  go [] log

def modelGb (toks : List String) : String :=
  match parseGb toks with
  | none => "bad-op"
  | some op =>
    match run wlessFixed op.conf op.stream with
    | none => "panic"
    | some out => if out.isEmpty then "ok" else "ok " ++ encodeMsgs out

def modelTrig (toks : List String) : String :=
  match parseTrig toks with
  | none => "bad-op"
  | some (cfg, evs) =>
    match runTrig wlessFixed cfg.init evs with
    | none => "panic"
    | some polls => String.intercalate " ; " (polls.map encodePoll)

/-- `sgb K<nk> A<letters|-> :: <stream>`: the real SimpleGroupBy; output = forwarded watermarks, then the rows
    sorted by key (the hash map's iteration order is canonicalised on both sides) -/
def parseSgb (toks : List String) : Option GbOp := parseGb ("TE" :: toks.take 2 ++ "E-" :: toks.drop 2)

def modelSgb (toks : List String) : String :=
  match parseSgb toks with
  | none => "bad-op"
  | some op =>
    if (recs op.stream).all (fun r => op.conf.recOk r.vals) then
      let out := simpleRun op.conf op.stream
      if out.isEmpty then "ok" else "ok " ++ encodeMsgs out
    else "panic"

def model (toks : List String) : String :=
  match toks with
  | "sgb" :: rest => modelSgb rest
  | "gb" :: rest => modelGb rest
  | "trig" :: rest => modelTrig rest
  | _ => "bad-op"

end Octo.Drv.Trig
