import Octo.Drv.SqlCodec
import Octo.Spec.GroupSem
import Octo.Model.SqlGroupTrig
/-!
  C03 driver: GROUP BY queries through the real binary.

    grp <mode> <opt> <fmt> <kinds> T <ncols> <nrows> <v>… G <gquery> SQL <hex>
    res <name> <ty>                                       (aggregate overload resolution alone; output: `<idx> <assert ids…>` | none)
    aggtable                                              (the generated table, compared with the linked one)
  gquery := osel <gquery> <whr> <proj> <distinct> <order> <limit>
          | grp <query> <whr> K<k> <expr>… A<m> (<aggname> (@|<expr>))…   (@ is `*`) S<n> <idx>… <distinct> <order> <limit> <trig>
  query, whr, proj, distinct, order, limit, expr: as in `Octo.Drv.SqlCodec`
  trig   := - | E | C<k> | CE<k>
  output := rows <n> | <value>… | <value>…   (value codec; -0 printed as +0; rows sorted as text unless the
            top-level block has ORDER BY or the sink is a table)   or   err   or   panic
-/
namespace Octo.Drv.C03
open Octo Octo.Codec Octo.Sql Octo.Grp Octo.Drv.SqlCodec

partial def parseBlockTail (r : List String) : Option (Block × List String) := do
  let (whr, r) ← match r with
    | "-" :: r => some (none, r)
    | _ => (parseExpr r).map fun (e, r) => (some e, r)
  let (proj, r) ← match r with
    | "*" :: r => some (none, r)
    | p :: r => if p.startsWith "P" then (parseExprs (p.drop 1).toString.toNat! r).map fun (es, r) => (some es, r) else none
    | [] => none
  let (dist, r) ← match r with
    | "D1" :: r => some (true, r)
    | "D0" :: r => some (false, r)
    | _ => none
  let (ord, r) ← match r with
    | o :: r => if o.startsWith "O" then parseOrder (o.drop 1).toString.toNat! r else none
    | [] => none
  let (lim, r) ← match r with
    | "-" :: r => some (none, r)
    | l :: r => if l.startsWith "L" then some ((l.drop 1).toString.toNat?, r) else none
    | [] => none
  pure ({ whr := whr, proj := proj, distinct := dist, order := ord, limit := lim }, r)

partial def parseAggs : Nat → List String → Option (List AggCall × List String)
  | 0, r => some ([], r)
  | k + 1, name :: r => do
    let (arg, r) ← match r with
      | "@" :: r => some (none, r)
      | _ => (parseExpr r).map fun (e, r) => (some e, r)
    let (as, r) ← parseAggs k r
    pure (⟨name, arg⟩ :: as, r)
  | _, [] => none

def parseNats : Nat → List String → Option (List Nat × List String)
  | 0, r => some ([], r)
  | k + 1, t :: r => do
    let n ← t.toNat?
    let (ns, r) ← parseNats k r
    pure (n :: ns, r)
  | _, [] => none

def parseTrig (s : String) : Option Trig :=
  if s == "-" then some .none
  else if s == "E" then some .eos
  else if s.startsWith "CE" then (s.drop 2).toString.toNat?.map .countingEos
  else if s.startsWith "C" then (s.drop 1).toString.toNat?.map .counting
  else none

def countTok (p : String) (t : String) : Option Nat :=
  if t.startsWith p then (t.drop p.length).toString.toNat? else none

partial def parseGQuery : List String → Option (GQuery × List String)
  | "osel" :: rest => do
    let (src, r) ← parseGQuery rest
    let (b, r) ← parseBlockTail r
    pure (.sel src b, r)
  | "grp" :: rest => do
    let (src, r) ← parseQuery rest
    let (whr, r) ← match r with
      | "-" :: r => some (none, r)
      | _ => (parseExpr r).map fun (e, r) => (some e, r)
    let (keys, r) ← match r with
      | k :: r => (countTok "K" k).bind fun n => parseExprs n r
      | [] => none
    let (aggs, r) ← match r with
      | a :: r => (countTok "A" a).bind fun n => parseAggs n r
      | [] => none
    let (sel, r) ← match r with
      | s :: r => (countTok "S" s).bind fun n => parseNats n r
      | [] => none
    let (dist, r) ← match r with
      | "D1" :: r => some (true, r)
      | "D0" :: r => some (false, r)
      | _ => none
    let (ord, r) ← match r with
      | o :: r => if o.startsWith "O" then parseOrder (o.drop 1).toString.toNat! r else none
      | [] => none
    let (lim, r) ← match r with
      | "-" :: r => some (none, r)
      | l :: r => if l.startsWith "L" then some ((l.drop 1).toString.toNat?, r) else none
      | [] => none
    let (trig, r) ← match r with
      | t :: r => (parseTrig t).map fun t => (t, r)
      | [] => none
    pure (.group src { whr := whr, keys := keys, aggs := aggs, sel := sel, distinct := dist, order := ord, limit := lim, trig := trig }, r)
  | _ => none

structure GrpOp where
  mode : String
  ncols : Nat
  table : List Row
  query : GQuery

def parseGrp : List String → Option GrpOp
  | "grp" :: mode :: _opt :: _fmt :: _kinds :: rest => do
    let ncols ← match rest with
      | "T" :: nc :: _ => nc.toNat?
      | _ => none
    let (t, r) ← parseTable rest
    match r with
    | "G" :: r =>
      let (q, _) ← parseGQuery r
      pure { mode := mode, ncols := ncols, table := t, query := q }
    | _ => none
  | _ => none

/-! #### canonical printing -/

/-- `-0` and `+0` are one value for the engine (C09) and which of them a hash-ordered group-by reports is
    not determined: both sides print `+0` -/
partial def normV : Value → Value
  | .float b => if b == F64.negZero then .float 0 else .float b
  | .list xs => .list (xs.map normV)
  | v => v

def renderRowG (r : Row) : String := String.intercalate " " (r.map fun v => encodeValue (normV v))

def insertStr (s : String) : List String → List String
  | [] => [s]
  | x :: xs => if s ≤ x then s :: x :: xs else x :: insertStr s xs

def sortStrs (l : List String) : List String := l.foldr insertStr []

def renderRowsG (sorted : Bool) (rows : List Row) : String :=
  let rs := rows.map renderRowG
  let rs := if sorted then sortStrs rs else rs
  String.intercalate " | " (s!"rows {rows.length}" :: rs)

def topOrder : GQuery → List (SExpr × Bool)
  | .group _ g => g.order
  | .sel _ b => b.order

/-- the printed order is fixed by the query: a top-level ORDER BY, or a table sink (which sorts) -/
def orderFixed (op : GrpOp) : Bool :=
  !(topOrder op.query).isEmpty || modeOf op.mode == .table

/-! `gret <mode> <n> <nrows> (<k> <v>)×nrows`: aggregates (plain and DISTINCT) of an outer query over a RETRACTING source,
    `(SELECT t.k AS k, COUNT(t.v) AS c FROM t.csv t GROUP BY t.k TRIGGER COUNTING n) q`: every key's count is sent, retracted
    and re-sent as it grows, equal counts of different keys are present several times. The outer aggregates must be those of
    the FINAL inner table: `COUNT(DISTINCT c), SUM(DISTINCT c), COUNT(c), SUM(c), MAX(c), MIN(c)`. -/
def parsePairs : Nat → List String → Option (List (Int × Int))
  | 0, _ => some []
  | n + 1, k :: v :: rest => do
    let k ← k.toInt?
    let v ← v.toInt?
    let t ← parsePairs n rest
    pure ((k, v) :: t)
  | _, _ => none

def parseGret : List String → Option (List (Int × Int))
  | "gret" :: _ :: _ :: n :: rest => do parsePairs (← n.toNat?) rest
  | _ => none

def gretExpected (rows : List (Int × Int)) : String :=
  let keys := (rows.map (·.1)).eraseDups
  let counts : List Int := keys.map fun k => ((rows.filter fun r => r.1 == k).length : Int)
  let dc := counts.eraseDups
  let sum (l : List Int) : Int := l.foldl (· + ·) 0
  let mx := counts.foldl max 0
  let mn := counts.foldl min mx
  s!"rows 1 | #{dc.length} #{sum dc} #{counts.length} #{sum counts} #{mx} #{mn}"

/-! `gcte <mode> <nrows> (<k> <v>)×nrows`: a grouping CTE `g` (count, sum, min, max per key) referenced twice, one reference
    reading `lo`, the other `hi` and `c`; joined on the key: one row (k, min, max, count) per key. -/
def parseGcte : List String → Option (List (Int × Int))
  | "gcte" :: _ :: n :: rest => do parsePairs (← n.toNat?) rest
  | _ => none

def insertStrG (s : String) : List String → List String
  | [] => [s]
  | x :: xs => if s < x then s :: x :: xs else x :: insertStrG s xs

def gcteExpected (rows : List (Int × Int)) : String :=
  let keys := (rows.map (·.1)).eraseDups
  let lines := keys.map fun k =>
    let vs := (rows.filter fun r => r.1 == k).map (·.2)
    let hi := vs.foldl max (vs.headD 0)
    let lo := vs.foldl min (vs.headD 0)
    s!"#{k} #{lo} #{hi} #{vs.length}"
  String.intercalate " | " (s!"rows {lines.length}" :: lines.foldr insertStrG [])

def model (toks : List String) : String :=
  match toks with
  | "gcte" :: _ => (match parseGcte toks with | some rows => gcteExpected rows | none => "bad-op")
  | "gret" :: _ => (match parseGret toks with | some rows => gretExpected rows | none => "bad-op")
  | "res" :: name :: rest =>
    match parseTy rest, lookupDescs name with
    | some (t, _), some descs =>
      match resolve descs t with
      | none => "none"
      | some ch => String.intercalate " " (toString ch.idx :: (ch.assertIds.getD []).map toString)
    | _, _ => "bad-op"
  | ["aggtable"] =>
    String.intercalate " ; " (Gen.Agg.table.map fun e =>
      e.1 ++ " " ++ String.intercalate " " (e.2.map fun d =>
        "(" ++ (d.arg.map encodeTy).getD "fn" ++ " " ++ (d.out.map encodeTy).getD "fn" ++ " " ++ d.proto ++ " " ++ (if d.inner == "" then "-" else d.inner) ++ ")"))
  | _ =>
    match parseGrp toks with
    | none => "bad-op"
    | some op =>
      match denoteGT (modeOf op.mode) (tableTys op.ncols op.table) op.query op.table with
      | .err => "err"
      | .panic => "panic"
      | .ok rows => renderRowsG (!orderFixed op) rows

/-! #### the oracle -/

/-- one block of the specification applied to `mid` with its canonical tie-breaks; the flag says that an
    inner LIMIT cut was ambiguous (as in `SqlCodec.specCanon`) -/
def blockCanon (b : Block) (mid : List Row) (amb : Bool) : Option (List Row × Bool) := do
  let core ← specCore b mid
  let full := sortCanon b.order core
  let out := if b.order = [] then (match b.limit with | some n => core.take n | none => core)
             else (match b.limit with | some n => full.take n | none => full)
  let ambHere := if b.order = [] then
      (match b.limit with
       | some n => decide (0 < n) && decide (n < core.length) && !(core.all fun r => core.all (rowEq r))
       | none => false)
    else cutAmbiguous b core
  pure (out, amb || ambHere)

/-- the rows the grouping node must produce according to the specification -/
def specGroup (tys : List Ty) (src : Query) (g : GroupBlock) (t : List Row) : Option (List Row × Bool) := do
  let (r0, amb) ← specCanon src t
  let cols ← queryTys tys src
  let aggs ← typecheckAggs cols g.aggs
  let inp ← whereStep g.whr r0
  if evalsOk g.keys aggs inp then pure (groupSem g.keys aggs inp, amb) else none

/-- (input of the top-level block, the top-level block, ambiguity so far) -/
def specTop (tys : List Ty) : GQuery → List Row → Option (List Row × Block × Bool)
  | .group src g, t => (specGroup tys src g t).map fun (grouped, amb) => (grouped, g.post, amb)
  | .sel src b, t =>
    let rec inner : GQuery → Option (List Row × Bool)
      | .group src g => (specGroup tys src g t).bind fun (grouped, amb) => blockCanon g.post grouped amb
      | .sel src b => (inner src).bind fun (mid, amb) => blockCanon b mid amb
    (inner src).map fun (mid, amb) => (mid, b, amb)

partial def splitBar (cur : List String) (acc : List (List String)) : List String → List (List String)
  | [] => (cur.reverse :: acc).reverse
  | "|" :: r => splitBar [] (cur.reverse :: acc) r
  | t :: r => splitBar (t :: cur) acc r

partial def parseAllValues (toks : List String) : Option (List Value) :=
  match toks with
  | [] => some []
  | _ => (parseValue toks).bind fun (v, r) => (parseAllValues r).map (v :: ·)

/-- the implementation's `rows n | … | …` line as typed rows -/
def parseRowsOut (out : List String) : Option (List Row) :=
  match out with
  | "rows" :: _ :: [] => some []
  | "rows" :: _ :: "|" :: rest => (splitBar [] [] rest).mapM parseAllValues
  | _ => none

def judge (toks : List String) (out : List String) : String :=
  match toks with
  | "gcte" :: _ =>
    (match parseGcte toks with
     | none => "bad unparsable-op"
     | some rows =>
       if out == ["panic"] then "bad go-panic"
       else if String.intercalate " " out == gcteExpected rows then "ok"
       else s!"bad aggregates-of-a-twice-referenced-grouping-differ want={gcteExpected rows}")
  | "gret" :: _ =>
    (match parseGret toks with
     | none => "bad unparsable-op"
     | some rows =>
       if out == ["panic"] then "bad go-panic"
       else if String.intercalate " " out == gretExpected rows then "ok"
       else s!"bad aggregates-over-retracting-source-differ want={gretExpected rows}")
  | "res" :: name :: rest =>
    -- the oracle is `resolve`, which provably picks the first overload that fits (`Octo.C03.resolve_first_fit`)
    match parseTy rest, lookupDescs name with
    | some (t, _), some descs =>
      let want := match resolve descs t with
        | none => ["none"]
        | some ch => toString ch.idx :: (ch.assertIds.getD []).map toString
      if out == want then "ok"
      else if out == ["panic"] then "bad go-panic"
      else s!"bad overload-resolution got={String.intercalate "," out} want={String.intercalate "," want}"
    | _, _ => "bad unparsable-op"
  | ["aggtable"] => "ok"
  | _ =>
  match parseGrp toks with
  | none => "bad unparsable-op"
  | some op =>
    if out == ["panic"] then "bad go-panic"
    else
    match specTop (tableTys op.ncols op.table) op.query op.table with
    | none => if out == ["err"] then "ok"
              else if op.query.hasLimit0 && out == ["rows", "0"] then "ok limit-0-skips-the-error"
              else "bad expected-error"
    | some (mid, b, amb) =>
      match specCore b mid with
      | none => if out == ["err"] then "ok" else "bad expected-error"
      | some core =>
        match parseRowsOut out with
        | none => s!"bad no-rows-output {String.intercalate " " (out.take 6)}"
        | some typed =>
          if orderFixed op then
            if checkOrderLimit b core typed then "ok"
            else if amb then "ok ambiguous-inner-limit"
            else
              let full := sortCanon b.order core
              let n := match b.limit with | some n => min n full.length | none => full.length
              if typed.length != n then s!"bad wrong-row-count got={typed.length} want={n}"
              else if !subBagB typed full then "bad row-not-in-group-by-result"
              else if !sortedByB b.order typed then "bad not-in-order"
              else "bad not-the-first-n-of-the-order"
          else
            -- no ORDER BY, eager sink: a bag (the harness sorted the rows as text)
            let n := match b.limit with | some n => min n core.length | none => core.length
            if typed.length != n then (if amb then "ok ambiguous-inner-limit" else s!"bad wrong-row-count got={typed.length} want={n}")
            else if subBagB typed core then "ok"
            else if amb then "ok ambiguous-inner-limit"
            else "bad row-not-in-group-by-result"

end Octo.Drv.C03
