import Octo.Drv.Codec
import Octo.Spec.Aggregates
/-! C14 driver: model outputs and the property oracle (judge) for the line protocol (see harness/c14.go). -/
namespace Octo.Drv.C14
open Octo Octo.Codec Octo.Agg

def parseHist : Nat → List String → Option Hist
  | 0, _ => some []
  | n + 1, sign :: rest => do
    let (v, r) ← parseValue rest
    let h ← parseHist n r
    pure ((sign == "-", v) :: h)
  | _, _ => none

def encodeOut : Out → String
  | .panic => "panic"
  | .val v => encodeValue v

def flagChar (b : Bool) : Char := if b then '1' else '0'

/-- the line the Go driver prints for `hist` / `steps` -/
def runLine (A : Agg) (h : Hist) (every : Bool) : String :=
  if h.isEmpty then "- " ++ encodeOut (A.trigger A.init) else
  let (s, flags, outs) := h.foldl
    (fun (acc : A.σ × List Char × List String) e =>
      let (s', f) := A.add acc.1 e.1 e.2
      (s', flagChar f :: acc.2.1, if every then encodeOut (A.trigger s') :: acc.2.2 else acc.2.2))
    (A.init, [], [])
  let outs := if every then outs.reverse else [encodeOut (A.trigger s)]
  String.ofList flags.reverse ++ " " ++ String.intercalate " ; " outs

def isHistOp (op : String) : Bool := op == "hist" || op == "steps" || op == "fhist" || op == "fsteps"
def isEvery (op : String) : Bool := op == "steps" || op == "fsteps"

def model (toks : List String) : String :=
  match toks with
  | ["table"] => String.intercalate " " (table.map fun (n, ds) => s!"{n}:{ds.length}")
  | ["desc", name, idx] =>
    match lookupDesc name idx.toNat! with
    | some (a, o, _, _) => a ++ " " ++ o
    | none => "none"
  | op :: name :: idx :: n :: rest =>
    if isHistOp op then
      match lookupDesc name idx.toNat!, parseHist n.toNat! rest with
      | some (_, _, k, d), some h => runLine (mkAgg k d) h (isEvery op)
      | none, _ => "none"
      | _, none => "bad-op"
    else "bad-op"
  | _ => "bad-op"

/-! ### the oracle -/

def splitOuts (toks : List String) : List (List String) :=
  let (cur, acc) := toks.foldl (fun (st : List String × List (List String)) t =>
    if t == ";" then ([], st.1.reverse :: st.2) else (t :: st.1, st.2)) ([], [])
  (cur.reverse :: acc).reverse

def parseOut (toks : List String) : Option Out :=
  match toks with
  | ["panic"] => some .panic
  | _ => (parseValue toks).map fun (v, _) => .val v

def absScaled (v : Value) : Nat :=
  if F64.isFinite (floatField v) then (F64.toScaled (floatField v)).natAbs else 0

/-- a running float sum over this history can reach a non-finite value: an input is ±Inf/NaN, or the
    absolute values add up to the overflow threshold -/
def poisonPossible (h : Hist) : Bool :=
  h.any (fun e => !F64.isFinite (floatField e.2)) ||
  decide ((h.map fun e => absScaled e.2).sum ≥ 2^(1023+1074))

/-- float sums and averages: exact special-value semantics, finite results within the accumulated
    rounding error of a recursive summation over the history (`n·2^-52·Σ|xᵢ|`) -/
def judgeFloat (isAvg : Bool) (h : Hist) (M : List Value) (r : Value) : String :=
  match r with
  | .float rb =>
    let n := h.length
    let A := (h.map fun e => absScaled e.2).sum
    let c := M.length
    let wrong := if poisonPossible h && !F64.isFinite rb then "known float-sum-poison" else "bad float-sum"
    match specFSum M with
    | .nan => if F64.isNaN rb then "ok" else "bad float-sum-expected-NaN"
    | .inf s => if F64.isInf rb && F64.neg rb == s then "ok" else wrong
    | .fin S =>
      if F64.isFinite rb then
        let R := F64.toScaled rb
        if isAvg then
          (if (R * c - S).natAbs * 2^52 ≤ (n + 2) * A + c * 2^52 then "ok" else "bad float-avg-beyond-rounding-error")
        else
          (if (R - S).natAbs * 2^52 ≤ n * A then "ok" else "bad float-sum-beyond-rounding-error")
      else wrong
  | _ => "bad float-sum-not-a-float"

def judgeValue (k : Kind) (d : Bool) (h : Hist) (M : List Value) (out : Option Out) : String :=
  match out with
  | some (.val r) =>
    let M' := if d then support M else M
    match k with
    | .sumFloat => judgeFloat false h M' r
    | .avgFloat => judgeFloat true h M' r
    | _ => if cmp r (specFull k d M) == 0 then "ok" else "bad value-differs-from-aggregate-of-net-multiset"
  | some .panic => "bad trigger-panicked-on-nonempty-multiset"
  | none => "bad unparsable-impl-output"

/-- worst verdict first: bad > known > ok -/
def worse (a b : String) : String :=
  if a.startsWith "bad" then a else if b.startsWith "bad" then b
  else if a.startsWith "known" then a else b

def judgeSteps (k : Kind) (d : Bool) (h : Hist) (bags : List (List Value)) (flags : List Char)
    (outs : List (List String)) (every : Bool) : String :=
  let n := h.length
  let idxs := List.range n
  idxs.foldl (fun verdict i =>
    match bags[i]?, flags[i]? with
    | some M, some f =>
      let v1 := if (f == '1') == M.isEmpty then "ok" else s!"bad add-returned-wrong-emptiness step={i+1}"
      let v2 :=
        if M.isEmpty then "ok"
        else if every then
          match outs[i]? with
          | some o => let r := judgeValue k d (h.take (i+1)) M (parseOut o); if r == "ok" then r else r ++ s!" step={i+1}"
          | none => "bad missing-output"
        else if i + 1 == n then
          match outs[0]? with
          | some o => judgeValue k d h M (parseOut o)
          | none => "bad missing-output"
        else "ok"
      worse verdict (worse v1 v2)
    | _, _ => "bad malformed-impl-output") "ok"

/-- property oracle on what the *implementation* printed: for a valid history, after every step the
    returned flag says whether the net multiset is empty, and when it is not empty the reported value
    equals (`cmp = 0`) the aggregate of the net multiset computed from scratch. -/
def judge (toks : List String) (out : List String) : String :=
  match toks with
  | op :: name :: idx :: n :: rest =>
    if isHistOp op then
      match lookupDesc name idx.toNat!, parseHist n.toNat! rest with
      | some (_, _, k, d), some h =>
        if h.isEmpty then "ok" else
        match bagsOf [] h with
        | none => "ok"       -- not a valid history: the property demands nothing
        | some bags =>
          match out with
          | flags :: os => judgeSteps k d h bags flags.toList (splitOuts os) (isEvery op)
          | [] => "bad empty-impl-output"
      | _, _ => "ok"
    else "ok"
  | _ => "ok"

end Octo.Drv.C14
