import Octo.Model.SqlOk
import Octo.Drv.Codec
/-!
  C30 driver: wire tokens ↔ `Tok`, the canonical dump of the tree, `model` and `judge`.

  op line   : q <hex sql> <wire token>…
  impl line : E | N <verdict> | X <verdict> | F <dump> P <wire token>… R <verdict>
-/
namespace Octo.Drv.C30
open Octo Octo.SqlSyn Octo.Codec

def hexOfString (s : String) : String :=
  String.ofList (s.toList.flatMap fun c => [hexDigit ((c.toNat / 16) % 16), hexDigit (c.toNat % 16)])

/-- bytes as characters 0–255 (no UTF-8 decoding: identifiers and strings are byte strings in Go) -/
def stringOfHex (h : String) : String :=
  String.ofList ((parseHexBytes h).map fun b => Char.ofNat b.toNat)

def kwTable : List (String × Kw) := [
  ("SELECT", .SELECT), ("FROM", .FROM), ("WHERE", .WHERE), ("GROUP", .GROUP), ("BY", .BY), ("HAVING", .HAVING),
  ("ORDER", .ORDER), ("LIMIT", .LIMIT), ("OFFSET", .OFFSET), ("DISTINCT", .DISTINCT), ("AS", .AS), ("ASC", .ASC),
  ("DESC", .DESC), ("JOIN", .JOIN), ("INNER", .INNER), ("CROSS", .CROSS), ("LEFT", .LEFT), ("RIGHT", .RIGHT),
  ("OUTER", .OUTER), ("NATURAL", .NATURAL), ("ON", .ON), ("USING", .USING), ("LOOKUP", .LOOKUP), ("STREAM", .STREAM),
  ("TRIGGER", .TRIGGER), ("COUNTING", .COUNTING), ("WATERMARK", .WATERMARK), ("DELAY", .DELAY), ("AFTER", .AFTER),
  ("END", .END), ("OF", .OF), ("TABLE", .TABLE), ("DESCRIPTOR", .DESCRIPTOR), ("WITH", .WITH), ("AND", .AND), ("OR", .OR),
  ("NOT", .NOT), ("IS", .IS), ("NULL", .NULL), ("TRUE", .TRUE), ("FALSE", .FALSE), ("IN", .IN), ("LIKE", .LIKE),
  ("REGEXP", .REGEXP), ("EXISTS", .EXISTS), ("INTERVAL", .INTERVAL), ("DIV", .DIV), ("MOD", .MOD), ("CONVERT", .CONVERT),
  ("CAST", .CAST), ("LPAREN", .LPAREN), ("RPAREN", .RPAREN), ("COMMA", .COMMA), ("DOT", .DOT), ("STAR", .STAR),
  ("PLUS", .PLUS), ("MINUS", .MINUS), ("SLASH", .SLASH), ("PERCENT", .PERCENT), ("CARET", .CARET), ("AMP", .AMP),
  ("PIPE", .PIPE), ("TILDE", .TILDE), ("BANG", .BANG), ("EQ", .EQ), ("LT", .LT), ("GT", .GT), ("LE", .LE), ("GE", .GE),
  ("NE", .NE), ("NULL_SAFE_EQUAL", .NULL_SAFE_EQUAL), ("SHIFT_LEFT", .SHIFT_LEFT), ("SHIFT_RIGHT", .SHIFT_RIGHT),
  ("JSON_EXTRACT_OP", .JSON_EXTRACT_OP), ("JSON_EXPLODE_OP", .JSON_EXPLODE_OP), ("RIGHTARROW", .RIGHTARROW),
  ("LIST_ARG", .LIST_ARG), ("LIST_TYPE", .LIST_TYPE), ("OBJECT_TYPE", .OBJECT_TYPE), ("LBRACK", .LBRACK),
  ("RBRACK", .RBRACK), ("SEMI", .SEMI)]

def kwOfName (n : String) : Option Kw := lookup n kwTable
def kwName (k : Kw) : String :=
  match kwTable.find? (fun p => p.2 = k) with
  | some p => p.1
  | none => "?"

def decodeTok (w : String) : Tok :=
  match w.toList with
  | [] => .bad "empty"
  | c :: cs =>
    let body := String.ofList cs
    match c with
    | 'I' => .id (stringOfHex body)
    | 'S' => .str (stringOfHex body)
    | 'N' => .int (stringOfHex body)
    | 'F' => .float (stringOfHex body)
    | 'H' => .hexnum (stringOfHex body)
    | 'X' => .hex (stringOfHex body)
    | 'B' => .bit (stringOfHex body)
    | 'W' => .nrkw (stringOfHex body)
    | 'K' =>
      match kwOfName body with
      | some k => .kw k
      | none => .other body
    | _ => .bad w

def encodeTok : Tok → String
  | .kw k => "K" ++ kwName k
  | .nrkw v => "W" ++ hexOfString v
  | .other n => "K" ++ n
  | .id s => "I" ++ hexOfString s
  | .str s => "S" ++ hexOfString s
  | .int s => "N" ++ hexOfString s
  | .float s => "F" ++ hexOfString s
  | .hexnum s => "H" ++ hexOfString s
  | .hex s => "X" ++ hexOfString s
  | .bit s => "B" ++ hexOfString s
  | .bad w => "!" ++ hexOfString w

/-! canonical dump (the same format as harness/util_sqlast.go) -/
def dStr (s : String) : String := "$" ++ hexOfString s
def dBool (b : Bool) : String := if b then "1" else "0"
def dList (xs : List String) : String := "[" ++ String.intercalate "," xs ++ "]"

mutual
partial def dumpE : Expr → String
  | .and l r => s!"And({dumpE l},{dumpE r})"
  | .or l r => s!"Or({dumpE l},{dumpE r})"
  | .not e => s!"Not({dumpE e})"
  | .paren e => s!"Paren({dumpE e})"
  | .cmp op l r => s!"Cmp({dStr op.goStr},{dumpE l},{dumpE r})"
  | .is op e => s!"Is({dStr op.goStr},{dumpE e})"
  | .exists_ s => s!"Exists({dumpS s})"
  | .val ty neg s => s!"Val({ty.code},{dStr ((if neg then "-" else "") ++ s)})"
  | .null => "Null"
  | .bool b => s!"Bool({dBool b})"
  | .col q2 q1 n => s!"Col({dStr q2},{dStr q1},{dStr n})"
  | .tuple es => s!"Tuple({dList (es.map dumpE)})"
  | .subq s => s!"Subq({dumpS s})"
  | .bin op l r => s!"Bin({dStr op.goStr},{dumpE l},{dumpE r})"
  | .index l i => s!"Bin({dStr Gen.v_ArrayElement},{dumpE l},{dumpE i})"
  | .un op e => s!"Un({dStr op.goStr},{dumpE e})"
  | .interval e u => s!"Interval({dumpE e},{dStr u})"
  | .func q n d args => s!"Func({dStr q},{dStr n},{dBool d},{dList (args.map dumpE)})"
  | .convert e t =>
    let ts := match t with
      | .simple n => s!"TSimple({dStr n})"
      | .list => "TList"
      | .object => "TObject"
    s!"Convert({dumpE e},{ts})"
  | .field e n => s!"Field({dumpE e},{dStr n})"
  | .star q2 q1 => s!"Star({dStr q2},{dStr q1})"
  | .aliased e a => s!"Aliased({dumpE e},{dStr a})"
  | .explode e => s!"Explode({dumpE e})"
  | .trigCount e => s!"TCount({dumpE e})"
  | .trigWm => "TWm"
  | .trigEos => "TEos"
  | .trigDelay e => s!"TDelay({dumpE e})"
  | .order e d => s!"Ord({dumpE e},{dBool d})"
partial def dumpOE : Option Expr → String
  | none => "~"
  | some e => dumpE e
partial def dumpT : Tbl → String
  | .table q n a => s!"Table({dStr q},{dStr n},{dStr a})"
  | .sub s a => s!"TSub({dumpS s},{dStr a})"
  | .paren ts => s!"TParen({dList (ts.map dumpT)})"
  | .join l st k r on us => s!"Join({dumpT l},{dStr st.goStr},{dStr k.goStr},{dumpT r},{dumpOE on},{dList (us.map dStr)})"
  | .tvf n args a => s!"Tvf({dStr n},{dList (args.map dumpT)},{dStr a})"
  | .argE n e => s!"ArgE({dStr n},{dumpE e})"
  | .argT n t => s!"ArgT({dStr n},{dumpT t})"
  | .argD n q2 q1 c => s!"ArgD({dStr n},{dStr q2},{dStr q1},{dStr c})"
partial def dumpS : Sel → String
  | .select d es f w g h t o lo lc =>
    let lim := match lc with
      | none => "~"
      | some c => s!"Lim({dumpOE lo},{dumpE c})"
    s!"Select({dBool d},{dList (es.map dumpE)},{dList (f.map dumpT)},{dumpOE w},{dList (g.map dumpE)},{dumpOE h},{dList (t.map dumpE)},{dList (o.map dumpE)},{lim})"
  | .with_ cs s => s!"With({dList (cs.map dumpS)},{dumpS s})"
  | .cte n s => s!"Cte({dStr n},{dumpS s})"
end

/-- the tokens of the op line -/
def opToks (toks : List String) : Option (List Tok) :=
  match toks with
  | "q" :: _ :: ws => some (ws.map decodeTok)
  | _ => none

def verdictOf (t : Sel) : String :=
  match parseStmt (printS t) with
  | some t' => if dumpS t' == dumpS t then "same" else "differ"
  | none => "reparse-err"

/-- model side: parse the tokens, dump the tree, print it, re-parse -/
def model (toks : List String) : String :=
  match opToks toks with
  | none => "bad-op"
  | some ts =>
    match parseStmt ts with
    | none => "E"
    | some t =>
      -- `O1`: the tree satisfies the parser-image predicate `okS` (the hypothesis of `C30_partial`); the Go side always
      -- prints O1 for an in-fragment tree without raw-name hazard, so a parser-built tree outside `okS` is a mismatch
      "F " ++ dumpS t ++ " P " ++ String.intercalate " " ((printS t).map encodeTok) ++ " R " ++ verdictOf t ++
        (if okS t && t.isStmt then " O1" else " O0")

/-- does the statement call a function / use an interval unit / a convert type whose name `Format` prints unquoted
    although it does not lex back to itself?  (token-level test: the name token is followed by `(` / follows `::`) -/
def hasRawHazard : List Tok → Bool
  | .id s :: .kw .LPAREN :: rest => !rawOK s || hasRawHazard rest
  | .kw .LIST_ARG :: .id s :: rest => !rawOK s || hasRawHazard rest
  | .kw .INTERVAL :: rest => intervalHazard rest || hasRawHazard rest
  | _ :: rest => hasRawHazard rest
  | [] => false
where
  /-- some later identifier token that is not a plain word (the unit of this INTERVAL may be it) -/
  intervalHazard : List Tok → Bool
    | .id s :: rest => !rawOK s || intervalHazard rest
    | _ :: rest => intervalHazard rest
    | [] => false

/-- property oracle on what the implementation printed: every accepted SELECT statement must re-parse to the same tree -/
def judge (toks : List String) (out : List String) : String :=
  match out with
  | ["E"] => "ok"
  | "N" :: _ => "ok"      -- not a select statement: outside the property as checked here
  | _ =>
    match (out.filter (fun w => w != "O1" && w != "O0")).getLast? with
    | some "same" => "ok"
    | some v =>
      if v == "differ" || v == "reparse-err" || v == "panic" then
        match opToks toks with
        | some ts =>
          if hasRawHazard ts then s!"known raw-name-unquoted {v}" else s!"bad round-trip-{v}"
        | none => s!"bad round-trip-{v}"
      else "bad unparsable-impl-output"
    | none => "bad unparsable-impl-output"

end Octo.Drv.C30
