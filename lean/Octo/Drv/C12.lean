import Octo.Drv.Codec
import Octo.Model.Strings
import Octo.Model.Like
/-! C12 driver: model outputs and the property oracle (judge) for the line protocol.

  ops (strings are `s<hex>` tokens, integers `i<dec>`):
    upper s | lower s        → `s<hex> <1|0>`  (result, and whether it equals strings.ToUpper/ToLower)  [model: ASCII only, else `nomodel`]
    reverse s                → `s<hex>`
    substr2 s i | substr3 s i i → `s<hex>` | `err` | `panic`
    replace s old new        → `s<hex>`
    position s sub           → `i<n>` | `n`
    len s                    → `i<n>`
    like s p                 → `rx<hex> b0|b1|err` (regexp text LIKE built, result) | `err` (no regexp built)
    tilde s p | tildei s p   → `<b0|b1|err> <b0|b1|err>` (octosql's result, Go's regexp [with (?i)] directly) [model: mini language, else `nomodel`]
-/
namespace Octo.Drv.C12
open Octo Octo.Codec Octo.Utf8 Octo.Str Octo.Like

def pStr (t : String) : Option Bytes := if t.front == 's' then some (parseHexBytes (t.drop 1).toString) else none
def pInt (t : String) : Option Int := if t.front == 'i' then (t.drop 1).toString.toInt? else none
def eStr (b : Bytes) : String := "s" ++ hexOfBytes b
def eBool (b : Bool) : String := if b then "b1" else "b0"
def eOut : Out Bytes → String
  | .ok b => eStr b
  | .err => "err"
  | .panic => "panic"
def eRx : RxOut → String
  | .ok b => eBool b
  | .err => "err"
  | .unmodelled => "nomodel"

/-- model side: the same line the Go driver prints -/
def model (toks : List String) : String :=
  match toks with
  | ["upper", s] => (do let s ← pStr s; let r ← upper s; pure (eStr r ++ " 1")).getD "nomodel"
  | ["lower", s] => (do let s ← pStr s; let r ← lower s; pure (eStr r ++ " 1")).getD "nomodel"
  | ["reverse", s] => (do let s ← pStr s; pure (eStr (reverse s))).getD "bad-op"
  | ["substr2", s, i] => (do let s ← pStr s; let i ← pInt i; pure (eOut (substr2 s i))).getD "bad-op"
  | ["substr3", s, i, n] =>
    (do let s ← pStr s; let i ← pInt i; let n ← pInt n; pure (eOut (substr3 s i n))).getD "bad-op"
  | ["replace", s, o, n] =>
    (do let s ← pStr s; let o ← pStr o; let n ← pStr n; pure (eStr (replace s o n))).getD "bad-op"
  | ["position", s, sub] =>
    (do let s ← pStr s; let sub ← pStr sub
        pure (match position s sub with | some i => s!"i{i}" | none => "n")).getD "bad-op"
  | ["len", s] => (do let s ← pStr s; pure s!"i{len s}").getD "bad-op"
  | ["like", s, p] =>
    (do let s ← pStr s; let p ← pStr p
        pure (match likeRegexText p with
          | .error _ => "err"
          | .ok rx => "rx" ++ hexOfBytes rx ++ " " ++ eRx (miniEngine rx s))).getD "bad-op"
  | ["tilde", s, p] =>
    (do let s ← pStr s; let p ← pStr p
        pure (match tildeWith miniEngine s p with
          | .unmodelled => "nomodel"
          | r => eRx r ++ " " ++ eRx r)).getD "bad-op"
  | ["tildei", s, p] =>
    (do let s ← pStr s; let p ← pStr p
        pure (match tildeStarWith miniEngine s p with
          | .unmodelled => "nomodel"
          | r => eRx r ++ " " ++ eRx r)).getD "bad-op"
  | _ => "bad-op"

/-- all `j < n` fail `f` -/
def noneBelow (f : Nat → Bool) (n : Nat) : Bool := (List.range n).all (fun j => !f j)

/-- property oracle, evaluated on what the *implementation* printed -/
def judge (toks : List String) (out : List String) : String :=
  match toks with
  | ["upper", s] =>
    match pStr s, out with
    | some s, [r, flag] =>
      if flag != "1" then "bad upper-differs-from-strings.ToUpper"
      else if isAscii s && r != eStr (s.map upperByte) then "bad upper-ascii-wrong"
      else "ok"
    | _, _ => "bad unparsable-impl-output"
  | ["lower", s] =>
    match pStr s, out with
    | some s, [r, flag] =>
      if flag != "1" then "bad lower-differs-from-strings.ToLower"
      else if isAscii s && r != eStr (s.map lowerByte) then "bad lower-ascii-wrong"
      else "ok"
    | _, _ => "bad unparsable-impl-output"
  | ["reverse", s] =>
    match pStr s, out with
    | some s, [r] => if r == eStr (reverseSpec s) then "ok" else "bad reverse-is-not-the-reversed-characters"
    | _, _ => "bad unparsable-impl-output"
  | ["substr2", s, i] =>
    match pStr s, pInt i, out with
    | some s, some i, [r] =>
      if r == "panic" then "bad substr-panics"
      else if i < 0 then (if r == "err" then "ok" else "bad substr-negative-start-accepted")
      else if r == eStr (s.drop i.toNat) then "ok" else "bad substr-wrong-slice"
    | _, _, _ => "bad unparsable-impl-output"
  | ["substr3", s, i, n] =>
    match pStr s, pInt i, pInt n, out with
    | some s, some i, some n, [r] =>
      if r == "panic" then "bad substr-panics"
      else if i < 0 || n < 0 then (if r == "err" then "ok" else "bad substr-negative-argument-accepted")
      else if r == eStr ((s.drop i.toNat).take n.toNat) then "ok" else "bad substr-wrong-slice"
    | _, _, _, _ => "bad unparsable-impl-output"
  | ["replace", s, o, n] =>
    match pStr s, pStr o, pStr n, out with
    | some s, some o, some n, [r] =>
      if o.isEmpty then "ok"   -- empty `old`: library-defined behaviour, covered by the correspondence only
      else if r == eStr (replaceScan o n 0 s) then "ok" else "bad replace-is-not-left-to-right-replacement"
    | _, _, _, _ => "bad unparsable-impl-output"
  | ["position", s, sub] =>
    match pStr s, pStr sub, out with
    | some s, some sub, [r] =>
      if r == "n" then
        (if noneBelow (occursAt sub s) (s.length + 1) then "ok" else "bad position-null-but-occurs")
      else match pInt r with
        | some i =>
          if i < 0 then "bad position-negative"
          else if !occursAt sub s i.toNat then "bad position-not-an-occurrence"
          else if !noneBelow (occursAt sub s) i.toNat then "bad position-not-the-first-occurrence"
          else "ok"
        | none => "bad unparsable-impl-output"
    | _, _, _ => "bad unparsable-impl-output"
  | ["len", s] =>
    match pStr s, out with
    | some s, [r] => if r == s!"i{s.length}" then "ok" else "bad len-wrong"
    | _, _ => "bad unparsable-impl-output"
  | ["like", s, p] =>
    match pStr s, pStr p with
    | some s, some p =>
      let got := match out with
        | ["err"] => some "err"
        | [_, r] => some r
        | _ => none
      match got, likeSpec s p with
      | none, _ => "bad unparsable-impl-output"
      | some "panic", _ => "bad like-panics"
      | some r, none => if r == "err" then "ok" else "bad like-malformed-pattern-accepted"
      | some r, some b =>
        if r == "err" then "bad like-well-formed-pattern-rejected"
        else if r == eBool b then "ok"
        else if b then "bad like-should-match" else "bad like-should-not-match"
    | _, _ => "bad unparsable-impl-output"
  | ["tilde", _, _] =>
    match out with
    | [a, b] => if a == b then "ok" else "bad tilde-differs-from-regexp"
    | _ => "bad unparsable-impl-output"
  | ["tildei", _, _] =>
    match out with
    | [a, b] => if a == b then "ok" else "bad tildei-differs-from-case-insensitive-regexp"
    | _ => "bad unparsable-impl-output"
  | _ => "ok"

end Octo.Drv.C12
