import Octo.Drv.FilesCommon
/-!
  C24 driver: model outputs and the property oracle.

  ops (harness/c24.go):
    ints s<hex>      strconv.ParseInt(s, 10, 64) and fastfloat.ParseInt64(s), printed as `<a|-> <b|->`
    bools s<hex>     strconv.ParseBool
    csv … / json …   the same file ops as C23 (schema inference + execution of the real datasource)
  oracle: every value matches the column type the datasource reported (`conforms`), it is the value the row contains,
  and an error is reported only for a file with a row that cannot be represented in the reported schema.
-/
namespace Octo.Drv.C24
open Octo Octo.Codec Octo.Files Octo.Drv.Files

def showOptInt : Option Int → String
  | some i => toString i
  | none => "-"

def model (toks : List String) : String :=
  match toks with
  | ["ints", s] =>
    let b := parseHexBytes (s.drop 1).toString
    showOptInt (strconvInt b) ++ " " ++ showOptInt (fastInt b)
  | ["bools", s] =>
    (match parseBool (parseHexBytes (s.drop 1).toString) with
     | some true => "1" | some false => "0" | none => "-")
  | _ => (modelFiles toks).getD "bad-op"

def judge (toks : List String) (out : List String) : String :=
  if out == ["panic"] || out == ["driver-died"] then "bad panic"
  else
  match toks with
  | ["ints", s] =>
    (match out with
     | [a, b] => if a == b || s.startsWith "s2b" then "ok" else "bad the-two-integer-parsers-disagree"
     | _ => "bad unparsable-impl-output")
  | "json" :: _seed :: n :: rest =>
    (match parseRows n.toNat! rest with
     | some (rows, _) => judgeJson true rows out
     | none => "bad unparsable-op")
  | "proj" :: _mask :: "json" :: _seed :: n :: rest =>
    (match parseRows n.toNat! rest with
     | some (rows, _) => judgeJson true rows out true
     | none => "bad unparsable-op")
  | "proj" :: mask :: "csv" :: rest =>
    (match parseCsvOp rest with
     | some f => judgeCsv true f out (parseMask mask)
     | none => "bad unparsable-op")
  | "csv" :: rest =>
    (match parseCsvOp rest with
     | some f => judgeCsv true f out
     | none => "bad unparsable-op")
  | _ => "ok"

end Octo.Drv.C24
