import Octo.Drv.Codec
import Octo.Spec.NumFuncs
/-!
  C13 driver: what the Lean model prints for one op line (`model`) and the property oracle applied to what the
  implementation printed (`judge`).  Op lines are described in `harness/c13.go`.
  Values use the shared codec except that a time is `U<unix seconds>:<nanoseconds>:<loc>` (= `time.Unix(sec, nsec)`).
-/
namespace Octo.Drv.C13
open Octo Octo.Codec Octo.Num Octo.Coal Octo.Spec13

/-- parse one value; `U<sec>:<nsec>:<loc>` is `time.Unix(sec, nsec)` -/
partial def parseV : List String → Option (Value × List String)
  | [] => none
  | tok :: rest =>
    let body := (tok.drop 1).toString
    match tok.front with
    | 'U' =>
      match body.splitOn ":" with
      | [a, b, c] => some (.time (timeUnix (parseInt! a) (parseInt! b)) c.toNat!, rest)
      | _ => none
    | 'L' => (many body.toNat! rest).map fun (xs, r) => (.list xs, r)
    | 'S' => (many body.toNat! rest).map fun (xs, r) => (.struct xs, r)
    | 'T' => (many body.toNat! rest).map fun (xs, r) => (.tuple xs, r)
    | _ => parseValue (tok :: rest)
where
  many : Nat → List String → Option (List Value × List String)
    | 0, rest => some ([], rest)
    | k + 1, rest => do
      let (v, r) ← parseV rest
      let (vs, r') ← many k r
      pure (v :: vs, r')

partial def encV : Value → String
  | .time ns loc => s!"U{timeToUnix ns}:{timeNsec ns}:{loc}"
  | .list xs => String.intercalate " " (s!"L{xs.length}" :: xs.map encV)
  | .struct xs => String.intercalate " " (s!"S{xs.length}" :: xs.map encV)
  | .tuple xs => String.intercalate " " (s!"T{xs.length}" :: xs.map encV)
  | v => encodeValue v

def showOutcome (asTy : Bool) : Outcome → String
  | .val v => if asTy then s!"ty {v.rank}" else "v " ++ encV v
  | .err => "err"
  | .panic => "panic"
  | .opaque tid => s!"ty {tid}"
  | .illTyped => "ill-typed"

/-- `<declared type> <k> <args…>` -/
def parseCall (toks : List String) : Option (Ty × List Value) := do
  let (ty, r) ← parseTy toks
  match r with
  | k :: r' =>
    let (args, _) ← parseV.many k.toNat! r'
    pure (ty, args)
  | [] => none

/-- `<k> (<source type> <value>)…` -/
partial def parseTyped : Nat → List String → Option (List (Ty × Value))
  | 0, _ => some []
  | k + 1, toks => do
    let (t, r) ← parseTy toks
    let (v, r') ← parseV r
    let rest ← parseTyped k r'
    pure ((t, v) :: rest)

def model (toks : List String) : String :=
  match toks with
  | "fn" :: name :: idx :: rest =>
    (do let (_, args) ← parseCall rest; pure (showOutcome false (callFn name idx.toNat! args))).getD "bad-op"
  | "fnty" :: name :: idx :: rest =>
    (do let (_, args) ← parseCall rest; pure (showOutcome true (callFn name idx.toNat! args))).getD "bad-op"
  | "rt" :: rest =>
    (do let (x, _) ← parseV rest
        match callFn "tfu" 0 [x] with
        | .val t => pure (showOutcome false (callFn "ttu" 0 [t]))
        | o => pure (showOutcome false o)).getD "bad-op"
  | "itos" :: rest =>
    (do let (x, _) ← parseV rest
        match callFn "string" 0 [x] with
        | .val s => pure (showOutcome false (callFn "int" 3 [s]))
        | o => pure (showOutcome false o)).getD "bad-op"
  | "coalesce" :: rest =>
    (do let (target, r) ← parseTy rest
        match r with
        | k :: r' =>
          let args ← parseTyped k.toNat! r'
          pure (showOutcome false (coalesce target args))
        | [] => none).getD "bad-op"
  | "tassert" :: k :: rest =>
    (do let ids := (rest.take k.toNat!).map String.toNat!
        let (v, _) ← parseV (rest.drop k.toNat!)
        pure (showOutcome false (typeAssert ids v))).getD "bad-op"
  | "tcast" :: id :: rest =>
    (do let (v, _) ← parseV rest; pure (showOutcome false (typeCast id.toNat! v))).getD "bad-op"
  | _ => "bad-op"

/-- structural equality of values as printed (the codec is injective on well-formed values) -/
def sameV (a b : Value) : Bool := encV a == encV b

/-- does the implementation's output line meet what the specification expects? -/
def meets (e : Expect) (declared : Ty) (out : List String) : String :=
  match out with
  | ["panic"] => "bad panic"
  | ["err"] =>
    (match e with
     | .error => "ok"
     | .unspecified => "ok"
     | _ => "bad error-where-a-value-is-specified")
  | "v" :: vt =>
    (match parseV vt with
     | none => "bad unparsable-impl-output"
     | some (v, _) =>
       if !conforms declared v then "bad result-not-of-declared-type"
       else match e with
         | .exact w => if sameV v w then "ok" else "bad wrong-result expected " ++ encV w
         | .error => "bad value-where-an-error-is-specified"
         | .someOf tid => if v.rank == tid then "ok" else "bad wrong-TypeID"
         | .unspecified => "ok")
  | ["ty", tid] =>
    -- unmodelled arithmetic: only "no panic, TypeID as declared"
    (match e with
     | .exact w => if w.rank == tid.toNat! then "ok" else "bad wrong-TypeID"
     | .error => "bad value-where-an-error-is-specified"
     | _ => if conformsTid declared tid.toNat! then "ok" else "bad result-not-of-declared-type")
  | _ => "bad unparsable-impl-output"
where
  /-- a TypeID is allowed by a declared (scalar or union-of-scalars) type -/
  conformsTid (t : Ty) (tid : Nat) : Bool :=
    match t with
    | .any => true
    | .union alts => alts.any fun a => a.id == tid
    | t => t.id == tid

def judge (toks : List String) (out : List String) : String :=
  match toks with
  | "fn" :: name :: idx :: rest
  | "fnty" :: name :: idx :: rest =>
    (match parseCall rest with
     | some (declared, args) => meets (specFn name idx.toNat! args) declared out
     | none => "bad unparsable-op")
  | "rt" :: rest =>
    -- time_to_unix(time_from_unix(x)) = x
    (match parseV rest with
     | some (x, _) => meets (.exact x) .int out
     | none => "bad unparsable-op")
  | "itos" :: rest =>
    -- int(string(x)) = x
    (match parseV rest with
     | some (x, _) => meets (.exact x) (.union [.null, .int]) out
     | none => "bad unparsable-op")
  | "coalesce" :: rest =>
    (match (do let (target, r) ← parseTy rest
               match r with
               | k :: r' => (parseTyped k.toNat! r').map fun args => (target, args)
               | [] => none) with
     | some (target, args) => meets (.exact (coalesceSpec target args)) target out
     | none => "bad unparsable-op")
  | "tassert" :: k :: rest =>
    (match parseV (rest.drop k.toNat!) with
     | some (v, _) =>
       let ids := (rest.take k.toNat!).map String.toNat!
       meets (if ids.contains v.rank then .exact v else .error) .any out
     | none => "bad unparsable-op")
  | "tcast" :: id :: rest =>
    (match parseV rest with
     | some (v, _) => meets (.exact (if v.rank == id.toNat! then v else .null)) .any out
     | none => "bad unparsable-op")
  | _ => "ok"

end Octo.Drv.C13
