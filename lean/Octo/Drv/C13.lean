import Octo.Drv.Codec
import Octo.Spec.NumFuncs
import Octo.Model.Overload
/-!
  C13 driver: what the Lean model prints for one op line (`model`) and the property oracle applied to what the
  implementation printed (`judge`).  Op lines are described in `harness/c13.go`.
  Values use the shared codec except that a time is `U<unix seconds>:<nanoseconds>:<loc>` (= `time.Unix(sec, nsec)`).
-/
namespace Octo.Drv.C13
open Octo Octo.Codec Octo.Num Octo.Coal Octo.Spec13 Octo.Ovl

/-- parse one value; `U<sec>:<nsec>:<loc>` is `time.Unix(sec, nsec)` -/
partial def parseV : List String → Option (Value × List String)
  | [] => none
  | tok :: rest =>
    let body := (tok.drop 1).toString
    match tok.front with
    | 'U' =>
      match body.splitOn ":" with
      | [a, b, c] => some (.time (timeUnix (parseInt! a) (parseInt! b)) c.toNat!, rest)
      | _ => none
    | 'L' => (many body.toNat! rest).map fun (xs, r) => (.list xs, r)
    | 'S' => (many body.toNat! rest).map fun (xs, r) => (.struct xs, r)
    | 'T' => (many body.toNat! rest).map fun (xs, r) => (.tuple xs, r)
    | _ => parseValue (tok :: rest)
where
  many : Nat → List String → Option (List Value × List String)
    | 0, rest => some ([], rest)
    | k + 1, rest => do
      let (v, r) ← parseV rest
      let (vs, r') ← many k r
      pure (v :: vs, r')

partial def encV : Value → String
  | .time ns loc => s!"U{timeToUnix ns}:{timeNsec ns}:{loc}"
  | .list xs => String.intercalate " " (s!"L{xs.length}" :: xs.map encV)
  | .struct xs => String.intercalate " " (s!"S{xs.length}" :: xs.map encV)
  | .tuple xs => String.intercalate " " (s!"T{xs.length}" :: xs.map encV)
  | v => encodeValue v

def showOutcome (asTy : Bool) : Outcome → String
  | .val v => if asTy then s!"ty {v.rank}" else "v " ++ encV v
  | .err => "err"
  | .panic => "panic"
  | .opaque tid => s!"ty {tid}"
  | .illTyped => "ill-typed"

/-- `<declared type> <k> <args…>` -/
def parseCall (toks : List String) : Option (Ty × List Value) := do
  let (ty, r) ← parseTy toks
  match r with
  | k :: r' =>
    let (args, _) ← parseV.many k.toNat! r'
    pure (ty, args)
  | [] => none

/-- `<k> (<source type> <value>)…` -/
partial def parseTyped : Nat → List String → Option (List (Ty × Value))
  | 0, _ => some []
  | k + 1, toks => do
    let (t, r) ← parseTy toks
    let (v, r') ← parseV r
    let rest ← parseTyped k r'
    pure ((t, v) :: rest)

def parseTys : Nat → List String → Option (List Ty × List String)
  | 0, r => some ([], r)
  | k + 1, toks => do
    let (t, r) ← parseTy toks
    let (ts, r') ← parseTys k r
    pure (t :: ts, r')

def showTable (ds : List Descr) : String :=
  String.intercalate " ; " (ds.map fun d =>
    let s := if d.strict then "s" else "n"
    match d.typeFn with
    | some _ => "F " ++ s
    | none => String.intercalate " " ((s!"P{d.args.length}" :: d.args.map encodeTy) ++ [">", encodeTy d.out, s]))

def showResolved (argTys : List Ty) : Option Resolved → String
  | none => "panic"
  | some r =>
    let parts := r.asserts.map fun ts => String.intercalate " " (s!"a{ts.length}" :: ts.map encodeTy)
    let tail := if r.asserts.all List.isEmpty then ["T " ++ encodeTy (callType r argTys)] else []
    String.intercalate " " (toString r.idx :: parts ++ tail)

def evalLine (asTy : Bool) (name : String) (tvs : List (Ty × Value)) : String :=
  let ts := tvs.map (·.1)
  match resolve name ts with
  | none => "panic"
  | some r => showOutcome asTy (evalCall name r ts (tvs.map (·.2)))

def model (toks : List String) : String :=
  match toks with
  | "fn" :: name :: idx :: rest =>
    (do let (_, args) ← parseCall rest; pure (showOutcome false (callFn name idx.toNat! args))).getD "bad-op"
  | "fnty" :: name :: idx :: rest =>
    (do let (_, args) ← parseCall rest; pure (showOutcome true (callFn name idx.toNat! args))).getD "bad-op"
  | "rt" :: rest =>
    (do let (x, _) ← parseV rest
        match callFn "tfu" 0 [x] with
        | .val t => pure (showOutcome false (callFn "ttu" 0 [t]))
        | o => pure (showOutcome false o)).getD "bad-op"
  | "rtf" :: rest =>
    -- Float overload on x + q/4 (exactly representable): Modf splits it into x' and a fraction of the same sign,
    -- time.Unix(sec, nsec) normalises, time_to_unix floors: the result is x
    (do let (x, _) ← parseV rest; pure (showOutcome false (.val x))).getD "bad-op"
  | "itos" :: rest =>
    (do let (x, _) ← parseV rest
        match callFn "string" 0 [x] with
        | .val s => pure (showOutcome false (callFn "int" 3 [s]))
        | o => pure (showOutcome false o)).getD "bad-op"
  | "coalesce" :: rest =>
    (do let (target, r) ← parseTy rest
        match r with
        | k :: r' =>
          let args ← parseTyped k.toNat! r'
          pure (showOutcome false (coalesce target args))
        | [] => none).getD "bad-op"
  | "tassert" :: k :: rest =>
    (do let ids := (rest.take k.toNat!).map String.toNat!
        let (v, _) ← parseV (rest.drop k.toNat!)
        pure (showOutcome false (typeAssert ids v))).getD "bad-op"
  | "tcast" :: id :: rest =>
    (do let (v, _) ← parseV rest; pure (showOutcome false (typeCast id.toNat! v))).getD "bad-op"
  | ["table", name] => showTable (descrs name)
  | "resolve" :: name :: k :: rest =>
    (do let (ts, _) ← parseTys k.toNat! rest
        pure (showResolved ts (resolve name ts))).getD "bad-op"
  | "evalfn" :: name :: k :: rest =>
    (do let tvs ← parseTyped k.toNat! rest
        pure (evalLine false name tvs)).getD "bad-op"
  | "evalfnty" :: name :: k :: rest =>
    (do let tvs ← parseTyped k.toNat! rest
        pure (evalLine true name tvs)).getD "bad-op"
  | _ => "bad-op"

/-- structural equality of values as printed (the codec is injective on well-formed values) -/
def sameV (a b : Value) : Bool := encV a == encV b

/-- does the implementation's output line meet what the specification expects? -/
def meets (e : Expect) (declared : Ty) (out : List String) : String :=
  match out with
  | ["panic"] => "bad panic"
  | ["err"] =>
    (match e with
     | .error => "ok"
     | .unspecified => "ok"
     | _ => "bad error-where-a-value-is-specified")
  | "v" :: vt =>
    (match parseV vt with
     | none => "bad unparsable-impl-output"
     | some (v, _) =>
       if !conforms declared v then "bad result-not-of-declared-type"
       else match e with
         | .exact w => if sameV v w then "ok" else "bad wrong-result expected " ++ encV w
         | .error => "bad value-where-an-error-is-specified"
         | .someOf tid => if v.rank == tid then "ok" else "bad wrong-TypeID"
         | .unspecified => "ok")
  | ["ty", tid] =>
    -- unmodelled arithmetic: only "no panic, TypeID as declared"
    (match e with
     | .exact w => if w.rank == tid.toNat! then "ok" else "bad wrong-TypeID"
     | .error => "bad value-where-an-error-is-specified"
     | _ => if conformsTid declared tid.toNat! then "ok" else "bad result-not-of-declared-type")
  | _ => "bad unparsable-impl-output"
where
  /-- a TypeID is allowed by a declared (scalar or union-of-scalars) type -/
  conformsTid (t : Ty) (tid : Nat) : Bool :=
    match t with
    | .any => true
    | .union alts => alts.any fun a => a.id == tid
    | t => t.id == tid

def judge (toks : List String) (out : List String) : String :=
  match toks with
  | "fn" :: name :: idx :: rest
  | "fnty" :: name :: idx :: rest =>
    (match parseCall rest with
     | some (declared, args) => meets (specFn name idx.toNat! args) declared out
     | none => "bad unparsable-op")
  | "rt" :: rest =>
    -- time_to_unix(time_from_unix(x)) = x
    (match parseV rest with
     | some (x, _) => meets (.exact x) .int out
     | none => "bad unparsable-op")
  | "rtf" :: rest =>
    -- time_to_unix(time_from_unix(x + q/4)) = x: the unix timestamp of the second the instant lies in
    (match parseV rest with
     | some (x, _) => meets (.exact x) .int out
     | none => "bad unparsable-op")
  | "itos" :: rest =>
    -- int(string(x)) = x
    (match parseV rest with
     | some (x, _) => meets (.exact x) (.union [.null, .int]) out
     | none => "bad unparsable-op")
  | "coalesce" :: rest =>
    (match (do let (target, r) ← parseTy rest
               match r with
               | k :: r' => (parseTyped k.toNat! r').map fun args => (target, args)
               | [] => none) with
     | some (target, args) => meets (.exact (coalesceSpec target args)) target out
     | none => "bad unparsable-op")
  | "tassert" :: k :: rest =>
    (match parseV (rest.drop k.toNat!) with
     | some (v, _) =>
       let ids := (rest.take k.toNat!).map String.toNat!
       meets (if ids.contains v.rank then .exact v else .error) .any out
     | none => "bad unparsable-op")
  | "tcast" :: id :: rest =>
    (match parseV rest with
     | some (v, _) => meets (.exact (if v.rank == id.toNat! then v else .null)) .any out
     | none => "bad unparsable-op")
  | "resolve" :: name :: k :: rest =>
    (match parseTys k.toNat! rest with
     | some (ts, _) =>
       -- every argument carries at most one run-time type assertion …
       if out.any (fun t => t.startsWith "a" && t != "a0" && t != "a1" && (t.drop 1).toString.all Char.isDigit) then
         "bad argument-wrapped-in-several-type-assertions"
       -- … and the overload is the first that certainly fits, else the first that may fit
       else if String.intercalate " " out == showResolved ts (resolve name ts) then "ok"
       else "bad wrong-overload expected " ++ showResolved ts (resolve name ts)
     | none => "bad unparsable-op")
  | "evalfn" :: name :: k :: rest
  | "evalfnty" :: name :: k :: rest =>
    (match parseTyped k.toNat! rest with
     | some tvs =>
       let ts := tvs.map (·.1)
       let vals := tvs.map (·.2)
       match resolve name ts with
       | none => if out == ["panic"] then "ok" else "bad resolved-an-unknown-function"
       | some r =>
         let passes := (r.asserts.zip vals).all fun av => av.1.all fun t => (targetIds t).contains av.2.rank
         let e : Expect :=
           if !passes then .error
           else if r.descr.strict && (ts.zip vals).any (fun tv => nullable tv.1 && tv.2.rank == 0) then .exact .null
           else specFn name r.idx vals
         meets e (if r.asserts.all List.isEmpty then callType r ts else .any) out
     | none => "bad unparsable-op")
  | _ => "ok"

end Octo.Drv.C13
