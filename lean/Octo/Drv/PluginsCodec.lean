import Octo.Drv.Codec
import Octo.Model.PluginsJson
/-!
  Op-line sections shared by the C27 and C28 drivers (see harness/util_plugins.go):

    VT <k>  <orighex>:<rank|x>:<pre>:<canonhex> …     CT <k> <texthex>:<bits> …     FS <k> d:<path> | f:<path>:<content> …
    CFG <k> <db>:<repo>:<plugin>:<cidx|-> …           JOB <repo> <plugin> <cidx|-> <manifest|-> <archive|-> E <k> … X <k> …
    AT <step> <tear|->

  and the concrete instance of `Sem` the driver computes with: the semver order and the constraint results are
  TABLES taken from the op line (filled in by the generator with the real library), never re-implemented here.
-/
namespace Octo.Drv.Plugins
open Octo Octo.Fs Octo.Plugins
open Octo.Codec (parseHexBytes hexOfBytes)

def nameOfHex (h : String) : FName := (parseHexBytes h).map (fun b => Char.ofNat b.toNat)
def hexOfName (n : FName) : String := hexOfBytes (n.map (fun c => UInt8.ofNat c.toNat))

def splitSlash (n : FName) : Path :=
  let rec go (cur : FName) : FName → Path
    | [] => [cur.reverse]
    | c :: cs => if c = '/' then cur.reverse :: go [] cs else go (c :: cur) cs
  go [] n

def pathOfHex (h : String) : Path := splitSlash (nameOfHex h)
def hexOfPath (p : Path) : String := hexOfName (List.intercalate ['/'] p)

structure Ver where
  orig : FName
  rank : Nat
  pre : Bool
  canon : FName
  deriving Repr

structure Con where
  text : FName
  sat : List FName     -- origs of the versions that pass

/-- a version-table row: `none` rank = the string does not parse -/
structure VRow where
  orig : FName
  rank : Option Nat
  pre : Bool
  canon : FName

def takeN {α} (f : String → Option α) : Nat → List String → Option (List α × List String)
  | 0, rest => some ([], rest)
  | k + 1, t :: rest => do
    let x ← f t
    let (xs, r) ← takeN f k rest
    pure (x :: xs, r)
  | _ + 1, [] => none

def section_ {α} (tag : String) (f : String → Option α) : List String → Option (List α × List String)
  | t :: k :: rest => if t == tag then takeN f k.toNat! rest else none
  | _ => none

def parseVRow (t : String) : Option VRow :=
  match t.splitOn ":" with
  | [o, r, p, c] => some { orig := nameOfHex o, rank := if r == "x" then none else some r.toNat!, pre := p == "1", canon := nameOfHex c }
  | _ => none

def parseCon (vt : List VRow) (t : String) : Option Con :=
  match t.splitOn ":" with
  | [x, bits] => some { text := nameOfHex x,
                        sat := ((vt.zip bits.toList).filter (fun p => p.2 == '1')).map (fun p => p.1.orig) }
  | _ => none

def parseEntry (t : String) : Option (Path × Node) :=
  match t.splitOn ":" with
  | ["d", p] => some (pathOfHex p, .dir)
  | ["f", p, c] => some (pathOfHex p, .file (parseHexBytes c))
  | _ => none

def parseDb (ct : List Con) (t : String) : Option (Db Con) :=
  match t.splitOn ":" with
  | [d, r, n, c] => some { name := nameOfHex d, type := ⟨nameOfHex n, nameOfHex r⟩,
                           constraint := if c == "-" then none else ct[c.toNat!]? }
  | _ => none

/-- the op line's tree lists parents before children, later entries never shadow earlier ones -/
def fsOfEntries (es : List (Path × Node)) : Fs := es

def sem (vt : List VRow) (ct : List Con) : Sem Ver Con where
  parse x := match vt.find? (fun r => r.orig == x) with
    | some r => r.rank.map (fun k => { orig := r.orig, rank := k, pre := r.pre, canon := r.canon })
    | none => none
  toStr v := v.canon
  gt a b := decide (a.rank > b.rank)
  check c v := c.sat.contains v.orig
  pre v := v.pre
  star := match ct with
    | c :: _ => c
    | [] => { text := ['*'], sat := [] }
  handlersOk c := (Json.decodeHandlers c).isSome
  repoEntryOk c := (Json.decodeRepoEntry c).isSome

structure Job where
  ref : Ref
  constraint : Option Con
  manifest : List FName          -- origs
  archive : Bytes
  entries : List (Path × Bytes)
  exts : List FName

def parseArchEntry (t : String) : Option (Path × Bytes) :=
  match t.splitOn ":" with
  | [p, c] => some (pathOfHex p, parseHexBytes c)
  | _ => none

def parseJob (vt : List VRow) (ct : List Con) : List String → Option (Job × List String)
  | "JOB" :: r :: n :: c :: m :: a :: rest => do
    let (es, rest) ← section_ "E" parseArchEntry rest
    let (xs, rest) ← section_ "X" (fun t => some (nameOfHex t)) rest
    let man := if m == "-" then [] else (m.splitOn ",").filterMap (fun i => (vt[i.toNat!]?).map (·.orig))
    pure ({ ref := ⟨nameOfHex n, nameOfHex r⟩, constraint := if c == "-" then none else ct[c.toNat!]?,
            manifest := man, archive := if a == "-" then [] else parseHexBytes a, entries := es, exts := xs }, rest)
  | _ => none

def parseAt : List String → Option (Nat × Option Nat)
  | ["AT", s, t] =>
    -- `u<n>`: the archive is served truncated to n bytes and Install runs until Unarchive fails; for the visible tree
    -- that is a crash at the step (the partial unpacking happens inside the staging directory)
    some (s.toNat!, if t == "-" || t.startsWith "u" then none else some t.toNat!)
  | _ => none

/-! ### printing -/

def encEntry : Path × Node → String
  | (p, .dir) => "d:" ++ hexOfPath p
  | (p, .file c) => "f:" ++ hexOfPath p ++ ":" ++ hexOfBytes c

def encTree (fs : Fs) : String :=
  let es := dump fs
  s!"T {es.length}" ++ String.join (es.map (fun e => " " ++ encEntry e))

def errClass : Err → String
  | .listPlugins => "err:list"
  | .listPlugin => "err:list"
  | .versionParse => "err:version"
  | .notInstalled db => "err:notinstalled:" ++ hexOfName db
  | .handlers => "err:handlers"
  | .repositories => "err:repositories"

def encStartup : Except Err (List (Db Con × Ver)) → String
  | .error e => errClass e
  | .ok res => "ok" ++ String.join (res.map (fun (p : Db Con × Ver) => " " ++ hexOfName p.1.name ++ "=" ++ hexOfName p.2.orig))

end Octo.Drv.Plugins
