-- This module serves as the root of the `Octo` library.
-- Import modules here that should be built as part of the library.
import Octo.Basic
