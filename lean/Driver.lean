import Octo.Drv.C09
/-!
  octodrv — line-protocol driver.
    octodrv model <Cnn>   : stdin = op lines, stdout = what the Lean *model* computes
    octodrv judge <Cnn>   : stdin = "<op line>\t<implementation output>", stdout = ok | bad <why> | known <id>
-/
open Octo

def modelFor (p : String) : Option (List String → String) :=
  match p with
  | "C09" => some Drv.C09.model
  | _ => none

def judgeFor (p : String) : Option (List String → List String → String) :=
  match p with
  | "C09" => some Drv.C09.judge
  | _ => none

partial def loop (h : IO.FS.Stream) (out : IO.FS.Stream) (f : String → String) : IO Unit := do
  let line ← h.getLine
  if line.isEmpty then return ()
  out.putStrLn (f line)
  loop h out f

def main (args : List String) : IO UInt32 := do
  let stdin ← IO.getStdin
  let stdout ← IO.getStdout
  match args with
  | ["model", p] =>
    match modelFor p with
    | some f => loop stdin stdout (fun l => f (Codec.tokens l)); stdout.flush; return 0
    | none => IO.eprintln s!"unknown property {p}"; return 2
  | ["judge", p] =>
    match judgeFor p with
    | some f =>
      loop stdin stdout (fun l =>
        match l.splitOn "\t" with
        | [a, b] => f (Codec.tokens a) (Codec.tokens b)
        | _ => "bad malformed-judge-line")
      stdout.flush; return 0
    | none => IO.eprintln s!"unknown property {p}"; return 2
  | _ => IO.eprintln "usage: octodrv (model|judge) <Cnn>"; return 2
