import Octo.Lemmas.TypingTy
namespace Octo.Tc
open Octo Octo.Ty

/-- NULL and the six scalar types -/
def isLeaf (t : Ty) : Bool := decide (t.id ≤ 6)

/-- the targets of run-time assertions: a leaf type or a union of leaf types (`Int`, `NULL | Int`, `NULL | Boolean`, …) -/
def flatTarget : Ty → Bool
  | .union alts => alts.all isLeaf
  | t => isLeaf t

theorem leaf_noRec {t : Ty} (h : isLeaf t = true) : noRec t = true := by
  cases t <;> simp [isLeaf, Ty.id] at h <;> simp [noRec]

theorem leaf_plain {t : Ty} (h : isLeaf t = true) : t.isUnion = false ∧ t.isAny = false := by
  cases t <;> simp [isLeaf, Ty.id] at h <;> simp [isUnion, isAny]

theorem leaf_eq_of_id {p s : Ty} (hs : isLeaf s = true) (h : p.id = s.id) : p = s := by
  cases s <;> simp [isLeaf, Ty.id] at hs <;> cases p <;> simp [Ty.id] at h <;> rfl

theorem rank_of_conforms_plain {a : Ty} {v : Value} (hu : a.isUnion = false) (ha : a.isAny = false)
    (h : conforms a v = true) : v.rank = a.id := by
  cases a <;> simp [isUnion] at hu <;> simp [isAny] at ha <;> cases v <;> simp [conforms] at h <;> rfl

theorem prims_flat {t : Ty} (h : flatTarget t = true) : ∀ p ∈ prims t, isLeaf p = true := by
  cases t <;> simp only [flatTarget] at h
  case union alts =>
    intro p hp
    simp only [prims] at hp
    induction alts with
    | nil => simp [primsList] at hp
    | cons a as ih =>
      simp only [List.all_cons, Bool.and_eq_true] at h
      simp only [primsList, List.mem_append] at hp
      rcases hp with hp | hp
      · have := leaf_plain h.1
        cases a <;> simp [isUnion] at this <;> simp [prims] at hp <;> (subst hp; exact h.1)
      · exact ih h.2 hp
  all_goals (intro p hp; simp [prims] at hp; subst hp; exact h)

/-- something plain that `Is` a flat target is one of its leaves -/
theorem leaf_of_is_flat {p target : Ty} (hp : p.isUnion = false) (ft : flatTarget target = true)
    (h : p.is target = .is) : isLeaf p = true := by
  by_cases hu : target.isUnion = true
  · obtain ⟨alts, rfl⟩ := eq_union_of_isUnion hu
    simp only [flatTarget, List.all_eq_true] at ft
    obtain ⟨t, ht, hpt⟩ := (is_union_r p alts hp).mp h
    have hl := ft t ht
    have ⟨tu, ta⟩ := leaf_plain hl
    rcases is_plain_inv hp tu ta hpt with h' | h' | h' | h' | h'
    · rcases h'.2 with h'' | ⟨_, h''⟩ <;> (subst h''; simp [isLeaf, Ty.id] at hl)
    · obtain ⟨_, _, _, h'', _⟩ := h'; subst h''; simp [isLeaf, Ty.id] at hl
    · obtain ⟨_, _, _, _, _, h'', _⟩ := h'; subst h''; simp [isLeaf, Ty.id] at hl
    · obtain ⟨_, _, _, h'', _⟩ := h'; subst h''; simp [isLeaf, Ty.id] at hl
    · rw [h'.2]; exact hl
  · have hl : isLeaf target = true := by
      cases target <;> simp [isUnion] at hu <;> simpa [flatTarget] using ft
    have ⟨tu, ta⟩ := leaf_plain hl
    rcases is_plain_inv hp tu ta h with h' | h' | h' | h' | h'
    · rcases h'.2 with h'' | ⟨_, h''⟩ <;> (subst h''; simp [isLeaf, Ty.id] at hl)
    · obtain ⟨_, _, _, h'', _⟩ := h'; subst h''; simp [isLeaf, Ty.id] at hl
    · obtain ⟨_, _, _, _, _, h'', _⟩ := h'; subst h''; simp [isLeaf, Ty.id] at hl
    · obtain ⟨_, _, _, h'', _⟩ := h'; subst h''; simp [isLeaf, Ty.id] at hl
    · rw [h'.2]; exact hl

theorem typeSum_upper_noRec {o p s : Ty} (hs : typeSum o p = some s) (no : noRec o = true) (np : noRec p = true) :
    o.is s = .is ∧ p.is s = .is ∧ noRec s = true := by
  have ⟨hok, ns⟩ := recFree_typeSum o p s hs no np
  have ⟨h1, h2⟩ := sum_upper_F (sumFuel o p) o p s hs hok
  exact ⟨h1, h2, ns⟩

/-- one loop of `TypeIntersection` when every selected summand is struct/tuple free: the previous accumulator and every
    selected element are below the result -/
theorem interLoop_upper (target : Ty) :
    ∀ (ps : List Ty) (out res : Option Ty),
      (∀ p ∈ ps, p.is target = .is → noRec p = true) →
      (∀ o, out = some o → noRec o = true) →
      interLoop target out ps = some res →
      (∀ r, res = some r → noRec r = true) ∧
      (∀ o, out = some o → ∃ r, res = some r ∧ o.is r = .is) ∧
      (∀ p ∈ ps, p.is target = .is → ∃ r, res = some r ∧ p.is r = .is)
  | [], out, res, _, ho, h => by
    simp only [interLoop, Option.some.injEq] at h; subst h
    exact ⟨ho, fun o h => ⟨o, h, Ty.is_refl o⟩, fun p hp => by cases hp⟩
  | p :: ps, out, res, hp, ho, h => by
    simp only [interLoop] at h
    have hps : ∀ q ∈ ps, q.is target = .is → noRec q = true := fun q hq => hp q (by simp [hq])
    split at h
    · rename_i hsel
      have np := hp p (by simp) hsel
      cases out with
      | none =>
        simp only at h
        have ⟨r1, r2, r3⟩ := interLoop_upper target ps (some p) res hps (by intro o ho'; cases ho'; exact np) h
        refine ⟨r1, fun o ho' => (by cases ho'), ?_⟩
        intro q hq hqs
        simp only [List.mem_cons] at hq
        rcases hq with rfl | hq
        · exact r2 q rfl
        · exact r3 q hq hqs
      | some o =>
        simp only at h
        cases hs : typeSum o p with
        | none => simp [hs] at h
        | some s =>
          simp only [hs] at h
          have ⟨u1, u2, ns⟩ := typeSum_upper_noRec hs (ho o rfl) np
          have ⟨r1, r2, r3⟩ := interLoop_upper target ps (some s) res hps (by intro o' ho'; cases ho'; exact ns) h
          obtain ⟨r, hr, hsr⟩ := r2 s rfl
          refine ⟨r1, ?_, ?_⟩
          · intro o' ho'; cases ho'; exact ⟨r, hr, Ty.is_trans u1 hsr⟩
          · intro q hq hqs
            simp only [List.mem_cons] at hq
            rcases hq with rfl | hq
            · exact ⟨r, hr, Ty.is_trans u2 hsr⟩
            · exact r3 q hq hqs
    · have ⟨r1, r2, r3⟩ := interLoop_upper target ps out res hps ho h
      refine ⟨r1, r2, ?_⟩
      intro q hq hqs
      simp only [List.mem_cons] at hq
      rcases hq with rfl | hq
      · rename_i hsel; exact absurd hqs hsel
      · exact r3 q hq hqs

end Octo.Tc
