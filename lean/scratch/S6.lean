import Octo.Lemmas.TypingSound
namespace Octo.Tc
open Octo Octo.Ty

theorem evalArgs_error (S : Sig) (Γ : Ctx) (ρ : List (List Value)) : ∀ (args : List PExpr) (r : Res),
    evalArgs S Γ ρ args = .error r → ∀ v, r ≠ .val v
  | [], r, h, _ => by simp [evalArgs] at h
  | a :: as, r, h, v => by
    simp only [evalArgs] at h
    cases ha : eval S Γ ρ a with
    | val w =>
      simp only [ha] at h
      cases hr : evalArgs S Γ ρ as with
      | error r' =>
        simp only [hr, Except.error.injEq] at h; subst h
        exact evalArgs_error S Γ ρ as r' hr v
      | ok ws => simp [hr] at h
    | err => simp only [ha, Except.error.injEq] at h; subst h; simp
    | panic => simp only [ha, Except.error.injEq] at h; subst h; simp
    | unmodelled => simp only [ha, Except.error.injEq] at h; subst h; simp

/-- the tail of `FunctionExpression.Typecheck` + `FunctionCall.Evaluate`: given sound arguments and a body whose results
    match `o` after the NULL check, the call is sound -/
theorem finish_sound {S : Sig} {Γ : Ctx} {name : Name} {d : Descr} {i : Nat} {o : Ty} {args : List PExpr} {p : PExpr}
    (hargs : ∀ a ∈ args, Sound S Γ a) (wo : wf o = true)
    (hbody : ∀ vs v, conformsZip (args.map PExpr.ty) vs = true → (d.strict = true → nullHit args vs = false) →
      S.body name i vs = .val v → conforms o v = true)
    (h : finishCall name d i o args = .ok p) : Sound S Γ p := by
  unfold finishCall at h
  cases hst : d.strict with
  | true =>
    simp only [hst, if_true] at h
    cases hl : liftNull o args with
    | error e => simp [hl] at h
    | ok t =>
      simp only [hl, Except.ok.injEq] at h
      subst h
      have ⟨wt, mono, hnull⟩ := liftNull_spec args o t hl wo
      refine ⟨wt, ?_⟩
      intro hp ρ v he hv
      simp only [coalescePlain] at hp
      simp only [eval] at hv
      cases hea : evalArgs S Γ ρ args with
      | error r => simp only [hea] at hv; exact absurd hv (evalArgs_error S Γ ρ args r hea v)
      | ok vs =>
        simp only [hea, Bool.true_and] at hv
        have hc := evalArgs_conforms S Γ ρ he args vs hargs hp hea
        by_cases hh : nullHit args vs = true
        · simp only [hh, if_true, Res.val.injEq] at hv
          subst hv
          exact hnull (nullHit_exists args vs hh)
        · simp only [hh, Bool.false_eq_true, if_false] at hv
          exact mono v (hbody vs v hc (fun _ => by simpa using hh) hv)
  | false =>
    simp only [hst, Bool.false_eq_true, if_false, Except.ok.injEq] at h
    subst h
    refine ⟨wo, ?_⟩
    intro hp ρ v he hv
    simp only [coalescePlain] at hp
    simp only [eval] at hv
    cases hea : evalArgs S Γ ρ args with
    | error r => simp only [hea] at hv; exact absurd hv (evalArgs_error S Γ ρ args r hea v)
    | ok vs =>
      simp only [hea, Bool.false_and, Bool.false_eq_true, if_false] at hv
      have hc := evalArgs_conforms S Γ ρ he args vs hargs hp hea
      exact hbody vs v hc (fun h' => by rw [hst] at h'; cases h') hv

/-- **function calls**: overload resolution (exact pass, maybe pass with inserted assertions), nullable lifting, NULL check
    and body, for any table that satisfies `SigOk` -/
theorem call_sound {S : Sig} {Γ : Ctx} (hS : SigOk S) (name : Name) (args : List PExpr) (p : PExpr)
    (hargs : ∀ a ∈ args, Sound S Γ a) (h : typecheckCall S name args = .ok p) : Sound S Γ p := by
  unfold typecheckCall at h
  dsimp only at h
  have hw : ∀ a ∈ args, wf a.ty = true := fun a ha => (hargs a ha).1
  cases he : exactPass (args.map PExpr.ty) ((args.map PExpr.ty).map nonNullable) (zipIdx (S.descrs name)) none with
  | error e => rw [he] at h; cases h
  | ok r =>
    simp only [he] at h
    cases r with
    | some r =>
      obtain ⟨d, i, o⟩ := r
      simp only at h
      rcases exactPass_spec args _ none (d, i, o) he with hr | ⟨hmem, hpick⟩
      · cases hr
      · have ⟨_, hget⟩ := zipIdx_mem _ 0 d i hmem
        simp only [Nat.sub_zero] at hget
        have hd : d ∈ S.descrs name := List.mem_of_getElem? hget
        have hsound := hS.sound name i d hget
        simp only at hpick
        cases htf : d.typeFn with
        | some f =>
          simp only [htf] at hpick
          have wo : wf o = true := hS.tyfn_wf name d f hd htf _ o (by
            intro t ht
            simp only [List.mem_map] at ht
            obtain ⟨a, ha, rfl⟩ := ht
            unfold viewTy; split
            · exact nonNullable_wf (hw a ha)
            · exact hw a ha) hpick
          refine finish_sound hargs wo ?_ h
          intro vs v hc hn hb
          unfold DescrSound at hsound
          simp only [htf] at hsound
          exact hsound _ o vs v hpick (fitAll_conforms d.strict _ args vs (fitAll_view d.strict args hw) hw hc hn) hb
        | none =>
          simp only [htf] at hpick
          obtain ⟨hlen, hfit, rfl⟩ := hpick
          refine finish_sound hargs (hS.out_wf name d hd) ?_ h
          intro vs v hc hn hb
          unfold DescrSound at hsound
          simp only [htf] at hsound
          exact hsound vs v (fitAll_conforms d.strict _ args vs (fitAll_of_fitsAll d.strict d.args args hw hlen hfit) hw hc hn) hb
    | none =>
      simp only at h
      cases hm : maybePass args (args.map PExpr.ty) ((args.map PExpr.ty).map nonNullable) (zipIdx (S.descrs name)) with
      | error e => rw [hm] at h; cases h
      | ok r =>
        simp only [hm] at h
        cases r with
        | none => simp at h
        | some r =>
          obtain ⟨d, i, args'⟩ := r
          simp only at h
          have ⟨hmem, htf, hlen, hni, hwrap⟩ := maybePass_spec args _ d i args' hm
          have ⟨_, hget⟩ := zipIdx_mem _ 0 d i hmem
          simp only [Nat.sub_zero] at hget
          have hd : d ∈ S.descrs name := List.mem_of_getElem? hget
          have hsound := hS.sound name i d hget
          have ⟨hargs', hfit⟩ := wrapArgs_spec (S := S) (Γ := Γ) d.strict d.args args args' hargs (hS.params name d hd) hlen hni hwrap
          refine finish_sound hargs' (hS.out_wf name d hd) ?_ h
          intro vs v hc hn hb
          unfold DescrSound at hsound
          simp only [htf] at hsound
          exact hsound vs v (fitAll_conforms d.strict _ args' vs hfit (fun a ha => (hargs' a ha).1) hc hn) hb

end Octo.Tc
