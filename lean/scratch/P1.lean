import Octo.Lemmas.TypingTableOk
namespace Octo.C08
open Octo Octo.Ty Octo.Tc Octo.Gen.FuncTable

theorem table_out_wf : ∀ e ∈ table, wf e.out = true := by decide
theorem table_params : ∀ e ∈ table, e.args.all paramOk = true := by decide
theorem table_kinds_within : ∀ e ∈ table, e.hasTypeFn = false → e.kinds.all (kindOk e.args e.out) = true := by decide
theorem table_tyfn_kinds : ∀ e ∈ table, e.hasTypeFn = true →
    (match tyFnOf e.name e.idx with
      | some f => e.kinds.all (tyFnKindOk f)
      | none => false) = true := by decide
theorem table_indices : ∀ e ∈ table, (table.filter (fun e' => e'.name = e.name)).map (·.idx) =
    List.range (table.filter (fun e' => e'.name = e.name)).length := by decide

def probeOk (p : Probe) : Bool :=
  match tyFnOf p.name p.idx with
  | some f => (match applyTyFn f p.args, p.result with
    | some (some o), some r => o.equals r && r.equals o
    | some none, none => true
    | _, _ => false)
  | none => false

theorem typeFn_probes_agree : ∀ p ∈ probes, probeOk p = true := by decide
end Octo.C08
