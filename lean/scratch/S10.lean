import Octo.Lemmas.TypingSound2
namespace Octo.Tc
open Octo Octo.Ty

/-! ### COALESCE over struct-, tuple- and `Any`-free argument types -/

theorem plainDataList_iff : ∀ (l : List Ty), plainDataList l = true ↔ ∀ a ∈ l, plainData a = true
  | [] => by simp [plainDataList]
  | a :: as => by simp [plainDataList, plainDataList_iff as]

theorem plainData_noRec_aux : ∀ (n : Nat) (t : Ty), t.size ≤ n → plainData t = true → noRec t = true := by
  intro n
  induction n with
  | zero => intro t h; have := size_pos t; omega
  | succ n ih =>
    intro t hsz hp
    cases t with
    | list e => simp only [plainData] at hp; simp only [noRec]; exact ih e (by simp only [Ty.size] at hsz; omega) hp
    | union alts =>
      simp only [plainData] at hp
      simp only [noRec]
      rw [noRecList_iff]
      intro a ha
      have := size_le_sizeList ha
      exact ih a (by simp only [Ty.size] at hsz; omega) ((plainDataList_iff alts).mp hp a ha)
    | struct _ _ => simp [plainData] at hp
    | tuple _ => simp [plainData] at hp
    | any => simp [plainData] at hp
    | _ => simp [noRec]

theorem plainData_noRec {t : Ty} (h : plainData t = true) : noRec t = true := plainData_noRec_aux t.size t (Nat.le_refl _) h

theorem noRecVList_iff : ∀ (l : List Value), Value.noRecVList l = true ↔ ∀ x ∈ l, x.noRecV = true
  | [] => by simp [Value.noRecVList]
  | a :: as => by simp [Value.noRecVList, noRecVList_iff as]

/-- a value of a struct-, tuple- and `Any`-free type contains no struct and no tuple -/
theorem conforms_plain_noRecV : ∀ (n : Nat) (t : Ty) (v : Value), t.size ≤ n → plainData t = true → conforms t v = true →
    v.noRecV = true := by
  intro n
  induction n with
  | zero => intro t _ h; have := size_pos t; omega
  | succ n ih =>
    intro t v hsz hp hc
    cases t with
    | list e =>
      cases v <;> simp [conforms] at hc
      rename_i xs
      simp only [plainData] at hp
      simp only [Value.noRecV]
      rw [noRecVList_iff]
      intro x hx
      exact ih e x (by simp only [Ty.size] at hsz; omega) hp (hc x hx)
    | union alts =>
      simp only [plainData] at hp
      rw [conforms_union_iff] at hc
      obtain ⟨a, ha, hav⟩ := hc
      have := size_le_sizeList ha
      exact ih a v (by simp only [Ty.size] at hsz; omega) ((plainDataList_iff alts).mp hp a ha) hav
    | listNil =>
      cases v <;> simp [conforms] at hc
      subst hc; simp [Value.noRecV, Value.noRecVList]
    | struct _ _ => simp [plainData] at hp
    | tuple _ => simp [plainData] at hp
    | any => simp [plainData] at hp
    | _ => cases v <;> simp [conforms] at hc <;> simp [Value.noRecV]

theorem mapM_id_of_forall {α} (f : α → Option α) : ∀ (l r : List α), (∀ x ∈ l, ∀ y, f x = some y → y = x) → l.mapM f = some r → r = l
  | [], r, _, h => by simp at h; exact h
  | x :: xs, r, hf, h => by
    simp only [List.mapM_cons, Option.bind_eq_bind] at h
    cases hx : f x with
    | none => simp [hx] at h
    | some y =>
      simp only [hx, Option.bind_some] at h
      cases hxs : xs.mapM f with
      | none => simp [hxs] at h
      | some ys =>
        simp only [hxs, Option.bind_some, Option.pure_def, Option.some.injEq] at h
        subst h
        rw [hf x (by simp) y hx, mapM_id_of_forall f xs ys (fun z hz => hf z (by simp [hz])) hxs]

/-- `ObjectLayoutFixer.fixLayout` returns a value without objects and tuples unchanged -/
theorem fixLayout_id : ∀ (fuel : Nat) (m : Coal.Mapping) (v r : Value), v.noRecV = true → Coal.fixLayout fuel m v = some r → r = v := by
  intro fuel
  induction fuel with
  | zero => intro m v r _ h; simp [Coal.fixLayout] at h
  | succ n ih =>
    intro m v r hn h
    cases v with
    | struct xs => simp [Value.noRecV] at hn
    | tuple xs => simp [Value.noRecV] at hn
    | list xs =>
      simp only [Value.noRecV] at hn
      simp only [Coal.fixLayout] at h
      cases xs with
      | nil => simp at h; exact h.symm
      | cons x xs' =>
        cases hl : m.li with
        | nil => simp [hl] at h
        | cons em _ =>
          simp only [hl] at h
          cases hm : (x :: xs').mapM (fun y => Coal.fixLayout n em y) with
          | none => simp [hm] at h
          | some ys =>
            simp only [hm, Option.some.injEq] at h
            subst h
            congr
            exact mapM_id_of_forall _ _ ys (fun y hy z hz => ih em y z ((noRecVList_iff _).mp hn y hy) hz) hm
    | _ => simp [Coal.fixLayout] at h; exact h.symm

/-- the static type of COALESCE: every argument type `Is` it (struct/tuple-free argument types) -/
theorem coalesceTy_upper : ∀ (as : List PExpr) (t T : Ty), coalesceTy t as = .ok T → wf t = true → noRec t = true →
    (∀ a ∈ as, wf a.ty = true ∧ noRec a.ty = true) →
    wf T = true ∧ t.is T = .is ∧ ∀ a ∈ as, a.ty.is T = .is
  | [], t, T, h, wt, _, _ => by
    simp only [coalesceTy, Except.ok.injEq] at h; subst h
    exact ⟨wt, Ty.is_refl _, by simp⟩
  | a :: as, t, T, h, wt, nt, ha => by
    simp only [coalesceTy] at h
    cases hs : typeSum t a.ty with
    | none => simp [hs] at h
    | some s =>
      simp only [hs] at h
      have ⟨wa, na⟩ := ha a (by simp)
      have ⟨u1, u2, ns⟩ := typeSum_upper_noRec hs nt na
      have ⟨wT, hsT, hrest⟩ := coalesceTy_upper as s T h (typeSum_wf hs wt wa) ns (fun b hb => ha b (by simp [hb]))
      refine ⟨wT, Ty.is_trans u1 hsT, ?_⟩
      intro b hb
      simp only [List.mem_cons] at hb
      rcases hb with rfl | hb
      · exact Ty.is_trans u2 hsT
      · exact hrest b hb

theorem evalCoalesce_spec (S : Sig) (Γ : Ctx) (ρ : List (List Value)) (he : EnvConforms Γ ρ) (T : Ty) :
    ∀ (ms : List Coal.Mapping) (args : List PExpr) (v : Value),
      (∀ a ∈ args, Sound S Γ a ∧ plainData a.ty = true ∧ a.ty.is T = .is) → coalescePlainList args = true →
      (conforms T .null = true ∨ (args ≠ [] ∧ ms.length = args.length)) →
      evalCoalesce S Γ ρ ms args = .val v → conforms T v = true
  | [], [], v, _, _, hn, h => by
    simp only [evalCoalesce, Res.val.injEq] at h; subst h
    rcases hn with hn | ⟨hn, _⟩
    · exact hn
    · exact absurd rfl hn
  | [], _ :: _, v, _, _, hn, h => by
    simp only [evalCoalesce, Res.val.injEq] at h; subst h
    rcases hn with hn | ⟨_, hn⟩
    · exact hn
    · simp at hn
  | _ :: _, [], v, _, _, hn, h => by
    simp only [evalCoalesce, Res.val.injEq] at h; subst h
    rcases hn with hn | ⟨hn, _⟩
    · exact hn
    · exact absurd rfl hn
  | m :: ms, a :: as, v, hs, hp, _, h => by
    simp only [evalCoalesce] at h
    simp only [coalescePlainList, Bool.and_eq_true] at hp
    have ⟨hsa, hpa, hia⟩ := hs a (by simp)
    cases hav : eval S Γ ρ a with
    | val w =>
      simp only [hav] at h
      have hcw := hsa.2 hp.1 ρ w he hav
      by_cases hnull : isNullV w = true
      · simp only [hnull, if_true] at h
        have : w = .null := (isNullV_iff w).mp hnull
        subst this
        exact evalCoalesce_spec S Γ ρ he T ms as v (fun b hb => hs b (by simp [hb])) hp.2
          (Or.inl (Ty.is_sound hia .null hcw)) h
      · simp only [hnull, Bool.false_eq_true, if_false] at h
        cases hf : Coal.fixLayout (Coal.fuelFor w) m w with
        | none => simp [hf] at h
        | some r =>
          simp only [hf, Res.val.injEq] at h
          subst h
          have := fixLayout_id _ m w r (conforms_plain_noRecV _ a.ty w (Nat.le_refl _) hpa hcw) hf
          subst this
          exact Ty.is_sound hia r hcw
    | err => simp [hav] at h
    | panic => simp [hav] at h
    | unmodelled => simp [hav] at h

theorem mapM_length {α β} (f : α → Option β) : ∀ (l : List α) (r : List β), l.mapM f = some r → r.length = l.length
  | [], r, h => by simp at h; subst h; rfl
  | x :: xs, r, h => by
    simp only [List.mapM_cons, Option.bind_eq_bind] at h
    cases hx : f x with
    | none => simp [hx] at h
    | some y =>
      simp only [hx, Option.bind_some] at h
      cases hxs : xs.mapM f with
      | none => simp [hxs] at h
      | some ys =>
        simp only [hxs, Option.bind_some, Option.pure_def, Option.some.injEq] at h
        subst h
        simp [mapM_length f xs ys hxs]

theorem coalesce_sound {S : Sig} {Γ : Ctx} {p : PExpr} {ps : List PExpr} {T : Ty} (hargs : ∀ a ∈ p :: ps, Sound S Γ a)
    (h : coalesceTy p.ty ps = .ok T) :
    wf T = true ∧ (coalescePlain (.coalesce T (p :: ps)) = true → ∀ ρ v, EnvConforms Γ ρ →
      eval S Γ ρ (.coalesce T (p :: ps)) = .val v → conforms T v = true) := by
  constructor
  · -- well-formedness needs no flatness
    have : ∀ (as : List PExpr) (t T : Ty), coalesceTy t as = .ok T → wf t = true → (∀ a ∈ as, wf a.ty = true) → wf T = true := by
      intro as
      induction as with
      | nil => intro t T h wt _; simp only [coalesceTy, Except.ok.injEq] at h; subst h; exact wt
      | cons a as ih =>
        intro t T h wt ha
        simp only [coalesceTy] at h
        cases hs : typeSum t a.ty with
        | none => simp [hs] at h
        | some s =>
          simp only [hs] at h
          exact ih s T h (typeSum_wf hs wt (ha a (by simp))) (fun b hb => ha b (by simp [hb]))
    exact this ps p.ty T h (hargs p (by simp)).1 (fun a ha => (hargs a (by simp [ha])).1)
  · intro hp ρ v he hv
    simp only [coalescePlain, Bool.and_eq_true, List.all_eq_true] at hp
    have hplain : ∀ a ∈ p :: ps, plainData a.ty = true := hp.2
    have ⟨_, h0, hrest⟩ := coalesceTy_upper ps p.ty T h (hargs p (by simp)).1 (plainData_noRec (hplain p (by simp)))
      (fun a ha => ⟨(hargs a (by simp [ha])).1, plainData_noRec (hplain a (by simp [ha]))⟩)
    have hall : ∀ a ∈ p :: ps, Sound S Γ a ∧ plainData a.ty = true ∧ a.ty.is T = .is := by
      intro a ha
      refine ⟨hargs a ha, hplain a ha, ?_⟩
      simp only [List.mem_cons] at ha
      rcases ha with rfl | ha
      · exact h0
      · exact hrest a ha
    simp only [eval] at hv
    cases hm : layoutMappings T (p :: ps) with
    | none => simp [hm] at hv
    | some ms =>
      simp only [hm] at hv
      have hlen : ms.length = (p :: ps).length := mapM_length _ _ ms hm
      exact evalCoalesce_spec S Γ ρ he T ms (p :: ps) v hall hp.1 (Or.inr ⟨by simp, hlen⟩) hv

end Octo.Tc
