import Octo.Lemmas.TypingSound
namespace Octo.Tc
open Octo Octo.Ty

/-! ### run-time type assertions -/

/-- an assertion against a flat target, typed with `TypeIntersection(target, type of the asserted expression)`, is sound -/
theorem assert_sound {S : Sig} {Γ : Ctx} {a : PExpr} {target t : Ty} (hs : Sound S Γ a) (wt : wf target = true)
    (ft : flatTarget target = true) (ha : a.ty.isAny = false) (h : typeInter target a.ty = some (some t)) :
    Sound S Γ (.assert t target a) := by
  refine ⟨(typeInter_sub wt hs.1 h).1, ?_⟩
  intro hp ρ v he hv
  simp only [coalescePlain] at hp
  simp only [eval] at hv
  cases hav : eval S Γ ρ a with
  | val w =>
    simp only [hav] at hv
    split at hv
    · rename_i hr
      simp only [Res.val.injEq] at hv; subst hv
      exact inter_complete hs.1 ha ft (hs.2 hp ρ w he hav) hr h
    · cases hv
  | err => simp [hav] at hv
  | panic => simp [hav] at hv
  | unmodelled => simp [hav] at hv

/-- the asserted expression's type is below the target -/
theorem assert_below {a target t : Ty} (wt : wf target = true) (wa : wf a = true) (h : typeInter target a = some (some t)) :
    t.is target = .is := (typeInter_sub wt wa h).2.1

theorem param_scalar_sumNull {p : Ty} (hp : paramOk p = true) (ha : p.isAny = false) :
    typeSum p .null = some (.union [.null, p]) := by
  cases p <;> simp [paramOk, isLeaf, Ty.id, isAny] at hp ha <;> rfl

theorem param_flat {p : Ty} (hp : paramOk p = true) (ha : p.isAny = false) :
    flatTarget p = true ∧ flatTarget (.union [.null, p]) = true ∧ wf p = true ∧ wf (.union [.null, p]) = true := by
  cases p <;> simp [paramOk, isLeaf, Ty.id, isAny] at hp ha <;> decide

theorem any_isnt_param {p : Ty} (hp : paramOk p = true) (ha : p.isAny = false) : Ty.any.is p = .isnt := by
  cases p <;> simp [paramOk, isLeaf, Ty.id, isAny] at hp ha <;> rfl

theorem any_isnt_boolNull : Ty.any.is boolNull = .isnt := by decide

theorem boolNull_eq : typeSum .bool .null = some boolNull := rfl

theorem boolNull_flat : flatTarget boolNull = true ∧ wf boolNull = true := by decide

end Octo.Tc
