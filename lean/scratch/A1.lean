import Octo.Lemmas.TypingTableOk
namespace Octo.Tc
open Octo Octo.Ty Octo.Gen.FuncTable

/-! ### aggregates -/

def aggProduces : AggKind → List Value → Value → Prop
  | .ctor tid, _, v => v.rank = tid
  | .input, xs, v => v ∈ xs
  | .inputs, xs, v => ∃ ys, v = .list ys ∧ ∀ y ∈ ys, y ∈ xs

/-- what the go/ast pass establishes about a `Trigger` method, `xs` being the (non-NULL) values added -/
def AggRespects (k : AggKind) (trigger : List Value → Res) : Prop := ∀ xs v, trigger xs = .val v → aggProduces k xs v

def aggKindOk (arg out : Ty) : AggKind → Bool
  | .ctor tid => match scalarOfId tid with
    | some s => s.is out == .is
    | none => false
  | .input => arg.is out == .is
  | .inputs => false

/-- the per-descriptor obligation for aggregates -/
def AggSound (d : AggDescr) (trigger : List Value → Res) : Prop :=
  match d.typeFn with
  | none => ∀ xs v, (∀ x ∈ xs, conforms d.arg x = true) → trigger xs = .val v → conforms d.out v = true
  | some f => ∀ t o xs v, f t = some o → (∀ x ∈ xs, conforms t x = true) → trigger xs = .val v → conforms o v = true

theorem aggSound_static {d : AggDescr} {k : AggKind} {trigger : List Value → Res} (htf : d.typeFn = none)
    (hk : aggKindOk d.arg d.out k = true) (hr : AggRespects k trigger) : AggSound d trigger := by
  unfold AggSound; simp only [htf]
  intro xs v hx hv
  have hp := hr xs v hv
  cases k with
  | ctor tid =>
    simp only [aggKindOk] at hk
    cases hs : scalarOfId tid with
    | none => simp [hs] at hk
    | some s =>
      simp only [hs, beq_iff_eq] at hk
      exact Ty.is_sound hk v (conforms_scalar_of_rank hs hp)
  | input =>
    simp only [aggKindOk, beq_iff_eq] at hk
    exact Ty.is_sound hk v (hx v hp)
  | inputs => simp [aggKindOk] at hk

theorem aggSound_array {d : AggDescr} {trigger : List Value → Res} (htf : d.typeFn = some aggTyFn)
    (hr : AggRespects .inputs trigger) : AggSound d trigger := by
  unfold AggSound; simp only [htf]
  intro t o xs v hf hx hv
  simp only [aggTyFn, Option.some.injEq] at hf; subst hf
  obtain ⟨ys, rfl, hys⟩ := hr xs v hv
  simp only [conforms, List.all_eq_true]
  intro y hy; exact hx y (hys y hy)

theorem aggLift_spec {t out o : Ty} (h : aggLift t out = .ok o) (wo : wf out = true) :
    wf o = true ∧ (∀ v, conforms out v = true → conforms o v = true) ∧ (admitsNull t = true → conforms o .null = true) := by
  unfold aggLift at h
  by_cases hn : admitsNull t = true
  · simp only [hn, if_true] at h
    cases hs : typeSum out .null with
    | none => simp [hs] at h
    | some s =>
      simp only [hs, Except.ok.injEq] at h; subst h
      exact ⟨typeSum_wf hs wo (by simp [wf]), fun v hv => (typeSum_null_char hs v).mpr (Or.inl hv),
        fun _ => (typeSum_null_char hs .null).mpr (Or.inr rfl)⟩
  · simp only [hn, Bool.false_eq_true, if_false, Except.ok.injEq] at h; subst h
    exact ⟨wo, fun _ hv => hv, fun h' => absurd h' hn⟩

/-- one group: either no non-NULL input (then NULL, and some input WAS NULL unless there was no input at all), or the
    aggregate's `Trigger` over the non-NULL inputs -/
theorem aggRun_spec (trigger : List Value → Res) (T : Ty) : ∀ (rs : List Res) (acc : List Value) (v : Value),
    (∀ r ∈ rs, ∀ w, r = .val w → conforms T w = true) → (∀ x ∈ acc, conforms T x = true ∧ x ≠ .null) →
    aggRun trigger rs acc = .val v →
    (v = .null ∧ acc = [] ∧ (rs = [] ∨ conforms T .null = true)) ∨
    (∃ xs, (∀ x ∈ xs, conforms T x = true ∧ x ≠ .null) ∧ trigger xs = .val v)
  | [], acc, v, _, ha, h => by
    simp only [aggRun] at h
    by_cases he : acc.isEmpty = true
    · simp only [he, if_true, Res.val.injEq] at h; subst h
      exact Or.inl ⟨rfl, by simpa using he, Or.inl rfl⟩
    · simp only [he, Bool.false_eq_true, if_false] at h
      exact Or.inr ⟨acc.reverse, fun x hx => ha x (by simpa using hx), h⟩
  | r :: rest, acc, v, hr, ha, h => by
    cases r with
    | val w =>
      simp only [aggRun] at h
      have hw := hr (.val w) (by simp) w rfl
      have hrest : ∀ r ∈ rest, ∀ w, r = .val w → conforms T w = true := fun r hr' => hr r (by simp [hr'])
      by_cases hn : isNullV w = true
      · simp only [hn, if_true] at h
        have : w = .null := (isNullV_iff w).mp hn
        subst this
        rcases aggRun_spec trigger T rest acc v hrest ha h with ⟨h1, h2, _⟩ | h'
        · exact Or.inl ⟨h1, h2, Or.inr hw⟩
        · exact Or.inr h'
      · simp only [hn, Bool.false_eq_true, if_false] at h
        rcases aggRun_spec trigger T rest (w :: acc) v hrest (by
          intro x hx; simp only [List.mem_cons] at hx
          rcases hx with rfl | hx
          · exact ⟨hw, fun hh => hn ((isNullV_iff _).mpr hh)⟩
          · exact ha x hx) h with ⟨_, h2, _⟩ | h'
        · cases h2
        · exact Or.inr h'
    | err => simp [aggRun] at h
    | panic => simp [aggRun] at h
    | unmodelled => simp [aggRun] at h

end Octo.Tc
