import Octo.Lemmas.TypingDefs
namespace Octo.Tc
open Octo Octo.Ty

/-! ### variables -/

theorem field_conforms (n : Nat) : ∀ (c : List (Nat × Ty)) (vs : List Value) (i : Nat) (t : Ty) (v : Value),
    conformsZip (c.map (·.2)) vs = true → indexOfField n c = some i → lookupField n c = some t → vs[i]? = some v →
    conforms t v = true
  | [], _, _, _, _, _, hi, _, _ => by simp [indexOfField] at hi
  | (m, t') :: fs, [], _, _, _, hc, _, _, _ => by simp [conformsZip] at hc
  | (m, t') :: fs, x :: xs, i, t, v, hc, hi, hl, hv => by
    simp only [List.map, conformsZip, Bool.and_eq_true] at hc
    simp only [indexOfField] at hi
    simp only [lookupField] at hl
    by_cases hm : m = n
    · simp only [hm, if_true, Option.some.injEq] at hi hl
      subst hi; subst hl
      simp only [List.getElem?_cons_zero, Option.some.injEq] at hv
      subst hv; exact hc.1
    · simp only [hm, if_false] at hi hl
      cases hj : indexOfField n fs with
      | none => simp [hj] at hi
      | some j =>
        simp only [hj, Option.map_some, Option.some.injEq] at hi
        subst hi
        simp only [List.getElem?_cons_succ] at hv
        exact field_conforms n fs xs j t v hc.2 hj hl hv

theorem index_none_iff_lookup_none (n : Nat) : ∀ (c : List (Nat × Ty)), indexOfField n c = none ↔ lookupField n c = none
  | [] => by simp [indexOfField, lookupField]
  | (m, t) :: fs => by
    simp only [indexOfField, lookupField]
    by_cases hm : m = n
    · simp [hm]
    · simp only [hm, if_false, Option.map_eq_none_iff]; exact index_none_iff_lookup_none n fs

theorem evalVar_conforms (n : Nat) : ∀ (Γ : Ctx) (ρ : List (List Value)) (t : Ty) (v : Value),
    EnvConforms Γ ρ → lookupVar n Γ = some t → evalVar n Γ ρ = .val v → conforms t v = true
  | [], _, _, _, _, hl, _ => by simp [lookupVar] at hl
  | c :: cs, [], _, _, he, _, _ => by simp [EnvConforms] at he
  | c :: cs, vs :: vss, t, v, he, hl, hv => by
    simp only [EnvConforms] at he
    simp only [lookupVar] at hl
    simp only [evalVar] at hv
    cases hi : indexOfField n c with
    | none =>
      have := (index_none_iff_lookup_none n c).mp hi
      simp only [this] at hl
      simp only [hi] at hv
      exact evalVar_conforms n cs vss t v he.2 hl hv
    | some i =>
      simp only [hi] at hv
      cases hf : lookupField n c with
      | none => have := (index_none_iff_lookup_none n c).mpr hf; simp [this] at hi
      | some t' =>
        simp only [hf, Option.some.injEq] at hl
        subst hl
        cases hx : vs[i]? with
        | none => simp [hx] at hv
        | some x =>
          simp only [hx, Res.val.injEq] at hv
          subst hv
          exact field_conforms n c vs i t' x he.1 hi hf hx

theorem lookupField_mem (n : Nat) : ∀ (c : List (Nat × Ty)) (t : Ty), lookupField n c = some t → (n, t) ∈ c
  | [], _, h => by simp [lookupField] at h
  | (m, t') :: fs, t, h => by
    simp only [lookupField] at h
    by_cases hm : m = n
    · simp only [hm, if_true, Option.some.injEq] at h; subst h; subst hm; simp
    · simp only [hm, if_false] at h; exact List.mem_cons_of_mem _ (lookupField_mem n fs t h)

theorem lookupVar_wf (n : Nat) : ∀ (Γ : Ctx) (t : Ty), CtxWf Γ → lookupVar n Γ = some t → wf t = true
  | [], _, _, h => by simp [lookupVar] at h
  | c :: cs, t, hw, h => by
    simp only [lookupVar] at h
    cases hf : lookupField n c with
    | none =>
      simp only [hf] at h
      exact lookupVar_wf n cs t (fun c' hc' => hw c' (List.mem_cons_of_mem _ hc')) h
    | some t' =>
      simp only [hf, Option.some.injEq] at h; subst h
      exact hw c (by simp) (n, t') (lookupField_mem n c t' hf)

end Octo.Tc
