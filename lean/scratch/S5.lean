import Octo.Lemmas.TypingSound
namespace Octo.Tc
open Octo Octo.Ty

theorem zipIdx_mem {α} : ∀ (l : List α) (k : Nat) (x : α) (i : Nat), (x, i) ∈ zipIdx l k → k ≤ i ∧ l[i - k]? = some x
  | [], _, _, _, h => by simp [zipIdx] at h
  | y :: ys, k, x, i, h => by
    simp only [zipIdx, List.mem_cons, Prod.mk.injEq] at h
    rcases h with ⟨rfl, rfl⟩ | h
    · simp
    · have ⟨h1, h2⟩ := zipIdx_mem ys (k + 1) x i h
      refine ⟨by omega, ?_⟩
      have : i - k = (i - (k + 1)) + 1 := by omega
      rw [this, List.getElem?_cons_succ]; exact h2

/-- what the first loop picked: a descriptor of the table that fits exactly -/
def PickedExact (args : List PExpr) (ds : List (Descr × Nat)) (r : Descr × Nat × Ty) : Prop :=
  (r.1, r.2.1) ∈ ds ∧
  match r.1.typeFn with
  | some f => f (args.map (fun a => viewTy r.1.strict a.ty)) = some (some r.2.2)
  | none => (args.map (fun a => viewTy r.1.strict a.ty)).length = r.1.args.length ∧
      fitsAll (args.map (fun a => viewTy r.1.strict a.ty)) r.1.args = true ∧ r.2.2 = r.1.out

theorem exactPass_spec (args : List PExpr) : ∀ (ds : List (Descr × Nat)) (acc : Option (Descr × Nat × Ty)) (r : Descr × Nat × Ty),
    exactPass (args.map PExpr.ty) ((args.map PExpr.ty).map nonNullable) ds acc = .ok (some r) →
    acc = some r ∨ PickedExact args ds r
  | [], acc, r, h => by simp only [exactPass, Except.ok.injEq] at h; exact Or.inl h
  | (d, i) :: rest, acc, r, h => by
    simp only [exactPass, view_eq] at h
    cases htf : d.typeFn with
    | some f =>
      simp only [htf] at h
      cases hf : f (args.map (fun a => viewTy d.strict a.ty)) with
      | none => simp [hf] at h
      | some oo =>
        cases oo with
        | some o =>
          simp only [hf] at h
          rcases exactPass_spec args rest _ r h with hr | hr
          · right
            simp only [Option.some.injEq] at hr; subst hr
            exact ⟨by simp, by simp only [htf]; exact hf⟩
          · right; exact ⟨List.mem_cons_of_mem _ hr.1, hr.2⟩
        | none =>
          simp only [hf] at h
          rcases exactPass_spec args rest _ r h with hr | hr
          · exact Or.inl hr
          · right; exact ⟨List.mem_cons_of_mem _ hr.1, hr.2⟩
    | none =>
      simp only [htf] at h
      split at h
      · rcases exactPass_spec args rest _ r h with hr | hr
        · exact Or.inl hr
        · right; exact ⟨List.mem_cons_of_mem _ hr.1, hr.2⟩
      · rename_i hlen
        split at h
        · rename_i hfit
          rcases exactPass_spec args rest _ r h with hr | hr
          · right
            simp only [Option.some.injEq] at hr; subst hr
            exact ⟨by simp, by simp only [htf]; exact ⟨by simpa using hlen, hfit, trivial⟩⟩
          · right; exact ⟨List.mem_cons_of_mem _ hr.1, hr.2⟩
        · rcases exactPass_spec args rest _ r h with hr | hr
          · exact Or.inl hr
          · right; exact ⟨List.mem_cons_of_mem _ hr.1, hr.2⟩

/-- what the second loop picked: a static descriptor that may fit, and the wrapped arguments -/
theorem maybePass_spec (args : List PExpr) : ∀ (ds : List (Descr × Nat)) (d : Descr) (i : Nat) (args' : List PExpr),
    maybePass args (args.map PExpr.ty) ((args.map PExpr.ty).map nonNullable) ds = .ok (some (d, i, args')) →
    (d, i) ∈ ds ∧ d.typeFn = none ∧ (args.map (fun a => viewTy d.strict a.ty)).length = d.args.length ∧
      anyIsnt (args.map (fun a => viewTy d.strict a.ty)) d.args = false ∧
      wrapArgs d.strict (args.map (fun a => viewTy d.strict a.ty)) d.args args = .ok args'
  | [], _, _, _, h => by simp [maybePass] at h
  | (d0, i0) :: rest, d, i, args', h => by
    simp only [maybePass, view_eq] at h
    have rec_ := fun h' => maybePass_spec args rest d i args' h'
    split at h
    · have ⟨r1, r2⟩ := rec_ h; exact ⟨List.mem_cons_of_mem _ r1, r2⟩
    · rename_i htf
      split at h
      · have ⟨r1, r2⟩ := rec_ h; exact ⟨List.mem_cons_of_mem _ r1, r2⟩
      · rename_i hlen
        split at h
        · have ⟨r1, r2⟩ := rec_ h; exact ⟨List.mem_cons_of_mem _ r1, r2⟩
        · rename_i hni
          cases hw : wrapArgs d0.strict (args.map (fun a => viewTy d0.strict a.ty)) d0.args args with
          | error e => simp [hw] at h
          | ok as' =>
            simp only [hw, Except.ok.injEq, Option.some.injEq, Prod.mk.injEq] at h
            obtain ⟨rfl, rfl, rfl⟩ := h
            refine ⟨by simp, ?_, by simpa using hlen, by simpa using hni, hw⟩
            cases hh : d0.typeFn with
            | none => rfl
            | some f => simp [hh] at htf

end Octo.Tc
