import Octo.Lemmas.TypingSound
namespace Octo.Tc
open Octo Octo.Ty

/-! ### AND / OR -/

theorem boolNull_values {v : Value} (h : conforms boolNull v = true) : v = .null ∨ ∃ b, v = .bool b := by
  unfold boolNull at h
  rw [conforms_union_iff] at h
  obtain ⟨a, ha, hv⟩ := h
  simp only [List.mem_cons, List.not_mem_nil, or_false] at ha
  rcases ha with rfl | rfl
  · exact Or.inl ((conforms_null_iff_eq v).mp hv)
  · cases v <;> simp [conforms] at hv
    exact Or.inr ⟨_, rfl⟩

/-- `TypecheckExpression(Boolean | NULL, e)`: the result is sound and its type is below `Boolean | NULL` -/
theorem checkExpected_bool {S : Sig} {Γ : Ctx} {p p' : PExpr} (hs : Sound S Γ p) (h : checkExpected boolNull p = .ok p') :
    Sound S Γ p' ∧ p'.ty.is boolNull = .is := by
  unfold checkExpected at h
  cases hr : p.ty.is boolNull with
  | isnt => simp [hr] at h
  | is => simp only [hr, Except.ok.injEq] at h; subst h; exact ⟨hs, hr⟩
  | maybe =>
    simp only [hr] at h
    cases hi : typeInter boolNull p.ty with
    | none => simp [hi] at h
    | some oi =>
      cases oi with
      | none => simp [hi] at h
      | some t =>
        simp only [hi, Except.ok.injEq] at h
        subst h
        have haa : p.ty.isAny = false := by
          cases hta : p.ty <;> simp [isAny]
          rw [hta, any_isnt_boolNull] at hr; cases hr
        exact ⟨assert_sound hs boolNull_flat.2 boolNull_flat.1 haa hi, assert_below boolNull_flat.2 hs.1 hi⟩

/-- what `And.Evaluate` / `Or.Evaluate` can return over arguments of types below `Boolean | NULL` -/
def LogicRes (nullEncountered : Bool) (args : List PExpr) (v : Value) : Prop :=
  (∃ b, v = .bool b) ∨ (v = .null ∧ (nullEncountered = true ∨ ∃ a ∈ args, admitsNull a.ty = true))

theorem logicRes_cons {ne : Bool} {a : PExpr} {as : List PExpr} {v : Value} (h : LogicRes ne as v) : LogicRes ne (a :: as) v := by
  rcases h with h | ⟨h1, h2⟩
  · exact Or.inl h
  · refine Or.inr ⟨h1, ?_⟩
    rcases h2 with h2 | ⟨b, hb, hbn⟩
    · exact Or.inl h2
    · exact Or.inr ⟨b, by simp [hb], hbn⟩

theorem evalAnd_spec (S : Sig) (Γ : Ctx) (ρ : List (List Value)) (he : EnvConforms Γ ρ) :
    ∀ (args : List PExpr) (ne : Bool) (v : Value), (∀ a ∈ args, Sound S Γ a ∧ a.ty.is boolNull = .is) →
      coalescePlainList args = true → evalAnd S Γ ρ ne args = .val v → LogicRes ne args v
  | [], ne, v, _, _, h => by
    simp only [evalAnd] at h
    cases ne with
    | true => simp only [if_true, Res.val.injEq] at h; subst h; exact Or.inr ⟨rfl, Or.inl rfl⟩
    | false => simp only [Bool.false_eq_true, if_false, Res.val.injEq] at h; subst h; exact Or.inl ⟨_, rfl⟩
  | a :: as, ne, v, hs, hp, h => by
    simp only [evalAnd] at h
    simp only [coalescePlainList, Bool.and_eq_true] at hp
    have ⟨hsa, hba⟩ := hs a (by simp)
    have hsas : ∀ b ∈ as, Sound S Γ b ∧ b.ty.is boolNull = .is := fun b hb => hs b (by simp [hb])
    cases hav : eval S Γ ρ a with
    | val w =>
      simp only [hav] at h
      have hcw := hsa.2 hp.1 ρ w he hav
      rcases boolNull_values (Ty.is_sound hba w hcw) with rfl | ⟨b, rfl⟩
      · simp only [isNullV, if_true] at h
        rcases evalAnd_spec S Γ ρ he as true v hsas hp.2 h with r | ⟨r1, _⟩
        · exact Or.inl r
        · exact Or.inr ⟨r1, Or.inr ⟨a, by simp, admits_of_conforms_null hsa.1 hcw⟩⟩
      · simp only [isNullV, Bool.false_eq_true, if_false, boolField] at h
        cases b with
        | false => simp only [Bool.not_false, if_true, Res.val.injEq] at h; subst h; exact Or.inl ⟨_, rfl⟩
        | true =>
          simp only [Bool.not_true, Bool.false_eq_true, if_false] at h
          exact logicRes_cons (evalAnd_spec S Γ ρ he as ne v hsas hp.2 h)
    | err => simp [hav] at h
    | panic => simp [hav] at h
    | unmodelled => simp [hav] at h

theorem evalOr_spec (S : Sig) (Γ : Ctx) (ρ : List (List Value)) (he : EnvConforms Γ ρ) :
    ∀ (args : List PExpr) (ne : Bool) (v : Value), (∀ a ∈ args, Sound S Γ a ∧ a.ty.is boolNull = .is) →
      coalescePlainList args = true → evalOr S Γ ρ ne args = .val v → LogicRes ne args v
  | [], ne, v, _, _, h => by
    simp only [evalOr] at h
    cases ne with
    | true => simp only [if_true, Res.val.injEq] at h; subst h; exact Or.inr ⟨rfl, Or.inl rfl⟩
    | false => simp only [Bool.false_eq_true, if_false, Res.val.injEq] at h; subst h; exact Or.inl ⟨_, rfl⟩
  | a :: as, ne, v, hs, hp, h => by
    simp only [evalOr] at h
    simp only [coalescePlainList, Bool.and_eq_true] at hp
    have ⟨hsa, hba⟩ := hs a (by simp)
    have hsas : ∀ b ∈ as, Sound S Γ b ∧ b.ty.is boolNull = .is := fun b hb => hs b (by simp [hb])
    cases hav : eval S Γ ρ a with
    | val w =>
      simp only [hav] at h
      have hcw := hsa.2 hp.1 ρ w he hav
      rcases boolNull_values (Ty.is_sound hba w hcw) with rfl | ⟨b, rfl⟩
      · simp only [boolField, Bool.false_eq_true, if_false, isNullV, Bool.or_true] at h
        rcases evalOr_spec S Γ ρ he as true v hsas hp.2 h with r | ⟨r1, _⟩
        · exact Or.inl r
        · exact Or.inr ⟨r1, Or.inr ⟨a, by simp, admits_of_conforms_null hsa.1 hcw⟩⟩
      · simp only [boolField] at h
        cases b with
        | true => simp only [if_true, Res.val.injEq] at h; subst h; exact Or.inl ⟨_, rfl⟩
        | false =>
          simp only [Bool.false_eq_true, if_false, isNullV, Bool.or_false] at h
          exact logicRes_cons (evalOr_spec S Γ ρ he as ne v hsas hp.2 h)
    | err => simp [hav] at h
    | panic => simp [hav] at h
    | unmodelled => simp [hav] at h

theorem logicTy_wf (l r : PExpr) : wf (logicTy l r) = true := by
  unfold logicTy; split
  · exact boolNull_flat.2
  · simp [wf]

theorem logicRes_conforms {l r : PExpr} {v : Value} (h : LogicRes false [l, r] v) : conforms (logicTy l r) v = true := by
  rcases h with ⟨b, rfl⟩ | ⟨rfl, h⟩
  · unfold logicTy; split
    · unfold boolNull; rw [conforms_union_iff]; exact ⟨.bool, by simp, by simp [conforms]⟩
    · simp [conforms]
  · rcases h with h | ⟨a, ha, han⟩
    · cases h
    · have : (admitsNull l.ty || admitsNull r.ty) = true := by
        simp only [List.mem_cons, List.not_mem_nil, or_false] at ha
        rcases ha with rfl | rfl <;> simp [han]
      unfold logicTy; rw [if_pos this]
      unfold boolNull; rw [conforms_union_iff]; exact ⟨.null, by simp, by simp [conforms]⟩

theorem and_sound {S : Sig} {Γ : Ctx} {l r : PExpr} (hl : Sound S Γ l ∧ l.ty.is boolNull = .is)
    (hr : Sound S Γ r ∧ r.ty.is boolNull = .is) : Sound S Γ (.and (logicTy l r) [l, r]) := by
  refine ⟨logicTy_wf l r, ?_⟩
  intro hp ρ v he hv
  simp only [coalescePlain] at hp
  simp only [eval] at hv
  exact logicRes_conforms (evalAnd_spec S Γ ρ he [l, r] false v (by
    intro a ha; simp only [List.mem_cons, List.not_mem_nil, or_false] at ha
    rcases ha with rfl | rfl <;> assumption) hp hv)

theorem or_sound {S : Sig} {Γ : Ctx} {l r : PExpr} (hl : Sound S Γ l ∧ l.ty.is boolNull = .is)
    (hr : Sound S Γ r ∧ r.ty.is boolNull = .is) : Sound S Γ (.or (logicTy l r) [l, r]) := by
  refine ⟨logicTy_wf l r, ?_⟩
  intro hp ρ v he hv
  simp only [coalescePlain] at hp
  simp only [eval] at hv
  exact logicRes_conforms (evalOr_spec S Γ ρ he [l, r] false v (by
    intro a ha; simp only [List.mem_cons, List.not_mem_nil, or_false] at ha
    rcases ha with rfl | rfl <;> assumption) hp hv)

end Octo.Tc
