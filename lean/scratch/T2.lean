import Octo.Model.Typing
import Octo.Lemmas.TyTypeOf
import Octo.Lemmas.TyNonNull
import Octo.Lemmas.TyInter
import Octo.Lemmas.TyRecFree
import Octo.Lemmas.TyTypeOfWf
import Octo.Lemmas.TyTotal
namespace Octo.Tc
open Octo Octo.Ty

theorem conforms_null_iff_eq (v : Value) : conforms .null v = true ↔ v = .null := by
  cases v <;> simp [conforms]
theorem id0_eq_null {a : Ty} (h : a.id = 0) : a = .null := by
  cases a <;> simp [Ty.id] at h; rfl

theorem conforms_union_iff (alts : List Ty) (v : Value) :
    conforms (.union alts) v = true ↔ ∃ a ∈ alts, conforms a v = true := by
  simp only [conforms]; exact conformsAny_iff alts v

/-- `TypeSum(t, Null)` describes exactly the values of `t` and NULL (every `t`, every fuel) -/
theorem sumNull_char (n : Nat) (t c : Ty) (h : typeSumF (n + 1) t .null = some c) (v : Value) :
    conforms c v = true ↔ (conforms t v = true ∨ v = .null) := by
  rw [typeSumF] at h
  unfold typeSumStep at h
  by_cases h1 : t.is .null = .is
  · rw [if_pos h1] at h; cases h
    rw [conforms_null_iff_eq]
    constructor
    · intro hv; exact Or.inr hv
    · rintro (hv | hv)
      · exact (conforms_null_iff_eq v).mp (Ty.is_sound h1 v hv)
      · exact hv
  rw [if_neg h1] at h
  by_cases h2 : Ty.null.is t = .is
  · rw [if_pos h2] at h; cases h
    constructor
    · intro hv; exact Or.inl hv
    · rintro (hv | hv)
      · exact hv
      · subst hv; exact Ty.is_sound h2 .null (by simp [conforms])
  rw [if_neg h2] at h
  have generic : ∀ l : List Ty, (∀ x, x ∈ l ↔ (x = t ∨ x = .null)) →
      (conforms (.union l) v = true ↔ (conforms t v = true ∨ v = .null)) := by
    intro l hl
    rw [conforms_union_iff]
    constructor
    · rintro ⟨a, ha, hv⟩
      rcases (hl a).mp ha with rfl | rfl
      · exact Or.inl hv
      · exact Or.inr ((conforms_null_iff_eq v).mp hv)
    · rintro (hv | hv)
      · exact ⟨t, (hl t).mpr (Or.inl rfl), hv⟩
      · exact ⟨.null, (hl _).mpr (Or.inr rfl), (conforms_null_iff_eq v).mpr hv⟩
  split at h
  all_goals try contradiction
  all_goals first
    | (cases h; apply generic; intro x; rw [mem_sortById]; simp; done)
    | skip
  · rename_i alts
    split at h
    · rename_i hany
      obtain ⟨a, ha, hid⟩ := List.any_eq_true.mp hany
      have hid : a.id = 0 := by simp only [decide_eq_true_eq] at hid; exact hid
      have := id0_eq_null hid; subst this
      exact absurd (is_union_of_mem ha) h2
    · cases h
      rw [conforms_union_iff, conforms_union_iff]
      constructor
      · rintro ⟨a, ha, hv⟩
        rw [mem_sortById, List.mem_append] at ha
        rcases ha with ha | ha
        · exact Or.inl ⟨a, ha, hv⟩
        · simp only [List.mem_singleton] at ha; subst ha
          exact Or.inr ((conforms_null_iff_eq v).mp hv)
      · rintro (⟨a, ha, hv⟩ | hv)
        · exact ⟨a, by rw [mem_sortById, List.mem_append]; exact Or.inl ha, hv⟩
        · exact ⟨.null, by rw [mem_sortById, List.mem_append]; simp, (conforms_null_iff_eq v).mpr hv⟩
end Octo.Tc
