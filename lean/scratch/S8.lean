import Octo.Lemmas.TypingSound
namespace Octo.Tc
open Octo Octo.Ty

/-! ### tuples -/
theorem tuple_sound {S : Sig} {Γ : Ctx} (args : List PExpr) (hargs : ∀ a ∈ args, Sound S Γ a) :
    Sound S Γ (.tuple (.tuple (args.map PExpr.ty)) args) := by
  refine ⟨?_, ?_⟩
  · simp only [PExpr.ty, wf]
    rw [wfList_iff]
    intro t ht
    simp only [List.mem_map] at ht
    obtain ⟨a, ha, rfl⟩ := ht
    exact (hargs a ha).1
  · intro hp ρ v he hv
    simp only [coalescePlain] at hp
    simp only [eval] at hv
    cases hea : evalArgs S Γ ρ args with
    | error r => simp only [hea] at hv; exact absurd hv (evalArgs_error S Γ ρ args r hea v)
    | ok vs =>
      simp only [hea, Res.val.injEq] at hv
      subst hv
      simp only [PExpr.ty, conforms]
      exact evalArgs_conforms S Γ ρ he args vs hargs hp hea

/-! ### constants -/
theorem const_sound {S : Sig} {Γ : Ctx} {c : Value} {t : Ty} (hok : constOk c = true) (ht : c.typeOf = some t) :
    Sound S Γ (.const t c) := by
  simp only [constOk, Bool.and_eq_true] at hok
  refine ⟨typeOf_wf_aux c.size c (Nat.le_refl _) hok.2 t ht, ?_⟩
  intro _ ρ v _ hv
  simp only [eval, Res.val.injEq] at hv
  subst hv
  exact typeOf_conforms_aux c.size c (Nat.le_refl _) hok.1 t ht

/-! ### `::` -/
theorem findAltById_spec (tid : Nat) : ∀ (alts : List Ty) (alt : Ty), findAltById tid alts = some alt → alt ∈ alts ∧ alt.id = tid
  | [], _, h => by simp [findAltById] at h
  | a :: as, alt, h => by
    simp only [findAltById] at h
    by_cases ha : a.id = tid
    · simp only [ha, if_true, Option.some.injEq] at h; subst h; exact ⟨by simp, ha⟩
    · simp only [ha, if_false] at h
      have ⟨h1, h2⟩ := findAltById_spec tid as alt h
      exact ⟨by simp [h1], h2⟩

/-- a value of a well-formed union with TypeID `tid` is a value of THE alternative with that TypeID -/
theorem conforms_alt_of_rank {alts : List Ty} {alt : Ty} {v : Value} (w : wf (.union alts) = true)
    (hm : alt ∈ alts) (hv : conforms (.union alts) v = true) (hr : v.rank = alt.id) : conforms alt v = true := by
  rw [wf_union] at w
  have hp := (altsPlain_iff _).mp w.1
  rw [conforms_union_iff] at hv
  obtain ⟨a, ha, hav⟩ := hv
  have := rank_of_conforms_plain (hp a ha).1 (hp a ha).2 hav
  have : a = alt := distinctIds_unique w.2.1 ha hm (by rw [← this, hr])
  subst this; exact hav

theorem wf_alt {alts : List Ty} {alt : Ty} (w : wf (.union alts) = true) (hm : alt ∈ alts) : wf alt = true := by
  rw [wf_union] at w
  exact (wfList_iff _).mp w.2.2 alt hm

theorem cast_sound {S : Sig} {Γ : Ctx} {tid : Nat} {p p' : PExpr} (hs : Sound S Γ p) (h : typecheckCast tid p = .ok p') :
    Sound S Γ p' := by
  unfold typecheckCast at h
  cases hty : p.ty with
  | union alts =>
    simp only [hty] at h
    cases hf : findAltById tid alts with
    | none => simp [hf] at h
    | some alt =>
      simp only [hf] at h
      cases hsum : typeSum alt .null with
      | none => simp [hsum] at h
      | some t =>
        simp only [hsum, Except.ok.injEq] at h
        subst h
        have ⟨hm, hid⟩ := findAltById_spec tid alts alt hf
        have wp := hs.1; rw [hty] at wp
        refine ⟨typeSum_wf hsum (wf_alt wp hm) (by simp [wf]), ?_⟩
        intro hp ρ v he hv
        simp only [coalescePlain] at hp
        simp only [eval] at hv
        cases hav : eval S Γ ρ p with
        | val w =>
          simp only [hav] at hv
          split at hv
          · simp only [Res.val.injEq] at hv; subst hv
            exact (typeSum_null_char hsum .null).mpr (Or.inr rfl)
          · rename_i hr
            simp only [Res.val.injEq] at hv; subst hv
            have hcw := hs.2 hp ρ w he hav
            rw [hty] at hcw
            refine (typeSum_null_char hsum w).mpr (Or.inl (conforms_alt_of_rank wp hm hcw ?_))
            rw [hid]; exact Decidable.of_not_not hr
        | err => simp [hav] at hv
        | panic => simp [hav] at hv
        | unmodelled => simp [hav] at hv
  | _ => simp [hty] at h

end Octo.Tc
