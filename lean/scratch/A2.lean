import Octo.Lemmas.TypingAgg
namespace Octo.Tc
open Octo Octo.Ty Octo.Gen.FuncTable

theorem plain_is_null {a : Ty} (hu : a.isUnion = false) (ha : a.isAny = false) (hid : a.id ≠ 0) : a.is .null = .isnt := by
  cases a <;> simp [isUnion] at hu <;> simp [isAny] at ha <;> simp [Ty.id] at hid <;> rfl

theorem unionFold_isnt (r : Ty → Rel) : ∀ (l : List Ty) (st : Bool × Bool), (∀ a ∈ l, r a = .isnt) →
    (l.foldl (fun st a => unionStep st (r a)) st).1 = st.1
  | [], st, _ => rfl
  | x :: xs, st, h => by
    simp only [List.foldl]
    rw [unionFold_isnt r xs _ (fun a ha => h a (by simp [ha])), h x (by simp)]
    rfl

/-- the non-NULL part of a well-formed type is never "maybe" NULL (so the maybe pass never picks a `TypeFn` aggregate) -/
theorem nonNullable_is_null_ne_maybe {t : Ty} (w : wf t = true) : (nonNullable t).is .null ≠ .maybe := by
  by_cases hu : t.isUnion = true
  · obtain ⟨alts, rfl⟩ := eq_union_of_isUnion hu
    rw [wf_union] at w
    have hp := (altsPlain_iff _).mp w.1
    have hf : ∀ a ∈ alts.filter (fun a => decide (a.id ≠ 0)), a.is .null = .isnt := by
      intro a ha
      have ⟨hm, hid⟩ := List.mem_filter.mp ha
      exact plain_is_null (hp a hm).1 (hp a hm).2 (by simpa using hid)
    simp only [nonNullable]
    split
    · rename_i x hx
      rw [hf x (by rw [hx]; simp)]; simp
    · rw [is_eq]
      simp only [isStep, isAny, Bool.false_eq_true, if_false]
      unfold unionResult
      rw [unionFold_isnt _ _ _ hf]
      simp only [Bool.false_eq_true, if_false]
      split <;> simp
  · have hu' : t.isUnion = false := by simpa using hu
    rw [nonNullable_of_not_union t hu']
    cases t <;> simp [isUnion] at hu' <;> (rw [is_eq]; simp [isStep, isAny, Ty.id])

end Octo.Tc
