import Octo.Lemmas.TypingTy
namespace Octo.Tc
open Octo Octo.Ty

/-- the primitive alternatives of a well-formed type that is not `Any` are plain, and a value of the type is a value
    of one of them -/
theorem prims_of_wf {a : Ty} (wa : wf a = true) (ha : a.isAny = false) :
    (∀ p ∈ prims a, p.isUnion = false ∧ p.isAny = false) ∧
    (∀ v, conforms a v = true → ∃ p ∈ prims a, conforms p v = true) := by
  by_cases hu : a.isUnion = true
  · obtain ⟨alts, rfl⟩ := eq_union_of_isUnion hu
    rw [wf_union] at wa
    have hp := (altsPlain_iff _).mp wa.1
    have hprims : ∀ (l : List Ty), (∀ x ∈ l, x.isUnion = false ∧ x.isAny = false) → primsList l = l := by
      intro l
      induction l with
      | nil => intro _; simp [primsList]
      | cons x xs ih =>
        intro h
        have hx := h x (by simp)
        rw [primsList, ih (fun y hy => h y (by simp [hy]))]
        cases x <;> simp [isUnion] at hx <;> simp [prims]
    simp only [prims, hprims alts hp]
    exact ⟨hp, fun v hv => (conforms_union_iff alts v).mp hv⟩
  · have hu' : a.isUnion = false := by simpa using hu
    have : prims a = [a] := by cases a <;> simp [isUnion] at hu' <;> simp [prims]
    rw [this]
    exact ⟨by simp [hu', ha], fun v hv => ⟨a, by simp, hv⟩⟩

/-- **completeness of `TypeIntersection` for run-time assertions**: a value of the (well-formed) static type `a` whose
    TypeID passes the assertion against a flat target is a value of `TypeIntersection(target, a)` -/
theorem inter_complete {target a c : Ty} {v : Value} (wa : wf a = true) (ha : a.isAny = false)
    (ft : flatTarget target = true) (hv : conforms a v = true) (hr : (targetIds target).contains v.rank = true)
    (h : typeInter target a = some (some c)) : conforms c v = true := by
  unfold typeInter at h
  cases h1 : interLoop a none (prims target) with
  | none => simp [h1] at h
  | some out =>
    simp only [h1] at h
    have ⟨hplain, hmem⟩ := prims_of_wf wa ha
    have ⟨n1, _, _⟩ := interLoop_upper a (prims target) none out
      (fun p hp _ => leaf_noRec (prims_flat ft p hp)) (by intro o ho; cases ho) h1
    have ⟨_, _, r3⟩ := interLoop_upper target (prims a) out (some c)
      (fun p hp hsel => leaf_noRec (leaf_of_is_flat (hplain p hp).1 ft hsel)) (fun o ho => n1 o ho) h
    obtain ⟨p, hp, hpv⟩ := hmem v hv
    have ⟨pu, pa⟩ := hplain p hp
    have hrank := rank_of_conforms_plain pu pa hpv
    -- p is one of the target's leaves
    have hsel : p.is target = .is := by
      by_cases hu : target.isUnion = true
      · obtain ⟨alts, rfl⟩ := eq_union_of_isUnion hu
        simp only [targetIds, List.contains_eq_any_beq, List.any_map, List.any_eq_true, Function.comp, beq_iff_eq] at hr
        obtain ⟨t, ht, hid⟩ := hr
        simp only [flatTarget, List.all_eq_true] at ft
        have : p = t := leaf_eq_of_id (ft t ht) (by rw [← hrank, hid])
        subst this
        exact is_union_of_mem ht
      · have hl : isLeaf target = true := by
          cases target <;> simp [isUnion] at hu <;> simpa [flatTarget] using ft
        have hid : v.rank = target.id := by
          cases target <;> simp [isUnion] at hu <;> simpa [targetIds] using hr
        have : p = target := leaf_eq_of_id hl (by rw [← hrank, hid])
        subst this
        exact Ty.is_refl p
    obtain ⟨r, hr', hpr⟩ := r3 p hp hsel
    cases hr'
    exact Ty.is_sound hpr v hpv

end Octo.Tc
