import Octo.Model.Typing
import Octo.Lemmas.TyTypeOf
import Octo.Lemmas.TyNonNull
import Octo.Lemmas.TyInter
import Octo.Lemmas.TyRecFree
import Octo.Lemmas.TyTypeOfWf
import Octo.Lemmas.TyTotal
namespace Octo.Tc
open Octo Octo.Ty

theorem conforms_null_null : conforms .null .null = true := by simp [conforms]

theorem conforms_null_iff_eq (v : Value) : conforms .null v = true ↔ v = .null := by
  cases v <;> simp [conforms]

/-- a type that `Null.Is` admits NULL as a value -/
theorem conforms_null_of_admits {t : Ty} (h : admitsNull t = true) : conforms t .null = true := by
  simp only [admitsNull, beq_iff_eq] at h
  exact Ty.is_sound h .null conforms_null_null

theorem id0_eq_null {a : Ty} (h : a.id = 0) : a = .null := by
  cases a <;> simp [Ty.id] at h; rfl

/-- … and conversely for well-formed types -/
theorem admits_of_conforms_null {t : Ty} (w : wf t = true) (h : conforms t .null = true) : admitsNull t = true := by
  simp only [admitsNull, beq_iff_eq]
  by_cases hu : t.isUnion = true
  · obtain ⟨alts, rfl⟩ := eq_union_of_isUnion hu
    rw [wf_union] at w
    have hp := (altsPlain_iff _).mp w.1
    simp only [conforms] at h
    obtain ⟨a, ha, hv⟩ := (conformsAny_iff alts .null).mp h
    have := (conforms_null_iff (hp a ha).1 (hp a ha).2).mp hv
    have := id0_eq_null this
    subst this
    exact is_union_of_mem ha
  · by_cases ha : t.isAny = true
    · have := eq_any_of_isAny ha; subst this; decide
    · have := (conforms_null_iff (by simpa using hu) (by simpa using ha)).mp h
      have := id0_eq_null this
      subst this; decide
end Octo.Tc
