import Octo.Lemmas.TypingSound
namespace Octo.Tc
open Octo Octo.Ty

/-! ### argument lists -/

theorem coalescePlainList_iff : ∀ (l : List PExpr), coalescePlainList l = true ↔ ∀ a ∈ l, coalescePlain a = true
  | [] => by simp [coalescePlainList]
  | a :: as => by simp [coalescePlainList, coalescePlainList_iff as]

/-- the argument loop: the values are those of the arguments, so they match the arguments' static types -/
theorem evalArgs_conforms (S : Sig) (Γ : Ctx) (ρ : List (List Value)) (he : EnvConforms Γ ρ) :
    ∀ (args : List PExpr) (vs : List Value), (∀ a ∈ args, Sound S Γ a) → coalescePlainList args = true →
      evalArgs S Γ ρ args = .ok vs → conformsZip (args.map PExpr.ty) vs = true
  | [], vs, _, _, h => by
    simp only [evalArgs, Except.ok.injEq] at h; subst h; simp [conformsZip]
  | a :: as, vs, hs, hp, h => by
    simp only [evalArgs] at h
    simp only [coalescePlainList, Bool.and_eq_true] at hp
    cases ha : eval S Γ ρ a with
    | val v =>
      simp only [ha] at h
      cases hr : evalArgs S Γ ρ as with
      | error r => simp [hr] at h
      | ok ws =>
        simp only [hr, Except.ok.injEq] at h; subst h
        simp only [List.map, conformsZip, Bool.and_eq_true]
        exact ⟨(hs a (by simp)).2 hp.1 ρ v he ha,
          evalArgs_conforms S Γ ρ he as ws (fun b hb => hs b (by simp [hb])) hp.2 hr⟩
    | err => simp [ha] at h
    | panic => simp [ha] at h
    | unmodelled => simp [ha] at h

/-! ### the nullable lifting of strict calls -/

theorem liftNull_spec : ∀ (args : List PExpr) (o t : Ty), liftNull o args = .ok t → wf o = true →
    wf t = true ∧ (∀ v, conforms o v = true → conforms t v = true) ∧
    ((∃ a ∈ args, admitsNull a.ty = true) → conforms t .null = true)
  | [], o, t, h, wo => by
    simp only [liftNull, Except.ok.injEq] at h; subst h
    exact ⟨wo, fun _ hv => hv, by simp⟩
  | a :: as, o, t, h, wo => by
    simp only [liftNull] at h
    by_cases hn : admitsNull a.ty = true
    · simp only [hn, if_true] at h
      cases hs : typeSum o .null with
      | none => simp [hs] at h
      | some o' =>
        simp only [hs] at h
        have wo' := typeSum_wf hs wo (by simp [wf])
        have ⟨w, mono, _⟩ := liftNull_spec as o' t h wo'
        refine ⟨w, fun v hv => mono v ((typeSum_null_char hs v).mpr (Or.inl hv)), fun _ => ?_⟩
        exact mono .null ((typeSum_null_char hs .null).mpr (Or.inr rfl))
    · simp only [hn, Bool.false_eq_true, if_false] at h
      have ⟨w, mono, hnull⟩ := liftNull_spec as o t h wo
      refine ⟨w, mono, ?_⟩
      rintro ⟨b, hb, hbn⟩
      simp only [List.mem_cons] at hb
      rcases hb with rfl | hb
      · exact absurd hbn hn
      · exact hnull ⟨b, hb, hbn⟩

theorem nullHit_exists : ∀ (args : List PExpr) (vs : List Value), nullHit args vs = true → ∃ a ∈ args, admitsNull a.ty = true
  | [], _, h => by simp [nullHit] at h
  | _ :: _, [], h => by simp [nullHit] at h
  | a :: as, v :: vs, h => by
    simp only [nullHit, Bool.or_eq_true, Bool.and_eq_true] at h
    rcases h with h | h
    · exact ⟨a, by simp, h.1⟩
    · obtain ⟨b, hb, hbn⟩ := nullHit_exists as vs h
      exact ⟨b, by simp [hb], hbn⟩

/-! ### how an argument fits a parameter -/

/-- every (non-NULL, for a strict descriptor) value of type `t` is a value of the parameter type `p` -/
def TyFit (strict : Bool) (p t : Ty) : Prop :=
  ∀ v, conforms t v = true → (strict = true → v ≠ .null) → conforms p v = true

def FitAll (strict : Bool) : List Ty → List PExpr → Prop
  | p :: ps, a :: as => TyFit strict p a.ty ∧ FitAll strict ps as
  | [], [] => True
  | _, _ => False

theorem isNullV_iff (v : Value) : isNullV v = true ↔ v = .null := by cases v <;> simp [isNullV]

/-- after the NULL check, the argument values match the parameter types -/
theorem fitAll_conforms (strict : Bool) : ∀ (ps : List Ty) (args : List PExpr) (vs : List Value),
    FitAll strict ps args → (∀ a ∈ args, wf a.ty = true) → conformsZip (args.map PExpr.ty) vs = true →
    (strict = true → nullHit args vs = false) → conformsZip ps vs = true
  | [], [], vs, _, _, hc, _ => by simpa using hc
  | [], _ :: _, _, hf, _, _, _ => by simp [FitAll] at hf
  | _ :: _, [], _, hf, _, _, _ => by simp [FitAll] at hf
  | p :: ps, a :: as, [], _, _, hc, _ => by simp [conformsZip] at hc
  | p :: ps, a :: as, v :: vs, hf, hw, hc, hn => by
    simp only [FitAll] at hf
    simp only [List.map, conformsZip, Bool.and_eq_true] at hc ⊢
    refine ⟨hf.1 v hc.1 ?_, fitAll_conforms strict ps as vs hf.2 (fun b hb => hw b (by simp [hb])) hc.2 ?_⟩
    · intro hs hv
      have := hn hs
      simp only [nullHit, Bool.or_eq_false_iff, Bool.and_eq_false_iff] at this
      subst hv
      have hadm := admits_of_conforms_null (hw a (by simp)) hc.1
      rcases this.1 with h | h
      · rw [hadm] at h; cases h
      · simp [isNullV] at h
    · intro hs
      have := hn hs
      simp only [nullHit, Bool.or_eq_false_iff] at this
      exact this.2

end Octo.Tc
