import Octo.Lemmas.TypingSound
namespace Octo.Tc
open Octo Octo.Ty

/-! ### `->` -/

theorem conformsZip_get : ∀ (ts : List Ty) (xs : List Value) (i : Nat) (t : Ty) (x : Value),
    conformsZip ts xs = true → ts[i]? = some t → xs[i]? = some x → conforms t x = true
  | [], _, _, _, _, _, ht, _ => by simp at ht
  | _ :: _, [], _, _, _, hc, _, _ => by simp [conformsZip] at hc
  | t' :: ts, x' :: xs, 0, t, x, hc, ht, hx => by
    simp only [conformsZip, Bool.and_eq_true] at hc
    simp only [List.getElem?_cons_zero, Option.some.injEq] at ht hx
    subst ht; subst hx; exact hc.1
  | t' :: ts, x' :: xs, i + 1, t, x, hc, ht, hx => by
    simp only [conformsZip, Bool.and_eq_true] at hc
    simp only [List.getElem?_cons_succ] at ht hx
    exact conformsZip_get ts xs i t x hc.2 ht hx

theorem id8_struct {s : Ty} (h : s.id = 8) : ∃ ns ts, s = .struct ns ts := by
  cases s <;> simp [Ty.id] at h
  exact ⟨_, _, rfl⟩

theorem nonNullable_struct_null (s : Ty) (hs : s.id = 8) : nonNullable (.union [s, .null]) = s := by
  obtain ⟨ns, ts, rfl⟩ := id8_struct hs
  simp [nonNullable, Ty.id]

/-- `TypecheckPossiblyNullableStruct` -/
theorem possiblyNullableStruct_sound {S : Sig} {Γ : Ctx} {p obj : PExpr} (hs : Sound S Γ p)
    (h : possiblyNullableStruct p = .ok obj) : Sound S Γ obj := by
  unfold possiblyNullableStruct at h
  cases hnn : nonNullable p.ty with
  | struct ns ts => simp only [hnn, Except.ok.injEq] at h; subst h; exact hs
  | union alts =>
    simp only [hnn] at h
    cases hf : findAltById 8 alts with
    | none => simp [hf] at h
    | some s =>
      simp only [hf, Except.ok.injEq] at h
      subst h
      have ⟨hm, hid⟩ := findAltById_spec 8 alts s hf
      have wnn : wf (.union alts) = true := by rw [← hnn]; exact nonNullable_wf hs.1
      have ws := wf_alt wnn hm
      obtain ⟨ns, ts, rfl⟩ := id8_struct hid
      have wU : wf (.union [.struct ns ts, .null]) = true := by
        rw [wf_union]
        refine ⟨by simp [altsPlain, isUnion, isAny], by simp [distinctIds, Ty.id], ?_⟩
        rw [wfList_iff]; intro a ha
        simp only [List.mem_cons, List.not_mem_nil, or_false] at ha
        rcases ha with rfl | rfl
        · exact ws
        · simp [wf]
      refine ⟨wU, ?_⟩
      intro hp ρ v he hv
      simp only [coalescePlain] at hp
      simp only [eval] at hv
      cases hav : eval S Γ ρ p with
      | val w =>
        simp only [hav] at hv
        split at hv
        · rename_i hr
          simp only [Res.val.injEq] at hv; subst hv
          simp only [PExpr.ty]
          rw [conforms_union_iff]
          have hcw := hs.2 hp ρ w he hav
          simp only [targetIds, List.map, Ty.id, List.contains_cons, List.contains_nil, Bool.or_false, Bool.or_eq_true,
            beq_iff_eq] at hr
          rcases hr with hr | hr
          · -- an object: it is a value of the object alternative
            have hne : w ≠ .null := by rintro rfl; simp [Value.rank] at hr
            have hc' := nonNullable_conforms_of_wf hs.1 hcw hne
            rw [hnn] at hc'
            exact ⟨_, by simp, conforms_alt_of_rank wnn hm hc' (by simpa [Ty.id] using hr)⟩
          · have : w = .null := by cases w <;> simp [Value.rank] at hr; rfl
            subst this
            exact ⟨.null, by simp, by simp [conforms]⟩
        · cases hv
      | err => simp [hav] at hv
      | panic => simp [hav] at hv
      | unmodelled => simp [hav] at hv
  | _ => simp [hnn] at h

theorem fieldIndex_lt (n : Name) : ∀ (ns : List Name) (i : Nat), fieldIndex n ns = some i → i < ns.length
  | [], _, h => by simp [fieldIndex] at h
  | m :: ms, i, h => by
    simp only [fieldIndex] at h
    by_cases hm : m = n
    · simp only [hm, if_true, Option.some.injEq] at h; subst h; simp
    · simp only [hm, if_false, Option.map_eq_some_iff] at h
      obtain ⟨j, hj, rfl⟩ := h
      have := fieldIndex_lt n ms j hj
      simp; omega

/-- `ObjectFieldAccess.Typecheck` + `Materialize` + `Evaluate` -/
theorem field_sound {S : Sig} {Γ : Ctx} {name : Name} {obj p : PExpr} (hs : Sound S Γ obj)
    (h : typecheckField name obj = .ok p) : Sound S Γ p := by
  unfold typecheckField at h
  cases hnn : nonNullable obj.ty with
  | struct ns ts =>
    simp only [hnn] at h
    cases hfi : fieldIndex name ns with
    | none => simp [hfi] at h
    | some i =>
      simp only [hfi] at h
      cases hft : ts[i]? with
      | none => simp [hft] at h
      | some ft =>
        simp only [hft] at h
        have wnn : wf (.struct ns ts) = true := by rw [← hnn]; exact nonNullable_wf hs.1
        have wft : wf ft = true := by
          rw [wf_struct] at wnn
          exact (wfList_iff _).mp wnn.2.2 ft (List.mem_of_getElem? hft)
        -- what evaluation yields, independent of the two typing cases
        have hval : ∀ ρ v, coalescePlain obj = true → EnvConforms Γ ρ →
            (match eval S Γ ρ obj with
              | .val .null => Res.val .null
              | .val (.struct xs) =>
                (match xs[((fieldIndex name (fieldNames obj.ty)).getD 0)]? with
                  | some x => .val x
                  | none => .panic)
              | .val _ => .panic
              | r => r) = .val v →
            (v = .null ∧ conforms obj.ty .null = true) ∨ conforms ft v = true := by
          intro ρ v hp he hv
          cases hav : eval S Γ ρ obj with
          | val w =>
            have hcw := hs.2 hp ρ w he hav
            rw [hav] at hv
            cases w with
            | null => simp only [Res.val.injEq] at hv; subst hv; exact Or.inl ⟨rfl, hcw⟩
            | struct xs =>
              simp only [fieldNames, hnn, hfi, Option.getD_some] at hv
              cases hx : xs[i]? with
              | none => simp [hx] at hv
              | some x =>
                simp only [hx, Res.val.injEq] at hv; subst hv
                have hc' := nonNullable_conforms_of_wf hs.1 hcw (by simp)
                rw [hnn] at hc'
                simp only [conforms] at hc'
                exact Or.inr (conformsZip_get ts xs i ft x hc' hft hx)
            | _ => simp at hv
          | err => rw [hav] at hv; simp at hv
          | panic => rw [hav] at hv; simp at hv
          | unmodelled => rw [hav] at hv; simp at hv
        by_cases hst : isStructTy obj.ty = true
        · simp only [hst, if_true, Except.ok.injEq] at h
          subst h
          refine ⟨wft, ?_⟩
          intro hp ρ v he hv
          simp only [coalescePlain] at hp
          simp only [eval] at hv
          rcases hval ρ v hp he hv with ⟨_, hn⟩ | hc
          · -- an object type has no NULL value
            cases hot : obj.ty <;> simp [hot, isStructTy] at hst
            rw [hot] at hn; simp [conforms] at hn
          · exact hc
        · simp only [hst, Bool.false_eq_true, if_false] at h
          cases hsum : typeSum ft .null with
          | none => simp [hsum] at h
          | some t =>
            simp only [hsum, Except.ok.injEq] at h
            subst h
            refine ⟨typeSum_wf hsum wft (by simp [wf]), ?_⟩
            intro hp ρ v he hv
            simp only [coalescePlain] at hp
            simp only [eval] at hv
            rcases hval ρ v hp he hv with ⟨rfl, _⟩ | hc
            · exact (typeSum_null_char hsum .null).mpr (Or.inr rfl)
            · exact (typeSum_null_char hsum v).mpr (Or.inl hc)
  | _ => simp [hnn] at h

end Octo.Tc
