import Octo.Lemmas.TypingTableOk
namespace Octo.C08
open Octo Octo.Ty Octo.Tc Octo.Gen.FuncTable
set_option maxRecDepth 200000 in
theorem typeFn_probes_agree : probes.all probeOk = true := by decide
theorem aggTypeFn_probes_agree : aggProbes.all aggProbeOk = true := by decide
end Octo.C08
