import Octo.Lemmas.TypingTy
namespace Octo.Tc
open Octo Octo.Ty

/-- `Null.Is(…) / TypeSum(Null, e)`: exactly NULL and the values of `e` -/
theorem nullSum_char (n : Nat) (e c : Ty) (h : typeSumF (n + 2) .null e = some c) (v : Value) :
    conforms c v = true ↔ (v = .null ∨ conforms e v = true) := by
  rw [typeSumF] at h
  unfold typeSumStep at h
  by_cases h1 : Ty.null.is e = .is
  · rw [if_pos h1] at h; cases h
    constructor
    · intro hv; exact Or.inr hv
    · rintro (hv | hv)
      · subst hv; exact Ty.is_sound h1 .null (by simp [conforms])
      · exact hv
  rw [if_neg h1] at h
  by_cases h2 : e.is .null = .is
  · rw [if_pos h2] at h; cases h
    rw [conforms_null_iff_eq]
    constructor
    · intro hv; exact Or.inl hv
    · rintro (hv | hv)
      · exact hv
      · exact (conforms_null_iff_eq v).mp (Ty.is_sound h2 v hv)
  rw [if_neg h2] at h
  split at h
  all_goals try contradiction
  · -- `t1, .union alts2 => self (.union alts2) t1`
    rw [sumNull_char n _ c h v]; exact Or.comm
  · cases h
    rw [conforms_union_iff]
    constructor
    · rintro ⟨a, ha, hv⟩
      rw [mem_sortById] at ha
      simp only [List.mem_cons, List.not_mem_nil, or_false] at ha
      rcases ha with rfl | rfl
      · exact Or.inl ((conforms_null_iff_eq v).mp hv)
      · exact Or.inr hv
    · rintro (hv | hv)
      · exact ⟨.null, by rw [mem_sortById]; simp, (conforms_null_iff_eq v).mpr hv⟩
      · exact ⟨_, by rw [mem_sortById]; simp, hv⟩

theorem sumFuel_ge (a b : Ty) : ∃ n, sumFuel a b = n + 2 := ⟨2 * (a.size + b.size) + 6, by simp [sumFuel]⟩

theorem typeSum_null_char {t c : Ty} (h : typeSum t .null = some c) (v : Value) :
    conforms c v = true ↔ (conforms t v = true ∨ v = .null) := by
  obtain ⟨n, hn⟩ := sumFuel_ge t .null
  rw [typeSum, hn] at h
  exact sumNull_char (n + 1) t c h v

theorem typeSum_null_l_char {e c : Ty} (h : typeSum .null e = some c) (v : Value) :
    conforms c v = true ↔ (v = .null ∨ conforms e v = true) := by
  obtain ⟨n, hn⟩ := sumFuel_ge .null e
  rw [typeSum, hn] at h
  exact nullSum_char n e c h v

theorem typeSum_wf {a b c : Ty} (h : typeSum a b = some c) (wa : wf a = true) (wb : wf b = true) : wf c = true :=
  (wfFor_typeSum a b c h wa wb).1

theorem admits_typeSum_null {t c : Ty} (h : typeSum t .null = some c) (w : wf t = true) : admitsNull c = true :=
  admits_of_conforms_null (typeSum_wf h w (by simp [wf])) ((typeSum_null_char h .null).mpr (Or.inr rfl))

/-! ### NonNullable -/

theorem nonNullable_conforms_of_wf {t : Ty} (w : wf t = true) {v : Value} (hv : conforms t v = true) (hn : v ≠ .null) :
    conforms (nonNullable t) v = true := by
  by_cases hu : t.isUnion = true
  · obtain ⟨alts, rfl⟩ := eq_union_of_isUnion hu
    rw [wf_union] at w
    exact (nonNullable_conforms alts ((altsPlain_iff _).mp w.1) v).mpr ⟨hv, hn⟩
  · rw [nonNullable_of_not_union t (by simpa using hu)]; exact hv

theorem distinctIds_filter (p : Ty → Bool) : ∀ (l : List Ty), distinctIds l = true → distinctIds (l.filter p) = true
  | [], _ => by simp [distinctIds]
  | a :: as, h => by
    rw [distinctIds_cons] at h
    simp only [List.filter]
    split
    · rw [distinctIds_cons]
      exact ⟨fun b hb => h.1 b (List.mem_filter.mp hb).1, distinctIds_filter p as h.2⟩
    · exact distinctIds_filter p as h.2

theorem nonNullable_wf {t : Ty} (w : wf t = true) : wf (nonNullable t) = true := by
  by_cases hu : t.isUnion = true
  · obtain ⟨alts, rfl⟩ := eq_union_of_isUnion hu
    have w' := w
    rw [wf_union] at w
    have hp := (altsPlain_iff _).mp w.1
    have hw := (wfList_iff _).mp w.2.2
    simp only [nonNullable]
    split
    · rename_i x hx
      have : x ∈ alts.filter (fun a => decide (a.id ≠ 0)) := by rw [hx]; simp
      exact hw x (List.mem_filter.mp this).1
    · rw [wf_union]
      refine ⟨(altsPlain_iff _).mpr (fun a ha => hp a (List.mem_filter.mp ha).1), distinctIds_filter _ _ w.2.1,
        (wfList_iff _).mpr (fun a ha => hw a (List.mem_filter.mp ha).1)⟩
  · rw [nonNullable_of_not_union t (by simpa using hu)]; exact w

end Octo.Tc
