import Octo.Lemmas.TypingSound
namespace Octo.Tc
open Octo Octo.Ty

/-- the type an argument is matched with: `NonNullable` for a strict descriptor -/
def viewTy (strict : Bool) (t : Ty) : Ty := if strict then nonNullable t else t

theorem view_eq (d : Descr) (args : List PExpr) :
    view d (args.map PExpr.ty) ((args.map PExpr.ty).map nonNullable) = args.map (fun a => viewTy d.strict a.ty) := by
  unfold view viewTy
  cases d.strict <;> simp [List.map_map, Function.comp_def]

theorem tyFit_of_is {strict : Bool} {p t : Ty} (wt : wf t = true) (h : (viewTy strict t).is p = .is) : TyFit strict p t := by
  intro v hv hn
  cases strict with
  | false => exact Ty.is_sound h v hv
  | true => exact Ty.is_sound h v (nonNullable_conforms_of_wf wt hv (hn rfl))

theorem tyFit_view {strict : Bool} {t : Ty} (wt : wf t = true) : TyFit strict (viewTy strict t) t :=
  tyFit_of_is wt (Ty.is_refl _)

theorem fitAll_of_fitsAll (strict : Bool) : ∀ (ps : List Ty) (args : List PExpr), (∀ a ∈ args, wf a.ty = true) →
    (args.map (fun a => viewTy strict a.ty)).length = ps.length →
    fitsAll (args.map (fun a => viewTy strict a.ty)) ps = true → FitAll strict ps args
  | [], [], _, _, _ => by simp [FitAll]
  | [], _ :: _, _, hl, _ => by simp at hl
  | _ :: _, [], _, hl, _ => by simp at hl
  | p :: ps, a :: as, hw, hl, hf => by
    simp only [List.map, fitsAll, Bool.and_eq_true, beq_iff_eq] at hf
    simp only [FitAll]
    exact ⟨tyFit_of_is (hw a (by simp)) hf.1,
      fitAll_of_fitsAll strict ps as (fun b hb => hw b (by simp [hb])) (by simpa using hl) hf.2⟩

theorem fitAll_view (strict : Bool) : ∀ (args : List PExpr), (∀ a ∈ args, wf a.ty = true) →
    FitAll strict (args.map (fun a => viewTy strict a.ty)) args
  | [], _ => by simp [FitAll]
  | a :: as, hw => by
    simp only [List.map, FitAll]
    exact ⟨tyFit_view (hw a (by simp)), fitAll_view strict as (fun b hb => hw b (by simp [hb]))⟩

/-- the loop that inserts the assertions: every resulting argument is sound and fits its parameter -/
theorem wrapArgs_spec {S : Sig} {Γ : Ctx} (strict : Bool) : ∀ (ps : List Ty) (args args' : List PExpr),
    (∀ a ∈ args, Sound S Γ a) → (∀ p ∈ ps, paramOk p = true) →
    (args.map (fun a => viewTy strict a.ty)).length = ps.length →
    anyIsnt (args.map (fun a => viewTy strict a.ty)) ps = false →
    wrapArgs strict (args.map (fun a => viewTy strict a.ty)) ps args = .ok args' →
    (∀ a ∈ args', Sound S Γ a) ∧ FitAll strict ps args'
  | [], [], args', _, _, _, _, h => by
    simp only [List.map, wrapArgs, Except.ok.injEq] at h; subst h; simp [FitAll]
  | [], _ :: _, _, _, _, hl, _, _ => by simp at hl
  | _ :: _, [], _, _, _, hl, _, _ => by simp at hl
  | p :: ps, a :: as, args', hs, hp, hl, hn, h => by
    simp only [List.map, anyIsnt, Bool.or_eq_false_iff, beq_eq_false_iff_ne] at hn
    simp only [List.map, wrapArgs] at h
    have hsa := hs a (by simp)
    have hsas : ∀ b ∈ as, Sound S Γ b := fun b hb => hs b (by simp [hb])
    have hpp := hp p (by simp)
    have hpps : ∀ q ∈ ps, paramOk q = true := fun q hq => hp q (by simp [hq])
    have hl' : (as.map (fun a => viewTy strict a.ty)).length = ps.length := by simpa using hl
    by_cases hm : (viewTy strict a.ty).is p = .maybe
    · simp only [hm, beq_self_eq_true, if_true] at h
      -- the parameter is a scalar (x.is Any is never Maybe), the argument's type is not Any
      have hpa : p.isAny = false := by
        cases p <;> simp [isAny]
        simp at hm
      have haa : a.ty.isAny = false := by
        cases hta : a.ty <;> simp [isAny]
        rw [hta] at hm
        have : viewTy strict .any = .any := by unfold viewTy; cases strict <;> simp [nonNullable]
        rw [this, any_isnt_param hpp hpa] at hm
        cases hm
      have ⟨f1, f2, w1, w2⟩ := param_flat hpp hpa
      cases has : assertion strict p a with
      | error e => simp [has] at h
      | ok a' =>
        cases hws : wrapArgs strict (as.map (fun a => viewTy strict a.ty)) ps as with
        | error e => simp [has, hws] at h
        | ok as' =>
          simp only [has, hws, Except.ok.injEq] at h
          subst h
          have ⟨r1, r2⟩ := wrapArgs_spec strict ps as as' hsas hpps hl' hn.2 hws
          -- the assertion
          unfold assertion at has
          have key : ∀ target, wf target = true → flatTarget target = true →
              (∀ v, conforms target v = true → (strict = true → v ≠ .null) → conforms p v = true) →
              (match typeInter target a.ty with
                | none => Except.error TcErr.fuel
                | some none => .error .crash
                | some (some t) => .ok (PExpr.assert t target a)) = .ok a' →
              Sound S Γ a' ∧ TyFit strict p a'.ty := by
            intro target wt ft hfit hm'
            cases hi : typeInter target a.ty with
            | none => simp [hi] at hm'
            | some oi =>
              cases oi with
              | none => simp [hi] at hm'
              | some t =>
                simp only [hi, Except.ok.injEq] at hm'
                subst hm'
                refine ⟨assert_sound hsa wt ft haa hi, ?_⟩
                intro v hv hnn
                exact hfit v (Ty.is_sound (assert_below wt hsa.1 hi) v hv) hnn
          cases strict with
          | true =>
            simp only [if_true, param_scalar_sumNull hpp hpa] at has
            have ⟨k1, k2⟩ := key (.union [.null, p]) w2 f2 (by
              intro v hv hnn
              rw [conforms_union_iff] at hv
              obtain ⟨x, hx, hxv⟩ := hv
              simp only [List.mem_cons, List.not_mem_nil, or_false] at hx
              rcases hx with rfl | rfl
              · exact absurd ((conforms_null_iff_eq v).mp hxv) (hnn rfl)
              · exact hxv) has
            refine ⟨?_, ?_⟩
            · intro b hb
              simp only [List.mem_cons] at hb
              rcases hb with rfl | hb
              · exact k1
              · exact r1 b hb
            · simp only [FitAll]; exact ⟨k2, r2⟩
          | false =>
            simp only [Bool.false_eq_true, if_false] at has
            have ⟨k1, k2⟩ := key p w1 f1 (fun v hv _ => hv) has
            refine ⟨?_, ?_⟩
            · intro b hb
              simp only [List.mem_cons] at hb
              rcases hb with rfl | hb
              · exact k1
              · exact r1 b hb
            · simp only [FitAll]; exact ⟨k2, r2⟩
    · have hbeq : ((viewTy strict a.ty).is p == Rel.maybe) = false := by simpa using hm
      simp only [hbeq, Bool.false_eq_true, if_false] at h
      cases hws : wrapArgs strict (as.map (fun a => viewTy strict a.ty)) ps as with
      | error e => simp [hws] at h
      | ok as' =>
        simp only [hws, Except.ok.injEq] at h
        subst h
        have ⟨r1, r2⟩ := wrapArgs_spec strict ps as as' hsas hpps hl' hn.2 hws
        have his : (viewTy strict a.ty).is p = .is := by
          cases hr : (viewTy strict a.ty).is p with
          | is => rfl
          | maybe => exact absurd hr hm
          | isnt => exact absurd hr hn.1
        refine ⟨?_, ?_⟩
        · intro b hb
          simp only [List.mem_cons] at hb
          rcases hb with rfl | hb
          · exact hsa
          · exact r1 b hb
        · simp only [FitAll]; exact ⟨tyFit_of_is hsa.1 his, r2⟩

end Octo.Tc
