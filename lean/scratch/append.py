import sys
src, dst = sys.argv[1], sys.argv[2]
s=open(src).read()
i=s.index('open Octo Octo.Ty\n')+len('open Octo Octo.Ty\n')
j=s.rindex('end Octo.Tc')
t=open(dst).read()
k=t.rindex('end Octo.Tc')
open(dst,'w').write(t[:k]+s[i:j]+'end Octo.Tc\n')
