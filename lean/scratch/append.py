import sys, re
src, dst = sys.argv[1], sys.argv[2]
s=open(src).read()
m=re.search(r'^open Octo.*\n', s, re.M)
i=m.end()
j=s.rindex('end Octo.Tc')
t=open(dst).read()
k=t.rindex('end Octo.Tc')
open(dst,'w').write(t[:k]+s[i:j]+'end Octo.Tc\n')
