"""C24 — File datasources produce values that match their inferred schema."""


def _nontrivial(op, out):
    t = op.split(" ", 1)
    if t[0] in ("json", "csv"):
        return out.startswith("ok") and " ;" in out or out.startswith("err:run")
    if t[0] == "ints":
        return out != "- -"
    return False


PROP = dict(
    lean_modules=["Octo.Props.C24"],
    required_theorems=[],
    nontrivial=_nontrivial,
    rule="TODO",
    exhaustive=dict(quick=False, thorough=False),
    assumptions=[],
    trusted=["Go compiler and runtime"],
    level_text="TODO",
    level_note="TODO",
    technique="Lean 4 proof + model/implementation correspondence",
    design_ref="DESIGN.md §3 C24",
)
