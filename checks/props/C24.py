"""C24 — File datasources produce values that match their inferred schema."""


def _nontrivial(op, out):
    t = op.split(" ", 1)
    if t[0] in ("json", "csv"):
        # a run that produced records, or one that reported a mismatch as an error
        return (out.startswith("ok") and " ;" in out) or out.startswith("err:run")
    if t[0] == "ints":
        return out != "- -"
    if t[0] == "bools":
        return out != "-"
    return False


PROP = dict(
    lean_modules=["Octo.Props.C24"],
    required_theorems=["Octo.C24.int_parsers", "Octo.C24.csv_cell_conforms", "Octo.C24.csv_error_iff_unrepresentable",
                       "Octo.C24.csv_conforms", "Octo.C24.csv_preview_no_error", "Octo.C24.json_record_conforms",
                       "Octo.C24.json_value_conforms", "Octo.C24.json_error_iff_unrepresentable", "Octo.C24.json_typesum_accepts",
                       "Octo.C24.json_type_accepts_value", "Octo.C24.json_preview_no_error", "Octo.C24.csv_raw_refuted",
                       "Octo.C24.json_raw_refuted", "Octo.C24.C24_full", "Octo.C24.C24_shipped_refuted"],
    nontrivial=_nontrivial,
    rule="`ints`/`bools`: strconv.ParseInt, fastfloat.ParseInt64 and strconv.ParseBool on boundary strings (signs, 18/19/20 "
         "digits, MinInt64/MaxInt64 and neighbours, leading zeros, stray characters, non-ASCII digits) and random digit strings; "
         "`csv`: files whose columns mix value kinds (empty, ints incl. +5/007, floats incl. .5 5. +1.5 0x1p3 inf nan 1e400, "
         "bools, RFC3339 times, strings, odd tokens) with the 100-row preview straddled (99,100,101,102,150 rows), late rows "
         "bringing kinds the column has not shown, and for every (preview kind, late kind) pair a 101-row single-column file; "
         "`json`: files over random column profiles (nested objects/arrays, nullable, unions), late rows with foreign kinds / "
         "extra / missing keys, and for every (preview value shape, late value shape) pair a 101-row file. The real Creator + "
         "Run are executed in-process; the oracle checks every produced value against the reported column type (conforms), that "
         "it is the row's value, and that an error is reported only when some row cannot be represented. non-trivial = a run "
         "that produced records or reported a mismatch; a parser line on an accepted string",
    exhaustive=dict(quick=False, thorough=False),
    assumptions=[
        "strconv.ParseFloat, fastfloat.Parse and time.Parse(RFC3339Nano) are oracles: each generated cell/string carries their answers "
        "(computed by the generator with the same library functions); theorems quantify over all oracles",
        "csv_preview_no_error assumes every text strconv.ParseInt accepts is accepted by strconv.ParseFloat or fastfloat.Parse "
        "(a column of ints is widened to Float by the first float)",
        "json_preview_no_error assumes well-formed documents: object keys are distinct within one JSON object (fastjson's Get "
        "returns the first match and sort.Slice is not stable)",
        "encoding/csv and fastjson are trusted libraries",
    ],
    trusted=["Go compiler and runtime", "strconv.ParseFloat, fastfloat.Parse, time.Parse (oracles), encoding/csv, fastjson"],
    level_text="Lean theorems: every value the CSV cascade produces matches the column type, for every row incl. beyond the "
               "preview, every column type and all parser oracles (csv_cell_conforms, csv_conforms); it errors exactly when no "
               "alternative of the type accepts the cell (csv_error_iff_unrepresentable); files of at most 100 rows are read "
               "without error (csv_preview_no_error); fastfloat.ParseInt64 = strconv.ParseInt except on a leading '+' (int_parsers, "
               "both modelled exactly); every value getOctoSQLValue accepts matches its (arbitrarily nested) type and ok is exactly "
               "'representable' (json_value_conforms, json_error_iff_unrepresentable); TypeSum of JSON-shaped types accepts every "
               "document either operand accepts, incl. merges of object types with different key sets (json_typesum_accepts), hence "
               "the schema inferred from <= 100 rows accepts every one of them (json_preview_no_error). Tie: exact differential run of the real "
               "csv/json Creator+Run against the Lean model on generated files.",
    level_note="Trusted: Lean kernel; axioms propext, Classical.choice, Quot.sound; the correspondence harness; float/time parsers as "
               "oracles. The shipped code violated the property (rows beyond the preview, '+5', ok ignored, missing keys not "
               "nullable, nil element type crash): C24_shipped_refuted; repaired by fix: commits. Known: a key first seen after "
               "the preview is dropped.",
    technique="Lean 4 proof (induction over types and rows) + model/implementation correspondence",
    design_ref="DESIGN.md §3 C24",
)
