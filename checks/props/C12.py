"""C12 — String and pattern functions meet their specification."""

_SPECIAL = b"%_\\.*+?|()[]{}^$\n"


def _nontrivial(op, out):
    t = op.split(" ")
    try:
        if t[0] == "like":
            # a well-formed pattern that contains a wildcard, an escape, a regexp metacharacter or a non-ASCII byte
            p = bytes.fromhex(t[2][1:])
            return out != "err" and any(c in _SPECIAL or c >= 0x80 for c in p)
        if t[0] in ("tilde", "tildei"):
            return not out.startswith("err")
        if t[0] in ("reverse", "upper", "lower"):
            return len(bytes.fromhex(t[1][1:])) >= 2
        if t[0] in ("replace", "position"):
            return len(t[2]) > 1          # non-empty needle
    except (ValueError, IndexError):
        return False
    return True


PROP = dict(
    lean_modules=["Octo.Props.C12"],
    required_theorems=["Octo.C12.len_spec", "Octo.C12.substr_spec", "Octo.C12.substr_total", "Octo.C12.position_spec",
                       "Octo.C12.replace_spec", "Octo.C12.replace_unique", "Octo.C12.replace_empty_spec", "Octo.C12.like_literal_is_equality", "Octo.C12.reverse_spec", "Octo.C12.reverse_chars",
                       "Octo.C12.utf8_roundtrip", "Octo.C12.upper_ascii_spec", "Octo.C12.lower_ascii_spec",
                       "Octo.C12.re_accepts_iff_lang", "Octo.C12.likeSpec_meaning", "Octo.C12.like_error_iff",
                       "Octo.C12.like_spec", "Octo.C12.like_spec_bytes", "Octo.C12.tilde_spec", "Octo.C12.tildeStar_spec",
                       "Octo.C12.source_needsEscaping", "Octo.C12.source_texts",
                       "Octo.C12.C12_full", "Octo.C12.raw_refuted"],
    gen=["likeescapes"],   # translator: needsEscaping set, prefix/suffix text, LIKE specials from functions.go's AST
    nontrivial=_nontrivial,
    # the model is silent (`nomodel`) where a trusted library decides: non-ASCII upper/lower, regexps outside the mini language
    corr_skip=lambda op, impl, model: model == "nomodel",
    rule="ops call the real descriptors of functions.FunctionMap(). EXHAUSTIVE part: `like s p` on ALL 361 201 pairs (p, s) with |p| <= 2 and "
         "|s| <= 2 symbols of the 24-symbol alphabet {a A b % _ \\ . * + ? | ( ) [ ] { } ^ $ \\n é ż 😀 0xff} (thorough: also a seeded half of |p| = 3 x |s| <= 1 and a "
         "seeded 48th of |p| = 3 x |s| <= 3 over 8 subject symbols); `tilde`/`tildei` on all <= 2-symbol patterns x 24 subjects (quick: a third of the "
         "2-symbol ones); reverse/len on all words of <= 2 (thorough 3) symbols, every single byte, every byte after each multi-byte lead; replace/position "
         "on all haystacks <= 3 (thorough 4) x needles <= 2 over {a b é 0xff} and all {a,b}-words of length <= 6 with overlapping needles; substr on "
         "edge integers (MinInt64..MaxInt64) and every offset/length in -2..len+2. RANDOM part: longer LIKE pattern/subject pairs built to match or just miss "
         "(incl. malformed escapes, malformed UTF-8), generated regexps, random malformed UTF-8 for the unary functions, random replace/position/substr. "
         "The LIKE regexp text (verif hook) is compared exactly with the model's. non-trivial = like line with a well-formed pattern containing a "
         "wildcard/escape/metacharacter/non-ASCII byte; ~ line whose pattern compiles; unary line with >= 2 bytes; replace/position with a non-empty needle",
    exhaustive=dict(quick=True, thorough=True),
    assumptions=[
        "Go's regexp engine agrees with the mini regular-expression semantics Octo.Rx on the sub-language LIKE emits "
        "(hypothesis ReAgrees of like_spec_bytes; sampled on every run: the real engine's result is compared with Pat.search)",
        "`~`/`~*`: the regexp engine is a parameter; `~*` is that engine on \"(?i)\"+pattern (checked against regexp.Compile(\"(?i)\"+p) directly)",
        "strings.ToUpper/ToLower are modelled on ASCII only; elsewhere the check demands equality with the library call",
        "strings.Index / strings.Replace are modelled by their documented algorithm (first occurrence; left-to-right non-overlapping) and tied by the correspondence run",
        "the ristretto regexp caches are transparent (key = pattern)",
        "integer arguments lie in the int64 range",
    ],
    trusted=["Go compiler and runtime", "Go regexp engine, unicode case tables, strings.Index/Replace (sampled against the model)"],
    level_text="Lean theorems, for strings of any length incl. malformed UTF-8: reverse = reversed characters (with a proved UTF-8 "
               "decode/encode round trip mirroring unicode/utf8), substr = drop/take and never panics, position = first occurrence or NULL, "
               "replace = the unique left-to-right non-overlapping replacement, len, ASCII upper/lower; LIKE: the regexp text built by the "
               "translation loop, read by a regexp-syntax parser into a regular expression whose derivative matcher is proved equal to the "
               "textbook language semantics, matches exactly the strings the direct recursive LIKE matcher accepts, for ALL patterns and strings "
               "(Octo.C12.like_spec, like_spec_bytes, C12_full). The models are tied to functions.go by an exact differential run.",
    level_note="Trusted: Lean kernel; axioms propext, Classical.choice, Quot.sound; the correspondence harness; Go runtime; Go's regexp engine "
               "(parameter `engine`, hypothesis ReAgrees, sampled), unicode case tables outside ASCII, ristretto cache. ~ and ~* are "
               "'the engine on the pattern' by construction; the property for them is checked against regexp directly.",
    technique="Lean 4 proof (induction on strings/patterns, Brzozowski derivatives vs language semantics) + model/implementation correspondence",
    design_ref="DESIGN.md §3 C12",
)
