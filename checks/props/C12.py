"""C12 — String and pattern functions meet their specification."""


def _nontrivial(op, out):
    t = op.split(" ")
    if t[0] == "like":
        # a well-formed pattern containing a wildcard, an escape or a regexp metacharacter
        try:
            p = bytes.fromhex(t[2][1:])
        except ValueError:
            return False
        return out != "err" and any(c in p for c in b"%_\\.*+?|()[]{}^$\n")
    if t[0] in ("tilde", "tildei"):
        return not out.startswith("err")
    return True


PROP = dict(
    lean_modules=["Octo.Props.C12"],
    required_theorems=["Octo.C12.C12_full"],
    nontrivial=_nontrivial,
    corr_skip=lambda op, impl, model: model == "nomodel",
    rule="TODO",
    exhaustive=dict(quick=False, thorough=False),
    assumptions=[],
    trusted=["Go compiler and runtime"],
    level_text="TODO",
    level_note="TODO",
    technique="Lean 4 proof + model/implementation correspondence",
    design_ref="DESIGN.md §3 C12",
)
