"""C13 — Numeric, time and conversion functions meet their specification."""


def _nontrivial(op, out):
    # an op whose result the specification fixes exactly and that was actually computed: not a TypeID-only line
    # (unmodelled float / library arithmetic), not the descriptor-table dump, not a call the type checker rejects
    k = op.split(" ", 1)[0]
    if k in ("fnty", "evalfnty", "table"):
        return False
    return out != "panic"


def _corr_skip(op, impl, model):
    # float(String): Float or NULL is decided by strconv.ParseFloat, which is not modelled
    if op.startswith("fnty float 2 ") or op.startswith("evalfnty float "):
        return impl in ("ty 0", "ty 2") and model in ("ty 0", "ty 2")
    return False


PROP = dict(
    lean_modules=["Octo.Props.C13"],
    required_theorems=[
        "Octo.C13.add_wraps", "Octo.C13.sub_wraps", "Octo.C13.mul_wraps", "Octo.C13.neg_wraps", "Octo.C13.div_truncates",
        "Octo.C13.div_min_neg_one", "Octo.C13.time_roundtrip", "Octo.C13.time_add_exact", "Octo.C13.parseInt_spec",
        "Octo.C13.parseInt_format", "Octo.C13.in_spec", "Octo.C13.index_spec", "Octo.C13.fn_meets_spec",
        "Octo.C13.fn_never_panics", "Octo.C13.fixLayout_relayout", "Octo.C13.coalesce_first_non_null",
        "Octo.C13.resolve_one_assertion", "Octo.C13.C13_full", "Octo.C13.C13_shipped_refuted"],
    nontrivial=_nontrivial,
    corr_skip=_corr_skip,
    rule="ops: `fn <descriptor> <overload> args` calls FunctionMap()[name].Descriptors[i].Function in-process on the full "
         "29x29 grid of int64 boundary values (MinInt64, +-1, 0, +-2^31/2^32/2^62, sqrt(2^63) neighbours, the "
         "unixToInternal wrap points, MaxInt64) for every binary Int/Duration operator plus random int64s, boundary times "
         "(time.Unix of any int64 second), unparsable / boundary decimal strings (2^63, 2^64 and neighbours, signs, "
         "underscores, non-ASCII digits), edge floats (NaN payloads, +-0, +-Inf, denormals), random nested values for "
         "in / not in / [] / len / string(); `rt`, `itos` the two round trips; `coalesce` typed argument lists whose "
         "target type is the real TypeSum fold (objects with permuted / missing / extra fields, tuples of different "
         "lengths, nullable and multi-alternative unions, nested lists); `tassert` / `tcast`; `table` the descriptor "
         "tables; `resolve` / `evalfn` overload resolution and evaluation of the resolved call through "
         "Typecheck -> Materialize -> Evaluate on primitive, nullable, union, list and tuple argument types. "
         "non-trivial = a line whose result is fixed exactly by the specification (not a TypeID-only `fnty`/`evalfnty` "
         "line, not a rejected call)",
    exhaustive=dict(quick=False, thorough=False),
    assumptions=[
        "Int and Duration arguments are int64, Time arguments are representable time.Time values without monotonic reading (ArgsOk)",
        "NOT modelled (Go runtime / library): float + - * /, sqrt ceil floor log2 log log10 pow, float(Int|String|Duration), "
        "int(Float), time_from_unix(Float), Duration/Duration, and the text form of Float / Time / Duration values inside "
        "string(); for these the run only checks: no panic, result TypeID as declared",
        "string * int: results between 64 KiB and 2^30 bytes are proved about but never executed by the harness",
        "COALESCE theorem: argument and result types are in the normal form TypeSum produces (unions: concrete alternatives "
        "in ascending TypeID order; distinct object field names) and the result type hosts every argument type (Fits); "
        "the type algebra itself (TypeSum, TypeIntersection) belongs to C10",
        "overload resolution: the static type of an inserted TypeAssertion (TypeIntersection) is not modelled; the result "
        "type of a resolved call is compared only for calls resolved without assertions",
    ],
    trusted=["Go compiler and runtime, package time / strconv / strings / math"],
    # MANIFEST fields
    level_text="Lean theorems, all unbounded: Int/Duration + - * unary- are exact-result-wrapped-to-int64 and / truncates toward "
               "zero (MinInt64 / -1 = MinInt64, zero divisor = error); time_to_unix(time_from_unix(x)) = x for every int64 x; "
               "Time +- Duration exact when representable; int(String) accepts exactly [+-]?[0-9]+ within int64 (model of Go's "
               "ParseUint cutoff loop proved equal to the grammar) and int(string(i)) = i; IN / NOT IN = any / all of Equal; "
               "l[i] total with NULL outside; every modelled descriptor meets its specification and never panics "
               "(fn_meets_spec); fixLayout(calculateMapping(target, source)) re-lays out every value of the source type "
               "as specified through any nesting of objects, lists, tuples and unions, and COALESCE yields its first "
               "non-NULL argument (coalesce_first_non_null); the repaired overload resolution asserts each argument at most "
               "once; C13_full for the current tree, C13_shipped_refuted with four panic witnesses for the shipped code. "
               "Tie: exact differential run of every modelled descriptor, of Coalesce + ObjectLayoutFixer, of "
               "TypeAssertion/TypeCast and of FunctionExpression.Typecheck -> Materialize -> Evaluate against the Lean "
               "model, plus the descriptor tables, plus the Lean specification as oracle on the implementation's output.",
    level_note="Partial in one respect only: float arithmetic, math.*, strconv.ParseFloat, float<->int conversion and the "
               "formatting of floats/times/durations are Go runtime/library code and are not modelled; the run checks "
               "'no panic, TypeID as declared' for them. Trusted: Lean kernel; axioms propext, Classical.choice, Quot.sound; "
               "the correspondence harness; Go runtime and standard library.",
    technique="Lean 4 proof (BitVec 64 / Int.bmod arithmetic, induction on strings, types and values) + model/implementation correspondence",
    design_ref="DESIGN.md §3 C13",
)
