"""C13 — Numeric, time and conversion functions meet their specification."""


def _nontrivial(op, out):
    # an op whose result is specified exactly (fn / rt / itos / coalesce / tassert / tcast), not a TypeID-only line
    return not op.startswith("fnty ")


def _corr_skip(op, impl, model):
    # float(String): Float or NULL is decided by strconv.ParseFloat, which is not modelled
    if op.startswith("fnty float 2 ") or op.startswith("evalfnty float "):
        return impl in ("ty 0", "ty 2") and model in ("ty 0", "ty 2")
    return False


PROP = dict(
    lean_modules=["Octo.Props.C13"],
    required_theorems=["Octo.C13.C13_partial"],
    nontrivial=_nontrivial,
    corr_skip=_corr_skip,
    rule="wip",
    exhaustive=dict(quick=False, thorough=False),
    assumptions=[],
    trusted=["Go compiler and runtime"],
    level_text="wip",
    level_note="wip",
    technique="Lean 4 proof + model/implementation correspondence",
    design_ref="DESIGN.md §3 C13",
)
