"""C22 — the internally-consistent output wrapper forwards exactly the settled changes."""


def _nontrivial(op, out):
    # a run with at least two records whose output contains a watermark
    return op.count("R") >= 2 and "W" in out


PROP = dict(
    lean_modules=["Octo.Props.C22"],
    required_theorems=[],
    nontrivial=_nontrivial,
    rule="wip",
    exhaustive=dict(quick=False, thorough=False),
    assumptions=[],
    trusted=["Go compiler and runtime"],
    level_text="wip",
    level_note="wip",
    technique="Lean 4 proof (invariant over the input stream) + model/implementation correspondence",
    design_ref="DESIGN.md §3 C22",
)
