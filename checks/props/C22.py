"""C22 — the internally-consistent output wrapper forwards exactly the settled changes."""


def _nontrivial(op, out):
    # a complete run with at least one watermark, at least two records, something emitted before a watermark or
    # kept pending across one
    return op.startswith("run ") and "W" in op and op.count("R") >= 2 and out.startswith("ok")


PROP = dict(
    lean_modules=["Octo.Props.C22"],
    required_theorems=["Octo.C22.no_panic", "Octo.C22.watermarks_forwarded", "Octo.C22.at_wm", "Octo.C22.no_invention",
                       "Octo.C22.emitted_mem_input", "Octo.C22.complete", "Octo.C22.at_wm_whole_input",
                       "Octo.C22.emitted_is_prefix", "Octo.C22.C22_full", "Octo.C22.shipped_refuted"],
    nontrivial=_nontrivial,
    rule="ops: `run <stream>` = the exported struct InternallyConsistentOutputStreamWrapper{Source} over a scripted source, "
         "exact emitted sequence compared with the Lean model; `fail <k> <stream>` = the source fails after k messages. "
         "Inputs: the witnesses of the three shipped defects; all valid changelogs with monotone watermarks of length <= 3 "
         "(quick) / <= 5 (thorough) over 2 rows x {+,-} x 3 event times x 3 watermark values; random changelogs up to 30 "
         "(quick) / 100 (thorough) messages over 1-3 rows of arity 1-2 (incl. +0/-0 float rows that compare equal but "
         "print differently, NaN, NULL, nested values), duplicates, retractions, on-time / late / out-of-order / zero "
         "event times, repeated watermarks, event times next to MaxInt64; ~10% each with invalid retractions, "
         "non-monotone watermarks (outside the oracle's premise, correspondence only), mixed arity (panic mirrored). "
         "non-trivial = complete run with a watermark and >= 2 records",
    exhaustive=dict(quick=True, thorough=True),
    explanation="exhaustive over the stated small universe (2 rows x 3 event times x 3 watermarks, bounded length); random beyond",
    assumptions=["all records of a stream have the same number of columns (one schema); otherwise the Go value loop "
                 "indexes out of range (modelled as panic, excluded from the oracle)",
                 "watermarks are non-decreasing (needed for at_wm only; C18)",
                 "event times and watermarks lie in the Int64 UnixNano range (WatermarkMaxValue = MaxInt64 ns)",
                 "rows are identified by Value.Compare == 0 (C09: an equivalence)"],
    trusted=["Go compiler and runtime", "package time (After)"],
    # MANIFEST fields
    level_text="Lean theorems over all input changelogs (any length, rows of any nesting, duplicates, retractions, late and "
               "out-of-order event times; validity of the changelog is not needed): at every forwarded watermark W the "
               "consolidated emitted records equal the consolidated input records so far with event time <= W "
               "(Octo.C22.at_wm, for non-decreasing watermarks), the emitted records are a sub-multiset of the input "
               "records (no_invention), at end of stream consolidated output = consolidated input (complete), no panic "
               "on one-arity input; together Octo.C22.C22_full. The shipped code is refuted (shipped_refuted and three "
               "witness theorems) and repaired by a fix: commit. The model is tied to the Go wrapper by an exact "
               "differential run (emitted sequence) incl. an exhaustive small universe.",
    level_note="Trusted: Lean kernel; axioms propext, Classical.choice, Quot.sound; the correspondence harness; Go runtime. "
               "Not modelled: errors returned by produce/metaSend (propagated immediately), concurrency (the wrapper is "
               "single-threaded), the TODO'd periodic compaction (does not exist).",
    technique="Lean 4 proof (loop invariant of the cancellation loop + run invariant, permutation/net reasoning) + "
              "model/implementation correspondence",
    design_ref="DESIGN.md §3 C22",
)
