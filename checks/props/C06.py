"""C06 — Runtime errors are never swallowed."""


def _nontrivial(op, out):
    # a plan with a failure somewhere (a 1 flag) — the interesting direction
    return " 1 " in op.split(" SQL ")[0] + " "


PROP = dict(
    lean_modules=["Octo.Props.C06"],
    required_theorems=["Octo.C06.all_sites_used", "Octo.C06.all_kinds_propagate", "Octo.C06.run_err_of_failure", "Octo.C06.C06_full"],
    gen=["errorflow"],
    needs_binary=True,
    nontrivial=_nontrivial,
    rule="14 query shapes (WHERE, projection, DISTINCT, ORDER BY, nested ORDER BY+LIMIT, GROUP BY with both group-by nodes, stream / "
         "outer / lookup join, IN-subquery, JSON / CSV / lines sources) x an error injected at every row position or nowhere "
         "(panic() in an expression, division by zero, malformed JSON row, CSV row with a wrong field count, over-long line) x "
         "four sinks, through the real binary; non-trivial = a failure is present in the plan",
    exhaustive=dict(quick=False, thorough=False),
    assumptions=["a LIMIT that stops the source before the failing row is reached is not a failure (not generated)",
                 "the plan shape attached to each SQL text follows the planner's known mapping (WHERE->Filter, list->Map, ...)"],
    trusted=["Go compiler and runtime", "the go/ast extractor harness/c06_extract.go (fails closed)"],
    level_text="Lean theorem C06_full: in the error-flow model, for every plan (any nesting of filter, map, DISTINCT, ORDER BY, both "
               "group-by nodes, the three joins, subquery expressions, every source and sink) a failure anywhere makes the query fail "
               "and no failure means success. Its premise, that every call of a child's Run/Evaluate/scanner Err() uses the returned "
               "error, is a table REGENERATED from /repo's sources by a go/ast translator on every run and re-proved by decide "
               "(all_sites_used). The model's prediction is compared with the real binary's exit status on generated queries with "
               "injected errors.",
    level_note="Trusted: Lean kernel, axioms propext/Classical.choice/Quot.sound, the extractor, the harness, Go runtime. The model is "
               "abstract (error presence, not messages); errors raised by produce callbacks are assumed to be returned by the "
               "sources' loops (checked by the CLI runs). Holds after four fix: commits.",
    technique="Lean 4 proof over source-regenerated error-flow facts + CLI differential correspondence",
    design_ref="DESIGN.md §3 C06",
)
