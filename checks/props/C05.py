"""C05 — LIMIT and ORDER BY behave identically in every output mode and nesting."""


def _nontrivial(op, out):
    return out.startswith("rows ")


def _corr_skip(op, impl, model):
    # the ORDER of the printed rows is the oracle's business (it checks sortedness whenever the query orders its result); an
    # inner ORDER BY does not order the outer query, and the engine's order among rows tied on the inner keys depends on which
    # columns the optimizer pruned. The correspondence compares the printed rows as a bag.
    if not (impl.startswith("rows ") and model.startswith("rows ")):
        return False
    return sorted(impl.split(" | ")) == sorted(model.split(" | "))


PROP = dict(
    lean_modules=["Octo.Props.C05"],
    required_theorems=["Octo.C05.C05_count", "Octo.C05.C05_first_n", "Octo.C05.ost_spec", "Octo.C05.printer_spec",
                       "Octo.C05.choice_eager", "Octo.C05.choice_table", "Octo.C05.limit_node"],
    needs_binary=True,
    nontrivial=_nontrivial,
    corr_skip=_corr_skip,
    rule="for generated multisets with duplicates: every n in 0..K+1 x {json,csv,stream_native,batch_table,live_table} x "
         "{top-level, nested} x {no ORDER BY, ASC, DESC}, plus random nested queries in which every block has a LIMIT; "
         "non-trivial = the run produced a row list",
    exhaustive=dict(quick=False, thorough=False),
    assumptions=["sources are files (NoRetractions = true along the plan), so the Limit node / pruning preconditions hold",
                 "an inner LIMIT whose cut falls between tied but different rows is accepted without checking (SQL leaves it open)"],
    trusted=["Go compiler and runtime", "github.com/google/btree as an ordered container under a strict weak order (C09)"],
    level_text="Lean theorems: each of the three LIMIT/ORDER BY implementations (Limit node, OrderSensitiveTransform incl. DeleteMax "
               "pruning, table printer) and each branch of the selection logic returns exactly min(n,N) rows, the first n of a "
               "key-sorted rearrangement counting duplicates individually (C05_count, C05_first_n), for all n, all inputs. "
               "The model is tied to the real binary by exact comparison in all five output modes, top-level and nested.",
    level_note="Trusted: Lean kernel, axioms propext/Classical.choice/Quot.sound, harness, Go runtime, btree library. "
               "Holds after the two fix: commits (LIMIT 0 in the Limit node; ORDER BY..LIMIT counting rows).",
    technique="Lean 4 proof (three implementations + choice table refine one spec) + CLI differential correspondence",
    design_ref="DESIGN.md §3 C05",
)
