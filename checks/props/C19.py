"""C19 — Stream joins are internally consistent under every schedule (+ the node-level half of C02)."""


def _nontrivial(op, out):
    # a schedule in which both inputs carry at least one record and the node produced at least one record
    parts = op.split(" | ")
    if len(parts) != 3:
        return False
    return "R" in parts[1] and "R" in parts[2] and out.startswith("ok ") and " R" in (" " + out[3:])


PROP = dict(
    lean_modules=["Octo.Props.C19", "Octo.Props.C02Nodes"],
    required_theorems=["Octo.C19.final", "Octo.C19.consistent_at_wm", "Octo.C19.no_panic", "Octo.C19.C19_full",
                       "Octo.C19.streamJoin_final", "Octo.C19.outerJoin_final",
                       "Octo.C19.switch_refuted", "Octo.C19.null_refuted",
                       "Octo.C02.streamJoin_is_sql_join", "Octo.C02.outerJoin_is_sql_outer_join",
                       "Octo.C02.null_key_never_matches_left", "Octo.C02.null_key_never_matches_right",
                       "Octo.C02.left_join_empty_right"],
    nontrivial=_nontrivial,
    rule="one op = one run of the REAL nodes.StreamJoin / nodes.OuterJoin on two scripted inputs under one exactly chosen "
         "interleaving of their messages and closes (verifJoinRecv hook). Exhaustive part: every pair of scripts with <=3 "
         "(quick) / <=4 (thorough) messages over small alphabets (timed: records at event times 5/20, a retraction, watermarks "
         "4/10/30, restricted to scripts with monotone watermarks, no late records and a valid changelog in event-time order; "
         "untimed: keys 1, 2, NULL, duplicates, retractions) under EVERY interleaving, for StreamJoin and LEFT/RIGHT/FULL "
         "OuterJoin; plus random longer scripts (<=12 messages a side, 0-2 key columns, NULL/float/string keys, mixed "
         "timed/untimed, also late records / non-monotone watermarks / invalid retractions) under random interleavings. "
         "Compared: the exact sequence of produced records and watermarks (or the panic and what was produced before it). "
         "non-trivial = both inputs carry records and the node produced at least one record",
    exhaustive=dict(quick=True, thorough=True),
    assumptions=["event times and watermarks lie in the Int64 UnixNano range (so the zero time.Time is before all of them and "
                 "WatermarkMaxValue releases every buffered record)",
                 "join key expressions are column references (Variable{level 0, index i}); other expressions are covered only as far as "
                 "they are deterministic functions that respect value equality",
                 "final / consistent_at_wm are stated for runs that do not panic (run cfg sigma = ok out); no_panic proves that the "
                 "run does not panic when every record has its key columns, records carrying an event time are insertions and the "
                 "records without event time of each input are a valid changelog in arrival order. Outside that class (e.g. "
                 "retractions with event times) a retraction of a row that is not (yet) in the tree makes the Go code panic "
                 "(EventTimes[1:] of an empty slice); the panic is modelled and compared, and judged `bad` on inputs that are "
                 "valid changelogs in event-time order",
                 "consistent_at_wm: every record carries an event time, watermarks per input are monotone and no record is late (Fresh)",
                 "OuterJoin: records have the field counts the node was constructed with",
                 "tidwall/btree and google/btree behave as ordered maps for a strict weak order (C09 supplies it)",
                 "channel capacity (10000) is not modelled: sources never block; it does not change the set of consumption orders"],
    trusted=["Go compiler and runtime (select picks a ready channel; a closed channel is observed after its buffered messages)",
             "the verifJoinRecv hook + gated sources realise exactly the requested schedule (checked per run: the hook reports "
             "(side, closed) for every event and the harness compares it with the schedule)"],
    level_text="Lean theorems over an executable model of StreamJoin.Run / OuterJoin.Run / RecordEventTimeBuffer that takes the "
               "select loop's schedule as an explicit argument: for EVERY pair of inputs and EVERY interleaving of their messages "
               "and closes (Interleave ls rs sigma, any length), if the node does not panic then (final) its consolidated output is "
               "the SQL inner / LEFT / RIGHT / FULL OUTER join of the complete inputs, and (consistent_at_wm) for inputs with "
               "monotone watermarks and no late records every forwarded watermark W comes after an output prefix that is the join "
               "of the inputs up to W; (no_panic) the node does not panic on append-only timed inputs / valid untimed changelogs "
               "(Octo.C19.C19_full). The code before the two fix: commits is refuted by concrete schedules "
               "(switch_refuted, null_refuted). The model is tied to the code by running the real nodes under exactly chosen "
               "schedules (all interleavings of small scripts + random larger ones) and comparing the exact output sequence.",
    level_note="Trusted: Lean kernel; axioms propext, Classical.choice, Quot.sound; the correspondence harness incl. the "
               "verifJoinRecv hook; Go runtime/select; btree libraries as ordered maps. Absence of panics is proved for "
               "append-only timed inputs and valid untimed changelogs only (retractions carrying event times: modelled, compared "
               "and judged, not proved). Key expressions are column references.",
    technique="Lean 4 proof (state invariant + induction over an explicit schedule) + model/implementation correspondence "
              "under exactly chosen schedules",
    design_ref="DESIGN.md §3 C19 (and §3 C02, node level)",
)
