"""C19 — Stream joins are internally consistent under every schedule (+ node-level half of C02)."""


def _nontrivial(op, out):
    # a schedule in which both inputs carry at least one record and the node produced something
    parts = op.split(" | ")
    if len(parts) != 3:
        return False
    return "R" in parts[1] and "R" in parts[2] and out.startswith("ok ")


PROP = dict(
    lean_modules=["Octo.Props.C19"],
    required_theorems=[],
    nontrivial=_nontrivial,
    rule="wip",
    exhaustive=dict(quick=True, thorough=True),
    assumptions=[],
    trusted=["Go compiler and runtime"],
    level_text="wip",
    level_note="wip",
    technique="Lean 4 proof (invariant over an explicit schedule) + model/implementation correspondence under exactly chosen schedules",
    design_ref="DESIGN.md §3 C19",
)
