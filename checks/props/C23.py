"""C23 — File datasources return exactly the file's rows."""


def _nontrivial(op, out):
    t = op.split(" ", 3)
    if t[0] == "stdin":
        t = op.split(" ", 6)[3:]
    if t[0] == "json":
        return out.startswith("ok") and int(t[2]) >= 1
    if t[0] == "csv":
        return out.startswith("ok") and " ;" in out
    if t[0] == "lines":
        return out.count(" ;") >= 2
    if t[0] == "jsonq":
        return out.count("A") >= 2
    return False


PROP = dict(
    lean_modules=["Octo.Props.C23"],
    required_theorems=[],
    nontrivial=_nontrivial,
    # jsonq prints the schedule the consumer observed (nondeterministic); the judge replays the Lean queue model on it
    corr_skip=lambda op, impl, model: op.startswith("jsonq "),
    rule="TODO",
    exhaustive=dict(quick=False, thorough=False),
    assumptions=[],
    trusted=["Go compiler and runtime"],
    level_text="TODO",
    level_note="TODO",
    technique="Lean 4 proof + model/implementation correspondence",
    design_ref="DESIGN.md §3 C23",
)
