"""C23 — File datasources return exactly the file's rows."""


def _inner(op):
    t = op.split(" ", 4)
    if t[0] == "stdin":
        return t[3], op.split(" ", 3)[3]
    return t[0], op


def _nontrivial(op, out):
    kind, inner = _inner(op)
    if kind == "json":
        # at least two rows read back
        return out.startswith("ok") and out.count(" ;") >= 2
    if kind == "csv":
        return out.startswith("ok") and out.count(" ;") >= 2
    if kind == "lines":
        return out.count(" ;") >= 2
    if kind == "jsonq":
        # at least two batches reached the consumer
        return out.count("A") >= 2 and out.endswith("E")
    return False


PROP = dict(
    lean_modules=["Octo.Props.C23"],
    required_theorems=["Octo.C23.reorder_correct", "Octo.C23.reader_batches", "Octo.C23.lines_split", "Octo.C23.lines_default",
                       "Octo.C23.stdin_replay", "Octo.C23.stdin_preview_prefix", "Octo.C23.json_record_faithful",
                       "Octo.C23.json_record_iff_fits", "Octo.C23.json_run_rows", "Octo.C23.csv_cell_faithful", "Octo.C23.csv_run_rows", "Octo.C23.lines_raw_refuted",
                       "Octo.C23.json_raw_refuted", "Octo.C23.C23_full", "Octo.C23.C23_shipped_refuted"],
    nontrivial=_nontrivial,
    # jsonq prints the schedule the consumer observed (nondeterministic); the judge replays the Lean queue model on it
    corr_skip=lambda op, impl, model: op.startswith("jsonq "),
    rule="`pq` lines: a parquet file of 6 columns (required Int / Float / String, optional Int, two repeated columns of 0-100 elements) is WRITTEN by the harness "
         "with the repository's own parquet-go and READ BACK through the real datasource under column masks; expected = the rows written "
         "(reconstruct.go is not modelled in Lean: differential only). "
         "ops run the REAL datasources in-process (Creator = schema inference, Materialize, Run) on a file rendered from the op "
         "line: `json` files of 0,1,2,3,5,63,64,65,99,100,101,127,128,129,130,200,257,1000 rows over random column profiles "
         "(numbers incl. exponents and >2^53, strings with quotes/backslashes/control characters/non-BMP/invalid UTF-8, RFC3339 "
         "times, nulls, nested arrays and objects, missing keys, permuted key order; rendering with \\u escapes, surrogate "
         "pairs, \\/ , extra whitespace, LF or CRLF, with or without final newline); `csv`/tsv files (quoted fields, embedded "
         "separators/quotes/newlines, header or not, duplicate and empty column names, ragged rows); `lines` with 11 custom "
         "separators incl. self-overlapping aa/aba, partial separators in the text, the separator placed across the "
         "4096/8192/16384/32768-byte scanner buffer boundaries, pieces of 65534..65537 bytes around the 64 KiB token limit, default "
         "separator with CR LF; `proj` csv/json files read with a pruned schema (cyclic mask over the inferred fields); `stdin` the same files piped "
         "into a replaced os.Stdin in seeded chunk sizes (1..1 MiB) with 1-3 preview opens; `jsonq` 0..2500-line files through "
         "the real worker pool with seeded per-batch delays, the observed schedule (arrival order, produce calls, reader-done) "
         "is replayed on the Lean queue model. non-trivial = a run that returned at least two records (jsonq: at least two "
         "batches)",
    exhaustive=dict(quick=False, thorough=False),
    assumptions=[
        "fastjson tokenises JSON correctly (escapes, numbers); encoding/csv decodes RFC 4180 records; both are trusted libraries "
        "exercised end-to-end by the correspondence run",
        "bufio.Scanner follows its documented contract (split function called on the unconsumed window, atEOF at the end, the "
        "window never exceeds the maximal buffer size, a full window without a token is ErrTooLong); lines_split assumes every piece "
        "with its separator fits the 64 KiB buffer (fitsTok) - otherwise the model, like the code, reports an error",
        "every line of the file parses (a parse error is returned as an error: reorder_parse_error)",
        "JSON rows beyond the 100-row preview fit the inferred schema (otherwise an error is reported, C24; rows within the preview "
        "always fit: Octo.C24.json_preview_no_error); object keys are distinct within one object",
        "parquet files (datasources/parquet/reconstruct.go) are NOT modelled and not exercised: no parquet writer is available offline",
        "tail mode (never terminates) is out of scope",
        "the OS returns at least one byte per read of a pipe unless at EOF",
    ],
    trusted=["Go compiler and runtime", "fastjson, encoding/csv, bufio.Scanner buffer management, time.Parse, strconv/fastfloat float parsing (oracles)"],
    level_text="Lean theorems for the four pieces of OctoSQL's own logic: (1) the JSON line-number reorder queue produces every "
               "record once, in line order, stops exactly after the last event and never hangs or panics, for EVERY permutation "
               "of the parsed batches and every position of the reader-done signal (Octo.C23.reorder_correct); (2) the lines "
               "split function under the bufio.Scanner contract yields exactly the pieces between separator occurrences for "
               "every content, non-empty separator and window-growth schedule (lines_split, lines_default); (3) stdin preview "
               "replay delivers the original bytes for every chunking and any number of preview opens (stdin_replay); (4) every "
               "JSON record / CSV cell value is the value the row contains (json_record_faithful, csv_cell_faithful). Tie: exact "
               "differential run of the real datasources against the Lean model on generated files, and replay of observed "
               "worker-pool schedules on the queue model.",
    level_note="Trusted: Lean kernel; axioms propext, Classical.choice, Quot.sound; the correspondence harness; fastjson, encoding/csv, "
               "bufio.Scanner, time.Parse, float parsing. Parquet is not modelled. The shipped code violated the property (lines "
               "separator advance; JSON null inside a union): C23_shipped_refuted; both repaired by fix: commits.",
    technique="Lean 4 proof (invariants over arbitrary schedules / contents) + model/implementation correspondence + schedule replay",
    design_ref="DESIGN.md §3 C23",
)
