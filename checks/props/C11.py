"""C11 — Three-valued logic and NULL propagation."""


def _nontrivial(op, out):
    return True


PROP = dict(
    lean_modules=["Octo.Props.C11"],
    gen=["strict"],
    required_theorems=[],
    nontrivial=_nontrivial,
    rule="todo",
    exhaustive=dict(quick=False, thorough=False),
    assumptions=[],
    trusted=["Go compiler and runtime"],
    level_text="todo",
    level_note="todo",
    technique="Lean 4 proof + model/implementation correspondence",
    design_ref="DESIGN.md §3 C11",
)
