"""C11 — Three-valued logic and NULL propagation."""


def _nontrivial(op, out):
    # a line is non-trivial when NULL or an error takes part: the operands / record / constants contain NULL, or the
    # outcome is NULL or an error (plain two-valued evaluations are the trivial part of the space)
    toks = op.split()
    if toks[0] in ("and", "or"):
        return "n" in toks[2:] or any(t.startswith("E") for t in toks[2:])
    if toks[0] == "lcall":
        return " n" in op or "err:" in out
    if toks[0] == "lcmp":
        return "n" in toks[4:] or out.endswith("| n")
    if toks[0] in ("treeall", "ltreeall"):
        return True          # every line runs all 3^k assignments, NULL included
    return " n" in op or out.startswith("err") or out == "n"


PROP = dict(
    lean_modules=["Octo.Props.C11"],
    gen=["strict"],
    required_theorems=["Octo.C11.and_kleene", "Octo.C11.or_kleene", "Octo.C11.not_table", "Octo.C11.and_error_reached",
                       "Octo.C11.or_error_reached", "Octo.C11.strict_null", "Octo.C11.nullcheck_complete",
                       "Octo.C11.strict_null_welltyped", "Octo.C11.table_strict_null", "Octo.C11.comparisons_strict",
                       "Octo.C11.table_strict_except_null_handlers", "Octo.C11.is_null_never_null",
                       "Octo.C11.den_sound", "Octo.C11.tree_kleene", "Octo.C11.filter_spec", "Octo.C11.filter_kleene", "Octo.C11.typecheckU_sound", "Octo.C11.sql_tree_kleene", "Octo.C11.cmp_typed_null",
                       "Octo.C11.cmp_typed_value", "Octo.C11.call_error_reached", "Octo.C11.C11_sql_refuted",
                       "Octo.C11.C11_sql_partial", "Octo.C11.maybe_pass_strict_null", "Octo.C11.eval_argP_null",
                       "Octo.C11.table_params_nonnull",
                       "Octo.C11.C11_full"],
    nontrivial=_nontrivial,
    rule="ops: `and`/`or` over every operand list in {TRUE,FALSE,NULL}^k (k<=5 quick, k<=7 thorough) and over "
         "{T,F,N,two error leaves,0,5,'a'}^k (k<=3/4); `treeall 3 <tree>`: every AND/OR/NOT/IS NULL/IS NOT NULL tree "
         "of depth <=2 over c0,c1,c2,TRUE,FALSE,NULL under all 27 assignments, plus sampled trees of depth 3 (to 6 on "
         "thorough) with n-ary junctions and error leaves; `tree`: explicit records incl. unsound static types, missing "
         "fields, short records, non-boolean columns, comparisons with NULL operands; `strict`: every descriptor of "
         "functions.FunctionMap() with NULL in each argument position (nullable type, NULL type, all-nullable, and the "
         "ill-typed variant for modelled bodies); `ltreeall`: logical.Expression trees (all of depth <=2 over c0,c1,TRUE,"
         "FALSE,NULL; sampled to depth 4/7) typed by the REAL logical typechecker, the assigned types printed and "
         "compared, evaluated on every record conforming to the column types; `lcmp`: the six comparisons over every "
         "combination of Int / NULL|Int / NULL columns and literals through the real typechecker; `lcall`: every "
         "descriptor with declared argument types (and the ordering comparisons) applied through the real "
         "FunctionExpression.Typecheck to columns typed NULL|matching|one or two non-matching types (the Maybe pass and "
         "its TypeAssertion), holding NULL / a matching / a non-matching value, assertion types printed and compared; `filter`: nodes.Filter over random changelogs (retractions, "
         "watermarks, source errors). Built as real physical.Expression -> Materialize -> Evaluate. non-trivial = "
         "NULL or an error takes part in the line",
    exhaustive=dict(quick=True, thorough=True),
    explanation="exhaustive over {T,F,N}^k for k<=5 (AND/OR), all trees of depth <=2 under all assignments of 3 "
                "variables, every descriptor x every argument position; depth >=3 sampled (the theorems are unbounded)",
    assumptions=["static types are sound (TTree.ok / `conforms`): every argument value conforms to its declared static "
                 "type — the typechecker's obligation (C08); with an unsound output type upstream (int('x') typed Int) "
                 "a NULL reaches a strict body unchecked (theorem unchecked_null_reaches_body)",
                 "function bodies other than not / is null / is not null / the six comparisons / panic are opaque to "
                 "the model: for them only the NULL-propagation path (which never enters the body) is modelled",
                 "the judge treats every function of FunctionMap() except `is null`, `is not null`, `string`, `panic` "
                 "as strict (theorem table_strict_except_null_handlers over the regenerated table)"],
    trusted=["Go compiler and runtime", "logical typechecker (logical/*.go) assigning sound static types — outside "
             "the anchored files; its behaviour on the boolean fragment is modelled (typecheckU) and tied by the "
             "`ltreeall` ops, outside that fragment it is trusted"],
    level_text="Lean theorems (unbounded): And/Or.Evaluate equal the n-ary Kleene folds for every operand list; an error "
               "in operand i surfaces iff reached; NOT's table; every Strict descriptor of the regenerated "
               "functions.go table (all but the NULL handlers, comparisons included) returns NULL when a well-typed "
               "argument is NULL (nullCheckIndices is complete and exact w.r.t. `conforms`); IS [NOT] NULL return a "
               "Boolean; boolean trees of any depth/arity with sound static types evaluate to their Kleene value "
               "(den_sound, tree_kleene); Filter keeps exactly the TRUE rows in order with watermarks (filter_spec, "
               "filter_kleene); Octo.C11.C11_full. Model tied to the code by an exact differential run through "
               "physical.Expression.Materialize/Evaluate and nodes.Filter, error chains included.",
    level_note="Trusted: Lean kernel; axioms propext, Classical.choice, Quot.sound; the correspondence harness; the "
               "`vh extract strict` translator; Go runtime. Assumes sound static types (C08) — stated as the "
               "hypothesis TTree.ok / conforms; bodies of other functions are not modelled here (C12/C13).",
    technique="Lean 4 proof (mutual structural induction over expression trees, loop invariants) + regenerated "
              "Strict table + model/implementation correspondence",
    design_ref="DESIGN.md §3 C11",
)
