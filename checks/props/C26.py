"""C26 — The plugin protocol carries data and predicates without change."""


def _nontrivial(op, out):
    # trivial lines: calls the real typechecker refuses (nothing is transported), unavailable e2e, values that are a bare scalar
    k = op.split(" ", 1)[0]
    if k == "repop":
        return out != "tc=panic"
    if k == "e2e":
        return out.startswith("same") or out.startswith("diff")
    if k == "val":
        return op.split(" ", 2)[1][0] in "tdLSTs"       # times, durations, strings, nested values
    if k == "pred":
        return not out.startswith("untyped")
    return True


PROP = dict(
    lean_modules=["Octo.Props.C26"],
    gen=["wire"],
    needs_binary=True,
    required_theorems=["Octo.C26.wire_table_ok", "Octo.C26.timestamp_roundtrip", "Octo.C26.duration_roundtrip",
                       "Octo.C26.value_roundtrip", "Octo.C26.value_roundtrip_cmp", "Octo.C26.type_roundtrip",
                       "Octo.C26.schema_roundtrip", "Octo.C26.record_roundtrip", "Octo.C26.metadata_roundtrip",
                       "Octo.C26.physCtx_roundtrip", "Octo.C26.execCtx_roundtrip", "Octo.C26.fn_table_ok",
                       "Octo.C26.repopulate_exact", "Octo.C26.repopulate_safe", "Octo.C26.predicate_roundtrip",
                       "Octo.C26.predicate_never_misrouted", "Octo.C26.pushdown_conserves", "Octo.C26.json_constant_roundtrip",
                       "Octo.C26.C26_partial", "Octo.C26.C26_refuted", "Octo.C26.raw_refuted"],
    corr_skip=lambda op, impl, model: model == "nomodel",
    nontrivial=_nontrivial,
    rule="ops (all through the REAL conversion functions, re-exported by plugins/verif_export.go): `val`/`ty`/`schema`/`rec`/"
         "`meta`/`pctx`/`ectx` print every field of the proto message built, the value after the inverse conversion and "
         "whether the message survives proto.Marshal/Unmarshal — over the shared 66-value edge universe, 22 edge instants "
         "(zero time.Time, +-1 ns, year 0/9999 borders, beyond the int64 UnixNano range) x 4 locations, 17 edge durations "
         "(MinInt64, +-1e9+-1, …), invalid-UTF-8 strings, random values/types of depth <=4; `rawval`: ToNativeValue on "
         "arbitrary proto messages (invalid TypeIds, nil / overflowing timestamps and durations); `repop <fn> <argtypes>`: "
         "the real typechecker picks a descriptor, the call goes through encoding/json and "
         "RepopulatePhysicalExpressionFunctions, both descriptor indices are printed — every descriptor of FunctionMap() "
         "with its own and nullable argument types, all argument lists of length <=2 over a pool of 17 (30 on thorough) "
         "types for every function, random longer ones; `tree`: whole predicates (typed by the real typechecker, nested "
         "calls under AND/OR/tuples/type assertions), descriptor of every call after the trip; `pred`: well-typed "
         "predicates over every descriptor of every function, evaluated on a record natively and after the trip (with "
         "the variable contexts through their proto conversions); `json`/`jsonty`: constants and types through "
         "encoding/json; `e2e`: the real octosql binary runs a query on t.csv natively and on the same data served by a "
         "test plugin process over gRPC that evaluates all pushed-down predicates itself (IN over tuples, correlated "
         "subqueries, lookup joins, predicates with subqueries). non-trivial = a line on which something is "
         "transported (typechecked calls, nested / time / duration / string values)",
    exhaustive=dict(quick=False, thorough=False),
    explanation="edge universes are enumerated exhaustively (values, instants x locations, durations, every descriptor x "
                "argument position, all pairs of pool types per function); deeper values, types and predicates are "
                "sampled (the theorems are unbounded)",
    assumptions=["time.Duration values and Int values are int64, a schema's TimeField and a MetadataMessageType are int32 "
                 "(durOk / inInt32 hypotheses of the round-trip theorems)",
                 "time.Time instants lie within what time.Unix can represent (|seconds| < 2^62)",
                 "values are built by the octosql.NewX constructors (one payload field per TypeID, the others zero)",
                 "protobuf marshalling and encoding/json are library code: modelled only by their refusal of invalid UTF-8 "
                 "(proto3 string) / replacement by U+FFFD, NaN/Inf and years outside 0..9999 (JSON); their byte formats are "
                 "exercised by the correspondence run (proto.Marshal/Unmarshal, json.Marshal/Unmarshal) but not modelled",
                 "a call's arguments keep their static types between typechecking and pushdown (the optimizer only renames variables)",
                 "both sides of the boundary link the same functions.FunctionMap() (a plugin built against another octosql "
                 "version is outside the model)",
                 "a datasource's own PushDownPredicates returns every predicate it was given, as rejected or as pushed down "
                 "(hypothesis of pushdown_conserves)"],
    trusted=["Go compiler and runtime", "google.golang.org/protobuf, google.golang.org/grpc, encoding/json",
             "the `vh extract wire` translator (go/ast over plugins.go and functions.go, reflection over FunctionMap())",
             "logical/function.go (overload resolution) is modelled (typecheckPick) and tied by the `repop` ops, not anchored"],
    level_text="Lean theorems (unbounded, over the tables regenerated from plugins.go / functions.go on every run): the four "
               "wire conversion functions cover every TypeID with inverse field assignments (wire_table_ok); every value of "
               "any depth comes back equal up to the location of times, every type/schema/record/watermark/variable context "
               "comes back identical (value_roundtrip, value_roundtrip_cmp, type_roundtrip, schema_roundtrip, "
               "record_roundtrip, metadata_roundtrip, physCtx_roundtrip, execCtx_roundtrip), with timestamps by floor "
               "division and durations by truncated division incl. negative and extreme ones; for every function of "
               "FunctionMap() and all argument types a call resolved by the typechecker keeps its descriptor through "
               "JSON + RepopulatePhysicalExpressionFunctions or is rejected, never misrouted (repopulate_exact, "
               "repopulate_safe), for whole predicates of any shape (predicate_roundtrip, predicate_never_misrouted); no "
               "predicate is lost between executor and plugin (pushdown_conserves); Octo.C26.C26_partial. The full "
               "statement is refuted (C26_refuted: a non-UTF-8 string cannot be marshalled; JSON rejects NaN constants) and "
               "the pre-repair Repopulate is refuted (raw_refuted: `x IN (1,2)` got the list overload). End-to-end queries "
               "against a test plugin process are checked differentially (native vs plugin).",
    level_note="Trusted: Lean kernel; axioms propext, Classical.choice, Quot.sound; the correspondence harness and the "
               "translator; protobuf/gRPC/encoding-json libraries (modelled only at their UTF-8 / NaN / year limits); Go runtime. "
               "plugins/executor/executor.go and plugins/plugins.go are covered by the pushdown bookkeeping model "
               "(pushdown_conserves, tied only end to end) and by the end-to-end differential run, not by a line-by-line model.",
    technique="Lean 4 proof (mutual structural induction over values, types and predicate trees; loop invariants of the "
              "descriptor loops) + regenerated wire/function tables with a generic table interpreter + "
              "model/implementation correspondence + end-to-end differential run against a test plugin process",
    design_ref="DESIGN.md §3 C26",
)
