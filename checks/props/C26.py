"""C26 — The plugin protocol carries data and predicates without change."""

PROP = dict(
    lean_modules=["Octo.Props.C26"],
    gen=["wire"],
    needs_binary=True,
    required_theorems=[],
    corr_skip=lambda op, impl, model: model == "nomodel",
    rule="wip",
    exhaustive=dict(quick=False, thorough=False),
    assumptions=[],
    trusted=["Go compiler and runtime"],
    level_text="wip",
    level_note="wip",
    technique="Lean 4 proof + regenerated wire tables + model/implementation correspondence",
    design_ref="DESIGN.md §3 C26",
)
