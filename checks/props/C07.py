"""C07 — No query or input crashes the process."""

PROP = dict(
    lean_modules=["Octo.Props.C07"],
    required_theorems=["Octo.C07.exhaustive_switches", "Octo.C07.switches_found", "Octo.C07.numeric_functions_never_panic",
                       "Octo.C07.substr_never_panics"],
    gen=["exprkinds"],
    needs_binary=True,
    nontrivial=lambda op, out: True,
    rule="queries through the real binary: the recorded crashers of DESIGN §5 and near misses; every named function of "
         "functions.FunctionMap() x arity 0..3 x edge arguments (columns holding 0, -1, MinInt64, MaxInt64, '', multi-byte and "
         "pattern metacharacters, 1e308, NULL; literals; tuples; intervals; JSON lists/objects/nested lists); binary operators on "
         "edge operands; table-valued functions with zero / negative parameters; generated well-typed queries; token mutations "
         "(delete / duplicate / replace / swap) of all of these; all five output modes, --optimize=false, --describe; input files "
         "with duplicate header names, ragged rows, empty files, non-object JSON lines; distinct = distinct op lines",
    exhaustive=dict(quick=False, thorough=False),
    assumptions=["'every query string, option and input file' is a whole-program statement: parser, planner glue, third-party "
                 "libraries and formatters are covered by the fuzzing search only, not by a theorem",
                 "a crash is detected as: exit status 2 or a goroutine dump on stderr, or no termination within 60 s"],
    trusted=["Go compiler and runtime", "the go/ast extractor harness/c07_extract.go"],
    level_text="Partial. Lean theorems: (a) every planner/optimizer switch over expression kinds that ends in panic('unexhaustive') "
               "handles all kinds, over a table regenerated from /repo's sources by a go/ast translator on every run "
               "(exhaustive_switches); (b) the modelled scalar functions never reach the explicit panic outcome the models use where "
               "Go would panic (restated from C12/C13). Everything else about 'no query crashes the process' is decided by the "
               "fuzzing search against the real binary, which is a search, not a proof.",
    level_note="Trusted: Lean kernel, axioms propext/Classical.choice/Quot.sound, extractor, harness, Go runtime. Proof covers the "
               "modelled cores only; the whole-program claim is NOT proved.",
    technique="Lean 4 proof for modelled cores (regenerated switch-coverage table, function models) + CLI fuzzing search",
    design_ref="DESIGN.md §3 C07",
)
