"""C14 — Aggregates are invariant under retraction histories."""


def _nontrivial(op, out):
    # a history line with at least one retraction
    t = op.split(" ", 1)
    if t[0] not in ("hist", "steps", "fhist", "fsteps"):
        return False
    return " - " in op


def _corr_skip(op, impl, model):
    # float histories whose partial sums need rounding: IEEE rounding is outside the model, only the oracle applies
    return op.startswith("fhist ") or op.startswith("fsteps ")


PROP = dict(
    lean_modules=["Octo.Props.C14"],
    required_theorems=["Octo.C14.aggregate_correct", "Octo.C14.add_reports_emptiness", "Octo.C14.add_reports_emptiness_every_step",
                       "Octo.C14.spec_representation_independent", "Octo.C14.oracle_accepts_iff_valid",
                       "Octo.C14.oracle_multiset_is_net", "Octo.C14.C14_partial", "Octo.C14.C14_full_nonfloat",
                       "Octo.C14.C14_refuted"],
    nontrivial=_nontrivial,
    corr_skip=_corr_skip,
    rule="TODO",
    exhaustive=dict(quick=True, thorough=True),
    assumptions=[],
    trusted=["Go compiler and runtime"],
    level_text="TODO",
    level_note="TODO",
    technique="Lean 4 proof (invariants over add/retract histories) + model/implementation correspondence",
    design_ref="DESIGN.md §3 C14",
)
