"""C14 — Aggregates are invariant under retraction histories."""


def _nontrivial(op, out):
    # a history line that contains at least one retraction and ends with a reported value
    t = op.split(" ", 1)
    if t[0] not in ("hist", "steps", "fhist", "fsteps"):
        return False
    return " - " in op and not out.endswith("panic")


def _corr_skip(op, impl, model):
    # float histories whose partial sums need rounding: IEEE rounding is outside the model, only the oracle applies
    return op.startswith("fhist ") or op.startswith("fsteps ")


PROP = dict(
    lean_modules=["Octo.Props.C14"],
    required_theorems=["Octo.C14.aggregate_correct", "Octo.C14.add_reports_emptiness", "Octo.C14.add_reports_emptiness_every_step",
                       "Octo.C14.add_reports_emptiness_all_inputs",
                       "Octo.C14.spec_representation_independent", "Octo.C14.oracle_accepts_iff_valid",
                       "Octo.C14.oracle_multiset_is_net", "Octo.C14.trigger_panics_on_empty", "Octo.C14.C14_partial",
                       "Octo.C14.C14_full_nonfloat", "Octo.C14.C14_refuted", "Octo.C14.raw_sum_flag_refuted"],
    nontrivial=_nontrivial,
    corr_skip=_corr_skip,
    rule="ops: `hist name idx n (+|- v)...` = a fresh aggregate from the REAL prototype aggregates.Aggregates[name].Descriptors[idx], "
         "the whole add/retract history, the bool every Add returned and Trigger() at the end; `steps` = Trigger() after every step; "
         "`fhist/fsteps` = float histories that need rounding (oracle only); `table`/`desc` = the overload table. Quick: every valid "
         "history of length <=5 over a 4-value domain per descriptor (23 descriptors; domains with equal-but-different values: +-0, "
         "two NaN payloads, one instant in two locations, MinInt64/-1), length <=4 over further domains (incl. +-Inf/NaN for float "
         "sums), 12 random histories <=300 steps per descriptor over edge-heavy domains (every 6th with invalid retractions), 3 wide "
         "histories (1250-2500 steps, 300-800 distinct values: btree splits, map growth), 150 rounding histories per float-sum "
         "descriptor, the corpus. Thorough: length <=6 (first domain), length 7 over its 3-value sub-domain (all 4 values for count, "
         "array_agg_distinct, min(Float)), <=5 over the others, 60 random / 20 wide / 3000 rounding histories per descriptor. "
         "non-trivial = a history with at least one retraction whose final Trigger() returned a value",
    exhaustive=dict(quick=True, thorough=True),
    assumptions=["float sum/avg are stated in exact arithmetic: the running sum of finite floats is an exact integer number of units "
                 "of 2^-1074, rounded once when reported; IEEE-754 rounding of intermediate sums is outside the model (the oracle "
                 "accepts n*2^-52*sum|x_i| on such histories) and non-finite float inputs are excluded from the theorem "
                 "(C14_refuted / known finding float-sum-poison)",
                 "element counters (count, per-value counts) do not overflow int64 (histories shorter than 2^63)",
                 "google/btree behaves as an ordered map for Less = (Compare == -1), zyedidia/generic/hashmap as a map keyed by "
                 "Compare == 0 (C09: Compare is a total preorder and equal values hash equally)",
                 "which values reach an aggregate (NULL skipping, Trigger only on a non-empty non-NULL set) is the group-by's business (C03/C15)"],
    trusted=["Go compiler and runtime", "github.com/google/btree, github.com/zyedidia/generic/hashmap (exercised by the wide histories)",
             "IEEE-754 hardware addition/division (compared bit for bit with the model's exact-then-round on exactly representable histories)"],
    level_text="Lean theorems over an executable model of every entry of aggregates.Aggregates (count, sum, avg over Int/Float/Duration, "
               "min, max, array_agg, each also behind the Distinct wrapper): for EVERY valid add/retract history of any length and "
               "EVERY list M representing its non-empty net multiset, Trigger() does not panic and returns a value Compare-equal to "
               "the aggregate of M computed from scratch (support of M for DISTINCT), and every Add returns exactly 'the multiset is "
               "now empty' (Octo.C14.aggregate_correct, add_reports_emptiness, C14_partial, C14_full_nonfloat). Int/Duration sums in "
               "wrap-around arithmetic, avg by truncating division; float sums in exact arithmetic for finite inputs; with +-Inf/NaN "
               "inputs the statement is refuted for the code (C14_refuted, known finding float-sum-poison). The oracle used on the "
               "implementation's output is proved to accept exactly the valid histories and to aggregate a list representing the net "
               "multiset. The model is tied to aggregates/*.go by an exact differential run (returned flags and reported values, bit "
               "patterns for floats) over all valid histories up to length 5 (7 thorough) on small domains plus long random and wide ones.",
    level_note="Trusted: Lean kernel; axioms propext, Classical.choice, Quot.sound; the correspondence harness; Go runtime; the btree and "
               "hashmap libraries as ordered/keyed maps; IEEE-754 rounding (outside the model). Partial: float sum/avg only for finite "
               "inputs and in exact arithmetic.",
    technique="Lean 4 proof (state/multiset invariants over add/retract histories; generic Distinct-wrapper lemma) + "
              "model/implementation correspondence",
    design_ref="DESIGN.md §3 C14",
)
