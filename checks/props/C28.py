"""C28 — Installed plugins are discovered and versions resolved correctly."""


def _nontrivial(op, out):
    return out.startswith("ok") or op.startswith("semver")


PROP = dict(
    lean_modules=["Octo.Props.C28"],
    required_theorems=[],
    needs_binary=True,
    nontrivial=_nontrivial,
    rule="todo",
    exhaustive=dict(quick=False, thorough=False),
    assumptions=[],
    trusted=["Go compiler and runtime"],
    level_text="todo",
    level_note="todo",
    technique="Lean 4 proof + model/implementation correspondence",
    design_ref="DESIGN.md §3 C28",
)
