"""C28 — Installed plugins are discovered and versions resolved correctly."""


def _nontrivial(op, out):
    return out.startswith("ok") or op.startswith("semver")


PROP = dict(
    lean_modules=["Octo.Props.C28"],
    required_theorems=["Octo.C28.name_roundtrip", "Octo.C28.name_injective", "Octo.C28.sort_desc", "Octo.C28.sort_mem",
                       "Octo.C28.resolve_max", "Octo.C28.resolve_none", "Octo.C28.install_pick", "Octo.C28.install_pick_none",
                       "Octo.C28.discover_exact", "Octo.C28.startup_resolves_max", "Octo.C28.literals_tie", "Octo.C28.C28_full"],
    needs_binary=True,
    gen=["installsteps"],
    nontrivial=_nontrivial,
    rule="`list`: generated plugin trees on disk (1-3 repositories x 0-3 plugins x 0-4 versions; names with and without dashes, "
         "leading/trailing/double dashes, a name containing the prefix itself; prereleases; dot-entries left by interrupted "
         "installs; in 1/4 of the trees a file where a directory belongs or a non-version entry) -> real ListInstalledPlugins; "
         "`resolve`: tree + 1-3 configured databases with constraints -> start-up of the real binary (resolved versions via the "
         "verif hook, error class otherwise); `pick`: shuffled manifests with prereleases and v-prefixed versions, with/without "
         "constraint -> real Install against a loopback repository, which version directory appears; `semver`: GreaterThan on all "
         "pairs of 7 versions + NewVersion(String()) round trip. The order/constraint tables in the op lines come from the real "
         "library. non-trivial = listing/start-up/install succeeded (or a semver line)",
    exhaustive=dict(quick=False, thorough=False),
    assumptions=["semver.GreaterThan is irreflexive, transitive and total on the versions that occur (OrderLaws); checked on every `semver` line "
                 "(build metadata, which GreaterThan ignores, is not generated)",
                 "plugin directories are named octosql-plugin-* (NoUnprefixed) for the resolution theorem: a directory `x` next to "
                 "`octosql-plugin-x` would be listed under the same reference",
                 "sort.Slice with a strict total order returns the unique descending arrangement (an insertion sort stands in for it)"],
    trusted=["Go compiler and runtime", "Masterminds/semver (order and constraint semantics are parameters)", "sort.Slice"],
    level_text="Lean theorems, for every file tree, name, version list, constraint and manifest: a directory octosql-plugin-<n> is listed "
               "under exactly <n> (name_roundtrip, discover_exact) with all its versions in descending order; every configured database "
               "resolves to the greatest installed version passing its constraint (startup_resolves_max, resolve_max); Install picks the "
               "greatest manifest version passing the constraint, or the greatest non-prerelease one (install_pick) - C28_full. The prefix "
               "literal is regenerated from the source (literals_tie). Model vs real ListInstalledPlugins / binary start-up / Install compared exactly.",
    level_note="Holds after the fix: commit that replaced the LastIndex parse by TrimPrefix. Trusted: Lean kernel; propext, Classical.choice, "
               "Quot.sound; harness; semver library as a parameter with the order laws sampled.",
    technique="Lean 4 proof (sorted-list / set characterisation of the listing and the resolution loop) + correspondence against the real code",
    design_ref="DESIGN.md §3 C28",
)
