"""C17 — Triggers fire exactly when specified."""


def _nontrivial(op, out):
    # a trigger script in which something fires before the end of the stream, or a node run that forwards a
    # watermark after having emitted a record
    if op.startswith("trig "):
        polls = out.split(" ; ")
        return any(not p.startswith("P0") for p in polls[:-1])
    if op.startswith("gb "):
        return out.startswith("ok R") and " ; W" in out
    return False


PROP = dict(
    lean_modules=["Octo.Props.C17"],
    required_theorems=["Octo.C17.counting_fires", "Octo.C17.counting_ignores_watermarks", "Octo.C17.eos_once",
                       "Octo.C17.eos_trigger_silent", "Octo.C17.eos_trigger_spec", "Octo.C17.watermark_upto",
                       "Octo.C17.watermark_all", "Octo.C17.watermark_complete", "Octo.C17.no_early", "Octo.C17.run_prefix",
                       "Octo.C17.emitted_was_polled", "Octo.C17.C17_full", "Octo.C17.C17_refuted_raw"],
    nontrivial=_nontrivial,
    rule="ops: `trig <cfg> :: events` = the real trigger object (materialised from physical.Trigger) driven one method call per "
         "event (KeyReceived / WatermarkReceived / EndOfStreamReached / Poll), and `gb …` = the real CustomTriggerGroupBy (see C16). "
         "Exhaustive part: node-shaped scripts (Poll after every event, then E P) over 2 ids x 2 instants (two locations) x "
         "{record, watermark} of length <= 5 (quick) / <= 6 (thorough, 7 on one trigger) for COUNTING 1..4, ON WATERMARK, ON END OF "
         "STREAM, and of length <= 3 / <= 4 for 31 combinations (all SQL subsets + nested/repeated/n=0); random scripts up to 40/300 "
         "events with polls and end-of-stream anywhere; node runs as in C16 (shorter). Compared: exact poll results / emitted "
         "messages (model vs implementation); the Lean oracle recomputes from the events which groups every primitive trigger "
         "must return at every poll (COUNTING: n-th record; WATERMARK: pending and instant <= watermark; end of stream: every "
         "remaining group once) and, on node runs, that every forwarded watermark W is preceded by the current row of every key "
         "<= W and (ON WATERMARK alone) by nothing beyond the highest watermark so far.",
    exhaustive=dict(quick=True, thorough=True),
    explanation="exhaustive over the stated finite universe of event scripts; the theorems are unbounded",
    assumptions=[
        "fewer than 2^64 records per key (uint Count never wraps)",
        "google/btree behaves as an ordered set for a strict weak order Less (Octo.TMap)",
        "keys have a fixed length and the time index lies within the key (otherwise the Go code panics; modelled as an explicit panic outcome)",
        "watermark_complete: 'current result' = the table of the records the EventTimeBuffer has released so far",
    ],
    trusted=["Go compiler and runtime", "github.com/google/btree (modelled as an ordered association list)"],
    level_text="Lean theorems over event lists / message lists of any length: counting_fires (COUNTING n fires exactly the key of the "
               "record, exactly when it is the key's n-th, 2n-th, ... record; retractions count; watermarks never fire it), "
               "eos_once / eos_trigger_spec (the Poll after EndOfStreamReached returns every pending key exactly once; ON END OF STREAM "
               "returns nothing earlier and every received group at the end), watermark_upto / watermark_all (ON WATERMARK returns "
               "exactly the pending keys whose instant is <= the watermark), watermark_complete (node: when wm W is forwarded the "
               "output consolidates to the current table on every key <= W, for every configuration containing ON WATERMARK), "
               "no_early (node, ON WATERMARK alone: nothing beyond the highest watermark received is emitted before the end), "
               "emitted_was_polled (any configuration: every emitted record belongs to a key some primitive trigger just returned). Tied "
               "to the Go code by exact differential runs of the real trigger objects and the real node.",
    level_note="Trusted: Lean kernel; axioms propext, Classical.choice, Quot.sound; the correspondence harness; Go runtime; google/btree as an "
               "ordered container. no_early is stated for ON WATERMARK alone; for combinations 'unless another trigger fired it' is "
               "emitted_was_polled together with the per-trigger theorems (watermark_upto, counting_fires, eos_trigger_silent).",
    technique="Lean 4 proof (invariants of the trigger state machines and of the node, induction over event lists) + model/implementation correspondence",
    design_ref="DESIGN.md §3 C17",
)
