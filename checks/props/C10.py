"""C10 — Type algebra laws hold."""


def _nontrivial(op, out):
    # a line on which some law's premise is met in a non-degenerate way
    t = op.split(" ", 1)
    k = t[0]
    o = out.split()
    try:
        if k == "laws":
            # a and b are incomparable (a real merge happens) or the intersection is non-empty
            return o[9] != "2" or o[6] != "-"
        if k == "sound":
            return True
        if k == "trans":
            return o[0] == "2" and o[1] == "2"
        if k == "lub":
            return o[0] == "2" and o[1] == "2"
        if k == "typeof":
            return o[0] in ("List", "Struct", "Tuple") or o[0].startswith(("Struct", "Tuple"))
    except IndexError:
        return False
    return True


PROP = dict(
    lean_modules=["Octo.Props.C10"],
    gen=["c10consts"],
    required_theorems=["Octo.C10.is_refl", "Octo.C10.is_trans", "Octo.C10.is_sound", "Octo.C10.sum_idem",
                       "Octo.C10.sum_upper_partial", "Octo.C10.sum_upper_l", "Octo.C10.sum_upper_r", "Octo.C10.sum_wf",
                       "Octo.C10.sum_least", "Octo.C10.sum_comm", "Octo.C10.sum_fuel_mono", "Octo.C10.typeIds_tie", "Octo.C10.typeRelations_tie",
                       "Octo.C10.inter_sub", "Octo.C10.inter_sub_l", "Octo.C10.inter_sub_r", "Octo.C10.inter_wf", "Octo.C10.sum_upper_recfree", "Octo.C10.typeOf_conforms_recfree", "Octo.C10.typeOf_wf", "Octo.C10.sum_terminates", "Octo.C10.sum_total", "Octo.C10.sum_lub", "Octo.C10.inter_total", "Octo.C10.typeOf_total",
                       "Octo.C10.nonNullable_spec", "Octo.C10.nonNullable_sub", "Octo.C10.typeOf_conforms",
                       "Octo.C10.C10_refuted", "Octo.C10.C10_partial", "Octo.C10.sum_upper_refuted",
                       "Octo.C10.typeOf_refuted", "Octo.C10.raw_inter_refuted", "Octo.C10.raw_typeOf_refuted"],
    nontrivial=_nontrivial,
    rule="ops: `laws a b` (Is reflexive, TypeSum upper bound / commutative / idempotent / well formed, TypeIntersection "
         "contained, NonNullable) on ALL ordered pairs of the 189-type universe (every type of size <= 2 over "
         "{Null,Int,Float,Str,Any} with field names {x,y}, malformed unions included), on 46 hand-picked nested shapes and on "
         "random nested types (depth <= 4, well-formed and arbitrary, b often a near-copy of a); `sound a b v` (Is and TypeSum "
         "against the Spec `conforms` on an inhabitant v of a), `trans a b c`, `lub a b t` (least upper bound), `typeof v` "
         "(edge universe of C09, inhabitants of every universe type, random deep values, homogeneous lists), plus the single "
         "functions `is/sum/inter/equals/nonnull` for the correspondence; non-trivial = a laws line with incomparable operands "
         "or a non-empty intersection, a trans/lub line whose premises hold, a typeof line of a container",
    exhaustive=dict(quick=True, thorough=True),
    explanation="exhaustive = all ordered pairs of the size<=2 universe on both tiers; the nested part is sampled",
    assumptions=["types are finite trees (no cyclic *Type pointers)",
                 "unions have at most 12 alternatives (sort.Slice is then a stable insertion sort; well-formed unions have <= 10)",
                 "binary laws (upper bound, commutativity, intersection, NonNullable spec) are stated for well-formed types: plain "
                 "union alternatives with distinct TypeIDs, strictly sorted struct field names — the shape TypeSum produces",
                 "on malformed type literals (outside wf) TypeSum's termination within the model's default fuel "
                 "2*(size a + size b) + 8 is tested, not proved (the driver prints `fuel` otherwise; never observed); on well-formed "
                 "types it is proved (sum_terminates); all theorems hold for every fuel"],
    trusted=["Go compiler and runtime", "Go map semantics and sort.Slice (modelled: last-binding-wins lookup, sorted unique keys, "
             "stable insertion sort by TypeID)"],
    # MANIFEST fields
    level_text="Lean theorems for types/values of any nesting depth: Is is reflexive, transitive and sound for `value matches type`; "
               "TypeSum terminates on well-formed types, is idempotent, preserves well-formedness, is an upper bound under ShapeCompatible and the least upper bound "
               "among well-formed types, hence commutative up to Equals; TypeIntersection is contained in both operands; NonNullable "
               "removes exactly NULL; every value matches Value.Type() under ShapeCompatible element chains (Octo.C10.C10_partial). "
               "The full statement is refuted with concrete witnesses (Octo.C10.C10_refuted: TypeSum of shape-mismatched structs/tuples "
               "is not an upper bound; known findings). The model is tied to types.go/values.go by an exact differential run over all "
               "pairs of an exhaustive small universe plus random nested types.",
    level_note="Partial: upper bound / commutativity / Value.Type need the ShapeCompatible hypothesis (known findings "
               "typesum-shape-mismatch, typeof-list-shape-mismatch); binary laws are stated on well-formed types. Two defects were "
               "repaired by fix: commits (TypeIntersection loop-variable aliasing, Value.Type of structs). Trusted: Lean kernel; "
               "axioms propext, Classical.choice, Quot.sound; the correspondence harness; Go runtime, map and sort.Slice semantics; "
               "termination of TypeSum is proved for well-formed types (sum_terminates), tested for malformed literals.",
    technique="Lean 4 proof (induction on fuel / type size) + model/implementation correspondence",
    design_ref="DESIGN.md §3 C10",
)
