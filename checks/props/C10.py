"""C10 — Type algebra laws hold."""


def _nontrivial(op, out):
    return True


PROP = dict(
    lean_modules=["Octo.Props.C10"],
    required_theorems=[],
    nontrivial=_nontrivial,
    rule="wip",
    exhaustive=dict(quick=True, thorough=True),
    assumptions=[],
    trusted=["Go compiler and runtime"],
    level_text="wip",
    level_note="wip",
    technique="Lean 4 proof + model/implementation correspondence",
    design_ref="DESIGN.md §3 C10",
)
