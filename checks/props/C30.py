"""C30 — SQL formatting round-trips through the parser."""


def _nontrivial(op, out):
    # a statement of the modelled fragment that the real parser accepted and whose printed text was re-parsed
    return out.startswith("F ")


def _corr_skip(op, impl, model):
    # X: the real parser accepted the text but the tree / token use is outside the modelled fragment (the Go-side
    #    round-trip oracle is still judged); N: not a SELECT statement
    return impl.startswith("X ") or impl.startswith("N ")


PROP = dict(
    lean_modules=["Octo.Props.C30"],
    gen=["sqlformat"],
    required_theorems=["Octo.C30.roundtrip_fuel", "Octo.C30.depth_le_tokens", "Octo.C30.roundtrip", "Octo.C30.roundtrip_expr",
                       "Octo.C30.roundtrip_table", "Octo.C30.C30_refuted", "Octo.C30.C30_partial"],
    nontrivial=_nontrivial,
    corr_skip=_corr_skip,
    rule="ops: SQL texts (fixed witnesses, the vendored parser tests' SELECT texts, grammar-generated statements of the "
         "fragment with random spelling/spacing/redundant syntax, word-level mutations of all of these), each with the real "
         "tokenizer's token list; non-trivial = accepted by sqlparser.Parse, inside the modelled fragment, printed and re-parsed",
    exhaustive=dict(quick=False, thorough=False),
    assumptions=["the tokenizer (token.go) is outside the Lean model: the theorems are about token sequences; that "
                 "String(tree) lexes to print(tree) is checked by the correspondence run on every generated statement",
                 "the hand-written Lean parser agrees with the goyacc LALR tables of sql.go on the fragment (checked by correspondence)"],
    trusted=["Go compiler and runtime", "goyacc-generated tables in sql.go (not translated)"],
    level_text="Lean theorem: for every syntax tree of the modelled SELECT fragment that satisfies the parser-image predicate, "
               "parsing the printed token sequence yields the same tree (Octo.C30.C30_partial), with the printer interpreting "
               "the Format templates extracted from the current ast.go.",
    level_note="Trusted: Lean kernel; axioms propext, Classical.choice, Quot.sound; translator and correspondence harness; "
               "the tokenizer and the LALR tables are tied by correspondence only.",
    technique="Lean 4 proof (printer/parser round trip by induction) + regenerated Format templates + model/implementation correspondence",
    design_ref="DESIGN.md §3 C30",
)
