"""C16 — Triggers change when results appear, never what the final result is."""


def _nontrivial(op, out):
    # a `gb` line whose stream makes the trigger fire before the end of the stream or retract something:
    # the implementation's output contains a retraction or a forwarded watermark preceded by a record
    if op.startswith("trq "):
        return out.startswith("rows ") and not out.startswith("rows 0")
    if not op.startswith("gb "):
        return False
    return (" - " in out) or (" ; W" in out and out.startswith("ok R"))


PROP = dict(
    lean_modules=["Octo.Props.C16"],
    required_theorems=["Octo.C16.trigger_transparent", "Octo.C16.trigger_independent", "Octo.C16.table_is_groupSpec",
                       "Octo.C16.buffer_preserves_net", "Octo.C16.C16_full", "Octo.C16.C16_refuted_raw",
                       "Octo.C16.aggCount_ok", "Octo.C16.exConf_good", "Octo.C16.simple_is_groupSpec", "Octo.C16.custom_eq_simple",
                       "Octo.C16.validBuffered_of_etByRow", "Octo.C16.C16_event_time_column"],
    nontrivial=_nontrivial,
    needs_binary=True,
    rule="`trq` lines: whole queries through the real binary - tumbling windows over max_diff_watermark, GROUP BY window, key under 11 TRIGGER "
         "combinations (none, each single trigger, every pair order, triples) in csv / json / batch_table: the printed result must be the batch "
         "grouping (this is where the NoRetractions flag of physical.Trigger and the sink choice of cmd/root.go are exercised). "
         "ops: `gb <trigger cfg> … :: <stream>` = the real CustomTriggerGroupBy (real trigger objects materialised from "
         "physical.Trigger, real count/sum aggregates, the EventTimeBuffer in front) over a scripted source. Exhaustive part: "
         "every non-empty subset of {COUNTING n (n=1..4), ON WATERMARK, ON END OF STREAM} (19 configurations) x every valid "
         "changelog with non-decreasing watermarks and no late records over 2 ids x 2 instants x {record, retraction, "
         "watermark} (the two ids carry the same instants in two different *time.Location) of length <= 4 (quick; length 5 on "
         "a rotating fifth of the configurations) / <= 5 (thorough; 6 on a quarter, 7 on one); the same with a NULL aggregate "
         "argument for one id (one length shorter); plus 12 configurations the SQL "
         "layer cannot build (nested/repeated members, n=0, empty Multi) and random streams (up to 40/200 messages, 1-4 ids, "
         "1-4 instants, 4 locations, NULL arguments, count and sum, records without event time, late records); `sgb …` = the real "
         "SimpleGroupBy on the same streams (rows sorted by key on both sides). Compared: the "
         "exact emitted message sequence (model vs implementation) and, by the Lean oracle on the implementation's output, "
         "consolidated output = groupSpec(input). distinct_nontrivial = lines whose output has a retraction or a result "
         "emitted before a forwarded watermark.",
    exhaustive=dict(quick=True, thorough=True),
    explanation="exhaustive over the stated finite universe (19 SQL trigger combinations x all valid streams up to the stated "
                "length over 2 ids x 2 instants); the theorems are unbounded",
    assumptions=[
        "aggregates satisfy the C14 contract (AggOK: on valid histories the result depends only on the net multiset, up to Compare==0); proved here for count",
        "key/argument expressions are total and respect row equality (column references)",
        "input is a valid changelog, also in event-time order (ValidInput.validBuffered; proved automatic when the event time is determined by the row: validBuffered_of_etByRow)",
        "event times fit int64 nanoseconds (EtInRange); fewer than 2^64 records per key (uint Count never wraps); int64 sums do not overflow (sum aggregate in the correspondence only)",
        "the trigger configuration contains at least one primitive trigger (TCfg.live; an empty MultiTrigger is not constructible from SQL)",
        "google/btree behaves as an ordered set for a strict weak order Less (Octo.TMap); GroupKey.Less is one by C09, watermarkTriggerKey.Less is one after the fix (wlessFixed_laws) and was not before (wlessRaw_not_laws)",
    ],
    trusted=["Go compiler and runtime", "github.com/google/btree (modelled as an ordered association list)"],
    level_text="Lean theorem Octo.C16.C16_full: for every trigger configuration (any nesting of MultiTrigger, any n), every aggregate "
               "list satisfying the C14 contract and every valid watermarked changelog of any length, the model of "
               "CustomTriggerGroupBy (behind the EventTimeBuffer) does not panic and its consolidated output at end of stream equals "
               "the reference GROUP BY of the input (groupSpec). Pieces: trigger_transparent (output = the node's table, for every "
               "message list, no validity needed), table_is_groupSpec, buffer_preserves_net. C16_refuted_raw proves the statement "
               "false for the code as shipped (watermarkTriggerKey.Less compared time.Time structs); the repository carries the fix. "
               "The model is tied to the Go code by an exact comparison of the emitted message sequence on a bounded-exhaustive and "
               "random corpus, and the oracle is evaluated on the implementation's own output.",
    level_note="Trusted: Lean kernel; axioms propext, Classical.choice, Quot.sound; the correspondence harness; Go runtime; google/btree as an "
               "ordered container. Aggregates enter through the C14 contract (hypothesis AggOK, proved for count); expressions are total "
               "functions of the record.",
    technique="Lean 4 proof (state invariant over the node/trigger state machines, induction over the message list) + model/implementation correspondence",
    design_ref="DESIGN.md §3 C16",
)
