"""C16 — Triggers change when results appear, never what the final result is."""

PROP = dict(
    lean_modules=["Octo.Props.C16"],
    required_theorems=[],
    rule="wip",
    exhaustive=dict(quick=False, thorough=False),
    assumptions=[],
    trusted=["Go compiler and runtime"],
    level_text="wip",
    level_note="wip",
    technique="Lean 4 proof + model/implementation correspondence",
    design_ref="DESIGN.md §3 C16",
)
