"""C21 — tumble, range and poll produce their documented streams."""


def _nontrivial(op, out):
    return True


PROP = dict(
    lean_modules=["Octo.Props.C21"],
    required_theorems=["Octo.C21.window_len"],
    nontrivial=_nontrivial,
    rule="wip",
    exhaustive=dict(quick=False, thorough=False),
    assumptions=[],
    trusted=["Go compiler and runtime"],
    level_text="wip",
    level_note="wip",
    technique="Lean 4 proof + model/implementation correspondence",
    design_ref="DESIGN.md §3 C21",
)
