"""C21 — tumble, range and poll produce their documented streams."""


def _nontrivial(op, out):
    t = op.split(" ")
    if t[0] == "tumble":
        # positive window length and at least one record came out with its window
        try:
            return int(t[4]) > 0 and (" + " in out or " - " in out)
        except (ValueError, IndexError):
            return False
    if t[0] == "range":
        return "R1" in out
    if t[0] == "poll":
        # at least one snapshot was undone (a retraction of a reported row) and a watermark was sent
        return " - " in out and "W" in out
    return False


PROP = dict(
    lean_modules=["Octo.Props.C21"],
    required_theorems=[
        "Octo.C21.window_contains", "Octo.C21.window_len", "Octo.C21.window_aligned", "Octo.C21.window_unique",
        "Octo.C21.tumble_stream", "Octo.C21.tumble_watermarks", "Octo.C21.tumble_run", "Octo.C21.tumble_timely",
        "Octo.C21.tumble_no_retractions", "Octo.C21.tumble_panic_prefix", "Octo.C21.tumble_schema_index",
        "Octo.C21.tumble_schema_shape",
        "Octo.C21.range_spec", "Octo.C21.range_mem", "Octo.C21.range_ascending", "Octo.C21.range_empty", "Octo.C21.range_run",
        "Octo.C21.poll_rounds", "Octo.C21.poll_round", "Octo.C21.poll_consolidated", "Octo.C21.poll_timely", "Octo.C21.poll_valid",
        "Octo.C21.tumble_refuted", "Octo.C21.C21_refuted", "Octo.C21.C21_partial", "Octo.C21.shipped_poll_refuted",
    ],
    nontrivial=_nontrivial,
    rule="ops: `schema …` = the three OutputSchema functions over every source schema with <= 3 fields of {Time, Int, Time|Null} x "
         "time field x NoRetractions x explicit/implicit time_field; `range s e` for every (s,e) in [-20,20]^2 plus budgets, NULL arguments and the ends of int64; `tumble` over scripted "
         "streams (records, retractions, watermarks, event times, several fields, 6 time zones) with window lengths from 1 ns to "
         "MaxInt64 (all three branches of time.div), offsets of both signs up to +-MaxInt64 and MinInt64, instants on / next to "
         "window boundaries counted from Go's zero time, before 1970 and at both ends of the UnixNano range, explicit and implicit "
         "time field, out-of-range index, failing source, failing consumer; `poll` over 0..4 (thorough: 0..6) rounds of scripted "
         "snapshots (retracting sources, source watermarks, failing source, failing consumer) against the real wall clock, "
         "readings abstracted to ranks. non-trivial = tumble: positive length and a record came out; range: a record came out; "
         "poll: at least one snapshot was undone and a watermark sent",
    exhaustive=dict(quick=False, thorough=False),
    assumptions=[
        "instants are unbounded integers (ns since the Unix epoch): Go's Time.Add/Truncate are exact while the int64 *seconds* "
        "since year 1 do not overflow (+-292e9 years)",
        "durations are int64 (I64); the only int64 arithmetic on them in the code, `-1 * offset`, is modelled with its wrap-around",
        "tumble theorems: window_length > 0, offset != MinInt64 (the excluded case is the known finding), the time field holds a time value",
        "poll theorems: the clock never reads the zero time; poll_timely additionally: the clock is strictly increasing and the "
        "source sends no watermarks of its own; poll_valid: every snapshot of the source is a valid changelog",
        "poll's clock (time.Now) is a parameter of the model; the correspondence run compares modulo the observed readings "
        "(ranked ascending), so only strictly increasing real clocks are exercised",
    ],
    trusted=["Go compiler and runtime, package time (Truncate/div, Add) — validated by the differential run, not proved",
             "the harness's scripted source and consumer (harness/c21.go, ScriptNode)"],
    explanation="C21_refuted: the full statement (all int64 offsets) fails for offset = MinInt64 only (witness in corpus/C21, "
                "KNOWN-FINDING tumble-offset-minint64); C21_partial proves it for every other offset together with the full "
                "range and poll parts. The poll part holds after two fix: commits (late retractions, dropped retraction flags); "
                "shipped_poll_refuted / shipped_poll_late keep the refutation of the shipped loop.",
    # MANIFEST fields
    level_text="Lean theorems over all instants/lengths/offsets/streams/clocks/round counts: tumble appends exactly the window "
               "[ws,we) with ws <= t < we, we-ws = len, (ws-off) a multiple of len from Go's zero time, and it is the unique such "
               "window; other fields, flags, event times, order and watermarks unchanged; range = [start,end) ascending each once; "
               "poll = for every round the undo of the previous snapshot, the snapshot, a watermark, consolidated output after "
               "round k = snapshot k, no late data, valid changelog (Octo.C21.C21_partial; C21_refuted records the single excluded "
               "offset MinInt64). Models tied to tumble.go/range.go/poll.go by an exact differential run of the real nodes "
               "(through the exported descriptors' Materialize) against the Lean model.",
    level_note="Trusted: Lean kernel; axioms propext, Classical.choice, Quot.sound; the correspondence harness; Go runtime and "
               "package time. poll is proved modulo the clock (a parameter); time.Sleep and the poll_interval argument are not "
               "modelled (the matcher declares poll_interval a DESCRIPTOR but Materialize reads it as an expression — any SQL "
               "use of poll_interval crashes, see notes/C21.md).",
    technique="Lean 4 proof (induction over streams / rounds, integer arithmetic) + model/implementation correspondence",
    design_ref="DESIGN.md §3 C21",
)
