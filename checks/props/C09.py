"""C09 — Value ordering, equality and hashing agree."""


def _nontrivial(op, out):
    # a `laws` line whose premises are met (a~b, or a<=b<=c)
    t = op.split(" ", 1)
    if t[0] != "laws":
        return True
    try:
        aa, ab, ba, bc, ac, ha, hb = out.split()
    except ValueError:
        return False
    return ab == "0" or (int(ab) <= 0 and int(bc) <= 0)


PROP = dict(
    lean_modules=["Octo.Props.C09"],
    required_theorems=["Octo.C09.cmp_refl", "Octo.C09.cmp_antisymm", "Octo.C09.cmp_trans", "Octo.C09.hash_congr",
                       "Octo.C09.hashMany_congr", "Octo.C09.C09_full"],
    nontrivial=_nontrivial,
    rule="ops: cmp/equal on all pairs and hash on every value of a 66-value edge universe (NaNs, +-0, +-Inf, MinInt64, "
         "same instant in several locations, nested lists/structs/tuples), `laws a b c` on triples of the universe "
         "(sampled on quick, all on thorough) and on random deep values with near-copies; non-trivial = a laws line "
         "whose premises hold (a~b, or a<=b<=c)",
    exhaustive=dict(quick=False, thorough=True),
    assumptions=["float bit patterns are 64-bit (Value.wf)", "time values lie in the Int64 UnixNano range",
                 "btree/hashmap libraries behave as ordered/hashed containers given a total preorder and a congruent hash"],
    trusted=["Go compiler and runtime"],
    # MANIFEST fields
    level_text="Lean theorems: Value.Compare is reflexive, antisymmetric, transitive, total and equal values hash equally, "
               "for values of any nesting depth (Octo.C09.C09_full). The model of Compare/hash is tied to values.go by an "
               "exact differential run (compare result and full 64-bit hash) over an exhaustive edge universe plus random deep values.",
    level_note="Trusted: Lean kernel; axioms propext, Classical.choice, Quot.sound; the correspondence harness; Go runtime; "
               "btree/hashmap libraries given a total preorder and congruent hash. Floats are modelled as bit patterns "
               "(comparison and identity only).",
    technique="Lean 4 proof (induction on value size) + model/implementation correspondence",
    design_ref="DESIGN.md §3 C09",
)
