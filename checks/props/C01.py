"""C01 — Single-source SELECT results match relational semantics."""


def _nontrivial(op, out):
    # a query with at least one of WHERE / projection / DISTINCT / ORDER BY / LIMIT that returned rows
    return out.startswith("rows ") and not out.startswith("rows 0")


def _corr_skip(op, impl, model):
    # the ORDER of the printed rows is the oracle's business (it checks sortedness whenever the query orders its result); an
    # inner ORDER BY does not order the outer query, and the engine's order among rows tied on the inner keys depends on which
    # columns the optimizer pruned. The correspondence compares the printed rows as a bag.
    if not (impl.startswith("rows ") and model.startswith("rows ")):
        return False
    return sorted(impl.split(" | ")) == sorted(model.split(" | "))


PROP = dict(
    lean_modules=["Octo.Props.C01"],
    required_theorems=["Octo.C01.C01_denote_sound", "Octo.C01.denoteNested_sound", "Octo.C01.blockCore_spec", "Octo.C01.orderLimitEager_spec", "Octo.C01.block_table_sound"],
    needs_binary=True,
    nontrivial=_nontrivial,
    corr_skip=_corr_skip,
    rule="type-directed generator (harness/sqlgen.go): tables of 1-4 columns (Int/Float/String/Boolean, NULL-heavy, duplicates, "
         "MinInt64/MaxInt64) in CSV or JSON-lines, queries of nesting depth 1-3 with WHERE (3-valued boolean trees, comparisons, "
         "wrapping + - *), projections, DISTINCT, ORDER BY (ASC/DESC, 1-2 keys), LIMIT; run through the real octosql binary in all "
         "five output modes; non-trivial = the run returned at least one row",
    exhaustive=dict(quick=False, thorough=False),
    assumptions=["expression language restricted to the modelled subset (C11/C12/C13 cover the functions themselves)",
                 "floats are restricted to multiples of 1/4 so that their printed text is modelled exactly; no float arithmetic",
                 "name resolution / typechecking of whole queries is exercised only through the generator's unique-name discipline",
                 "an inner LIMIT whose cut falls between tied but different rows makes the SQL result non-unique: such cases are accepted without checking"],
    trusted=["Go compiler and runtime", "encoding/csv, fastjson (input parsing) and the five output formatters' number rendering"],
    level_text="Lean theorems: the engine's batch pipeline (filter, map, distinct, OrderSensitiveTransform / table printer btree with "
               "DeleteMax pruning, Limit node, and the choice among them by output mode and nesting) returns an allowed result of the "
               "relational specification Octo.Sql.QueryResult for every query of the fragment and every table. The pipeline model is tied "
               "to the real binary by exact comparison of the printed row sequence in all five output modes; the specification is "
               "evaluated on the binary's output as the oracle.",
    level_note="Partial: planning/name resolution are covered by the correspondence only; expressions limited to the modelled subset; "
               "trusted: Lean kernel, axioms propext/Classical.choice/Quot.sound, the harness (generator, output parsers), Go runtime.",
    technique="Lean 4 proof (operator pipeline refines relational spec) + CLI differential correspondence",
    design_ref="DESIGN.md §3 C01",
)
