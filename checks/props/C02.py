"""C02 — Join results match relational join semantics."""


def _nontrivial(op, out):
    # a join query that returned at least one row
    return out.startswith("rows ") and not out.startswith("rows 0")


PROP = dict(
    lean_modules=["Octo.Props.C02", "Octo.Props.C02Nodes"],
    required_theorems=[],
    needs_binary=True,
    nontrivial=_nontrivial,
    rule="generator harness/sqlgen_join.go: 2-3 tables (CSV or JSON lines, 0-8 rows, 2-4 columns Int/Float/String, NULL-heavy, "
         "duplicate rows, small key domains), queries t JOIN u, (t JOIN u) JOIN v, t JOIN (u JOIN v) with every mix of JOIN / LOOKUP JOIN / "
         "LEFT / RIGHT / OUTER JOIN, ON = 0-3 key equalities (also `a + 1 = b`, flipped sides) with optional extra conjuncts "
         "(theta comparisons, IS NULL, one-sided, disjunctions, constants), sub-select inputs, WHERE over the joined row, optional "
         "SELECT list, with and without --optimize, in all five output modes; non-trivial = the run returned at least one row",
    exhaustive=dict(quick=False, thorough=False),
    assumptions=[],
    trusted=["Go compiler and runtime"],
    level_text="",
    level_note="",
    technique="Lean 4 proof + CLI differential correspondence",
    design_ref="DESIGN.md §3 C02",
)
