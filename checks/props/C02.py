"""C02 — Join results match relational join semantics."""


def _nontrivial(op, out):
    # a join query that returned at least one row
    # … or a plan dump (`jf`) with at least one join node
    # … or a scheduled run of a join node (`sj` / `oj`, shared with C19) that emitted something
    return (out.startswith("rows ") and not out.startswith("rows 0")) or out.startswith("flags ") or out.startswith("ok R") or out.startswith("ok W")


PROP = dict(
    lean_modules=["Octo.Props.C02", "Octo.Props.C02Nodes"],
    required_theorems=["Octo.C02.C02_full", "Octo.C02.join_sql", "Octo.C02.join_sql_mode", "Octo.C02.noRetractions_sound", "Octo.C02.planner_flag_exact",
                       "Octo.C02.old_noRetractions_flag_refuted", "Octo.C02.lookupJoin_sql", "Octo.C02.planner_is_sql",
                       "Octo.C02.optimizer_preserves", "Octo.C02.pushIntoJoinKey_sound", "Octo.C02.execution_is_relational",
                       "Octo.C02.sink_consolidates", "Octo.C02.schedule_independent", "Octo.C02.optimizer_irrelevant",
                       "Octo.C02.eq_with_null_is_not_true", "Octo.C02.engine_join_has_no_null_keys", "Octo.C02.innerJoin_sql", "Octo.C02.left_join_shape", "Octo.C02.right_join_shape",
                       "Octo.C02.full_join_shape", "Octo.C02.eager_sink_before_fix_refuted",
                       "Octo.C02.streamJoin_is_sql_join", "Octo.C02.outerJoin_is_sql_outer_join"],
    needs_binary=True,
    nontrivial=_nontrivial,
    rule="generator harness/sqlgen_join.go: 2-3 tables (CSV or JSON lines, 0-8 rows, 2-4 columns Int/Float/String, NULL-heavy, "
         "duplicate rows, small key domains), queries t JOIN u, (t JOIN u) JOIN v, t JOIN (u JOIN v) with every mix of JOIN / LOOKUP JOIN / "
         "LEFT / RIGHT / OUTER JOIN, ON = 0-3 key equalities (also `a + 1 = b`, flipped sides) with optional extra conjuncts "
         "(theta comparisons, IS NULL, one-sided, disjunctions, constants), sub-select inputs, WHERE over the joined row, optional "
         "SELECT list, with and without --optimize, in all five output modes; every second query also through the REAL planner in-process (`jf`: NoRetractions flag of the root and of every "
         "join node, typechecked and optimized, against Plan.noRetr); `late match` lines: an outer join below another join, csv/json, the partners "
         "of the outer side's rows at the end of a 1200-1800 row file; `sj`/`oj` lines: one in eight of C19's scheduled runs of the real StreamJoin / OuterJoin nodes "
         "(scripted inputs with retractions, event times and watermarks under a chosen interleaving), judged by C19's oracle; non-trivial = the run returned at least one row / a plan dump",
    exhaustive=dict(quick=False, thorough=False),
    assumptions=["SQL fragment: FROM = tables, (SELECT * FROM t WHERE p) sub-selects and JOIN / LOOKUP JOIN / LEFT / RIGHT / OUTER JOIN trees; "
                 "WHERE; SELECT list of expressions; expressions of the modelled subset (columns, literals, + - *, comparisons, AND/OR/NOT, IS [NOT] NULL)",
                 "name resolution is positional in the model (a column is its position in ctx ++ left ++ right): typechecking / unique-name "
                 "handling of the real planner is covered by the correspondence only; the RemoveUnused* optimizer rules (column pruning) "
                 "and PushDownFilterPredicatesToDatasource (identity for CSV/JSON files) are not modelled",
                 "ON / WHERE predicates are predicates (predOK: comparisons, connectives, IS NULL, Boolean/NULL literals) - what TypecheckExpression "
                 "demands of a filter predicate; every record has the width of its node's schema (checked by the model at join nodes)",
                 "theorems are conditional on the model run returning rows (no runtime error); the generator produces well-typed queries only",
                 "the generator avoids -0.0: rows that Compare equal are then identical, so the printed representative is schedule-independent"],
    trusted=["Go compiler and runtime"],
    level_text="Lean theorems (unbounded: every query of the fragment, every table, every scheduler = every interleaving at every join node, "
               "optimizer on or off): planner (JOIN..ON = StreamJoin+Filter, LOOKUP JOIN = LookupJoin+Filter, outer joins take their keys from the ON "
               "clause) o optimizer (MergeFilters, filter push-down into stream/lookup join branches, equality conjuncts into join keys; bottom-up, "
               "any number of rounds) o execution (Filter, Map, LookupJoin, and StreamJoin/OuterJoin as the schedule machine of C19) o consolidating "
               "sink returns, as a bag, the SQL join semantics joinSem (pairs on which ON is TRUE - so NULL keys never match - plus every unmatched row "
               "of an outer side once, NULL-padded; then WHERE and SELECT list) - Octo.C02.C02_full. The pipeline model is tied to the real binary by "
               "exact comparison of the (sorted) printed rows in all five output modes; joinSem is evaluated on the binary's output as the oracle.",
    level_note="Partial w.r.t. SQL: name resolution/typechecking, column pruning rules and the expression language beyond the modelled subset are "
               "covered by the correspondence only; theorems are conditional on error-free runs. Trusted: Lean kernel, axioms propext/Classical.choice/"
               "Quot.sound, the harness (generator, output parsers), Go runtime, encoding/csv + fastjson input parsing, output number rendering.",
    technique="Lean 4 proof + CLI differential correspondence",
    design_ref="DESIGN.md §3 C02",
)
