"""C29 — Query execution is free of data races and deadlocks (the protocol-level part; the data-race half is searched, not decided)."""


def _loose(op):
    # the run's outcome depends on the schedule: a malformed line / scanner error / parent cancellation may be
    # seen before or after other batches
    if op.split()[-1].startswith("t"):
        return True     # cancelled from outside at a random moment
    for spec in op.split()[3:]:
        f = spec.split(":")
        if len(f) == 7 and (f[2] == "1" or f[3] != "-" or f[5] != "-"):
            return True
    return False


def _corr_skip(op, impl, model):
    if op.startswith("join "):
        # outcome of Run and "both producer goroutines ended"; the message counts depend on the schedule
        t = impl.split()
        m = model.split()
        if len(t) == 5 and len(m) == 2 and t[3] == m[1]:
            return t[0] == m[0] or (op.split()[2] == "oj" and op.split()[6] != "-" and t[0] == "stop")
        return False
    if op.startswith("cli "):
        return impl.split(" |", 1)[0] == model
    if not op.startswith("json "):
        return False
    # json ops: the model prints the summary of the canonical schedule; the implementation prints summary | trace.
    summ = impl.split(" |", 1)[0]
    if summ == model:
        return True
    return _loose(op) and not summ.startswith("timeout") and not model.startswith("model-stuck")


def _nontrivial(op, out):
    if op.startswith("join "):
        return out.split()[0] in ("ok", "stop", "err") and "sent=0,0" not in out
    if op.startswith("race "):
        return out.startswith("norace")
    if op.startswith("cli "):
        return " wsent," in out
    return op.startswith("json ") and " wsent," in out


PROP = dict(
    lean_modules=["Octo.Props.C29"],
    required_theorems=["Octo.C29.skeleton_matches", "Octo.C29.join_skeleton_matches", "Octo.C29.capacities_ok",
                       "Octo.C29.token_invariant", "Octo.C29.worker_never_blocks", "Octo.C29.consumer_token_available",
                       "Octo.C29.submit_never_blocks_single", "Octo.C29.every_step_decreases",
                       "Octo.C29.schedules_are_finite", "Octo.C29.pool_never_wedged", "Octo.C29.deadlock_free",
                       "Octo.C29.linesRead_ordered", "Octo.C29.json_pipeline_full",
                       "Octo.C29.join_node_never_deadlocks", "Octo.C29.join_goroutines_end", "Octo.C29.join_unfixed_leaks",
                       "Octo.C29.join_full", "Octo.C29.join_unfixed_refuted", "Octo.C29.C29_full"],
    gen=["jsonpipe"],
    needs_binary=True,
    nontrivial=_nontrivial,
    corr_skip=_corr_skip,
    rule="four kinds of ops, all on the REAL code. (1) `json`: one run of 1-3 concurrent json.DatasourceExecuting.Run "
         "(obtained through json.Creator + Materialize) in a child process whose GOMAXPROCS (= size of the global parser "
         "pool) is 1 / 2 / 16, on generated files with 0,1,63,64,65,127,128,129,1000, ~8400 (more batches than tokens) and "
         "random row counts, seeded worker delays (verifJSONWorkerDelay hook), slow consumers, LIMIT-like early stops, "
         "malformed lines, scanner errors (line too long), cancellation of the parent context; the verif hooks log every "
         "channel operation (blocking operations after they completed, never-blocking ones before they start) and the Lean "
         "judge replays the log as a path of the transition system: every event must be an enabled action whose effect "
         "agrees with the values the code reported (batch boundaries, startIndex, linesRead), the last state must be final "
         "(Run returned, reader goroutine ended, pool drained); a watchdog reports non-termination only when every goroutine "
         "of the run is blocked on a channel operation and nothing was logged between samples. (2) `join`: the real "
         "StreamJoin / OuterJoin on scripted sources with 0..25000 messages (channel capacity 10000), complete runs, early "
         "returns (k-th output fails) and failing sources: Run must return, both producer goroutines must end, counts must "
         "respect the capacity. (3) `race`: 13 whole queries (joins of JSON files, LIKE / regexp in both join branches, stdin, "
         "LIMIT, ORDER BY, GROUP BY, malformed input) through a `go build -race` binary with GOMAXPROCS 1/2/4/16 — a SEARCH "
         "only. (4) `cli`: the same queries through the plain `-tags verif` binary with VERIF_JSON_TRACE: the pipeline hooks of "
         "the whole engine (two or three datasources under joins sharing the pool, cancelled by the join when LIMIT is "
         "reached) write their log to a file and the judge replays it on the model with the inputs inferred from the log "
         "(it must be a path; the process may exit before the pipeline is drained). Also json ops whose parent context is "
         "cancelled by a timer at a random moment. non-trivial = a json run in which a worker delivered a batch / a join run that moved messages / a race run "
         "that ended without a report / a cli trace in which a worker delivered a batch",
    exhaustive=dict(quick=False, thorough=False),
    assumptions=["the statements are about the transition systems Octo.JsonPipe and Octo.JoinProto: goroutines interleave "
                 "at channel operations (sequentially consistent channel semantics); Go's memory model below that level is "
                 "not modelled, so NO data-race claim is made by the theorems",
                 "channels are modelled as bags with a capacity (a receive may take any element; FIFO is the special case "
                 "k = 0), which only adds schedules",
                 "inputs are finite (the tail mode, which follows a file for ever, has batch size 1 in the model and is not driven)",
                 "the consumer's `produce` callback returns (a downstream node that blocks for ever inside produce is "
                 "outside the model; pool_never_wedged shows that this cannot block OTHER datasources)",
                 "after Run returned, its deferred f.Close() may cut the reader's remaining input short at any point (rTrunc)",
                 "multi-datasource json traces are generated so that fewer than 128 jobs are in flight (with more, the logged "
                 "position of the reader's blocking `parserWorkReceiveChannel <- job` would not be a linearisation point)",
                 "join: a source's messages are counted, not represented; after a send was abandoned (ctx.Done) the source "
                 "returns and the goroutine only closes its channel"],
    trusted=["Go compiler and runtime (channel and select semantics, context cancellation)",
             "the verif hooks in datasources/json (add-only, no-ops without the tag) log at the stated positions",
             "harness/c29_extract.go extracts capacities and the communication skeleton faithfully (fails closed)",
             "the race detector, used only to search for violations"],
    level_text="Lean theorems about two transition systems that mirror the channel operations of the code, for EVERY number of "
               "pool workers >= 1, every set of concurrently running JSON datasources over finite inputs (malformed lines, "
               "scanner errors, LIMIT / downstream errors, cancellation at any moment) and EVERY schedule: "
               "token_invariant (jobs in flight + len(outChan) <= tokens <= 128, with equality until cancellation), hence "
               "worker_never_blocks (a pool worker's send to outChan is always enabled: one datasource cannot wedge the "
               "global pool) and consumer_token_available; pool_never_wedged / deadlock_free (an unfinished datasource can "
               "always be advanced by a pool worker or by its own reader / consumer — never needing another datasource's "
               "consumer or the environment); every_step_decreases / schedules_are_finite (a variant: every schedule "
               "terminates, also after LIMIT, errors, cancellation); linesRead_ordered (the consumer reads the shared "
               "variable linesRead only after the reader goroutine returned, and it never changes afterwards); for the joins: "
               "join_node_never_deadlocks, join_goroutines_end (no producer goroutine is left blocked after an early return), "
               "join_unfixed_leaks (the code before the fix: commit is refuted by a reachable stuck state) — together "
               "Octo.C29.C29_full. The models are tied to the code by (a) a translator that regenerates channel capacities, "
               "batch sizes and the communication skeleton (every send / receive / select / case / go / defer / return, in "
               "source order) of execution.go, workers.go, stream_join.go, outer_join.go, with theorems stating that the "
               "skeleton is the one the model was written for and that tokens <= cap(outChan); (b) trace validation of the "
               "real code: every logged run must be a path of the transition system ending in a final state. "
               "The DATA-RACE half of the property is NOT decided by proof: it is a statement about machine-level accesses "
               "under Go's memory model. Known shared state was reviewed by reading (ristretto regexp caches: internally "
               "synchronised; previewedBuffer / stdin counters: mutex + atomics, unsynchronised accesses are sequenced before "
               "execution starts; linesRead: handed over through `done`, proved at protocol level) and queries are run under "
               "the race detector as a violation search only.",
    level_note="Proof covers the protocol models only (deadlock-freedom, termination, bounded channels, goroutine leak, "
               "hand-over of linesRead). Absence of data races is not proved and not claimed; the race detector and GOMAXPROCS "
               "sweeps are a search, a clean run is no evidence of absence. Trusted: Lean kernel; axioms propext, "
               "Classical.choice, Quot.sound; the extractor and the trace-validating harness incl. the verif hooks; Go runtime "
               "channel semantics. Not modelled: tail mode (infinite input), the plugin / gRPC execution path, parquet / CSV / "
               "lines datasources (single goroutine), output printers, a downstream produce that never returns.",
    technique="Lean 4 proof over transition systems (invariants + variant, all schedules) + regenerated communication skeleton "
              "+ trace validation of the real code; race detector as violation search",
    design_ref="DESIGN.md §3 C29, §6",
    explanation="one op = one run of the real code; the judge replays the logged channel operations on the Lean model",
)
