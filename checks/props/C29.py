"""C29 — Query execution is free of data races and deadlocks (protocol-level part only)."""


def _loose(op):
    # the run's outcome depends on the schedule: a malformed line / scanner error / parent cancellation may be
    # seen before or after other batches
    for spec in op.split()[3:]:
        f = spec.split(":")
        if len(f) == 7 and (f[2] == "1" or f[3] != "-" or f[5] != "-"):
            return True
    return False


def _corr_skip(op, impl, model):
    if op.startswith("join "):
        # outcome of Run and "both producer goroutines ended"; the message counts depend on the schedule
        t = impl.split()
        m = model.split()
        if len(t) == 5 and len(m) == 2 and t[3] == m[1]:
            return t[0] == m[0] or (op.split()[2] == "oj" and op.split()[6] != "-" and t[0] == "stop")
        return False
    if not op.startswith("json "):
        return False
    summ = impl.split(" |", 1)[0]
    if summ == model:
        return True
    return _loose(op) and not summ.startswith("timeout") and not model.startswith("model-stuck")


def _nontrivial(op, out):
    if op.startswith("join "):
        return out.split()[0] in ("ok", "stop", "err") and "sent=0,0" not in out
    if op.startswith("race "):
        return out.startswith("norace")
    return op.startswith("json ") and " wsent," in out


PROP = dict(
    lean_modules=["Octo.Props.C29"],
    required_theorems=[],
    gen=["jsonpipe"],
    nontrivial=_nontrivial,
    corr_skip=_corr_skip,
    rule="TODO",
    exhaustive=dict(quick=False, thorough=False),
    assumptions=[],
    trusted=["Go compiler and runtime"],
    level_text="TODO",
    level_note="TODO",
    technique="Lean 4 proof + trace validation",
    design_ref="DESIGN.md §3 C29",
)
