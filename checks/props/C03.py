"""C03 — GROUP BY and aggregates match relational semantics."""


def _nontrivial(op, out):
    if op.startswith("grp "):
        return out.startswith("rows ") and not out.startswith("rows 0")
    return op.startswith("res ") and out != "none"


PROP = dict(
    lean_modules=["Octo.Props.C03"],
    required_theorems=["Octo.C03.placeholder_keyClasses_nil"],
    needs_binary=True,
    gen=["aggtable"],
    nontrivial=_nontrivial,
    rule="wip",
    exhaustive=dict(quick=False, thorough=False),
    assumptions=[],
    trusted=["Go compiler and runtime"],
    level_text="wip",
    level_note="wip",
    technique="Lean 4 proof + CLI differential correspondence",
    design_ref="DESIGN.md §3 C03",
)
