"""C03 — GROUP BY and aggregates match relational semantics."""


def _nontrivial(op, out):
    # a grouping query that returned at least one row, or an overload resolution that chose a descriptor
    if op.startswith("grp "):
        return out.startswith("rows ") and not out.startswith("rows 0")
    return op.startswith("res ") and out != "none"


PROP = dict(
    lean_modules=["Octo.Props.C03"],
    required_theorems=["Octo.C03.groupBy_sql", "Octo.C03.one_row_per_key", "Octo.C03.C03_denote_sound", "Octo.C03.denoteGNested_sound",
                       "Octo.C03.resolve_first_fit", "Octo.C03.fixed_resolution_fits", "Octo.C03.raw_resolution_refuted",
                       "Octo.C03.table_matches_c14", "Octo.C03.table_modelled", "Octo.C03.trigger_same_final_result", "Octo.C03.customTrigger_groupBy_sql",
                       "Octo.C03.C03_full", "Octo.C03.C03_engine_on_simple_plans"],
    needs_binary=True,
    gen=["aggtable"],
    nontrivial=_nontrivial,
    rule="type-directed generator (harness/c03.go): tables of 1-4 columns (Int/Float/String/Boolean, all-NULL and mixed-type "
         "columns, NULL-heavy, duplicates, MinInt64/MaxInt64) in CSV or JSON-lines; grouping queries with 0-3 key expressions "
         "(columns, Int arithmetic, predicates), 1-4 aggregates (count, count(*), sum, avg, min, max, array_agg, DISTINCT "
         "variants; a few ill-typed ones), WHERE, DISTINCT, ORDER BY, LIMIT, nested FROM, a HAVING-like outer block, and the "
         "TRIGGER clauses that select CustomTriggerGroupBy (COUNTING k with/without ON END OF STREAM); run through the real "
         "octosql binary in all five output modes; plus overload resolution on the real GroupBy.Typecheck for every aggregate "
         "x every union of the seven scalar types (exhaustive) and the generated aggregate table against the linked one; "
         "non-trivial = a grouping query that returned rows / a resolution that chose a descriptor",
    exhaustive=dict(quick=False, thorough=False),
    assumptions=["expression language restricted to the modelled subset (C11/C13 cover the functions themselves); static types of "
                 "computed expressions are modelled up to nullability (exact on column references, where union types come from)",
                 "float sums / averages: exact arithmetic on finite floats (C14's caveat); the generator uses multiples of 1/4",
                 "the hash map of SimpleGroupBy is an association list keyed by Compare == 0 (licensed by C09: equal keys hash "
                 "equally); its iteration order is canonicalised away on both sides of the correspondence",
                 "no LIMIT without ORDER BY directly above a group-by (the row order is hash order); an inner LIMIT whose cut falls "
                 "between tied but different rows is accepted without checking",
                 "CustomTriggerGroupBy plans: the node itself is proved (customTrigger_groupBy_sql: its changelog consolidates to "
                 "groupSem); the changelog pipeline above it (Map, Distinct, OrderSensitiveTransform, table printer on "
                 "retractions) is covered by the correspondence and by C15's node theorems, not composed in Lean"],
    trusted=["Go compiler and runtime", "encoding/csv, fastjson (input parsing) and the output formatters' number rendering",
             "zyedidia/generic/hashmap and google/btree as containers under a congruent hash / strict weak order (C09)"],
    level_text="Lean theorems: the engine's batch GROUP BY pipeline (overload resolution over the GENERATED aggregate table, "
               "SimpleGroupBy's hash map with its non-NULL set sizes, C14's aggregates, the select-list Map, DISTINCT, ORDER BY, "
               "LIMIT, nesting, all five sinks) returns an allowed result of the relational specification Octo.Grp.GQueryResult — "
               "one row per Compare-class of key tuples incl. the NULL key, aggregates from scratch over the non-NULL inputs, NULL "
               "for none — for every query of the fragment and every table (C03_full); overload resolution picks the first "
               "overload that fits, for all descriptor lists and types (resolve_first_fit); CustomTriggerGroupBy under any COUNTING / "
               "END OF STREAM trigger emits a changelog that consolidates to the same groupSem (customTrigger_groupBy_sql). The model is tied to the real binary by exact comparison of the printed "
               "rows in all five output modes; the specification is evaluated on the binary's output as the oracle.",
    level_note="Holds after `fix: aggregate overload resolution tests the non-nullable part of the argument type and asserts "
               "ArgumentType | NULL` (raw_resolution_refuted is the shipped code). Partial: planning/name resolution by "
               "correspondence only; float sums in exact arithmetic; custom-trigger plans see assumptions. Trusted: Lean kernel, "
               "axioms propext/Classical.choice/Quot.sound, the harness (generator, output parsers), Go runtime.",
    technique="Lean 4 proof (group-by pipeline refines relational spec; C14 + C09 + C01 + C16 composed) + translator (aggregate "
              "table) + CLI differential correspondence",
    design_ref="DESIGN.md §3 C03",
)
