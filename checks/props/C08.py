"""C08 — Static types are sound."""


def _split(line):
    parts = line.split(" | ")
    return parts[0], (parts[1] if len(parts) > 1 else "")


def _corr_skip(op, impl, model):
    """the model prints `?` where a function body is not modelled (float arithmetic, regexps, clock): the typed tree must
    agree exactly, the values wherever the model has one"""
    if op.startswith("qry "):
        return True     # whole queries through the CLI are oracle-only: the Lean model does not cover them
    if "?" not in model:
        return False
    ti, vi = _split(impl)
    tm, vm = _split(model)
    if ti != tm:
        return False
    a, b = vi.split(), vm.split()
    # walk both token streams; a `?` stands for one whole value of the implementation (prefix code: skip it)
    i = j = 0

    def skip_value(toks, k):
        t = toks[k]
        if t[0] in "LST" and t[1:].isdigit():
            n = int(t[1:])
            k += 1
            for _ in range(n):
                k = skip_value(toks, k)
            return k
        return k + 1

    try:
        while j < len(b):
            if b[j] == "?":
                if a[i] in (";",):
                    return False
                i = skip_value(a, i)
                j += 1
            else:
                if a[i] != b[j]:
                    return False
                i += 1
                j += 1
        return i == len(a)
    except IndexError:
        return False


def _nontrivial(op, out):
    # an evaluation that typechecked and produced at least one value
    return " | " in out and not out.endswith("| err") and not out.endswith("| panic")


PROP = dict(
    lean_modules=["Octo.Props.C08"],
    gen=["functable"],
    needs_binary=True,
    required_theorems=[
        "Octo.C08.table_indices", "Octo.C08.table_out_wf", "Octo.C08.table_params", "Octo.C08.table_kinds_within",
        "Octo.C08.table_tyfn_kinds", "Octo.C08.nonnull_output_never_returns_null", "Octo.C08.typeFn_probes_agree",
        "Octo.C08.descriptor_obligation", "Octo.C08.typing_sound", "Octo.C08.typing_sound_generated",
        "Octo.C08.null_only_if_admitted", "Octo.C08.assertion_complete", "Octo.C08.covered_relayout_conforms", "Octo.C08.aggTable_kinds",
        "Octo.C08.aggregate_obligation", "Octo.C08.aggregate_sound", "Octo.C08.C08_refuted", "Octo.C08.C08_partial",
        "Octo.C08.C08_partial_generated", "Octo.C08.shipped_field_access_unsound",
        "Octo.C08.shipped_aggregate_overload_refuted", "Octo.C08.shipped_int_of_string_refuted"],
    corr_skip=_corr_skip,
    nontrivial=_nontrivial,
    rule="ops: `ev` = a logical expression (variables, constants, every function descriptor of the real table, AND/OR, "
         "COALESCE, tuples, `::`, `->`; depth <= 4; grown type-directed from a pool with the real typechecker deciding "
         "well-typedness, arguments chosen to fit exactly or only `maybe` through a union so that run-time assertions are "
         "inserted) over an environment of 1-2 variable contexts (scalars, nullable scalars, multi-alternative unions, "
         "lists, objects, nullable objects, unions containing objects, tuples, Any; shadowed names) with 4-6 NULL-heavy "
         "conforming rows; it goes through the REAL Typecheck -> Materialize -> Evaluate and the harness prints the typed "
         "physical tree (static type of every node, chosen descriptor, assertion targets) and the value of EVERY node on "
         "every row; a sixth of the rejected candidates is kept so that the model must agree on rejections. `agg` = one "
         "group of the REAL GroupBy.Typecheck -> Materialize -> Run for every aggregate over every variable type. "
         "Oracle: every printed value conforms to the type the implementation reported for its node / column. "
         "non-trivial = a line that typechecked and produced at least one value",
    exhaustive=dict(quick=False, thorough=False),
    assumptions=[
        "result kinds: what the go/ast pass over functions/functions.go and aggregates/*.go records for every `return` of a "
        "function body / Trigger method (octosql.NewX(...) builds a value of TypeID X, values[i] is the i-th argument, "
        "`return v, fmt.Errorf(...)` yields no value) is what the body can return (RespectsKinds / AggRespects)",
        "constants match the type Value.Type() reports for them and that type is well formed (constsOk): true of every "
        "scalar constant, i.e. of everything SQL text can denote; without it the statement is refuted (C08_refuted, C10 "
        "finding typeof-list-shape-mismatch)",
        "COALESCE: a decidable side condition per COALESCE node (coalesceOk): the result type is Any, or all argument types "
        "are struct/tuple/Any-free, or result and argument types are in TypeSum's normal form (normB) and the result type "
        "covers every argument type (coversB); that TypeSum always covers its operands is not proved, the oracle evaluates "
        "the condition on every typed tree (fails only for Any nested inside a tuple type: 12 of 28.6 k thorough lines)",
        "variable types are well formed (CtxWf: unions with one plain alternative per TypeID, as TypeSum builds them)",
        "NOT modelled (the model prints `?`, the oracle still judges the implementation's value): float arithmetic, math.*, "
        "regexps (LIKE, ~, ~*), parse_time, time_from_unix, now, non-ASCII upper/lower, float sums/averages",
        "aggregates: one group, no retractions (retraction histories are C14)",
        "query-level soundness (columns of whole queries, datasource values matching their schemas) is covered by the "
        "C01 / C24 correspondences, not by these theorems",
    ],
    trusted=["Go compiler and runtime", "the go/ast result-kind extraction (harness/c08_extract.go)"],
    # MANIFEST fields
    level_text="Lean theorems (unbounded: any expression depth, any number of arguments, any values): the typing rules of "
               "logical/function.go (two-pass overload resolution, nullable lifting of strict functions, inserted "
               "TypeAssertions), logical/logical.go (Variable, Constant, And, Or, Coalesce, Tuple, TypeCast, "
               "ObjectFieldAccess, TypecheckExpression, TypecheckPossiblyNullableStruct) and logical/group_by.go "
               "(aggregate overload choice and output types) are sound with respect to Materialize+Evaluate for EVERY "
               "function table meeting a per-descriptor obligation (typing_sound, aggregate_sound); the obligation is "
               "discharged for the REAL table, regenerated from /repo on every run by reflection + go/ast "
               "(descriptor_obligation, nonnull_output_never_returns_null, table_kinds_within by `decide`); NULL appears "
               "only where the type admits it. The full statement is refuted for arbitrary constants (C08_refuted) and "
               "proved with the two hypotheses named in `assumptions` (C08_partial); COALESCE over objects and tuples goes "
               "through C13's layout-fixer theorem and a new coverage relation (covered_relayout_conforms). Model tied to the code by an exact "
               "differential run of typed trees and per-node values.",
    level_note="Partial: whole-query columns (plan node schemas) are outside the theorems (CLI oracle lines only); the COALESCE rule "
               "carries a decidable side condition that the oracle evaluates on every line. "
               "Trusted: Lean kernel; axioms propext, Classical.choice, Quot.sound; the correspondence harness and the go/ast "
               "result-kind extraction; Go runtime.",
    technique="Lean 4 proof (induction on expressions) + regenerated descriptor table + model/implementation correspondence",
    design_ref="DESIGN.md §3 C08",
)
