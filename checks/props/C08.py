"""C08 — Static types are sound."""


def _split(line):
    parts = line.split(" | ")
    return parts[0], (parts[1] if len(parts) > 1 else "")


def _corr_skip(op, impl, model):
    """the model prints `?` where a function body is not modelled (float arithmetic, regexps, clock): the typed tree must
    agree exactly, the values wherever the model has one"""
    if "?" not in model:
        return False
    ti, vi = _split(impl)
    tm, vm = _split(model)
    if ti != tm:
        return False
    a, b = vi.split(), vm.split()
    # walk both token streams; a `?` stands for one whole value of the implementation (prefix code: skip it)
    i = j = 0

    def skip_value(toks, k):
        t = toks[k]
        if t[0] in "LST" and t[1:].isdigit():
            n = int(t[1:])
            k += 1
            for _ in range(n):
                k = skip_value(toks, k)
            return k
        return k + 1

    try:
        while j < len(b):
            if b[j] == "?":
                if a[i] in (";",):
                    return False
                i = skip_value(a, i)
                j += 1
            else:
                if a[i] != b[j]:
                    return False
                i += 1
                j += 1
        return i == len(a)
    except IndexError:
        return False


def _nontrivial(op, out):
    # an evaluation that typechecked and produced at least one value
    return " | " in out and not out.endswith("| err") and not out.endswith("| panic")


PROP = dict(
    lean_modules=["Octo.Props.C08"],
    gen=["functable"],
    required_theorems=[],
    corr_skip=_corr_skip,
    nontrivial=_nontrivial,
    rule="TODO",
    exhaustive=dict(quick=False, thorough=False),
    assumptions=[],
    trusted=["Go compiler and runtime"],
    level_text="TODO",
    level_note="TODO",
    technique="Lean 4 proof (induction on expressions) + regenerated descriptor table + model/implementation correspondence",
    design_ref="DESIGN.md §3 C08",
)
