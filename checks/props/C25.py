"""C25 — CSV and JSON output faithfully encode results."""

_SPEC_OPS = ("jvalid", "pf", "ptime", "pdur")


def _nontrivial(op, out):
    # a formatter op with at least one row whose output was produced (not a panic on an ill-typed row);
    # the ops that compare the specification's readers with Go's parsers are not counted
    k = op.split(" ", 1)[0]
    if k in _SPEC_OPS:
        return False
    return out != "panic" and " N0 " not in op


PROP = dict(
    lean_modules=["Octo.Props.C25"],
    required_theorems=["Octo.C25.json_string_roundtrip", "Octo.C25.json_int_exact", "Octo.C25.json_roundtrip",
                       "Octo.C25.json_value_matches", "Octo.C25.json_line", "Octo.C25.json_line_utf8", "Octo.C25.json_line_framing",
                       "Octo.C25.json_output", "Octo.C25.json_output_lines",
                       "Octo.C25.csv_field_roundtrip", "Octo.C25.csv_roundtrip", "Octo.C25.csv_value", "Octo.C25.csv_output",
                       "Octo.C25.C25_full", "Octo.C25.raw_string_refuted"],
    nontrivial=_nontrivial,
    rule="ops json/csv: a schema and 0..3 rows through the real JSONFormatter / CSVFormatter writing to a buffer; ejson/ecsv: the same "
         "through eager.OutputPrinter with os.Stdout redirected (records with retraction flags and a watermark). The bytes are "
         "compared with the Lean model's, then decoded by the Lean RFC 8259 / RFC 4180 readers and matched against the row "
         "(ints by exact value, floats by exact decimal->binary64 rounding, strings byte for byte, times / durations by the Lean "
         "RFC 3339 / duration readers, structure, field names; UTF-8 well-formedness when the data is). Inputs: every byte 0-255 "
         "alone and next to quotes / backslashes / separators, CR/LF, every Unicode space as first rune, invalid UTF-8, "
         "non-printable runes, odd column and field names, edge and random ints / floats / times / durations, typed nested random "
         "rows, ill-typed rows. ops jvalid/pf/ptime/pdur compare the specification's own readers with encoding/json.Valid, "
         "strconv.ParseFloat (incl. exact halfway cases), time.Parse and time.ParseDuration. non-trivial = a formatter op with at "
         "least one row and no panic",
    exhaustive=dict(quick=False, thorough=False),
    assumptions=[
        "LibOK (hypothesis of the theorems, sampled on every run by the judge): strconv.AppendFloat(f,'g',-1,64) of a finite float is "
        "a literal of the JSON number grammar that rounds back to exactly f; FormatFloat(f,'f',-1,64) likewise, and prints NaN/+Inf/-Inf "
        "for non-finite f; Time.Format(RFC3339Nano) is an RFC 3339 text of exactly the instant; Duration.String() denotes exactly the "
        "duration",
        "rows fit the schema (`rowFits`: one value per field; lists / structs / tuples under a list / struct / tuple type (or a union "
        "containing one) of matching arity) — what C08 (static types are sound) provides",
        "Int values are in the int64 range; times in the UnixNano range (years 1678-2262)",
        "a string that is not well-formed UTF-8 cannot be carried by a JSON text; the formatter copies its bytes through, the line then "
        "is not UTF-8 but a byte-oriented reader still gets the bytes back (json_string_roundtrip)",
    ],
    trusted=["Go compiler and runtime", "strconv / time formatting (the Lib parameter; their read-back properties are LibOK)",
             "the Lean readers Json.decode / Csv.decode / Num.litToF64 / TimeText.* are the specification (cross-checked against "
             "encoding/json.Valid, strconv.ParseFloat, time.Parse, time.ParseDuration by the jvalid/pf/ptime/pdur ops)"],
    # MANIFEST fields
    level_text="Lean theorems over an executable model of json_format.go / csv_format.go / csv.Writer: for every schema and every row that "
               "fits it, JSONFormatter.Write does not panic and writes one line (no control character, one final LF, UTF-8 if the data "
               "is) that an independent RFC 8259 reader decodes to a document equal to the row — strings byte for byte for all byte "
               "strings, ints exact, NULL as null, structure and field names kept (Octo.C25.json_output); every list of byte-string "
               "fields written by csv.Writer is read back unchanged by an independent RFC 4180 reader and every scalar cell is the "
               "text of its value, NULL the empty field (csv_roundtrip, csv_value, csv_output); together C25_full. The model is tied "
               "to the code by a byte-exact differential run of the real formatters and of eager.OutputPrinter.",
    level_note="Partial in one respect: the texts of floats, times and durations come from Go's strconv/time and enter the theorems as the "
               "parameter Lib with the read-back hypothesis LibOK, which is not proved but re-checked on every run against exact "
               "arithmetic in Lean. Trusted: Lean kernel; axioms propext, Classical.choice, Quot.sound; the correspondence harness; Go "
               "runtime. Four genuine defects were found and repaired in the repository (string/key escaping, NaN/Inf, CSV panic on "
               "non-scalars, sub-second times); the pre-repair escaper is refuted in Lean (raw_string_refuted).",
    technique="Lean 4 proof (structural induction over values / byte strings) + model/implementation correspondence",
    design_ref="DESIGN.md §3 C25",
)
