"""C25 — CSV and JSON output faithfully encode results."""


def _nontrivial(op, out):
    # an op with at least one row whose output was produced (not a panic on an ill-typed row)
    return out != "panic" and " N0 " not in op


PROP = dict(
    lean_modules=["Octo.Props.C25"],
    required_theorems=["Octo.C25.json_string_roundtrip", "Octo.C25.json_int_exact", "Octo.C25.json_roundtrip",
                       "Octo.C25.json_value_matches", "Octo.C25.json_line", "Octo.C25.json_line_utf8", "Octo.C25.json_line_framing",
                       "Octo.C25.json_output",
                       "Octo.C25.csv_field_roundtrip", "Octo.C25.csv_roundtrip", "Octo.C25.csv_value", "Octo.C25.csv_output",
                       "Octo.C25.C25_full", "Octo.C25.raw_string_refuted"],
    nontrivial=_nontrivial,
    rule="ops: json/csv = a schema and 0..3 rows through the real JSONFormatter / CSVFormatter (bytes compared with the model, "
         "then decoded by the Lean RFC 8259 / RFC 4180 readers and matched against the row); ejson/ecsv = the same through "
         "eager.OutputPrinter; non-trivial = at least one row and no panic",
    exhaustive=dict(quick=False, thorough=False),
    assumptions=[],
    trusted=["Go compiler and runtime"],
    level_text="WIP",
    level_note="WIP",
    technique="Lean 4 proof (induction on value size) + model/implementation correspondence",
    design_ref="DESIGN.md §3 C25",
)
