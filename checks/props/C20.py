"""C20 — max_diff_watermark generates correct watermarks."""


def _nontrivial(op, out):
    # a run in the domain with at least two records that produced at least one watermark
    # (dropping, non-emission and rejection lines are counted separately in the evidence distribution)
    return op.startswith("run ") and op.count("R") >= 2 and out.startswith("ok") and "W" in out


PROP = dict(
    lean_modules=["Octo.Props.C20"],
    required_theorems=["Octo.C20.run_eq_spec", "Octo.C20.nonpositive_resolution_rejected", "Octo.C20.floorTo_spec",
                       "Octo.C20.maxOf_spec", "Octo.C20.spec_append", "Octo.C20.current_watermark",
                       "Octo.C20.watermarks_strictly_increasing", "Octo.C20.record_rule",
                       "Octo.C20.upstream_watermark_swallowed", "Octo.C20.forwarded_unchanged",
                       "Octo.C20.C20_full", "Octo.C20.shipped_refuted", "Octo.C20.shipped_partial"],
    nontrivial=_nontrivial,
    rule="ops: `run <max_diff> <resolution|-> <time field index> <stream>` through the exported descriptor's Materialize over "
         "a scripted source: the DESIGN witnesses (pre-1970 rounding, resolution 0 and < 0, default resolution), all "
         "sequences of 2 (quick) / 3 (thorough) times of a 13-point grid around 0 and around multiples of resolution 10 for "
         "4 max_diff values, and random streams (in/out of order, duplicates, times exactly on / just off multiples of the "
         "resolution, around the epoch on both sides, 1922, 2020, next to MinInt64 and MaxInt64, upstream watermarks, "
         "retractions, 1-3 columns, several time zones) x resolution in {1ns, 1us, 1s, 7s, 1h, 1d, a prime, random} x "
         "max_diff (0, = res, random, negative, res/2+1, > 3 res); ~8% as `fail <k> ...` (the source fails after k messages); "
         "`schema <want> <noretr> <k> (<name> <type>)*` = OutputSchema + Materialize + one record revealing the column used at "
         "run time: all field lists of length <= 3 over 2 names x {Time, Int, Null|Time} x 3 wanted names, plus random ones; non-trivial = in-domain run with >= 2 records that "
         "emitted a watermark",
    exhaustive=dict(quick=False, thorough=False),
    assumptions=["every record holds a Time value in the time field (enforced by the TVF's OutputSchema check) whose UnixNano "
                 "lies in the Int64 range (Go leaves UnixNano undefined outside 1678-2262)",
                 "max_diff and resolution are Int64 nanosecond durations",
                 "time.Time arithmetic (time.Unix, Add, After) is exact on these ranges (seconds since year 1 in an int64)"],
    trusted=["Go compiler and runtime", "package time"],
    # MANIFEST fields
    level_text="Lean theorems over all input streams, all Int64-ns times (also before 1970), all max_diff and resolutions: "
               "the generator's output equals the prescribed stream (Octo.C20.C20_full / run_eq_spec): watermark = "
               "floor(max time so far to the resolution) - max_diff emitted exactly when it increases (current_watermark, "
               "watermarks_strictly_increasing), a record is dropped iff its time <= the current watermark and otherwise "
               "forwarded unchanged with event time = time field (record_rule, forwarded_unchanged), upstream watermarks "
               "swallowed, non-positive resolution rejected. The shipped code is refuted (shipped_refuted: rounds up "
               "before 1970; divide by zero) and repaired by a fix: commit. The model is tied to max_diff_watermark.go by "
               "an exact differential run of the node obtained from the exported descriptor's Materialize.",
    level_note="Trusted: Lean kernel; axioms propext, Classical.choice, Quot.sound; the correspondence harness; Go runtime "
               "and package time. Not modelled: TypecheckArguments/OutputSchema (argument plumbing), non-Time values in "
               "the time field, times outside the Int64 UnixNano range, errors returned by produce/metaSend.",
    technique="Lean 4 proof (state invariant by induction over the input stream) + model/implementation correspondence",
    design_ref="DESIGN.md §3 C20",
)
