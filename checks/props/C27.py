"""C27 — Plugin installation survives a crash at any point."""


def _nontrivial(op, out):
    return " S ok" in out or out.startswith("S ok")


PROP = dict(
    lean_modules=["Octo.Props.C27"],
    required_theorems=[],
    needs_binary=True,
    gen=["installsteps"],
    nontrivial=_nontrivial,
    rule="todo",
    exhaustive=dict(quick=False, thorough=False),
    assumptions=[],
    trusted=["Go compiler and runtime"],
    level_text="todo",
    level_note="todo",
    technique="Lean 4 proof + model/implementation correspondence",
    design_ref="DESIGN.md §3 C27",
)
