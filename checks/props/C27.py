"""C27 — Plugin installation survives a crash at any point."""


def _nontrivial(op, out):
    # a crash/start line on which the real octosql binary started and resolved its databases
    return " S ok" in out or out.startswith("S ok")


def _corr_skip(op, impl, model):
    # `AT 4 u<n>`: Install stops by itself inside Unarchive on a truncated archive. What has been unpacked below the staging
    # directory by then depends on the gzip stream; the model treats it as a kill before Unarchive. Only the observations
    # after the tree (start-up, binaries, repositories) are compared for these lines.
    if " AT 4 u" in op:
        return impl[impl.find(" S "):] == model[model.find(" S "):]
    return False


PROP = dict(
    lean_modules=["Octo.Props.C27"],
    required_theorems=["Octo.C27.steps_tie", "Octo.C27.crash_points_tie", "Octo.C27.paths_tie", "Octo.C27.download_under",
                       "Octo.C27.registry_decodes", "Octo.C27.C27_partial", "Octo.C27.C27_fresh", "Octo.C27.C27_addrepo", "Octo.C27.C27_resolves", "Octo.C27.C27_healthy_again", "Octo.C27.C27_history",
                       "Octo.C27.C27_refuted"],
    needs_binary=True,
    gen=["installsteps"],
    nontrivial=_nontrivial,
    corr_skip=_corr_skip,
    rule="per round: one generated healthy tree (repos x plugins x versions with binaries, optional extension registry and "
         "repository entries, leftovers of earlier crashes) + configuration whose databases resolve; `plugin install` of a "
         "fresh plugin / a new version / the SAME version again, killed before every one of the 12 instrumented filesystem "
         "steps and after the last, plus torn writes (0, 1, half, len-1 bytes) of the archive download and of the registry "
         "temp file; `repository add` killed before each of its 3 steps + 4 tears; start-up on trees damaged the way the "
         "pre-repair code damaged them. For every line the resulting tree is compared file by file with the model's "
         "`crash k t`, and the real binary's start-up (resolved versions via the verif hook), GetPluginBinaryPath and "
         "GetRepositories with the model's `startup`/`runnable`/`loadRepositories`. non-trivial = the real binary started",
    exhaustive=dict(quick=False, thorough=False),
    assumptions=["POSIX: rename(2) is atomic, a write is not (any prefix may be on disk); a crash is a process kill (no power loss: no fsync modelling)",
                 "semver.GreaterThan is a strict total order on the versions installed for one plugin (no two directory names that parse to equal versions); sampled by C28's semver ops",
                 "the version directory name Install uses (Version.String()) parses back as a version and does not start with '.'",
                 "json.Marshal output of the extension registry / repository entry is accepted by json.Unmarshal (JobOk.handlers, repoEntryOk)",
                 "the initial tree is healthy: closed (every entry's parent is a directory), plugin directories are named octosql-plugin-*, octosql starts",
                 "the work between MkdirAll(stagingDir) and the renames (download, archiver.Unarchive) only touches paths below the staging directory (proved for the modelled download+unarchive; the archiver library itself is trusted); crash points INSIDE Unarchive are covered by the theorem only, not by the correspondence run"],
    trusted=["Go compiler and runtime", "operating system file system (modelled: finite map path -> dir | file bytes)",
             "github.com/mholt/archiver (unpacks below the destination directory)", "Masterminds/semver", "encoding/json"],
    level_text="Lean theorems over a file-system step model: for every healthy tree, configuration, installation job, number k of "
               "completed filesystem steps and tear t of the step in progress, the state left by a killed `plugin install` starts "
               "octosql and behaves exactly like the state before or like the state after the complete installation, every version "
               "directory being byte-identical to that state's (C27_partial, C27_resolves), and is again a healthy starting state (C27_healthy_again), so any history of completed or killed installs / repository adds outside the window keeps octosql starting (C27_history) - except the single state in which an "
               "already installed version has been moved aside and the new copy is not yet in place (C27_refuted, known finding "
               "reinstall-swap-window; C27_fresh: no exception when the version was not installed). `repository add`: full (C27_addrepo). "
               "The step lists are regenerated from the Go source and proved equal to the model's (steps_tie, paths_tie); the model is "
               "compared with the real Install/AddRepository killed at every instrumented step, tree by tree, and with the real binary's start-up.",
    level_note="Holds after three fix: commits (stage+rename install, write-temp+rename for the two JSON files, dot-entries skipped by the "
               "listing). Trusted: Lean kernel; propext, Classical.choice, Quot.sound; harness; OS rename atomicity; archiver, semver, "
               "json libraries as parameters/assumptions listed in evidence.assumptions.",
    technique="Lean 4 proof (frame/invariant argument over file-system steps, all crash prefixes and tears) + regenerated step lists + "
              "crash-injection correspondence against the real code",
    design_ref="DESIGN.md §3 C27",
)
