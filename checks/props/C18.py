"""C18 — watermarks never go backwards and operators do not create late data (single-input nodes and the buffer)."""


def _nontrivial(op, out):
    # the source carries at least one watermark and one record with a non-zero event time, and the node ran
    src = op.split("|", 1)[-1]
    toks = src.split()
    has_wm = any(t.startswith("W") for t in toks)
    has_et = any(a in ("+", "-") and b != "z" for a, b in zip(toks, toks[1:]))
    return has_wm and has_et and not out.startswith("panic")


PROP = dict(
    lean_modules=["Octo.Props.C18"],
    required_theorems=[],
    nontrivial=_nontrivial,
    rule="WIP",
    exhaustive=dict(quick=False, thorough=False),
    assumptions=[],
    trusted=["Go compiler and runtime"],
    level_text="WIP",
    level_note="WIP",
    technique="Lean 4 proof (model of the bucket buffer = naive stable-sort specification; sublist / rewrite lemmas) + model/implementation correspondence",
    design_ref="DESIGN.md §3 C18",
)
