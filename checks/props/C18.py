"""C18 — watermarks never go backwards and operators do not create late data (single-input nodes and the buffer)."""


def _nontrivial(op, out):
    # the source carries at least one watermark and one record with a non-zero event time, and the node did not panic
    toks = op.rsplit("|", 1)[-1].split()
    has_wm = any(t.startswith("W") for t in toks)
    has_et = any(a in ("+", "-") and b != "z" for a, b in zip(toks, toks[1:]))
    return has_wm and has_et and not out.startswith("panic")


PROP = dict(
    lean_modules=["Octo.Props.C18"],
    required_theorems=[
        "Octo.C18.filter_wm_mono", "Octo.C18.filter_no_late", "Octo.C18.distinct_wm_mono", "Octo.C18.distinct_no_late",
        "Octo.C18.limit_wm_mono", "Octo.C18.limit_no_late", "Octo.C18.map_wm_mono", "Octo.C18.map_no_late",
        "Octo.C18.unnest_wm_mono", "Octo.C18.unnest_no_late", "Octo.C18.lookup_wm_mono", "Octo.C18.lookup_no_late",
        "Octo.C18.sgroup_wm_mono", "Octo.C18.sgroup_no_late", "Octo.C18.order_wm_mono", "Octo.C18.order_no_late",
        "Octo.C18.buffer_spec", "Octo.C18.buffer_sorted", "Octo.C18.buffer_stable", "Octo.C18.buffer_complete",
        "Octo.C18.etb_wm_mono", "Octo.C18.etb_no_late", "Octo.C18.ctgb_wm_mono", "Octo.C18.ctgb_no_late",
        "Octo.C18.lookup_wm_refuted", "Octo.C18.ctgb_keyed_refuted", "Octo.C18.C18_refuted", "Octo.C18.C18_partial",
    ],
    nontrivial=_nontrivial,
    rule="one op line = one real single-input execution node (3 of 13 lines: EventTimeBuffer) or a 2-4 node pipeline over a scripted "
         "source: generated streams with MONOTONE watermarks (repeats, watermark equal to an event time), NO late records, zero and "
         "non-zero event times with frequent ties, retractions; the exact emitted sequence is compared with the Lean model and the "
         "Lean oracle (watermarks monotone, no late record, and for the buffer equality with the naive stable-sort specification "
         "bufSpec) is evaluated on the implementation's output. non-trivial = the source has a watermark and a non-zero event time",
    exhaustive=dict(quick=False, thorough=False),
    assumptions=[
        "theorems cover the single-input nodes and the event-time buffer; for the stream / outer join the model and its "
        "schedule theorems are C19's (consistent_at_wm), and this check runs a sample of C19's (scripts, interleaving) lines "
        "through the real join nodes and judges monotone watermarks / no late records on the emitted sequence (oracle only, "
        "no separate theorem); table-valued functions: C20/C21",
        "event times lie in the Int64 nanosecond range; watermarks stay below WatermarkMaxValue for CustomTriggerGroupBy",
        "time.Time comparisons (Before/After) are comparisons of the instant",
    ],
    trusted=["Go compiler and runtime", "github.com/google/btree (modelled as a list of buckets sorted by time)"],
    level_text="Lean theorems, for streams of any length: every single-input node maps monotone watermarks to monotone watermarks and "
               "a stream without late records to one without (filter, map, distinct, unnest, limit, lookup join, both group-bys, "
               "ORDER BY, event-time buffer); buffer_spec: the bucket/btree model of RecordEventTimeBuffer+EventTimeBuffer equals, "
               "message for message, the naive specification (zero-time records at once; at a watermark w all pending records with "
               "event time <= w in (event time, arrival) order, then w; the rest at end of stream), whose release order is proved "
               "sorted, stable and complete. The full statement is refuted by two closed witnesses (lookup join forwards the joined "
               "side's watermarks; the end-of-stream flush of CustomTriggerGroupBy keyed by event time emits late rows), both reproduced "
               "on the real nodes and recorded as known findings; C18_partial proves it under exactly the two excluding hypotheses.",
    level_note="Trusted: Lean kernel; axioms propext, Classical.choice, Quot.sound; the correspondence harness; Go runtime; btree library. "
               "Partial: single-input nodes only (joins: C19; table-valued functions: C20/C21).",
    technique="Lean 4 proof (bucket model = naive stable-sort specification; sublist / rewrite lemmas) + model/implementation correspondence",
    design_ref="DESIGN.md §3 C18",
)
