"""C04 — Query optimization never changes results."""


def _nontrivial(op, out):
    # plan / raw ops: the optimizer changed the plan; optq ops: the run without optimization returned at least one row
    t = op.split(" ", 1)[0]
    if t in ("plan", "raw"):
        i = op.find("@P0 ")
        return out != (op[i + 4:] if i >= 0 else op[4:]) and not out.startswith(("replan", "panic", "undumpable"))
    return out.startswith("A rows ") and not out.startswith("A rows 0")


PROP = dict(
    lean_modules=["Octo.Props.C04"],
    gen=["optrules"],
    required_theorems=["Octo.C04.all_rules_modelled", "Octo.C04.mergeFilters_sound", "Octo.C04.pushIntoStreamJoinBranch_sound",
                       "Octo.C04.pushIntoStreamJoinKey_sound", "Octo.C04.pushIntoLookupJoinBranch_sound",
                       "Octo.C04.pushToDatasource_sound", "Octo.C04.removeUnusedMapFields_sound",
                       "Octo.C04.removeUnusedDatasourceFields_sound", "Octo.C04.removeUnusedGroupByNonKeyFields_sound",
                       "Octo.C04.optimize_sound",
                       "Octo.C04.removeField_simulation", "Octo.C04.removal_passes_eq", "Octo.C04.optimizeWith_sound",
                       "Octo.C04.optimize_filter_rules_sound", "Octo.C04.C04_refuted", "Octo.C04.C04_partial"],
    needs_binary=True,
    nontrivial=_nontrivial,
    rule="three op kinds. `plan`: a generated query (harness/sqlgen_join.go: 1-3 CSV/JSON tables with NULLs and duplicates; "
         "stream / lookup / comma / outer joins with 1-2 equality keys and extra conjuncts over one side, both sides or none; "
         "group-by above joins; nested subqueries with unused columns, DISTINCT, ORDER BY / LIMIT; unnest; table valued "
         "functions; plus 28 fixed templates per round for every rule and every known defect) is planned by the REAL "
         "parser + typechecker, the physical plan is dumped, optimizer.Optimize is run and dumped again; the Lean optimizer "
         "applied to the first dump must print the second. `raw`: the same on directly generated plans whose datasources "
         "accept `col = const` predicates. `optq`: the real binary with --optimize=false and with the default on the same "
         "query and tables, both row bags printed (sorted); the Lean `denote` of the plan and of the Lean-optimized plan must "
         "print the same, and the oracle demands the two bags be equal. non-trivial = the optimizer changed the plan / the "
         "query returned rows",
    exhaustive=dict(quick=False, thorough=False),
    assumptions=["WellFormed (Good db p []): unique field names per schema, declared schemas of filters/joins/pass-through nodes agree with "
                 "their inputs, every expression refers to fields of its input or of an enclosing lookup-join record and cannot fail "
                 "(hereditarily), `=` has two arguments, datasources deliver their declared fields, the right side of a lookup join cannot fail",
                 "Prunable (removal rules and the whole optimizer): no field of a Map node / datasource and no aggregate of a group-by "
                 "reaches an ORDER BY / LIMIT node, an outer join, a table-valued-function schema, a group-by key or the source side of "
                 "a lookup join; no two kinds of node declare the same name; group-by nodes cannot fail (count/min/max over safe expressions do not)",
                 "termination of Optimize is not proved (the model bounds the number of passes; the driver reports `fuel` if 64 passes do not suffice)",
                 "QueryExpression (subquery in expression position) is outside the model: the plan dumper fails closed and the generator does not produce it",
                 "a datasource applies the predicates it accepted (contract of DatasourceImplementation.Materialize; C26)"],
    trusted=["Go compiler and runtime", "the plan dumper (harness/c04_plan.go) and the output parsers of harness/cli.go",
             "encoding/csv, fastjson (input parsing), number rendering of the output formatters"],
    level_text="Lean theorems, for every plan, database and bound on the optimizer passes: each of the eight rewrite rules preserves the bag of "
               "result records and well-formedness (the five filter-moving rules on every well-formed plan; the three removal rules on plans "
               "whose fields are removable: two-pass removal = one-pass erasure, erasing an unused field commutes with every operator), and "
               "optimizer.Optimize itself — the rule list the translator reads from optimizer/optimize.go, to its fixpoint — preserves the "
               "result of every well-formed prunable plan (optimize_sound). The full statement is refuted in Lean by the ORDER BY…LIMIT "
               "tie-break witness (known finding). The model is tied to the code by (a) the regenerated rule list, (b) an exact structural "
               "correspondence optimizer.Optimize vs the Lean optimizer on plans typechecked by the real planner, (c) the real binary with "
               "and without --optimize vs the Lean plan semantics, with the bag-equality oracle on the binary's outputs.",
    level_note="Partial: the removal rules and optimize_sound need Prunable (excludes fields that reach ORDER BY/LIMIT nodes — where the property is "
               "false —, outer joins, lookup-join sources); termination unproved; hypotheses WellFormed (scoping + totality of expressions). Trusted: Lean kernel, axioms propext/Classical.choice/Quot.sound, "
               "the harness (generator, dumper, output parsers), Go runtime.",
    technique="Lean 4 proof (compositional plan semantics, local-rewrite soundness lifted through TransformNode and the fixpoint) + "
              "structural and behavioural correspondence",
    design_ref="DESIGN.md §3 C04",
)
