"""C04 — Query optimization never changes results."""


def _nontrivial(op, out):
    # the optimizer changed the plan (plan/raw ops) / both runs returned at least one row (optq ops)
    t = op.split(" ", 1)[0]
    if t in ("plan", "raw"):
        i = op.find("@P0 ")
        return out != (op[i + 4:] if i >= 0 else op[4:])
    return out.startswith("A rows ") and not out.startswith("A rows 0")


PROP = dict(
    lean_modules=["Octo.Props.C04"],
    gen=["optrules"],
    required_theorems=[],
    needs_binary=True,
    nontrivial=_nontrivial,
    rule="wip",
    exhaustive=dict(quick=False, thorough=False),
    assumptions=[],
    trusted=["Go compiler and runtime"],
    level_text="wip",
    level_note="wip",
    technique="Lean 4 proof + plan-level and CLI-level correspondence",
    design_ref="DESIGN.md §3 C04",
)
