"""C15 — operators keep a valid changelog and compute incrementally what batch computes."""


def _nontrivial(op, out):
    # the source delivers at least one retraction and the node ran to completion on it
    src = op.rsplit("|", 1)[-1]
    return " - " in src and out.startswith("ok")


PROP = dict(
    lean_modules=["Octo.Props.C15"],
    required_theorems=[
        "Octo.C15.filter_valid_out", "Octo.C15.filter_net_commutes", "Octo.C15.map_valid_out", "Octo.C15.map_net_commutes",
        "Octo.C15.distinct_valid_out", "Octo.C15.distinct_net_commutes", "Octo.C15.lookup_valid_out",
        "Octo.C15.lookup_net_commutes", "Octo.C15.sgroup_valid_out", "Octo.C15.sgroup_net_commutes",
        "Octo.C15.unnest_valid_out", "Octo.C15.unnest_net_commutes", "Octo.C15.limit_valid_out", "Octo.C15.order_spec",
        "Octo.C15.order_net_commutes", "Octo.C15.order_valid_out", "Octo.C15.printer_panics_iff_invalid",
        "Octo.C15.printer_spec", "Octo.C15.etb_net_commutes", "Octo.C15.etb_valid_out", "Octo.C15.ctgb_spec",
        "Octo.C15.lookup_refuted", "Octo.C15.etb_refuted", "Octo.C15.C15_refuted", "Octo.C15.C15_partial",
    ],
    nontrivial=_nontrivial,
    rule="one op line = one real execution node (Filter, Map, Distinct, Unnest, Limit, EventTimeBuffer, SimpleGroupBy, "
         "CustomTriggerGroupBy with the end-of-stream trigger, LookupJoin, OrderSensitiveTransform, batch OutputPrinter) or a "
         "2-3 node pipeline over a scripted source: a generated VALID changelog (random interleaving of inserts and retractions "
         "of a generated multiset over small domains with Compare-equal-but-different representatives: +0/-0, NaNs, same instant "
         "in two locations; watermarks; zero / row-determined / arbitrary event times; 1/12 with an injected source error; some "
         "with failing expressions); the EXACT emitted message sequence is compared with the Lean model, and the Lean oracle "
         "(valid_out, net_commutes against the batch operator on the consolidated input, sortedness, the printer's panic iff "
         "invalid) is evaluated on the implementation's output. non-trivial = the source carries a retraction and the node ran "
         "to completion",
    exhaustive=dict(quick=False, thorough=False),
    assumptions=[
        "rows of one stream have the same width; expressions are row-congruent (Compare-equal rows give Compare-equal results): "
        "true for the Variable/Constant/=/</+/AND/OR expressions the harness materialises",
        "aggregates enter the group-by theorems through the C14 contract GAggOK (shown satisfiable by COUNT(*)); the harness runs "
        "the real count / sum(Int) / max",
        "hash map and btree libraries behave as maps given the C09 order/hash laws; SimpleGroupBy's flush order (hash-map "
        "iteration) is canonicalised by sorting that batch on both sides",
        "event times lie in the Int64 nanosecond range (InRange)",
        "ORDER BY ... LIMIT with noRetractionsPossible (the DeleteMax pruning) is covered by the correspondence run and the "
        "oracle only, not by a theorem",
        "stream join and outer join are checked by C19/C02, not here",
    ],
    trusted=["Go compiler and runtime", "github.com/zyedidia/generic/hashmap, github.com/google/btree (modelled as association list / sorted list)"],
    level_text="Lean theorems for every single-input operator and changelogs of any length: the output never retracts an absent "
               "row (valid_out) and its consolidation equals the batch operator applied to the consolidated input (net_commutes): "
               "filter, map (image multiset), distinct (indicator), unnest, group by with abstract aggregates under the C14 contract "
               "(SimpleGroupBy and CustomTriggerGroupBy/end-of-stream), lookup join, ORDER BY and the batch printer (sorted list with "
               "the input's multiplicities; the printer panics iff the changelog is invalid), limit, event-time buffer. The "
               "full-strength statement is refuted by two closed witnesses (C15_refuted; both reproduced on the real nodes and "
               "recorded as known findings) and proved with exactly the two hypotheses that exclude them (C15_partial). The models are "
               "tied to execution/nodes/*.go and outputs/batch/live_output.go by an exact message-sequence differential run.",
    level_note="Trusted: Lean kernel; axioms propext, Classical.choice, Quot.sound; the correspondence harness; Go runtime; hashmap/btree "
               "libraries. Expressions and aggregates enter the theorems as row-congruent functions / the C14 contract. Partial: the "
               "lookup join needs an addition-only joined side, the event-time buffer needs event time to be a function of the row.",
    technique="Lean 4 proof (pushforward lemma on signed multiplicities, state invariants by induction over the changelog) + "
              "model/implementation correspondence",
    design_ref="DESIGN.md §3 C15",
)
