"""C15 — operators keep a valid changelog and compute incrementally what batch computes."""


def _nontrivial(op, out):
    # a line whose source delivers at least one retraction and whose node ran to completion
    return " - " in op.split("|", 1)[-1] and out.startswith("ok")


PROP = dict(
    lean_modules=["Octo.Props.C15"],
    required_theorems=[],
    nontrivial=_nontrivial,
    rule="WIP",
    exhaustive=dict(quick=False, thorough=False),
    assumptions=[],
    trusted=["Go compiler and runtime"],
    level_text="WIP",
    level_note="WIP",
    technique="Lean 4 proof (induction over changelogs with state invariants) + model/implementation correspondence",
    design_ref="DESIGN.md §3 C15",
)
