"""Per-property configuration of bin/check: one fragment per property in checks/props/Cnn.py (PROP = dict(...))."""
import os, importlib.util

PROPS = {}
_d = os.path.join(os.path.dirname(os.path.abspath(__file__)), "props")
for _fn in sorted(os.listdir(_d)):
    if _fn.endswith(".py") and _fn[0] == "C":
        _spec = importlib.util.spec_from_file_location("prop_" + _fn[:-3], os.path.join(_d, _fn))
        _m = importlib.util.module_from_spec(_spec)
        _spec.loader.exec_module(_m)
        PROPS[_fn[:-3]] = _m.PROP
